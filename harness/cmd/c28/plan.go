package main

import (
	"fmt"
	"time"

	"github.com/ethereum/go-ethereum/common"
	"github.com/ethereum/go-ethereum/core/vm"
	me "verif/harness/minievm"
	tl "verif/harness/tracelib"
)

// step is one action of an EVMPool behaviour.
type step struct {
	E int    `json:"e"`
	A string `json:"a"`
	X any    `json:"x"`
}

const memUnit = 6144 // bytes per model memory word: 1,2 units are pooled (<= 16 KiB), 3 are not

// helper contracts
const (
	addrJumpC1  = 0x4001
	addrJumpC2  = 0x4002
	addrInitI1  = 0x4003
	addrInitI2  = 0x4004
	addrPreBase = 0x4010
)

var (
	codeValidJump   = []byte{0x60, 0x04, 0x56, 0xfe, 0x5b, 0x00} // PUSH1 4 JUMP INVALID JUMPDEST STOP
	codeInvalidJump = []byte{0x60, 0x04, 0x56, 0x60, 0x5b, 0x00} // PUSH1 4 JUMP PUSH1 0x5b STOP: byte 4 is push data
)

func creatorCode(init []byte) []byte {
	a := me.NewAsm()
	a.PushBytes(init).Push(0).Op(me.MSTORE)
	a.Push(uint64(len(init))).Push(uint64(32 - len(init))).Push(0).Op(me.CREATE)
	a.Push(1).Op(me.SSTORE, me.STOP)
	return a.Bytes()
}

var preInputs = []string{"a/x", "a/y", "b/x", "bad/x"}

func preHelperCode(inp string) []byte {
	// ecAdd (0x06): x1 y1 x2 y2; (1,2) is the generator, (0,0) infinity, (1,1) not on the curve
	pts := map[string][4]uint64{"a": {1, 2, 1, 2}, "b": {1, 2, 0, 0}, "bad": {1, 1, 1, 2}}
	norm, extra := inp[:len(inp)-2], inp[len(inp)-1:]
	a := me.NewAsm()
	for i, v := range pts[norm] {
		a.Push(v).Push(uint64(32 * i)).Op(me.MSTORE)
	}
	inLen := uint64(128)
	if extra == "y" {
		a.Push(0xdeadbeef).Push(128).Op(me.MSTORE) // bytes the precompile never reads
		inLen = 160
	}
	a.Push(64).Push(0x100).Push(inLen).Push(0).Push(6).Push(3000).Op(me.STATICCALL)
	a.Push(1).Op(me.ADD).Push(2).Op(me.SSTORE)
	a.Push(64).Push(0x100).Op(me.KECCAK256).Push(1).Op(me.SSTORE, me.STOP)
	return a.Bytes()
}

type frameB struct {
	addr uint64
	asm  *me.Asm
}

type session struct {
	e      int
	idx    int
	frames []*frameB // all frames (contracts) of the session
	stack  []*frameB // currently open frames
	steps  int
	sc     *me.Scenario
	ref    obs
	got    obs
	done   bool
}

func pattern(e, k int) []byte {
	b := make([]byte, 32)
	for i := range b {
		b[i] = 0xee
	}
	b[0], b[1], b[30], b[31] = byte(0xa0+e), byte(k), byte(k>>8), byte(k)
	return b
}

func accumulate(a *me.Asm, slot uint64) {
	a.Push(slot).Op(me.SLOAD).Push(3).Op(me.MUL, me.ADD).Push(slot).Op(me.SSTORE)
}

func callHelper(a *me.Asm, addr uint64, gas uint64) {
	a.Push(0).Push(0).Push(0).Push(0).Push(0).Push(addr).Push(gas).Op(me.CALL)
	accumulate(a, 11)
}

// compile turns one behaviour into per-EVM sessions (programs) and the schedule over them.
type sched struct {
	e    int
	kind string // "new" | "release" | "start" | "go"
	s    *session
}

func compile(beh []step, fork string) ([]*session, []sched) {
	type evmSt struct {
		alive bool
		cur   *session
	}
	st := map[int]*evmSt{}
	var sessions []*session
	var plan []sched
	nextAddr := uint64(0x5000)
	newFrame := func(s *session) *frameB {
		f := &frameB{addr: nextAddr, asm: me.NewAsm()}
		nextAddr++
		s.frames = append(s.frames, f)
		s.stack = append(s.stack, f)
		return f
	}
	closeFrame := func(s *session, k int) {
		f := s.stack[len(s.stack)-1]
		f.asm.Op(me.JUMPDEST)
		switch k % 3 {
		case 0:
			f.asm.Op(me.STOP)
		case 1:
			f.asm.Op(me.INVALID) // fault with whatever is on the stack
		default:
			f.asm.Push(0).Push(0).Op(me.REVERT)
		}
		s.stack = s.stack[:len(s.stack)-1]
	}
	for k, sp := range beh {
		es := st[sp.E]
		if es == nil {
			es = &evmSt{}
			st[sp.E] = es
		}
		switch sp.A {
		case "new":
			es.alive = true
			plan = append(plan, sched{sp.E, "new", nil})
			continue
		case "release":
			es.alive = false
			plan = append(plan, sched{sp.E, "release", nil})
			continue
		}
		if sp.A == "enter" && es.cur == nil {
			s := &session{e: sp.E, idx: len(sessions)}
			sessions = append(sessions, s)
			es.cur = s
			newFrame(s)
			plan = append(plan, sched{sp.E, "start", s})
			continue
		}
		s := es.cur
		if s == nil {
			continue
		}
		f := s.stack[len(s.stack)-1]
		a := f.asm
		plan = append(plan, sched{sp.E, "go", s})
		s.steps++
		switch sp.A {
		case "enter":
			a.Op(me.JUMPDEST)
			child := nextAddr
			a.Push(0).Push(0).Push(0).Push(0).Push(0).Push(child).Push(1_000_000).Op(me.CALL)
			accumulate(a, 12)
			newFrame(s)
		case "push":
			a.Op(me.JUMPDEST).PushBytes(pattern(sp.E, k))
		case "pop":
			a.Op(me.JUMPDEST).Push(9).Op(me.SLOAD, me.XOR).Push(9).Op(me.SSTORE)
		case "grow":
			n := uint64(sp.X.(float64))
			a.Op(me.JUMPDEST).Push(n*memUnit).Push(0).Op(me.KECCAK256).Push(10).Op(me.SLOAD, me.XOR).Push(10).Op(me.SSTORE)
		case "write":
			i := uint64(sp.X.(float64))
			a.Op(me.JUMPDEST).PushBytes(pattern(sp.E, k)).Push((i-1)*memUnit + 64).Op(me.MSTORE)
			a.PushBytes(pattern(sp.E, k+1)).Push(i*memUnit - 32).Op(me.MSTORE)
		case "jump":
			a.Op(me.JUMPDEST)
			callHelper(a, map[string]uint64{"c1": addrJumpC1, "c2": addrJumpC2, "i1": addrInitI1, "i2": addrInitI2}[sp.X.(string)], 200_000)
		case "pre":
			x := sp.X.([]any)
			name := x[0].(string) + "/" + x[1].(string)
			idx := 0
			for i, p := range preInputs {
				if p == name {
					idx = i
				}
			}
			a.Op(me.JUMPDEST)
			callHelper(a, addrPreBase+uint64(idx), 200_000)
		case "exit":
			closeFrame(s, k)
			if len(s.stack) == 0 {
				es.cur = nil
			}
		}
	}
	// close whatever the behaviour left open
	for _, s := range sessions {
		for len(s.stack) > 0 {
			closeFrame(s, 0)
			plan = append(plan, sched{s.e, "go", s})
			s.steps++
		}
	}
	for _, s := range sessions {
		w := &me.World{}
		for _, f := range s.frames {
			w.Add(&me.Account{Addr: f.addr, Nonce: 1, Balance: 10, Code: f.asm.Bytes()})
		}
		w.Add(&me.Account{Addr: addrJumpC1, Nonce: 1, Code: codeValidJump})
		w.Add(&me.Account{Addr: addrJumpC2, Nonce: 1, Code: codeInvalidJump})
		w.Add(&me.Account{Addr: addrInitI1, Nonce: 1, Code: creatorCode(codeValidJump)})
		w.Add(&me.Account{Addr: addrInitI2, Nonce: 1, Code: creatorCode(codeInvalidJump)})
		for i, p := range preInputs {
			w.Add(&me.Account{Addr: addrPreBase + uint64(i), Nonce: 1, Code: preHelperCode(p)})
		}
		w.Add(&me.Account{Addr: me.AddrSender, Balance: 900_000_000})
		tx := &me.Tx{Fork: fork, From: me.AddrSender, To: int64(s.frames[0].addr), Gas: 4_000_000, Price: 1, FeeCap: 1, Tip: 1, BaseFee: 0,
			Coinbase: me.AddrCoinbase, BlockGas: 30_000_000}
		s.sc = &me.Scenario{W: w, Tx: tx, Kind: "plan"}
	}
	return sessions, plan
}

const gateTimeout = 600 * time.Second

func runPlan(in string, sum *tl.Summary) {
	var behs [][]step
	tl.ReadJSON(in, &behs)
	sh := newShared()
	seen := map[string]bool{}
	for bi, beh := range behs {
		fork := me.Forks[(bi+int(sum.Seed))%3]
		sessions, plan := compile(beh, fork)
		if len(sessions) == 0 {
			continue
		}
		for _, s := range sessions {
			s.ref = reference(s.sc)
		}
		// execute the schedule: one goroutine per session, gated at every model action
		insts := map[int]*vm.EVM{}
		type chans struct {
			arrive chan bool // true: at a marker, false: finished
			goOn   chan struct{}
		}
		ch := map[*session]*chans{}
		wait := func(s *session) bool {
			select {
			case at := <-ch[s].arrive:
				return at
			case <-time.After(gateTimeout):
				tl.Fatal("schedule gate timed out (behaviour %d, evm %d)", bi, s.e)
			}
			return false
		}
		for _, p := range plan {
			switch p.kind {
			case "new":
				insts[p.e] = me.NewEVMFor(fork)
				sum.Count("new")
			case "release":
				if insts[p.e] != nil {
					insts[p.e].Release()
					insts[p.e] = nil
				}
				sum.Count("release")
			case "start":
				s := p.s
				c := &chans{make(chan bool), make(chan struct{})}
				ch[s] = c
				mine := map[common.Address]bool{}
				for _, f := range s.frames {
					mine[me.Addr(f.addr)] = true
				}
				inst := insts[p.e]
				go func() {
					res := me.ExecuteWith(s.sc.W, s.sc.Tx, nil, &me.ExecOpts{EVM: inst, JumpCache: sh.jump, PreCache: sh.pre,
						Gate: func(t *me.Tracer, op byte, addr common.Address) {
							if op == me.JUMPDEST && mine[addr] {
								c.arrive <- true
								<-c.goOn
							}
						}})
					s.got = observe(s.sc, res)
					s.done = true
					c.arrive <- false
				}()
				if !wait(s) {
					sum.Count("session-ended-early")
				}
				sum.Count("session")
			case "go":
				s := p.s
				if s.done {
					continue
				}
				ch[s].goOn <- struct{}{}
				wait(s)
				sum.Steps++
			}
		}
		for _, s := range sessions {
			if !s.done {
				// drain: let it run to the end
				for !s.done {
					ch[s].goOn <- struct{}{}
					wait(s)
				}
			}
			sum.Evaluations++
			key := fmt.Sprint(s.ref.Digest)
			if !seen[key] {
				seen[key] = true
				sum.Distinct++
			}
			if d := differs(s.ref, s.got); d != "" {
				sum.Violate(fmt.Sprintf("behaviour %d, EVM %d session %d: %s differs between pristine resources and the scheduled run (shared pools/caches)", bi, s.e, s.idx, d),
					tl.M{"behaviour": beh, "session": s.idx, "pristine": s.ref, "scheduled": s.got, "fork": fork})
			}
			if !s.ref.Valid {
				sum.Count("invalid-session")
			}
		}
		for _, inst := range insts {
			if inst != nil {
				inst.Release()
			}
		}
		if bi < 2 {
			sum.Sample(tl.M{"behaviour": beh[:min(len(beh), 12)], "sessions": len(sessions)})
		}
		sum.Traces++
	}
	sum.Rule = "every TLC behaviour of MCEVMPool compiled to bytecode and run on real EVM instances (one goroutine per session, gated at every model action, shared jumpdest/precompile caches and pools); distinct = distinct session programs (by pristine trace digest)"
}
