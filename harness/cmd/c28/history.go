package main

import (
	"fmt"
	"math/rand"
	"sync"

	"github.com/ethereum/go-ethereum/core/vm"
	me "verif/harness/minievm"
	tl "verif/harness/tracelib"
)

// ---------------------------------------------------------------- pool-dirtying programs

func dirtyStackCode(k int, fault bool) []byte {
	a := me.NewAsm()
	ff := make([]byte, 32)
	for i := range ff {
		ff[i] = 0xff
	}
	// loop k times pushing 0xff..ff (the counter stays on top)
	top := a.NewLabel()
	a.Push(uint64(k))
	a.Label(top)
	a.PushBytes(ff).Op(me.SWAP1)
	a.Push(1).Op(me.SWAP1, me.SUB, me.DUP1).PushLabel(top).Op(me.JUMPI)
	if fault {
		a.Op(me.INVALID)
	} else {
		a.Op(me.STOP)
	}
	return a.Bytes()
}

func dirtyMemCode(size int) []byte {
	a := me.NewAsm()
	ff := make([]byte, 32)
	for i := range ff {
		ff[i] = 0xff
	}
	top := a.NewLabel()
	a.Push(uint64(size))
	a.Label(top)                    // stack: off
	a.Push(32).Op(me.SWAP1, me.SUB) // off -= 32
	a.PushBytes(ff).Op(me.DUP1+1, me.MSTORE)
	a.Op(me.DUP1).PushLabel(top).Op(me.JUMPI)
	a.Op(me.STOP)
	return a.Bytes()
}

// recursive: dirty stack then call self until depth d (uses calldata word 0 as counter)
func recurseCode() []byte {
	a := me.NewAsm()
	ff := make([]byte, 32)
	for i := range ff {
		ff[i] = 0xdd
	}
	for i := 0; i < 40; i++ {
		a.PushBytes(ff)
	}
	end := a.NewLabel()
	a.Push(0).Op(me.CALLDATALOAD, me.DUP1, me.ISZERO).PushLabel(end).Op(me.JUMPI)
	a.Push(1).Op(me.SWAP1, me.SUB).Push(0).Op(me.MSTORE)
	a.Push(0).Push(0).Push(32).Push(0).Push(0).Op(me.ADDRESS, me.GAS, me.CALL)
	a.Op(me.INVALID) // fault mid-stack after the child returned
	a.Label(end)
	a.Op(me.INVALID)
	return a.Bytes()
}

func dirtyScenario(kind int, fork string) (*me.Scenario, []byte) {
	var code, data []byte
	switch kind % 6 {
	case 0:
		code = dirtyStackCode(900, true)
	case 1:
		code = dirtyStackCode(300, false)
	case 2:
		code = dirtyMemCode(4096)
	case 3:
		code = dirtyMemCode(15 * 1024)
	case 4:
		code = dirtyMemCode(40 * 1024)
	default:
		code = recurseCode()
		data = make([]byte, 32)
		data[31] = 30
	}
	w := &me.World{}
	w.Add(&me.Account{Addr: me.AddrC1, Nonce: 1, Code: code})
	w.Add(&me.Account{Addr: me.AddrSender, Balance: 900_000_000})
	tx := &me.Tx{Fork: fork, From: me.AddrSender, To: me.AddrC1, Gas: 4_000_000, Price: 1, FeeCap: 1, Tip: 1, Coinbase: me.AddrCoinbase, BlockGas: 30_000_000}
	return &me.Scenario{W: w, Tx: tx, Data: data, Kind: "dirty"}, data
}

// unwrittenMemoryProbe returns a program whose result is the OR of many reads of memory it
// never wrote (must be zero), stored to slot 0 together with MSIZE.
func unwrittenMemoryProbe(r *rand.Rand) []byte {
	a := me.NewAsm()
	a.Push(0)
	n := 3 + r.Intn(12)
	for i := 0; i < n; i++ {
		off := uint64(r.Intn(14 * 1024))
		a.Push(off).Op(me.MLOAD, me.OR)
	}
	a.Push(0).Op(me.SSTORE)
	a.Op(me.MSIZE).Push(1).Op(me.SSTORE)
	// hash of the whole memory: any non-zero byte changes it
	a.Op(me.MSIZE).Push(0).Op(me.KECCAK256).Push(2).Op(me.SSTORE, me.STOP)
	return a.Bytes()
}

func runHistory(seed int64, n, par int, sum *tl.Summary) {
	r := tl.Rand(seed)
	sh := newShared()
	insts := map[string]*vm.EVM{}
	defer func() {
		for _, e := range insts {
			e.Release()
		}
	}()
	seen := map[uint64]bool{}
	check := func(ctxName string, sc *me.Scenario, ref obs, got obs, i int) {
		sum.Evaluations++
		sum.Count("ctx-" + ctxName)
		if d := differs(ref, got); d != "" {
			sum.Violate(fmt.Sprintf("case %d (%s, %s): %s differs between pristine resources and context %q", i, sc.Kind, sc.Tx.Fork, d, ctxName),
				tl.M{"case": i, "seed": seed, "context": ctxName, "tx": sc.Tx, "accts": me.AcctsOf(sc.W), "pristine": ref, "got": got})
		}
	}
	for i := 0; i < n; i++ {
		sc := me.GenScenario(r)
		me.ChooseGas(r, sc)
		if i%7 == 3 && sc.Kind == "call" {
			// the zero-memory probe as the called contract
			sc.W.Get(me.AddrC1).Code = unwrittenMemoryProbe(r)
			sc.Tx.Gas = 3_000_000
			sc.Kind = "memprobe"
		}
		ref := reference(sc)
		if !seen[ref.Digest] {
			seen[ref.Digest] = true
			sum.Distinct++
		}
		if sc.Kind == "memprobe" && ref.Ok {
			// unwritten memory reads as zero: slot 0 of the probe stays zero
			if v := me.ExecuteWith(sc.W, sc.Tx, sc.Data, &me.ExecOpts{}).St.GetState(me.Addr(me.AddrC1), me.U2H(0)); v.Big().Sign() != 0 {
				sum.Violate(fmt.Sprintf("case %d: unwritten memory read non-zero (%x)", i, v), tl.M{"case": i, "seed": seed})
			}
		}
		// (ii) after prior executions that fault mid-stack / grow and dirty memory / recurse
		nprior := 1 + r.Intn(4)
		for k := 0; k < nprior; k++ {
			d, data := dirtyScenario(r.Intn(6), sc.Tx.Fork)
			me.ExecuteWith(d.W, d.Tx, data, &me.ExecOpts{JumpCache: sh.jump, PreCache: sh.pre})
		}
		check("after-dirty", sc, ref, observe(sc, me.ExecuteWith(sc.W, sc.Tx, sc.Data, &me.ExecOpts{JumpCache: sh.jump, PreCache: sh.pre})), i)
		// warm caches: same message again with the shared caches now holding its entries
		check("warm-caches", sc, ref, observe(sc, me.ExecuteWith(sc.W, sc.Tx, sc.Data, &me.ExecOpts{JumpCache: sh.jump, PreCache: sh.pre})), i)
		// (iii) the same EVM instance (same arena, never released) after a faulting prior
		inst := insts[sc.Tx.Fork]
		if inst == nil {
			inst = me.NewEVMFor(sc.Tx.Fork)
			insts[sc.Tx.Fork] = inst
		}
		d, data := dirtyScenario(r.Intn(6), sc.Tx.Fork)
		me.ExecuteWith(d.W, d.Tx, data, &me.ExecOpts{EVM: inst, JumpCache: sh.jump, PreCache: sh.pre})
		check("reused-evm", sc, ref, observe(sc, me.ExecuteWith(sc.W, sc.Tx, sc.Data, &me.ExecOpts{EVM: inst, JumpCache: sh.jump, PreCache: sh.pre})), i)
		// (iv) concurrently in goroutines sharing pools and caches
		if i%4 == 0 && par > 1 {
			var wg sync.WaitGroup
			res := make([]obs, par)
			for g := 0; g < par; g++ {
				wg.Add(1)
				go func(g int) {
					defer wg.Done()
					if g%2 == 1 {
						d, data := dirtyScenario(g+i, sc.Tx.Fork)
						me.ExecuteWith(d.W, d.Tx, data, &me.ExecOpts{JumpCache: sh.jump, PreCache: sh.pre})
					}
					res[g] = observe(sc, me.ExecuteWith(sc.W, sc.Tx, sc.Data, &me.ExecOpts{JumpCache: sh.jump, PreCache: sh.pre}))
				}(g)
			}
			wg.Wait()
			for g := 0; g < par; g++ {
				check("concurrent", sc, ref, res[g], i)
			}
		}
		if i < 2 {
			sum.Sample(tl.M{"kind": sc.Kind, "fork": sc.Tx.Fork, "ops": ref.NOps, "ok": ref.Ok, "gasUsed": ref.GasUsed})
		}
		sum.Count("kind-" + sc.Kind)
		sum.Steps += ref.NOps
	}
	sum.Rule = "each generated transaction is executed on pristine resources (pools emptied, own caches) and again after pool-dirtying executions, with warm shared caches, on a reused EVM instance and concurrently in goroutines; distinct = distinct pristine opcode-trace digests"
}
