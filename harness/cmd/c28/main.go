// c28 binds spec/evm/EVMPool.tla to the real EVM (property C28: results are independent of
// pooling, caching and concurrency).
//
//	-mode plan   -in behaviours.json   TLC behaviours of EVMPool (schedules of several EVM
//	      instances at the granularity of arena / memory-pool / cache operations) are compiled
//	      to bytecode and executed on real EVMs in separate goroutines, gated at every model
//	      action so that the real interleaving is the TLC-chosen one; every session's result
//	      must equal its result on pristine resources (R)
//	-mode history -n N    generated programs executed fresh / after pool-dirtying prior
//	      executions / on a reused EVM instance / nested at depth d / concurrently in
//	      goroutines sharing caches: identical return data, gas, post-state, logs and opcode
//	      trace digest (R)
//	-mode record -trace t.ndjson -n N  transactions traced at opcode granularity while
//	      other goroutines dirty the pools; validated by MiniEVMTrace.tla (V)
package main

import (
	"flag"
	"fmt"
	"os"
	"runtime"
	"sort"
	"sync"
	"time"

	"github.com/ethereum/go-ethereum/common"
	"github.com/ethereum/go-ethereum/core"
	"github.com/ethereum/go-ethereum/core/vm"
	me "verif/harness/minievm"
	tl "verif/harness/tracelib"
)

// observation of one execution: everything C28 says must not depend on history
type obs struct {
	Valid   bool
	Ok      bool
	GasUsed uint64
	Ret     string
	Digest  uint64
	NOps    int
	Post    string
	Logs    string
}

func observe(sc *me.Scenario, res *me.Result) obs {
	o := obs{Valid: res.Valid, Ok: res.Ok, GasUsed: res.GasUsed, Ret: fmt.Sprintf("%x", res.Ret), Digest: res.Tr.Digest, NOps: res.Tr.NOps}
	if res.Valid {
		o.Post = dumpState(sc, res)
		for _, l := range res.St.Logs() {
			o.Logs += fmt.Sprintf("%x|%x|%x;", l.Address, l.Topics, l.Data)
		}
	}
	return o
}

// dumpState lists balance/nonce/code/storage of every account of the world plus the
// addresses and slots the (digest-only) tracer cannot give: all small slots 0..15.
func dumpState(sc *me.Scenario, res *me.Result) string {
	addrs := []common.Address{me.Addr(uint64(sc.Tx.Coinbase)), me.Addr(me.AddrEmpty)}
	for _, a := range sc.W.Accounts {
		addrs = append(addrs, me.Addr(a.Addr))
	}
	for _, a := range res.Tr.Created {
		addrs = append(addrs, a)
	}
	sort.Slice(addrs, func(i, j int) bool { return addrs[i].Cmp(addrs[j]) < 0 })
	s := ""
	for _, a := range addrs {
		s += fmt.Sprintf("%x:%v:%d:%x", a[12:], res.St.GetBalance(a), res.St.GetNonce(a), res.St.GetCodeHash(a))
		for k := uint64(0); k < 16; k++ {
			if v := res.St.GetState(a, me.U2H(k)); v != (common.Hash{}) {
				s += fmt.Sprintf(",%d=%x", k, v)
			}
		}
		s += ";"
	}
	return s
}

// pristine drops everything the process-wide pools hold (two GC cycles empty a sync.Pool).
func pristine() {
	runtime.GC()
	runtime.GC()
}

// shared caches of the process (as core.BlockChain shares them between processors)
type shared struct {
	jump vm.JumpDestCache
	pre  *vm.PrecompileCache
}

func newShared() *shared { return &shared{core.NewJumpDestCache(), vm.NewPrecompileCache()} }

// reference executes the scenario on pristine resources: empty pools, own caches, new EVM.
func reference(sc *me.Scenario) obs {
	pristine()
	return observe(sc, me.ExecuteWith(sc.W, sc.Tx, sc.Data, &me.ExecOpts{}))
}

func differs(a, b obs) string {
	switch {
	case a.Valid != b.Valid:
		return "validity"
	case a.Ok != b.Ok:
		return "status"
	case a.GasUsed != b.GasUsed:
		return "gas used"
	case a.Ret != b.Ret:
		return "return data"
	case a.Post != b.Post:
		return "post-state"
	case a.Logs != b.Logs:
		return "logs"
	case a.Digest != b.Digest || a.NOps != b.NOps:
		return "opcode trace"
	}
	return ""
}

func main() {
	mode := flag.String("mode", "history", "plan|history|record|interleave")
	in := flag.String("in", "", "behaviours (mode plan)")
	trace := flag.String("trace", "trace.ndjson", "output trace (mode record)")
	out := flag.String("out", "summary.json", "summary output")
	n := flag.Int("n", 100, "number of cases")
	par := flag.Int("par", 4, "goroutines in concurrent runs")
	flag.Parse()
	seed := int64(tl.EnvInt("VERIF_SEED", 1))
	sum := tl.NewSummary("c28", *mode, seed)
	switch *mode {
	case "plan":
		runPlan(*in, sum)
	case "history":
		runHistory(seed, *n, *par, sum)
	case "record":
		runRecord(*trace, seed, *n, *par, sum)
	case "interleave":
		runInterleave(seed, *n, max(2, min(*par, 3)), sum)
	default:
		tl.Fatal("bad mode")
	}
	sum.Write(*out)
	if len(sum.Violations) > 0 {
		os.Exit(1)
	}
	_ = sync.Mutex{}
	_ = time.Now
}
