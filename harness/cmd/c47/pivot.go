package main

import (
	"bytes"
	"crypto/ecdsa"
	"fmt"
	"math/big"
	"sort"
	"sync"
	"time"

	"github.com/ethereum/go-ethereum/common"
	"github.com/ethereum/go-ethereum/consensus/ethash"
	"github.com/ethereum/go-ethereum/core"
	"github.com/ethereum/go-ethereum/core/rawdb"
	"github.com/ethereum/go-ethereum/core/types"
	"github.com/ethereum/go-ethereum/crypto"
	"github.com/ethereum/go-ethereum/eth/protocols/snap"
	"github.com/ethereum/go-ethereum/ethdb"
	"github.com/ethereum/go-ethereum/log"
	"github.com/ethereum/go-ethereum/params"
	"github.com/ethereum/go-ethereum/rlp"
	"github.com/ethereum/go-ethereum/trie"
	tl "verif/harness/tracelib"
)

// Pivot runs (snap/1): the source chain has blocks that change the state (transfers to new and
// existing accounts, storage writes and deletions through a small contract).  The sync starts
// against an early header, is cancelled, and is resumed against a later header; the syncer
// fills the remaining ranges from the new root and heals the rest.  At the end the complete
// trie must be the state of the final pivot.  (The flat state is not compared here: snap/1 does
// not promise a consistent flat state after a pivot move, the snapshot is regenerated.)

// storeCode: SSTORE(calldata[0:32], calldata[32:64])
var storeCode = common.FromHex("602035600035550000")
var storeAddr = common.HexToAddress("0xc0de00000000000000000000000000000000c0de")

// viewAt builds the oracle view of the state at header by iterating the source chain's tries.
func viewAt(bc *core.BlockChain, db ethdb.Database, header *types.Header) *world {
	w := &world{byHash: map[common.Hash]*acct{}, codes: map[common.Hash][]byte{}, nodeSet: map[common.Hash]struct{}{}, chain: bc, header: header, root: header.Root}
	at, err := trie.New(trie.StateTrieID(header.Root), bc.TrieDB())
	if err != nil {
		tl.Fatal("open source state %x: %v", header.Root, err)
	}
	it := trie.NewIterator(at.MustNodeIterator(nil))
	for it.Next() {
		var sa types.StateAccount
		if err := rlp.DecodeBytes(it.Value, &sa); err != nil {
			tl.Fatal("decode source account: %v", err)
		}
		a := &acct{hash: common.BytesToHash(it.Key), full: common.CopyBytes(it.Value), slim: types.SlimAccountRLP(sa), stRoot: sa.Root, slotVal: map[common.Hash][]byte{}}
		if !bytes.Equal(sa.CodeHash, types.EmptyCodeHash[:]) {
			a.code = rawdb.ReadCode(db, common.BytesToHash(sa.CodeHash))
			w.codes[common.BytesToHash(sa.CodeHash)] = a.code
		}
		if sa.Root != types.EmptyRootHash {
			st, err := trie.New(trie.StorageTrieID(header.Root, a.hash, sa.Root), bc.TrieDB())
			if err != nil {
				tl.Fatal("open source storage: %v", err)
			}
			sit := trie.NewIterator(st.MustNodeIterator(nil))
			for sit.Next() {
				k := common.BytesToHash(sit.Key)
				a.slotKeys = append(a.slotKeys, k)
				a.slotVal[k] = common.CopyBytes(sit.Value)
			}
			if sit.Err != nil {
				tl.Fatal("iterate source storage: %v", sit.Err)
			}
		}
		w.accts = append(w.accts, a)
		w.byHash[a.hash] = a
	}
	if it.Err != nil {
		tl.Fatal("iterate source state: %v", it.Err)
	}
	sort.Slice(w.accts, func(x, y int) bool { return bytes.Compare(w.accts[x].hash[:], w.accts[y].hash[:]) < 0 })
	return w
}

// buildPivotWorlds creates a source chain with nblocks state-changing blocks and returns the
// views at two headers (early, late).
func buildPivotWorlds(seed int64, sp worldSpec, nblocks int) (early, late *world) {
	r := tl.Rand(seed)
	kb := make([]byte, 32)
	r.Read(kb)
	kb[0] = 1
	var key *ecdsa.PrivateKey
	key, err0 := crypto.ToECDSA(kb)
	if err0 != nil {
		tl.Fatal("key: %v", err0)
	}
	from := crypto.PubkeyToAddress(key.PublicKey)
	alloc := types.GenesisAlloc{from: {Balance: new(big.Int).Lsh(big.NewInt(1), 100)}}
	var addrs []common.Address
	for i := 0; i < sp.naccts; i++ {
		var a common.Address
		r.Read(a[:])
		acc := types.Account{Balance: big.NewInt(int64(r.Intn(1 << 30))), Nonce: uint64(r.Intn(5))}
		if r.Intn(3) == 0 {
			acc.Code = make([]byte, 1+r.Intn(sp.maxCode))
			r.Read(acc.Code)
			acc.Code[0] = 0x60
		}
		if i < len(sp.storages) && sp.storages[i] > 0 {
			acc.Storage = map[common.Hash]common.Hash{}
			for j := 0; j < sp.storages[i]; j++ {
				var k, v common.Hash
				r.Read(k[:])
				r.Read(v[r.Intn(31):])
				v[31] |= 1
				acc.Storage[k] = v
			}
		}
		alloc[a] = acc
		addrs = append(addrs, a)
	}
	// the storage-writing contract, with some slots to delete later
	var storeKeys []common.Hash
	st := map[common.Hash]common.Hash{}
	for j := 0; j < 40+r.Intn(100); j++ {
		var k, v common.Hash
		r.Read(k[:])
		r.Read(v[r.Intn(31):])
		v[31] |= 1
		st[k] = v
		storeKeys = append(storeKeys, k)
	}
	alloc[storeAddr] = types.Account{Balance: big.NewInt(1), Code: storeCode, Storage: st}
	gspec := &core.Genesis{Config: params.TestChainConfig, Alloc: alloc, BaseFee: big.NewInt(params.InitialBaseFee), GasLimit: 30_000_000}
	signer := types.LatestSigner(gspec.Config)
	_, blocks, _ := core.GenerateChainWithGenesis(gspec, ethash.NewFaker(), nblocks, func(i int, gen *core.BlockGen) {
		gasPrice := new(big.Int).Add(gen.BaseFee(), big.NewInt(1))
		for k := 0; k < 3+r.Intn(12); k++ {
			nonce := gen.TxNonce(from)
			var tx *types.Transaction
			switch c := r.Intn(10); {
			case c < 3: // new account
				var to common.Address
				r.Read(to[:])
				tx = types.NewTransaction(nonce, to, big.NewInt(int64(1+r.Intn(1000))), 21000, gasPrice, nil)
			case c < 5: // existing account changes balance
				tx = types.NewTransaction(nonce, addrs[r.Intn(len(addrs))], big.NewInt(int64(1+r.Intn(1000))), 21000, gasPrice, nil)
			default: // storage write / overwrite / delete
				var k32, v32 common.Hash
				switch r.Intn(3) {
				case 0:
					r.Read(k32[:])
					r.Read(v32[r.Intn(31):])
					v32[31] |= 1
				case 1:
					k32 = storeKeys[r.Intn(len(storeKeys))]
					r.Read(v32[r.Intn(31):])
					v32[31] |= 1
				default:
					k32 = storeKeys[r.Intn(len(storeKeys))] // value zero: delete
				}
				tx = types.NewTransaction(nonce, storeAddr, big.NewInt(0), 100000, gasPrice, append(k32[:], v32[:]...))
			}
			signed, err := types.SignTx(tx, signer, key)
			if err != nil {
				tl.Fatal("sign: %v", err)
			}
			gen.AddTx(signed)
		}
	})
	db := rawdb.NewMemoryDatabase()
	bc, err := core.NewBlockChain(db, gspec, ethash.NewFaker(), core.DefaultConfig().WithStateScheme(rawdb.HashScheme))
	if err != nil {
		tl.Fatal("source chain: %v", err)
	}
	if _, err := bc.InsertChain(blocks); err != nil {
		tl.Fatal("insert source blocks: %v", err)
	}
	e := r.Intn(nblocks / 2)
	early = viewAt(bc, db, bc.GetHeaderByNumber(uint64(e)))
	late = viewAt(bc, db, bc.CurrentBlock())
	if early.root == late.root {
		tl.Fatal("pivot states are identical")
	}
	return early, late
}

// pivotRun syncs snap/1 against `early`, cancels, and resumes against `late`.
func pivotRun(x *run, early, late *world, scheme string, seed int64) {
	r := x.r
	x.w, x.old, x.pivot = late, early, true
	names := []string{"honest", "capped", "flaky", "liar", "refuser", "chaotic", "truncliar"}
	npeers := 2 + r.Intn(3)
	var plan []string
	for i := 0; i < npeers; i++ {
		plan = append(plan, names[r.Intn(len(names))])
	}
	plan[r.Intn(npeers)] = []string{"honest", "capped"}[r.Intn(2)]
	x.desc = tl.M{"seed": seed, "version": 1, "scheme": scheme, "peers": plan, "pivot": fmt.Sprintf("%d -> %d", early.header.Number, late.header.Number),
		"accounts": fmt.Sprintf("%d -> %d", len(early.accts), len(late.accts))}
	inner := rawdb.NewMemoryDatabase()
	db := &obsDB{Database: inner, x: x}
	target := early
	for cycle := 0; ; cycle++ {
		s := snap.NewV1Syncer(db, scheme)
		snap.VerifSetTTLLimit(s, x.ttl)
		for i, prof := range plan {
			s.Register(&hpeer{id: fmt.Sprintf("p%d-%s", i, prof), x: x, remote: s, profile: profiles[prof], logger: log.New("peer", i)})
		}
		cancel := make(chan struct{})
		var once sync.Once
		x.mu.Lock()
		x.served, x.cutAt = 0, 0
		if target == early {
			x.cutAt = 3 + r.Intn(60)
		} else if cycle < 3 && r.Intn(2) == 0 {
			x.cutAt = 5 + r.Intn(100) // a restart after the pivot move
		}
		x.cancel = func() { once.Do(func() { close(cancel) }) }
		x.mu.Unlock()
		done := make(chan error, 1)
		go func() { done <- s.Sync(target.header, cancel) }()
		var err error
		select {
		case err = <-done:
		case <-time.After(30 * time.Minute):
			// a wall-clock limit is never a verdict: infrastructure error (exit 2)
			tl.Fatal("sync did not finish within 30 minutes (run %v)", x.desc)
		}
		x.mu.Lock()
		x.cancel = nil
		x.sum.Count("pivot:cycle")
		x.mu.Unlock()
		if err != nil && !isCancel(err) {
			x.mu.Lock()
			x.violate(fmt.Sprintf("snap sync failed although a peer able to make progress is present: %v", err), tl.M{})
			x.mu.Unlock()
			return
		}
		if target == early {
			if err == nil {
				x.sum.Count("pivot:first-pivot-completed-before-move")
			}
			target = late // the pivot moves
			continue
		}
		if err == nil {
			break
		}
	}
	diffs := x.compareTrie(inner, scheme)
	x.mu.Lock()
	x.emit(tl.M{"op": "pivotdone", "trie": len(diffs) == 0})
	if len(diffs) > 0 {
		x.violate(fmt.Sprintf("snap sync (v1, %s) with a pivot move completed but the trie differs from the state of the final pivot: %v", scheme, diffs), tl.M{})
	}
	x.mu.Unlock()
}
