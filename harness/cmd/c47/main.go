// c47 drives the snap syncer (eth/protocols/snap NewV1Syncer / NewV2Syncer) against harness peers
// for property C47: snap sync reconstructs exactly the target state under misbehaving peers and
// restarts.
//
// Honest answers come from the real ServiceGet*Query functions over a source chain; a seeded
// policy decides per request whether a peer answers honestly, capped (truncated), late, not at
// all, with a corrupted proof, with corrupted data, or with a refusal.  A wrapping ethdb sees
// every write of the syncer: every flat account, storage slot, code blob and trie node written
// must be the target's (nothing unverified is ever stored).  Syncs are cancelled at random
// points and resumed by a fresh syncer on the same database.  At the end the flat state, the
// codes and the full trie must equal the target.
//
//	-mode record -trace t.ndjson   one event per request, response (with the oracle's verdict
//	                               whether it is a genuine range), flat-state write, restart and
//	                               completion; validated by spec/net/SnapSyncTrace.tla (V)
package main

import (
	"bytes"
	"errors"
	"flag"
	"fmt"
	"math/rand"
	"os"
	"sort"
	"sync"
	"time"

	"github.com/ethereum/go-ethereum/common"
	"github.com/ethereum/go-ethereum/core/rawdb"
	"github.com/ethereum/go-ethereum/core/types"
	"github.com/ethereum/go-ethereum/crypto"
	"github.com/ethereum/go-ethereum/eth/protocols/snap"
	"github.com/ethereum/go-ethereum/ethdb"
	"github.com/ethereum/go-ethereum/log"
	"github.com/ethereum/go-ethereum/rlp"
	"github.com/ethereum/go-ethereum/trie"
	"github.com/ethereum/go-ethereum/triedb"
	"github.com/ethereum/go-ethereum/triedb/pathdb"
	tl "verif/harness/tracelib"
)

// ---------------------------------------------------------------- shared run state

type run struct {
	mu      sync.Mutex
	w       *world
	tr      *tl.Trace
	sum     *tl.Summary
	r       *rand.Rand // guarded by mu
	keys    []common.Hash
	rankOf  map[common.Hash]int
	codeIdx map[common.Hash]int
	ttl     time.Duration
	served  int // responses delivered in the current cycle
	cutAt   int // cancel the cycle after this many deliveries (0 = never)
	cancel  func()
	desc    tl.M
	wg      sync.WaitGroup // peer goroutines
	ids     map[uint64]int // request id -> small sequence number used in the trace
	old     *world         // pivot runs: the state of the first pivot (values of either state may be written)
	pivot   bool           // pivot run: no per-item events (two worlds), value checks only
	allowed []*world       // snap/2 pivot runs: the states of all blocks between the pivots
}

// either reports whether pred holds in the target or any other admissible state.
func (x *run) either(pred func(w *world) bool) bool {
	if pred(x.w) || (x.old != nil && pred(x.old)) {
		return true
	}
	for _, w := range x.allowed {
		if pred(w) {
			return true
		}
	}
	return false
}

// sid maps the syncer's random 64-bit request ids to small integers (caller holds mu).
func (x *run) sid(id uint64) int {
	if x.ids == nil {
		x.ids = map[uint64]int{}
	}
	if n, ok := x.ids[id]; ok {
		return n
	}
	x.ids[id] = len(x.ids) + 1
	return len(x.ids)
}

func (x *run) emit(ev tl.M) {
	if op := ev["op"].(string); x.pivot && op != "pivotdone" {
		x.sum.Count("pivot:" + op)
		return
	}
	x.tr.Emit(ev)
	x.sum.Count(ev["op"].(string))
}

func (x *run) violate(desc string, rep tl.M) {
	rep["run"] = x.desc
	x.sum.Violate(desc, rep)
}

// ---------------------------------------------------------------- observing database

type obsDB struct {
	ethdb.Database
	x *run
}

func (d *obsDB) Put(k, v []byte) error {
	d.x.mu.Lock()
	d.x.observe(k, v)
	d.x.mu.Unlock()
	return d.Database.Put(k, v)
}
func (d *obsDB) NewBatch() ethdb.Batch { return &obsBatch{Batch: d.Database.NewBatch(), d: d} }
func (d *obsDB) NewBatchWithSize(n int) ethdb.Batch {
	return &obsBatch{Batch: d.Database.NewBatchWithSize(n), d: d}
}

type obsBatch struct {
	ethdb.Batch
	d    *obsDB
	puts [][2][]byte
}

func (b *obsBatch) Put(k, v []byte) error {
	b.puts = append(b.puts, [2][]byte{common.CopyBytes(k), common.CopyBytes(v)})
	return b.Batch.Put(k, v)
}
func (b *obsBatch) Write() error {
	b.d.x.mu.Lock()
	for _, p := range b.puts {
		b.d.x.observe(p[0], p[1])
	}
	b.d.x.mu.Unlock()
	b.puts = nil
	return b.Batch.Write()
}
func (b *obsBatch) Reset() { b.puts = nil; b.Batch.Reset() }

// observe checks one database write against the target (caller holds mu).
func (x *run) observe(k, v []byte) {
	w := x.w
	switch {
	case len(k) == 33 && k[0] == rawdb.SnapshotAccountPrefix[0]:
		h := common.BytesToHash(k[1:])
		a, ok := w.byHash[h]
		good := ok && bytes.Equal(v, a.slim)
		if !good {
			good = x.either(func(o *world) bool { a, ok := o.byHash[h]; return ok && bytes.Equal(v, a.slim) })
		}
		if !good && x.allowed != nil {
			// snap/2 catch-up rolls accounts forward from access lists and leaves the storage root
			// stale until the trie generation (bal_apply.go): compare nonce, balance and code hash
			if got, err := types.FullAccount(v); err == nil {
				good = x.either(func(o *world) bool {
					a, ok := o.byHash[h]
					if !ok {
						return false
					}
					want, err := types.FullAccount(a.slim)
					return err == nil && want.Nonce == got.Nonce && want.Balance.Eq(got.Balance) && bytes.Equal(want.CodeHash, got.CodeHash)
				})
			}
		}
		x.emit(tl.M{"op": "write", "item": []any{"acc", x.rankOf[h]}, "ok": good})
		if !good {
			x.violate(fmt.Sprintf("snap sync stored flat account %x that is not the target's", h[:6]), tl.M{"key": fmt.Sprintf("%x", k), "value": fmt.Sprintf("%x", v)})
		}
	case len(k) == 65 && k[0] == rawdb.SnapshotStoragePrefix[0]:
		ah, sh := common.BytesToHash(k[1:33]), common.BytesToHash(k[33:])
		a, ok := w.byHash[ah]
		good, rk := false, 0
		if ok {
			good = bytes.Equal(v, a.slotVal[sh]) && len(v) > 0
			if p := rankGE(a.slotKeys, sh); p <= len(a.slotKeys) && a.slotKeys[p-1] == sh {
				rk = p
			}
		}
		if !good && len(v) > 0 {
			good = x.either(func(o *world) bool { a, ok := o.byHash[ah]; return ok && bytes.Equal(v, a.slotVal[sh]) })
		}
		x.emit(tl.M{"op": "write", "item": []any{fmt.Sprintf("s%d", x.rankOf[ah]), rk}, "ok": good})
		if !good {
			x.violate(fmt.Sprintf("snap sync stored storage slot %x/%x that is not the target's", ah[:6], sh[:6]), tl.M{"key": fmt.Sprintf("%x", k), "value": fmt.Sprintf("%x", v)})
		}
	case len(k) == 33 && k[0] == rawdb.CodePrefix[0]:
		h := common.BytesToHash(k[1:])
		_, ok := w.codes[h]
		if !ok {
			ok = x.either(func(o *world) bool { _, has := o.codes[h]; return has })
		}
		good := ok && crypto.Keccak256Hash(v) == h
		x.emit(tl.M{"op": "write", "item": []any{"code", x.codeIdx[h]}, "ok": good})
		if !good {
			x.violate(fmt.Sprintf("snap sync stored code %x that is not a code of the target", h[:6]), tl.M{"key": fmt.Sprintf("%x", k)})
		}
	case len(k) == 32 || (len(k) >= 1 && k[0] == rawdb.TrieNodeAccountPrefix[0] && len(k) <= 65) || (len(k) >= 33 && k[0] == rawdb.TrieNodeStoragePrefix[0] && len(k) <= 33+65):
		// a trie node (hash scheme: keyed by hash; path scheme: keyed by owner/path).  Nodes are
		// computed locally from verified leaves (range boundaries produce nodes that are not part of
		// the final trie and are healed later), so only self-consistency is required here; the
		// complete trie is compared with the target at the end.
		if len(v) == 0 {
			return
		}
		x.sum.Count("write:trienode")
		if len(k) == 32 && common.BytesToHash(k) != crypto.Keccak256Hash(v) {
			x.violate("snap sync stored a hash-keyed trie node under a key that is not its hash", tl.M{"key": fmt.Sprintf("%x", k), "value": fmt.Sprintf("%x", v)})
		}
	}
}

// ---------------------------------------------------------------- peers

type behaviour int

const (
	honest behaviour = iota
	truncate
	delay
	drop
	badproof
	baddata
	empty
)

var behNames = []string{"honest", "truncate", "delay", "drop", "badproof", "baddata", "empty"}

type hpeer struct {
	id      string
	x       *run
	remote  snap.Syncer
	profile []int // weights per behaviour
	logger  log.Logger
}

func (p *hpeer) ID() string      { return p.id }
func (p *hpeer) Log() log.Logger { return p.logger }

func (p *hpeer) pick() behaviour {
	tot := 0
	for _, w := range p.profile {
		tot += w
	}
	n := p.x.r.Intn(tot)
	for b, w := range p.profile {
		if n < w {
			return behaviour(b)
		}
		n -= w
	}
	return honest
}

// delivered is called (under mu) after a response was handed to the syncer.
func (x *run) delivered() {
	x.served++
	if x.cutAt > 0 && x.served == x.cutAt && x.cancel != nil {
		x.cancel()
	}
}

func corrupt(b []byte, r *rand.Rand) []byte {
	c := common.CopyBytes(b)
	if len(c) == 0 {
		return []byte{1}
	}
	c[r.Intn(len(c))] ^= 1 << uint(r.Intn(8))
	return c
}

func (p *hpeer) RequestAccountRange(id uint64, root, origin, limit common.Hash, bytes int) error {
	x := p.x
	x.mu.Lock()
	beh := p.pick()
	n := len(x.keys)
	x.emit(tl.M{"op": "req", "id": x.sid(id), "sub": 0, "space": "acc", "origin": rankGE(x.keys, origin), "last": rankLE(x.keys, limit), "n": n, "peer": p.id, "beh": behNames[beh]})
	capB := uint64(bytes)
	if beh == truncate {
		capB = uint64(x.r.Intn(1500))
	}
	seedr := rand.New(rand.NewSource(x.r.Int63()))
	x.mu.Unlock()
	x.wg.Add(1)
	go func() {
		defer x.wg.Done()
		if beh == drop {
			return
		}
		if beh == delay {
			time.Sleep(x.ttl + x.ttl/2)
		}
		var hashes []common.Hash
		var accounts [][]byte
		var proof [][]byte
		genuine := beh != empty
		if beh != empty {
			accs, prf := snap.ServiceGetAccountRangeQuery(x.w.chain, &snap.GetAccountRangePacket{ID: id, Root: root, Origin: origin, Limit: limit, Bytes: capB})
			pkt := &snap.AccountRangePacket{ID: id, Accounts: accs, Proof: prf}
			var err error
			hashes, accounts, err = pkt.Unpack()
			if err != nil {
				tl.Fatal("unpack honest response: %v", err)
			}
			proof = prf
			if root != x.w.root {
				genuine = false // stale root: the source has nothing to say
			}
			switch beh {
			case baddata:
				genuine = false
				if len(accounts) > 0 {
					i := seedr.Intn(len(accounts))
					accounts[i] = corrupt(accounts[i], seedr)
				} else {
					hashes, accounts = append(hashes, crypto.Keccak256Hash([]byte("ghost"))), append(accounts, []byte{0xc0})
				}
			case badproof:
				genuine = false
				if len(proof) > 0 {
					proof = append([][]byte{corrupt(proof[0], seedr)}, proof[1:]...)
				} else {
					genuine = true
				}
			}
		}
		upto := rankGE(x.keys, origin) - 1
		if len(hashes) > 0 {
			upto = x.rankOf[hashes[len(hashes)-1]]
		}
		x.mu.Lock()
		x.emit(tl.M{"op": "resp", "id": x.sid(id), "sub": 0, "genuine": genuine, "upto": upto, "late": beh == delay})
		x.mu.Unlock()
		p.remote.OnAccounts(p, id, hashes, accounts, proof)
		x.mu.Lock()
		x.delivered()
		x.mu.Unlock()
	}()
	return nil
}

func (p *hpeer) RequestStorageRanges(id uint64, root common.Hash, accounts []common.Hash, origin, limit []byte, bytes int) error {
	x := p.x
	x.mu.Lock()
	beh := p.pick()
	for i, ah := range accounts {
		a := x.w.byHash[ah]
		o, l, n := 1, 0, 0
		if a != nil {
			n = len(a.slotKeys)
			l = n
			if i == 0 && len(origin) > 0 {
				o = rankGE(a.slotKeys, common.BytesToHash(origin))
			}
			if i == 0 && len(limit) > 0 {
				l = rankLE(a.slotKeys, common.BytesToHash(limit))
			}
		}
		x.emit(tl.M{"op": "req", "id": x.sid(id), "sub": i, "space": fmt.Sprintf("s%d", x.rankOf[ah]), "origin": o, "last": l, "n": n, "peer": p.id, "beh": behNames[beh]})
	}
	capB := uint64(bytes)
	if beh == truncate {
		capB = uint64(1 + x.r.Intn(3000))
	}
	seedr := rand.New(rand.NewSource(x.r.Int63()))
	x.mu.Unlock()
	x.wg.Add(1)
	go func() {
		defer x.wg.Done()
		if beh == drop {
			return
		}
		if beh == delay {
			time.Sleep(x.ttl + x.ttl/2)
		}
		var hashes [][]common.Hash
		var slots [][][]byte
		var proof [][]byte
		genuine := beh != empty
		if beh != empty {
			sl, prf := snap.ServiceGetStorageRangesQuery(x.w.chain, &snap.GetStorageRangesPacket{ID: id, Root: root, Accounts: accounts,
				Origin: common.CopyBytes(origin), Limit: common.CopyBytes(limit), Bytes: capB})
			pkt := &snap.StorageRangesPacket{ID: id, Slots: sl, Proof: prf}
			hashes, slots = pkt.Unpack()
			proof = prf
			if root != x.w.root {
				genuine = false
			}
			switch beh {
			case baddata:
				genuine = false
				if len(slots) > 0 {
					i := seedr.Intn(len(slots))
					j := seedr.Intn(len(slots[i]))
					slots[i][j] = corrupt(slots[i][j], seedr)
				} else {
					genuine = true
				}
			case badproof:
				genuine = false
				switch {
				case len(proof) > 0:
					proof = append([][]byte{corrupt(proof[0], seedr)}, proof[1:]...)
				case len(slots) > 0 && len(slots[len(slots)-1]) > 1:
					// no proof attached: claim a complete trie but leave the last slot out
					k := len(slots) - 1
					hashes[k], slots[k] = hashes[k][:len(hashes[k])-1], slots[k][:len(slots[k])-1]
				default:
					genuine = true
				}
			}
		}
		x.mu.Lock()
		for i := range hashes {
			if i >= len(accounts) {
				break
			}
			a := x.w.byHash[accounts[i]]
			upto := 0
			if a != nil && len(hashes[i]) > 0 {
				upto = rankLE(a.slotKeys, hashes[i][len(hashes[i])-1])
			}
			// with a corrupted response only the tampered list is surely bad, but the syncer
			// rejects the response as a whole: report every list as not genuine
			x.emit(tl.M{"op": "resp", "id": x.sid(id), "sub": i, "genuine": genuine, "upto": upto, "late": beh == delay})
		}
		if len(hashes) == 0 {
			// an empty answer with proof finalises the first account's range
			a := x.w.byHash[accounts[0]]
			upto := 0
			if a != nil {
				upto = len(a.slotKeys)
				if len(origin) > 0 {
					upto = rankGE(a.slotKeys, common.BytesToHash(origin)) - 1
				}
			}
			x.emit(tl.M{"op": "resp", "id": x.sid(id), "sub": 0, "genuine": genuine && len(proof) > 0, "upto": upto, "late": beh == delay})
		}
		x.mu.Unlock()
		p.remote.OnStorage(p, id, hashes, slots, proof)
		x.mu.Lock()
		x.delivered()
		x.mu.Unlock()
	}()
	return nil
}

func (p *hpeer) RequestByteCodes(id uint64, hashes []common.Hash, bytes int) error {
	x := p.x
	x.mu.Lock()
	beh := p.pick()
	capB := uint64(bytes)
	if beh == truncate {
		capB = uint64(x.r.Intn(2000))
	}
	seedr := rand.New(rand.NewSource(x.r.Int63()))
	x.mu.Unlock()
	x.wg.Add(1)
	go func() {
		defer x.wg.Done()
		if beh == drop {
			return
		}
		if beh == delay {
			time.Sleep(x.ttl + x.ttl/2)
		}
		var codes [][]byte
		genuine := beh != empty
		if beh != empty {
			codes = snap.ServiceGetByteCodesQuery(x.w.chain, &snap.GetByteCodesPacket{ID: id, Hashes: hashes, Bytes: capB})
			if (beh == baddata || beh == badproof) && len(codes) > 0 {
				i := seedr.Intn(len(codes))
				codes[i] = corrupt(codes[i], seedr)
				genuine = false
			}
		}
		items := []int{}
		for _, c := range codes {
			if k, ok := x.codeIdx[crypto.Keccak256Hash(c)]; ok {
				items = append(items, k)
			}
		}
		x.mu.Lock()
		x.emit(tl.M{"op": "coderesp", "id": x.sid(id), "genuine": genuine, "items": items, "late": beh == delay})
		x.mu.Unlock()
		p.remote.OnByteCodes(p, id, codes)
		x.mu.Lock()
		x.delivered()
		x.mu.Unlock()
	}()
	return nil
}

func (p *hpeer) RequestTrieNodes(id uint64, root common.Hash, count int, paths []snap.TrieNodePathSet, bytes int) error {
	x := p.x
	x.mu.Lock()
	beh := p.pick()
	seedr := rand.New(rand.NewSource(x.r.Int63()))
	x.sum.Count("trienodes:" + behNames[beh])
	x.mu.Unlock()
	x.wg.Add(1)
	go func() {
		defer x.wg.Done()
		if beh == drop {
			return
		}
		if beh == delay {
			time.Sleep(x.ttl + x.ttl/2)
		}
		var nodes [][]byte
		if beh != empty {
			enc, _ := rlp.EncodeToRawList(paths)
			var err error
			nodes, err = snap.ServiceGetTrieNodesQuery(x.w.chain, &snap.GetTrieNodesPacket{ID: id, Root: root, Paths: enc, Bytes: uint64(bytes)})
			if err != nil {
				tl.Fatal("honest trie node service refused the syncer's request: %v", err)
			}
			if (beh == baddata || beh == badproof) && len(nodes) > 0 {
				i := seedr.Intn(len(nodes))
				nodes[i] = corrupt(nodes[i], seedr)
			}
			if beh == truncate && len(nodes) > 1 {
				nodes = nodes[:1+seedr.Intn(len(nodes)-1)]
			}
		}
		p.remote.OnTrieNodes(p, id, nodes)
		x.mu.Lock()
		x.delivered()
		x.mu.Unlock()
	}()
	return nil
}

func (p *hpeer) RequestAccessLists(id uint64, hashes []common.Hash, bytes int) error {
	p.serveAccessLists(id, hashes, bytes)
	return nil
}

// isCancel: the errors Sync returns when the cancel channel is closed (snap/2 returns the trie
// generator's own error when cancelled during trie generation).
func isCancel(err error) bool {
	return errors.Is(err, snap.ErrCancelled) || errors.Is(err, triedb.ErrCancelled)
}

// ---------------------------------------------------------------- final comparison

func dbConfig(scheme string) *triedb.Config {
	if scheme == rawdb.HashScheme {
		return &triedb.Config{}
	}
	return &triedb.Config{PathDB: &pathdb.Config{SnapshotNoBuild: true}}
}

// compareFlat checks that the flat state and the codes in db are exactly the target's.
func (x *run) compareFlat(db ethdb.Database) []string {
	var diffs []string
	w := x.w
	seenA := 0
	it := db.NewIterator(rawdb.SnapshotAccountPrefix, nil)
	for it.Next() {
		if len(it.Key()) != 33 {
			continue
		}
		h := common.BytesToHash(it.Key()[1:])
		a := w.byHash[h]
		if a == nil || !bytes.Equal(it.Value(), a.slim) {
			diffs = append(diffs, fmt.Sprintf("flat account %x differs from the target", h[:6]))
		}
		seenA++
	}
	it.Release()
	if seenA != len(w.accts) {
		diffs = append(diffs, fmt.Sprintf("%d flat accounts, target has %d", seenA, len(w.accts)))
	}
	nslots, want := 0, 0
	it = db.NewIterator(rawdb.SnapshotStoragePrefix, nil)
	for it.Next() {
		if len(it.Key()) != 65 {
			continue
		}
		ah, sh := common.BytesToHash(it.Key()[1:33]), common.BytesToHash(it.Key()[33:])
		a := w.byHash[ah]
		if a == nil || !bytes.Equal(it.Value(), a.slotVal[sh]) {
			diffs = append(diffs, fmt.Sprintf("flat slot %x/%x differs from the target", ah[:6], sh[:6]))
		}
		nslots++
	}
	it.Release()
	for _, a := range w.accts {
		want += len(a.slotKeys)
		if len(a.code) > 0 {
			if got := rawdb.ReadCode(db, crypto.Keccak256Hash(a.code)); !bytes.Equal(got, a.code) {
				diffs = append(diffs, fmt.Sprintf("code of account %x missing or wrong", a.hash[:6]))
			}
		}
	}
	if nslots != want {
		diffs = append(diffs, fmt.Sprintf("%d flat slots, target has %d", nslots, want))
	}
	if len(diffs) > 8 {
		diffs = diffs[:8]
	}
	return diffs
}

// compareTrie iterates the complete synced trie (accounts and all storage tries).
func (x *run) compareTrie(db ethdb.Database, scheme string) (diffs []string) {
	w := x.w
	tdb := triedb.NewDatabase(db, dbConfig(scheme))
	defer tdb.Close()
	at, err := trie.New(trie.StateTrieID(w.root), tdb)
	if err != nil {
		return []string{fmt.Sprintf("synced account trie cannot be opened: %v", err)}
	}
	nit, err := at.NodeIterator(nil)
	if err != nil {
		return []string{fmt.Sprintf("synced account trie cannot be iterated: %v", err)}
	}
	ait := trie.NewIterator(nit)
	i := 0
	for ait.Next() {
		if i >= len(w.accts) || !bytes.Equal(ait.Key, w.accts[i].hash[:]) || !bytes.Equal(ait.Value, w.accts[i].full) {
			return append(diffs, fmt.Sprintf("account trie leaf #%d differs from the target", i+1))
		}
		a := w.accts[i]
		i++
		if a.stRoot == types.EmptyRootHash {
			continue
		}
		st, err := trie.New(trie.StorageTrieID(w.root, a.hash, a.stRoot), tdb)
		if err != nil {
			return append(diffs, fmt.Sprintf("storage trie of %x cannot be opened: %v", a.hash[:6], err))
		}
		sn, err := st.NodeIterator(nil)
		if err != nil {
			return append(diffs, fmt.Sprintf("storage trie of %x cannot be iterated: %v", a.hash[:6], err))
		}
		sit := trie.NewIterator(sn)
		j := 0
		for sit.Next() {
			if j >= len(a.slotKeys) || !bytes.Equal(sit.Key, a.slotKeys[j][:]) || !bytes.Equal(sit.Value, a.slotVal[a.slotKeys[j]]) {
				return append(diffs, fmt.Sprintf("storage trie of %x leaf #%d differs", a.hash[:6], j+1))
			}
			j++
		}
		if sit.Err != nil || j != len(a.slotKeys) {
			return append(diffs, fmt.Sprintf("storage trie of %x: %d of %d leaves, err=%v", a.hash[:6], j, len(a.slotKeys), sit.Err))
		}
	}
	if ait.Err != nil || i != len(w.accts) {
		diffs = append(diffs, fmt.Sprintf("account trie: %d of %d leaves, err=%v", i, len(w.accts), ait.Err))
	}
	return diffs
}

// ---------------------------------------------------------------- one sync run

var profiles = map[string][]int{
	//            honest trunc delay drop badproof baddata empty
	"honest":    {10, 0, 0, 0, 0, 0, 0},
	"capped":    {2, 8, 0, 0, 0, 0, 0},
	"flaky":     {6, 2, 1, 1, 0, 0, 0},
	"liar":      {3, 1, 0, 0, 3, 3, 0},
	"refuser":   {4, 1, 0, 0, 0, 0, 2},
	"chaotic":   {3, 2, 1, 1, 2, 2, 1},
	"truncliar": {1, 5, 0, 0, 2, 2, 0},
}

func oneRun(x *run, version int, scheme string, seed int64, restarts int) {
	r := x.r
	w := x.w
	x.keys = w.acctKeys()
	x.rankOf = map[common.Hash]int{}
	for i, k := range x.keys {
		x.rankOf[k] = i + 1
	}
	x.codeIdx = map[common.Hash]int{}
	var chs []common.Hash
	for h := range w.codes {
		chs = append(chs, h)
	}
	sort.Slice(chs, func(i, j int) bool { return bytes.Compare(chs[i][:], chs[j][:]) < 0 })
	for i, h := range chs {
		x.codeIdx[h] = i + 1
	}
	spaces := tl.M{"acc": len(x.keys)}
	for i, a := range w.accts {
		if len(a.slotKeys) > 0 {
			spaces[fmt.Sprintf("s%d", i+1)] = len(a.slotKeys)
		}
	}
	usedCodes := map[int]bool{}
	for _, a := range w.accts {
		if len(a.code) > 0 {
			usedCodes[x.codeIdx[crypto.Keccak256Hash(a.code)]] = true
		}
	}
	codes := []int{}
	for k := range usedCodes {
		codes = append(codes, k)
	}
	sort.Ints(codes)
	x.mu.Lock()
	x.emit(tl.M{"op": "world", "n": spaces, "codes": codes})
	x.mu.Unlock()

	names := []string{"honest", "capped", "flaky", "liar", "refuser", "chaotic", "truncliar"}
	npeers := 2 + r.Intn(4)
	var plan []string
	for i := 0; i < npeers; i++ {
		plan = append(plan, names[r.Intn(len(names))])
	}
	plan[r.Intn(npeers)] = []string{"honest", "capped"}[r.Intn(2)] // somebody can always make progress
	x.desc = tl.M{"seed": seed, "version": version, "scheme": scheme, "peers": plan, "restarts": restarts, "accounts": len(w.accts)}

	inner := rawdb.NewMemoryDatabase()
	db := &obsDB{Database: inner, x: x}
	for cycle := 0; ; cycle++ {
		var s snap.Syncer
		if version == 1 {
			s = snap.NewV1Syncer(db, scheme)
		} else {
			s = snap.NewV2Syncer(db, scheme)
		}
		snap.VerifSetTTLLimit(s, x.ttl)
		for i, prof := range plan {
			s.Register(&hpeer{id: fmt.Sprintf("p%d-%s", i, prof), x: x, remote: s, profile: profiles[prof], logger: log.New("peer", i)})
		}
		cancel := make(chan struct{})
		var once sync.Once
		x.mu.Lock()
		x.served, x.cutAt = 0, 0
		if cycle < restarts {
			x.cutAt = 1 + r.Intn(40)
		}
		x.cancel = func() { once.Do(func() { close(cancel) }) }
		x.mu.Unlock()
		done := make(chan error, 1)
		go func() { done <- s.Sync(w.header, cancel) }()
		var err error
		select {
		case err = <-done:
		case <-time.After(30 * time.Minute):
			// a wall-clock limit is never a verdict: infrastructure error (exit 2)
			tl.Fatal("sync did not finish within 30 minutes (run %v)", x.desc)
		}
		x.mu.Lock()
		x.cancel = nil
		x.mu.Unlock()
		if err == nil {
			break
		}
		if !isCancel(err) {
			x.mu.Lock()
			x.violate(fmt.Sprintf("snap sync failed although a peer able to make progress is present: %v", err), tl.M{})
			x.mu.Unlock()
			return
		}
		x.mu.Lock()
		x.emit(tl.M{"op": "restart"})
		x.mu.Unlock()
	}
	// completed: compare
	flat := x.compareFlat(db)
	trieDiff := x.compareTrie(inner, scheme)
	x.mu.Lock()
	x.emit(tl.M{"op": "done", "flat": len(flat) == 0, "trie": len(trieDiff) == 0})
	if len(flat)+len(trieDiff) > 0 {
		x.violate(fmt.Sprintf("snap sync (v%d, %s) completed but the local state differs from the target: %v", version, scheme, append(flat, trieDiff...)), tl.M{})
	}
	x.mu.Unlock()
}

func main() {
	mode := flag.String("mode", "record", "record")
	trace := flag.String("trace", "trace.ndjson", "output trace")
	out := flag.String("out", "summary.json", "summary output")
	n := flag.Int("n", 4, "number of sync runs")
	maxAcc := flag.Int("accounts", 60, "maximum number of accounts of a target")
	ttl := flag.Duration("ttl", 3*time.Second, "request timeout ceiling")
	versions := flag.String("versions", "1", "syncer versions to use, e.g. 1 or 12")
	npivot := flag.Int("pivot", 0, "number of additional snap/1 runs with a pivot move")
	npivot2 := flag.Int("pivot2", 0, "number of additional snap/2 runs with a pivot move (BAL catch-up)")
	flag.Parse()
	seed := int64(tl.EnvInt("VERIF_SEED", 1))
	sum := tl.NewSummary("c47", *mode, seed)
	log.SetDefault(log.NewLogger(log.DiscardHandler()))
	if *mode != "record" {
		tl.Fatal("bad mode")
	}
	tr := tl.NewTrace(*trace)
	r := tl.Rand(seed)
	for i := 0; i < *n; i++ {
		sp := worldSpec{naccts: 5 + r.Intn(*maxAcc), ncodes: 1 + r.Intn(5), maxCode: []int{40, 600, 5000}[r.Intn(3)]}
		for k := 0; k < 3+r.Intn(8); k++ {
			sp.storages = append(sp.storages, []int{0, 1, 2, 5, 17, 60, 250}[r.Intn(7)])
		}
		w := buildWorld(seed*1000+int64(i), sp)
		x := &run{w: w, tr: tr, sum: sum, r: tl.Rand(seed*7919 + int64(i)), ttl: *ttl}
		version := int((*versions)[i%len(*versions)] - '0')
		scheme := []string{rawdb.HashScheme, rawdb.PathScheme}[r.Intn(2)]
		oneRun(x, version, scheme, seed*1000+int64(i), r.Intn(4))
		x.wg.Wait() // late answers of delaying peers
		w.chain.Stop()
		sum.Traces++
		sum.Evaluations++
		sum.Distinct++
		sum.Sample(x.desc)
	}
	for i := 0; i < *npivot; i++ {
		sp := worldSpec{naccts: 10 + r.Intn(*maxAcc), maxCode: 300}
		for k := 0; k < 2+r.Intn(5); k++ {
			sp.storages = append(sp.storages, []int{0, 1, 3, 17, 60}[r.Intn(5)])
		}
		early, late := buildPivotWorlds(seed*1000+500+int64(i), sp, 6+r.Intn(20))
		x := &run{tr: tr, sum: sum, r: tl.Rand(seed*104729 + int64(i)), ttl: *ttl}
		x.keys, x.rankOf, x.codeIdx = nil, map[common.Hash]int{}, map[common.Hash]int{}
		pivotRun(x, early, late, []string{rawdb.HashScheme, rawdb.PathScheme}[r.Intn(2)], seed*1000+500+int64(i))
		x.wg.Wait()
		late.chain.Stop()
		sum.Traces++
		sum.Evaluations++
		sum.Distinct++
		sum.Sample(x.desc)
	}
	for i := 0; i < *npivot2; i++ {
		pw := buildPivot2World(seed*1000+700+int64(i), 6+r.Intn(14), 4+r.Intn(16))
		x := &run{tr: tr, sum: sum, r: tl.Rand(seed*15485863 + int64(i)), ttl: *ttl}
		x.keys, x.rankOf, x.codeIdx = nil, map[common.Hash]int{}, map[common.Hash]int{}
		pivot2Run(x, pw, []string{rawdb.HashScheme, rawdb.PathScheme}[r.Intn(2)], seed*1000+700+int64(i))
		x.wg.Wait()
		pw.chain.Stop()
		sum.Traces++
		sum.Evaluations++
		sum.Distinct++
		sum.Sample(x.desc)
	}
	tr.Close()
	sum.Steps = tr.N
	sum.Rule = "seeded sync runs: random target (5..N accounts, storage tries up to 250 slots, shared codes), 2-5 peers with random behaviour profiles (at least one able to make progress), 0-3 cancel/resume cycles; distinct = runs"
	sum.Write(*out)
	if len(sum.Violations) > 0 {
		os.Exit(1)
	}
}
