package main

import (
	"bytes"
	"math/big"
	"sort"

	"github.com/ethereum/go-ethereum/common"
	"github.com/ethereum/go-ethereum/consensus/ethash"
	"github.com/ethereum/go-ethereum/core"
	"github.com/ethereum/go-ethereum/core/rawdb"
	"github.com/ethereum/go-ethereum/core/types"
	"github.com/ethereum/go-ethereum/crypto"
	"github.com/ethereum/go-ethereum/params"
	"github.com/ethereum/go-ethereum/rlp"
	"github.com/ethereum/go-ethereum/trie"
	"github.com/ethereum/go-ethereum/triedb"
	"github.com/holiman/uint256"
	tl "verif/harness/tracelib"
)

// The target world: built by the harness from a seeded genesis allocation; the oracle view
// (hashed keys, slim/full account encodings, storage roots, all trie nodes) is computed with
// plain tries, independently of the serving code and of the syncer.

type acct struct {
	addr     common.Address
	hash     common.Hash
	code     []byte
	storage  map[common.Hash]common.Hash
	slotKeys []common.Hash
	slotVal  map[common.Hash][]byte
	stRoot   common.Hash
	slim     []byte
	full     []byte
}

type world struct {
	accts   []*acct
	byHash  map[common.Hash]*acct
	codes   map[common.Hash][]byte
	root    common.Hash
	header  *types.Header
	chain   *core.BlockChain
	nodeSet map[common.Hash]struct{} // hashes of all trie nodes of the target (account + storage tries)
}

type worldSpec struct {
	naccts   int
	storages []int
	ncodes   int
	maxCode  int
}

func collectNodes(t *trie.Trie, into map[common.Hash]struct{}) {
	it := t.MustNodeIterator(nil)
	for it.Next(true) {
		if h := it.Hash(); h != (common.Hash{}) {
			into[h] = struct{}{}
		}
	}
	if it.Error() != nil {
		tl.Fatal("oracle trie iteration: %v", it.Error())
	}
}

func buildWorld(seed int64, sp worldSpec) *world {
	r := tl.Rand(seed)
	w := &world{byHash: map[common.Hash]*acct{}, codes: map[common.Hash][]byte{}, nodeSet: map[common.Hash]struct{}{}}
	var codes [][]byte
	for i := 0; i < sp.ncodes; i++ {
		c := make([]byte, 1+r.Intn(sp.maxCode))
		r.Read(c)
		c[0] = 0x60
		codes = append(codes, c)
		w.codes[crypto.Keccak256Hash(c)] = c
	}
	alloc := types.GenesisAlloc{}
	for i := 0; i < sp.naccts; i++ {
		a := &acct{storage: map[common.Hash]common.Hash{}, slotVal: map[common.Hash][]byte{}}
		r.Read(a.addr[:])
		a.hash = crypto.Keccak256Hash(a.addr[:])
		nonce := uint64(r.Intn(3)) * uint64(r.Intn(1000))
		bal := make([]byte, r.Intn(20))
		r.Read(bal)
		balance := new(big.Int).SetBytes(bal)
		if sp.ncodes > 0 && r.Intn(2) == 0 {
			a.code = codes[r.Intn(sp.ncodes)]
		}
		if i < len(sp.storages) {
			for j := 0; j < sp.storages[i]; j++ {
				var k, v common.Hash
				r.Read(k[:])
				n := 1 + r.Intn(32)
				r.Read(v[32-n:])
				if v[32-n] == 0 {
					v[32-n] = 1
				}
				a.storage[k] = v
			}
		}
		st := trie.NewEmpty(triedb.NewDatabase(rawdb.NewMemoryDatabase(), nil))
		for k, v := range a.storage {
			hk := crypto.Keccak256Hash(k[:])
			enc, _ := rlp.EncodeToBytes(common.TrimLeftZeroes(v[:]))
			a.slotKeys = append(a.slotKeys, hk)
			a.slotVal[hk] = enc
			st.MustUpdate(hk[:], enc)
		}
		sort.Slice(a.slotKeys, func(x, y int) bool { return bytes.Compare(a.slotKeys[x][:], a.slotKeys[y][:]) < 0 })
		a.stRoot = st.Hash()
		collectNodes(st, w.nodeSet)
		sa := types.StateAccount{Nonce: nonce, Balance: uint256.MustFromBig(balance), Root: a.stRoot, CodeHash: crypto.Keccak256(a.code)}
		a.slim = types.SlimAccountRLP(sa)
		a.full, _ = rlp.EncodeToBytes(&sa)
		w.accts = append(w.accts, a)
		w.byHash[a.hash] = a
		alloc[a.addr] = types.Account{Nonce: nonce, Balance: balance, Code: a.code, Storage: a.storage}
	}
	sort.Slice(w.accts, func(x, y int) bool { return bytes.Compare(w.accts[x].hash[:], w.accts[y].hash[:]) < 0 })
	at := trie.NewEmpty(triedb.NewDatabase(rawdb.NewMemoryDatabase(), nil))
	for _, a := range w.accts {
		at.MustUpdate(a.hash[:], a.full)
	}
	w.root = at.Hash()
	collectNodes(at, w.nodeSet)
	gspec := &core.Genesis{Config: params.TestChainConfig, Alloc: alloc, BaseFee: big.NewInt(params.InitialBaseFee)}
	bc, err := core.NewBlockChain(rawdb.NewMemoryDatabase(), gspec, ethash.NewFaker(), core.DefaultConfig().WithStateScheme(rawdb.HashScheme))
	if err != nil {
		tl.Fatal("source chain: %v", err)
	}
	if bc.Genesis().Root() != w.root {
		tl.Fatal("oracle state root differs from the source chain's")
	}
	w.chain = bc
	w.header = bc.Genesis().Header()
	return w
}

func (w *world) acctKeys() []common.Hash {
	ks := make([]common.Hash, len(w.accts))
	for i, a := range w.accts {
		ks[i] = a.hash
	}
	return ks
}

// rankGE: rank (1-based) of the first key >= h, len+1 if none; rankLE: rank of the last key <= h.
func rankGE(keys []common.Hash, h common.Hash) int {
	return 1 + sort.Search(len(keys), func(i int) bool { return bytes.Compare(keys[i][:], h[:]) >= 0 })
}
func rankLE(keys []common.Hash, h common.Hash) int {
	return sort.Search(len(keys), func(i int) bool { return bytes.Compare(keys[i][:], h[:]) > 0 })
}
