package main

import (
	"fmt"
	"math/big"
	"math/rand"
	"sync"
	"time"

	"github.com/ethereum/go-ethereum/common"
	"github.com/ethereum/go-ethereum/core"
	"github.com/ethereum/go-ethereum/core/rawdb"
	"github.com/ethereum/go-ethereum/core/types"
	"github.com/ethereum/go-ethereum/eth/protocols/snap"
	"github.com/ethereum/go-ethereum/log"
	"github.com/ethereum/go-ethereum/rlp"
	"verif/harness/blockkit"
	tl "verif/harness/tracelib"
)

// Pivot runs of snap/2: the source chain is an Amsterdam chain (blocks carry block access lists,
// EIP-7928) built with harness/blockkit's random interacting transactions (transfers, contract
// storage writes and deletions, creations, self-destructs in the creating transaction, ...).
// The sync starts against an early header, is cancelled during the download, and resumes
// against a later header: the syncer fetches the access lists of the gap blocks from the peers
// (served by the real ServiceGetAccessListsQuery, misbehaviour per request as for the other
// message types), verifies them against the headers, rolls the downloaded part of the flat
// state forward block by block, downloads the rest at the new root and generates the trie.
// At the end the flat state, the codes and the fully iterated trie must be exactly the state of
// the final pivot; every value written on the way must be the value of that item in one of the
// states between the two pivots.

type pivot2World struct {
	chain *core.BlockChain
	views []*world // states of blocks early..late
}

func buildPivot2World(seed int64, nblocks, ntx int) *pivot2World {
	r := tl.Rand(seed)
	extra := types.GenesisAlloc{}
	for i := 0; i < 10+r.Intn(60); i++ {
		var a common.Address
		r.Read(a[:])
		extra[a] = types.Account{Balance: big.NewInt(int64(1 + r.Intn(1<<30))), Nonce: uint64(r.Intn(4))}
	}
	k := blockkit.New("amsterdam", 6, extra)
	ch, err := k.NewChain()
	if err != nil {
		tl.Fatal("blockkit chain: %v", err)
	}
	defer ch.Close()
	for i := 0; i < nblocks; i++ {
		if _, _, _, err := ch.ExtendRandom(r, 1+r.Intn(ntx), blockkit.BlockOpts{Withdrawals: true}); err != nil {
			tl.Fatal("extend source chain: %v", err)
		}
	}
	bc, db, err := k.NewBlockChain(func(c *core.BlockChainConfig) {
		c.ArchiveMode = true
		c.SnapshotLimit = 256
		c.SnapshotWait = true
	})
	if err != nil {
		tl.Fatal("serving chain: %v", err)
	}
	if _, err := bc.InsertChain(ch.Blocks); err != nil {
		tl.Fatal("serving chain import: %v", err)
	}
	head := bc.CurrentBlock()
	if len(bc.GetAccessListRLP(head.Hash())) == 0 {
		tl.Fatal("serving chain has no block access list for its head")
	}
	early := uint64(r.Intn(nblocks / 2))
	p := &pivot2World{chain: bc}
	for n := early; n <= head.Number.Uint64(); n++ {
		p.views = append(p.views, viewAt(bc, db, bc.GetHeaderByNumber(n)))
	}
	return p
}

func (p *hpeer) serveAccessLists(id uint64, hashes []common.Hash, bytes int) {
	x := p.x
	x.mu.Lock()
	beh := p.pick()
	seedr := rand.New(rand.NewSource(x.r.Int63()))
	x.sum.Count("accesslists:" + behNames[beh])
	capB := uint64(bytes)
	if beh == truncate {
		capB = uint64(x.r.Intn(600))
	}
	x.mu.Unlock()
	x.wg.Add(1)
	go func() {
		defer x.wg.Done()
		if beh == drop {
			return
		}
		if beh == delay {
			time.Sleep(x.ttl + x.ttl/2)
		}
		lists := rlp.RawList[rlp.RawValue]{}
		if beh != empty {
			lists = snap.ServiceGetAccessListsQuery(x.w.chain, &snap.GetAccessListsPacket{ID: id, Hashes: hashes, Bytes: capB})
			if beh == baddata || beh == badproof {
				items, err := lists.Items()
				if err == nil && len(items) > 0 {
					i := seedr.Intn(len(items))
					switch seedr.Intn(3) {
					case 0:
						items[i] = corrupt(items[i], seedr) // most likely no longer the committed list (or unparseable)
					case 1:
						if len(items) > 1 { // a valid list, but of another block
							items[i] = items[(i+1)%len(items)]
						} else {
							items[i] = rlp.EmptyString // "not available"
						}
					default:
						items[i] = rlp.EmptyString
					}
					lists = rlp.RawList[rlp.RawValue]{}
					for _, it := range items {
						lists.AppendRaw(it)
					}
				}
			}
		}
		p.remote.OnAccessLists(p, id, lists)
		x.mu.Lock()
		x.delivered()
		x.mu.Unlock()
	}()
}

// pivot2Run syncs snap/2 against the first view, cancels, and resumes against the last.
func pivot2Run(x *run, pw *pivot2World, scheme string, seed int64) {
	r := x.r
	early, late := pw.views[0], pw.views[len(pw.views)-1]
	x.w, x.allowed, x.pivot = late, pw.views, true
	names := []string{"honest", "capped", "flaky", "liar", "refuser", "chaotic", "truncliar"}
	npeers := 2 + r.Intn(3)
	var plan []string
	for i := 0; i < npeers; i++ {
		plan = append(plan, names[r.Intn(len(names))])
	}
	plan[r.Intn(npeers)] = []string{"honest", "capped"}[r.Intn(2)]
	x.desc = tl.M{"seed": seed, "version": 2, "scheme": scheme, "peers": plan, "pivot": fmt.Sprintf("%d -> %d", early.header.Number, late.header.Number),
		"accounts": fmt.Sprintf("%d -> %d", len(early.accts), len(late.accts))}
	inner := rawdb.NewMemoryDatabase()
	// what the downloader has in place before state sync: the headers up to the pivot
	for n := uint64(0); n <= late.header.Number.Uint64(); n++ {
		h := pw.chain.GetHeaderByNumber(n)
		rawdb.WriteHeader(inner, h)
		rawdb.WriteCanonicalHash(inner, h.Hash(), n)
	}
	db := &obsDB{Database: inner, x: x}
	target := early
	for cycle := 0; ; cycle++ {
		s := snap.NewV2Syncer(db, scheme)
		snap.VerifSetTTLLimit(s, x.ttl)
		for i, prof := range plan {
			s.Register(&hpeer{id: fmt.Sprintf("p%d-%s", i, prof), x: x, remote: s, profile: profiles[prof], logger: log.New("peer", i)})
		}
		cancel := make(chan struct{})
		var once sync.Once
		x.mu.Lock()
		x.served, x.cutAt = 0, 0
		if target == early {
			// how much of the early state is downloaded before the pivot moves decides how much work
			// the access-list catch-up has: sometimes little, mostly a lot, sometimes everything
			switch r.Intn(4) {
			case 0:
				x.cutAt = 2 + r.Intn(25)
			case 1:
				x.cutAt = 0 // the first pivot completes, then the pivot moves
			default:
				x.cutAt = 30 + r.Intn(200)
			}
		} else if cycle < 3 && r.Intn(2) == 0 {
			x.cutAt = 3 + r.Intn(80) // a restart during catch-up / later download
		}
		x.cancel = func() { once.Do(func() { close(cancel) }) }
		x.mu.Unlock()
		done := make(chan error, 1)
		go func() { done <- s.Sync(target.header, cancel) }()
		var err error
		select {
		case err = <-done:
		case <-time.After(30 * time.Minute):
			// a wall-clock limit is never a verdict: infrastructure error (exit 2)
			tl.Fatal("sync did not finish within 30 minutes (run %v)", x.desc)
		}
		x.mu.Lock()
		x.cancel = nil
		x.sum.Count("pivot2:cycle")
		x.mu.Unlock()
		if err != nil && !isCancel(err) {
			x.mu.Lock()
			x.violate(fmt.Sprintf("snap sync failed although a peer able to make progress is present: %v", err), tl.M{})
			x.mu.Unlock()
			return
		}
		if target == early {
			if err == nil {
				x.sum.Count("pivot2:first-pivot-completed-before-move")
			}
			target = late
			continue
		}
		if err == nil {
			break
		}
	}
	flat := x.compareFlat(db)
	trieDiff := x.compareTrie(inner, scheme)
	x.mu.Lock()
	x.emit(tl.M{"op": "pivotdone", "trie": len(flat)+len(trieDiff) == 0})
	if len(flat)+len(trieDiff) > 0 {
		x.violate(fmt.Sprintf("snap sync (v2, %s) with a pivot move (BAL catch-up) completed but the local state differs from the state of the final pivot: %v", scheme, append(flat, trieDiff...)), tl.M{})
	}
	x.mu.Unlock()
}
