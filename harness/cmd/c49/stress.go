package main

import (
	"context"
	"fmt"
	"math/rand"
	"net/http"
	"net/http/httptest"
	"strings"
	"sync"
	"time"

	"github.com/ethereum/go-ethereum/rpc"
	tl "verif/harness/tracelib"
)

// stress mode (V): real goroutines, real clock.  Nothing here synchronises by sleeping: the sleeps
// only perturb where the timeout lands relative to the running method, and every outcome the
// specification allows is accepted by the trace specification.

const stressTimeout = 3 * time.Millisecond

type stressService struct{}

func (stressService) Ret() string          { return retVal }
func (stressService) Subscription() string { return retVal }
func (stressService) Big() string { return bigVal }
func (stressService) Err() error  { return svcError{errMsg} }

// Blk: even tags sleep for tag/2 tenths of the timeout (ignoring ctx), odd tags wait for the
// cancellation of the request context (a cancellation-aware method).
func (stressService) Blk(ctx context.Context, tag int) string {
	if tag%2 == 0 {
		time.Sleep(time.Duration(tag/2%21) * stressTimeout / 10)
	} else {
		<-ctx.Done()
	}
	return retVal
}

func randEntry(r *rand.Rand) map[string]any {
	switch r.Intn(10) {
	case 0:
		return map[string]any{"k": "inv", "id": float64(r.Intn(2)), "m": "-"}
	case 1:
		return map[string]any{"k": "resp", "id": float64(1), "m": "-"}
	case 2, 3:
		return map[string]any{"k": "notif", "id": float64(0), "m": []string{"ret", "blk", "nsub"}[r.Intn(3)]}
	default:
		return map[string]any{"k": "call", "id": float64(1 + r.Intn(2)), "m": []string{"ret", "err", "big", "blk", "blk", "nsub"}[r.Intn(6)]}
	}
}

func stressEntryJSON(e map[string]any, r *rand.Rand, ctxAware bool) string {
	if e["m"] == "blk" && e["k"] != "inv" {
		tag := 2 * r.Intn(21)
		if ctxAware && r.Intn(2) == 0 {
			tag = 1
		}
		return entryJSON(e, tag, r.Intn(3))
	}
	return entryJSON(e, 0, r.Intn(3))
}

func runStress(tracePath string, seed int64, nreq, workers int, ctxAware bool, sum *tl.Summary) {
	meta := map[string]any{"szErr": float64(40), "szRet": float64(10), "szBig": float64(60), "szInv": float64(43)}
	checkSizes(meta)
	srv := rpc.NewServer()
	srv.SetBatchLimits(0, 100)
	if err := srv.RegisterName("t", stressService{}); err != nil {
		tl.Fatal("register: %v", err)
	}
	defer srv.Stop()
	type rec struct {
		m   map[string]any
		out []outObs
	}
	results := make([][]rec, workers)
	var wg sync.WaitGroup
	for g := 0; g < workers; g++ {
		g := g
		r := rand.New(rand.NewSource(seed*1000 + int64(g)))
		wg.Add(1)
		go func() {
			defer wg.Done()
			parser := &rpcWorld{}
			for i := 0; i < nreq/workers; i++ {
				m := map[string]any{"batch": r.Intn(3) > 0}
				var items []any
				n := 1
				if m["batch"].(bool) {
					n = r.Intn(4)
				}
				var parts []string
				for j := 0; j < n; j++ {
					e := randEntry(r)
					items = append(items, e)
					parts = append(parts, stressEntryJSON(e, r, ctxAware))
				}
				if items == nil {
					items = []any{}
				}
				m["items"] = items
				body := "[" + strings.Join(parts, ",") + "]"
				if !m["batch"].(bool) {
					body = parts[0]
				}
				ctx := context.Background()
				var cancel context.CancelFunc = func() {}
				if r.Intn(2) == 0 {
					ctx, cancel = context.WithTimeout(ctx, stressTimeout)
				} else {
					ctx = context.WithValue(ctx, http.ServerContextKey, &http.Server{WriteTimeout: stressTimeout + 100*time.Millisecond})
				}
				req := httptest.NewRequest("POST", "/", strings.NewReader(body)).WithContext(ctx)
				req.Header.Set("content-type", "application/json")
				w := httptest.NewRecorder()
				srv.ServeHTTP(w, req)
				cancel()
				results[g] = append(results[g], rec{m, parser.parseOut(w.Body.Bytes())})
			}
		}()
	}
	wg.Wait()
	tr := tl.NewTrace(tracePath)
	defer tr.Close()
	tr.Emit(tl.M{"op": "config", "hasTimeout": true, "batchLimit": 0, "sizeLimit": 100})
	shapes := map[string]bool{}
	for _, rs := range results {
		for _, x := range rs {
			tr.Emit(tl.M{"op": "reset"})
			tr.Emit(tl.M{"op": "req", "m": x.m})
			tr.Emit(tl.M{"op": "end", "out": x.out})
			sum.Evaluations++
			sum.Traces++
			sum.Steps += 3
			timedOut := false
			for _, o := range x.out {
				for _, rr := range o.Rs {
					if rr.Kind == "timeout" {
						timedOut = true
					}
				}
			}
			if timedOut {
				sum.Count("with-timeout")
				k := canon(x.m) + "=>" + canon(x.out)
				if !shapes[k] {
					shapes[k] = true
					sum.Distinct++
					if len(shapes)%40 == 1 {
						sum.Sample(tl.M{"request": x.m, "response": x.out})
					}
				}
			} else {
				sum.Count("no-timeout")
			}
		}
	}
	sum.Rule = fmt.Sprintf("evaluations = HTTP requests served by a real rpc.Server from %d goroutines with a %v request timeout; distinct = distinct (request, response) pairs in which the timeout fired", workers, stressTimeout)
}

// f2Repro is a hook-free statistical reproduction of finding C49-F2 for triage: batches
// [cancellation-aware call id 1, immediate call id 2] over HTTP with a few-ms timeout from many
// goroutines; counts response bodies in which id 2 (or both) is missing.  No verdict is derived.
func f2Repro(n int, sum *tl.Summary) {
	meta := map[string]any{"szErr": float64(40), "szRet": float64(10), "szBig": float64(60), "szInv": float64(43)}
	checkSizes(meta)
	srv := rpc.NewServer()
	srv.RegisterName("t", stressService{})
	defer srv.Stop()
	body := `[{"jsonrpc":"2.0","id":1,"method":"t_blk","params":[1]},{"jsonrpc":"2.0","id":2,"method":"t_ret"}]`
	var mu sync.Mutex
	lost, total := 0, 0
	var sample string
	var wg sync.WaitGroup
	for g := 0; g < 32; g++ {
		wg.Add(1)
		go func() {
			defer wg.Done()
			for i := 0; i < n/32; i++ {
				ctx := context.WithValue(context.Background(), http.ServerContextKey, &http.Server{WriteTimeout: 100*time.Millisecond + time.Duration(1+i%5)*time.Millisecond})
				req := httptest.NewRequest("POST", "/", strings.NewReader(body)).WithContext(ctx)
				req.Header.Set("content-type", "application/json")
				w := httptest.NewRecorder()
				srv.ServeHTTP(w, req)
				out := w.Body.String()
				mu.Lock()
				total++
				if !strings.Contains(out, `"id":2`) || !strings.Contains(out, `"id":1`) {
					lost++
					sample = out
				}
				mu.Unlock()
			}
		}()
	}
	wg.Wait()
	sum.Evaluations = total
	sum.Extra["responses_missing_a_call_id"] = lost
	sum.Extra["sample_incomplete_response"] = sample
	fmt.Printf("C49-F2 repro: %d of %d batch responses lack the response for id 1 or id 2; sample: %q\n", lost, total, sample)
}
