// c49 drives the real rpc.Server for property C49 (JSON-RPC answers every call exactly once).
//
//	-mode replay -in graph.json   schedules enumerated by TLC from spec/net/MCRPCSched.tla are
//	                              forced on a real rpc.Server inside a testing/synctest bubble:
//	                              the test service's methods are harness code blocking on gates,
//	                              the timeout is fired by advancing the bubble's fake clock; after
//	                              every environment step the raw bytes written by the server are
//	                              parsed and compared with the model's output sequence (R)
//
// Transports: "conn" = rpc.Server.ServeCodec over net.Pipe (persistent connection),
// "http" = rpc.Server.ServeHTTP with a request context carrying the timeout.
//
// Build with GOEXPERIMENT=synctest (go1.24).
package main

import (
	"bytes"
	"context"
	"encoding/json"
	"flag"
	"fmt"
	"io"
	"net"
	"net/http"
	"net/http/httptest"
	"os"
	"strings"
	"sync"
	"testing/synctest"
	"time"

	"github.com/ethereum/go-ethereum/rpc"
	tl "verif/harness/tracelib"
)

const timeout = 10 * time.Second // fake time inside the bubble

// ---------------------------------------------------------------- the test service

type gate struct {
	ch       chan struct{}
	entered  bool
	released bool
}

type subRec struct {
	n  *rpc.Notifier
	id rpc.ID
}

type rpcWorld struct {
	mu     sync.Mutex
	mode   string
	meta   map[string]any
	pathNo int
	srv    *rpc.Server
	gates  map[int]*gate
	subs   []subRec
	sent   []int
	nrecv  int
	cblocked map[int]int
	// timer gate (verif hook in rpc/handler.go): the timer function waits here between cancel() and
	// the error response until the schedule says "TimerBody"
	gated       bool
	timerGate   chan struct{}
	gateEntered bool
	cancels     []context.CancelFunc
	// conn
	cli, srvEnd net.Conn
	outBuf      bytes.Buffer
	done        sync.WaitGroup
	// http
	recs   []*httptest.ResponseRecorder
	served []bool
}

type service struct{ w *rpcWorld }

var (
	retVal = "ok345678"                                                   // 10 bytes as JSON
	bigVal = strings.Repeat("B", 58)                                      // 60 bytes as JSON
	errMsg = ""                                                           // set in init: error object of exactly szErr bytes
)

type svcError struct{ msg string }

func (e svcError) Error() string  { return e.msg }
func (e svcError) ErrorCode() int { return -32000 }

func (s *service) Ret() string { return retVal }

// Subscription is an ordinary method whose RPC name ("t_subscription") ends in the suffix that marks
// subscription notifications on the client side; as a call it must be answered like any other.
func (s *service) Subscription() string { return retVal }
func (s *service) Big() string { return bigVal }
func (s *service) Err() error  { return svcError{errMsg} }

// Blk blocks until the harness opens the gate of this call. It deliberately ignores ctx: a method
// need not return when the request times out (handler.go: "the currently-running method might not
// return immediately on timeout").
func (s *service) Blk(ctx context.Context, tag int) string {
	w := s.w
	w.mu.Lock()
	g := w.gates[tag]
	if g == nil {
		g = &gate{ch: make(chan struct{})}
		w.gates[tag] = g
	}
	g.entered = true
	w.mu.Unlock()
	<-g.ch
	return retVal
}

// Cblk is a cancellation-aware method: it returns as soon as the request context is cancelled.
func (s *service) Cblk(ctx context.Context, tag int) string {
	w := s.w
	w.mu.Lock()
	w.cblocked[tag/100]++
	w.mu.Unlock()
	<-ctx.Done()
	w.mu.Lock()
	w.cblocked[tag/100]--
	w.mu.Unlock()
	return retVal
}

// Feed is a subscription: it notifies once from inside the call (before the response can have been
// written) and later whenever the harness says so.
func (s *service) Feed(ctx context.Context, tag int) (*rpc.Subscription, error) {
	n, ok := rpc.NotifierFromContext(ctx)
	if !ok {
		return nil, rpc.ErrNotificationsUnsupported
	}
	sub := n.CreateSubscription()
	w := s.w
	w.mu.Lock()
	w.subs = append(w.subs, subRec{n, sub.ID})
	w.sent = append(w.sent, 1)
	w.mu.Unlock()
	n.Notify(sub.ID, 1)
	return sub, nil
}

// ---------------------------------------------------------------- world

func num(v any) int { return int(v.(float64)) }

func newRPCWorld(meta map[string]any, pathNo int) *rpcWorld {
	w := &rpcWorld{mode: meta["mode"].(string), meta: meta, pathNo: pathNo, gates: map[int]*gate{}, cblocked: map[int]int{}}
	if g, ok := meta["gated"].(bool); ok && g {
		w.gated = true
		w.timerGate = make(chan struct{})
		rpc.VerifHook = func(ev string, kv ...any) {
			w.mu.Lock()
			w.gateEntered = true
			w.mu.Unlock()
			<-w.timerGate
			w.mu.Lock()
			w.gateEntered = false
			w.mu.Unlock()
		}
	} else {
		rpc.VerifHook = nil
	}
	w.srv = rpc.NewServer()
	w.srv.SetBatchLimits(num(meta["batchLimit"]), num(meta["sizeLimit"]))
	if err := w.srv.RegisterName("t", &service{w}); err != nil {
		tl.Fatal("register: %v", err)
	}
	if w.mode == "conn" {
		w.cli, w.srvEnd = net.Pipe()
		w.done.Add(2)
		go func() {
			defer w.done.Done()
			w.srv.ServeCodec(rpc.NewCodec(w.srvEnd), 0)
		}()
		go func() {
			defer w.done.Done()
			buf := make([]byte, 4096)
			for {
				n, err := w.cli.Read(buf)
				w.mu.Lock()
				w.outBuf.Write(buf[:n])
				w.mu.Unlock()
				if err != nil {
					return
				}
			}
		}()
	}
	return w
}

func entryJSON(e map[string]any, tag int, variant int) string {
	id := num(e["id"])
	meth, params := "", ""
	switch e["m"].(string) {
	case "ret":
		meth = "t_ret"
	case "nsub":
		meth = "t_subscription"
	case "big":
		meth = "t_big"
	case "err":
		meth = "t_err"
	case "blk":
		meth, params = "t_blk", fmt.Sprintf(`,"params":[%d]`, tag)
	case "cblk":
		meth, params = "t_cblk", fmt.Sprintf(`,"params":[%d]`, tag)
	case "sub":
		meth, params = "t_subscribe", fmt.Sprintf(`,"params":["feed",%d]`, tag)
	}
	switch e["k"].(string) {
	case "call":
		return fmt.Sprintf(`{"jsonrpc":"2.0","id":%d,"method":"%s"%s}`, id, meth, params)
	case "notif":
		return fmt.Sprintf(`{"jsonrpc":"2.0","method":"%s"%s}`, meth, params)
	case "inv":
		if id == 0 {
			return [...]string{`{}`, `{"jsonrpc":"2.0"}`, `{"foo":"bar"}`}[variant%3]
		}
		return fmt.Sprintf([...]string{`{"jsonrpc":"1.0","id":%d,"method":"t_ret"}`, `{"jsonrpc":"2.0","id":%d}`, `{"id":%d,"method":"t_ret"}`}[variant%3], id)
	case "resp":
		return fmt.Sprintf(`{"jsonrpc":"2.0","id":%d,"result":"unsolicited"}`, id)
	}
	tl.Fatal("bad entry %v", e)
	return ""
}

func (w *rpcWorld) messageJSON(m map[string]any, p int) string {
	items := m["items"].([]any)
	var parts []string
	for i, it := range items {
		parts = append(parts, entryJSON(it.(map[string]any), p*100+i+1, w.pathNo+i))
	}
	if m["batch"].(bool) {
		return "[" + strings.Join(parts, ",") + "]"
	}
	return parts[0]
}

func (w *rpcWorld) Do(act map[string]any) {
	switch act["op"].(string) {
	case "Recv":
		w.nrecv++
		p := w.nrecv
		body := w.messageJSON(act["m"].(map[string]any), p)
		if w.mode == "conn" {
			if _, err := w.cli.Write([]byte(body + "\n")); err != nil {
				tl.Fatal("pipe write: %v", err)
			}
		} else {
			ctx, cancel := context.WithCancel(context.Background())
			w.cancels = append(w.cancels, cancel)
			if w.meta["hasTimeout"].(bool) {
				if w.pathNo%2 == 0 {
					ctx, _ = context.WithTimeout(ctx, timeout)
				} else { // the http.Server.WriteTimeout route of ContextRequestTimeout
					ctx = context.WithValue(ctx, http.ServerContextKey, &http.Server{WriteTimeout: timeout + 100*time.Millisecond})
				}
			}
			req := httptest.NewRequest("POST", "/", strings.NewReader(body)).WithContext(ctx)
			req.Header.Set("content-type", "application/json")
			rec := httptest.NewRecorder()
			w.mu.Lock()
			w.recs = append(w.recs, rec)
			w.served = append(w.served, false)
			idx := len(w.recs) - 1
			w.mu.Unlock()
			w.done.Add(1)
			go func() {
				defer w.done.Done()
				w.srv.ServeHTTP(rec, req)
				w.mu.Lock()
				w.served[idx] = true
				w.mu.Unlock()
			}()
		}
	case "Release":
		p := num(act["p"])
		w.mu.Lock()
		var open []*gate
		for tag, g := range w.gates {
			if tag/100 == p && g.entered && !g.released {
				g.released = true
				open = append(open, g)
			}
		}
		w.mu.Unlock()
		if len(open) != 1 {
			tl.Fatal("Release(%d): %d blocked methods", p, len(open))
		}
		close(open[0].ch)
	case "Timer":
		time.Sleep(timeout + time.Second)
	case "TimerBody":
		w.mu.Lock()
		entered := w.gateEntered
		w.mu.Unlock()
		if !entered {
			tl.Fatal("TimerBody: the timer function is not waiting at the gate")
		}
		close(w.timerGate)
	case "Notify":
		j := num(act["p"]) - 1
		w.mu.Lock()
		if j >= len(w.subs) {
			w.mu.Unlock()
			tl.Fatal("Notify(%d): no such subscription", j+1)
		}
		s := w.subs[j]
		w.sent[j]++
		k := w.sent[j]
		w.mu.Unlock()
		s.n.Notify(s.id, k)
	default:
		tl.Fatal("unknown action %v", act)
	}
	synctest.Wait()
}

type respObs struct {
	ID   int    `json:"id"`
	Kind string `json:"kind"`
	Sub  int    `json:"sub"`
}
type outObs struct {
	T   string    `json:"t"`
	Rs  []respObs `json:"rs"`
	Sub int       `json:"sub"`
	K   int       `json:"k"`
}
type obsT struct {
	Out     []outObs `json:"out"`
	Blocked []bool   `json:"blocked"`
	Gate    []bool   `json:"gate"`
	Served  bool     `json:"served"`
}

type wireMsg struct {
	ID     json.RawMessage `json:"id"`
	Method string          `json:"method"`
	Params json.RawMessage `json:"params"`
	Error  *struct {
		Code int `json:"code"`
	} `json:"error"`
	Result json.RawMessage `json:"result"`
}

func (w *rpcWorld) subIndex(id string) int {
	for j, s := range w.subs {
		if string(s.id) == id {
			return j + 1
		}
	}
	return 0
}

func (w *rpcWorld) classify(m wireMsg) respObs {
	r := respObs{}
	if len(m.ID) > 0 && string(m.ID) != "null" {
		if err := json.Unmarshal(m.ID, &r.ID); err != nil {
			r.ID = -1
		}
	}
	switch {
	case m.Error == nil:
		r.Kind = "ok"
		var s string
		if json.Unmarshal(m.Result, &s) == nil {
			r.Sub = w.subIndex(s)
		}
	case m.Error.Code == -32002:
		r.Kind = "timeout"
	case m.Error.Code == -32003:
		r.Kind = "toolarge"
	case m.Error.Code == -32600:
		r.Kind = "invalid"
	default:
		r.Kind = "err"
	}
	return r
}

// parseOut splits the raw bytes written by the server into top-level JSON values.
func (w *rpcWorld) parseOut(raw []byte) []outObs {
	out := []outObs{}
	dec := json.NewDecoder(bytes.NewReader(raw))
	for {
		var v json.RawMessage
		if err := dec.Decode(&v); err != nil {
			if err != io.EOF {
				out = append(out, outObs{T: "garbage", Rs: []respObs{}})
			}
			return out
		}
		t := bytes.TrimSpace(v)
		if len(t) > 0 && t[0] == '[' {
			var ms []wireMsg
			o := outObs{T: "batch", Rs: []respObs{}}
			if err := json.Unmarshal(t, &ms); err != nil {
				o.T = "garbage"
			}
			for _, m := range ms {
				o.Rs = append(o.Rs, w.classify(m))
			}
			out = append(out, o)
			continue
		}
		var m wireMsg
		if err := json.Unmarshal(t, &m); err != nil {
			out = append(out, outObs{T: "garbage", Rs: []respObs{}})
			continue
		}
		if strings.HasSuffix(m.Method, "_subscription") {
			var p struct {
				Subscription string `json:"subscription"`
				Result       int    `json:"result"`
			}
			json.Unmarshal(m.Params, &p)
			out = append(out, outObs{T: "note", Rs: []respObs{}, Sub: w.subIndex(p.Subscription), K: p.Result})
			continue
		}
		out = append(out, outObs{T: "single", Rs: []respObs{w.classify(m)}})
	}
}

func (w *rpcWorld) Observe() any {
	w.mu.Lock()
	defer w.mu.Unlock()
	var raw []byte
	served := false
	if w.mode == "conn" {
		raw = append(raw, w.outBuf.Bytes()...)
	} else {
		served = len(w.recs) > 0
		for i, r := range w.recs {
			raw = append(raw, r.Body.Bytes()...)
			served = served && w.served[i]
		}
	}
	o := obsT{Out: w.parseOut(raw), Served: served}
	n := num(w.meta["maxMsgs"])
	for p := 1; p <= n; p++ {
		b := false
		for tag, g := range w.gates {
			if tag/100 == p && g.entered && !g.released {
				b = true
			}
		}
		o.Blocked = append(o.Blocked, b || w.cblocked[p] > 0)
		o.Gate = append(o.Gate, p == 1 && w.gateEntered)
	}
	return o
}

func (w *rpcWorld) Cleanup() {
	defer func() { rpc.VerifHook = nil }()
	w.mu.Lock()
	if w.gated && w.gateEntered {
		select {
		case <-w.timerGate:
		default:
			close(w.timerGate)
		}
	} else if w.gated {
		// the timer may still fire later (during the cancellation below): never block it again
		select {
		case <-w.timerGate:
		default:
			close(w.timerGate)
		}
	}
	for _, c := range w.cancels {
		c() // unblocks cancellation-aware methods
	}
	w.mu.Unlock()
	synctest.Wait()
	w.mu.Lock()
	for _, g := range w.gates {
		if !g.released {
			g.released = true
			close(g.ch)
		}
	}
	w.mu.Unlock()
	synctest.Wait()
	// a method may have been entered only now (after an earlier one was released)
	for i := 0; i < 8; i++ {
		w.mu.Lock()
		n := 0
		for _, g := range w.gates {
			if !g.released {
				g.released = true
				close(g.ch)
				n++
			}
		}
		w.mu.Unlock()
		if n == 0 {
			break
		}
		synctest.Wait()
	}
	if w.mode == "conn" {
		w.cli.Close()
	}
	w.srv.Stop()
	w.done.Wait()
}

// sizes of the response payloads the model's size limit is computed from
func checkSizes(meta map[string]any) {
	base, _ := json.Marshal(map[string]any{"code": -32000, "message": ""})
	pad := num(meta["szErr"]) - len(base)
	if pad < 0 {
		tl.Fatal("szErr too small")
	}
	errMsg = strings.Repeat("e", pad)
	rj, _ := json.Marshal(retVal)
	bj, _ := json.Marshal(bigVal)
	inv := `{"code":-32600,"message":"invalid request"}`
	if len(rj) != num(meta["szRet"]) || len(bj) != num(meta["szBig"]) || len(inv) != num(meta["szInv"]) {
		tl.Fatal("payload sizes differ from the model constants: ret %d big %d inv %d", len(rj), len(bj), len(inv))
	}
}

func main() {
	mode := flag.String("mode", "replay", "replay|stress|f2repro")
	trace := flag.String("trace", "", "ndjson output (stress)")
	nreq := flag.Int("n", 600, "requests (stress)")
	workers := flag.Int("workers", 6, "goroutines (stress)")
	ctxAware := flag.Bool("ctxaware", false, "include methods that return on context cancellation (stress)")
	in := flag.String("in", "", "schedule graph (replay)")
	out := flag.String("out", "", "summary output")
	flag.Parse()
	seed := int64(tl.EnvInt("VERIF_SEED", 1))
	sum := tl.NewSummary("c49", *mode, seed)
	switch *mode {
	case "replay":
		sc := loadSched(*in)
		checkSizes(sc.g.Meta)
		what := "rpc.Server/" + sc.g.Meta["mode"].(string)
		explore(sc, func(pathNo int) world { return newRPCWorld(sc.g.Meta, pathNo+int(seed)) }, sum, what)
		sum.Rule = "evaluations = TLC-derived schedules executed on a real rpc.Server under synctest; distinct = covered (quiescent model state, environment step) pairs of MCRPCSched whose parsed raw output (single/batch responses with id and error class, notifications) and blocked-method set matched the specification"
	case "f2repro":
		f2Repro(*nreq, sum)
	case "stress":
		runStress(*trace, seed, *nreq, *workers, *ctxAware, sum)
	default:
		tl.Fatal("unknown mode %s", *mode)
	}
	if *out != "" {
		sum.Write(*out)
	}
	if len(sum.Violations) > 0 {
		os.Exit(1)
	}
}
