package main

import (
	"context"
	"fmt"
	"net/http/httptest"
	"strings"
	"time"

	"github.com/ethereum/go-ethereum/rpc"
)

type svc struct{}

func (svc) Block(ctx context.Context) string { time.Sleep(300 * time.Millisecond); return "late" }

func main() {
	srv := rpc.NewServer()
	srv.RegisterName("t", svc{})
	for _, body := range []string{`{"jsonrpc":"2.0","method":"t_block"}`, `{"jsonrpc":"2.0","id":1,"method":"t_block"}`, `[{"jsonrpc":"2.0","method":"t_block"}]`, `[{"jsonrpc":"2.0","method":"t_block"},{"jsonrpc":"2.0","id":2,"method":"t_block"}]`} {
		ctx, cancel := context.WithTimeout(context.Background(), 50*time.Millisecond)
		req := httptest.NewRequest("POST", "/", strings.NewReader(body)).WithContext(ctx)
		req.Header.Set("content-type", "application/json")
		rec := httptest.NewRecorder()
		srv.ServeHTTP(rec, req)
		cancel()
		fmt.Printf("%s\n  -> %d %q\n", body, rec.Code, rec.Body.String())
	}
}
