package main

import (
	"encoding/json"
	"fmt"
	"sort"
	"testing/synctest"

	tl "verif/harness/tracelib"
)

// Generic replay of a TLC schedule graph (run-to-quiescence semantics) on a real system inside a
// testing/synctest bubble.  The graph is nondeterministic in general: the explorer keeps the set of
// model states that are consistent with everything observed so far (subset construction) and
// reports a violation only when no model state explains the real observation.

type graphT struct {
	Meta   map[string]any   `json:"meta"`
	Init   int              `json:"init"`
	States []stateT         `json:"states"`
	Acts   []map[string]any `json:"acts"`
	Edges  [][3]int         `json:"edges"` // from, to, act index (-1 = internal step)
}
type stateT struct {
	Obs   string `json:"obs"` // canonical JSON (sorted keys, no spaces)
	Quiet bool   `json:"quiet"`
	Ok    *bool  `json:"ok"` // false: the state violates the property invariants (as-coded graphs only)
}
type envEdge struct{ act, to int }

type world interface {
	Do(act map[string]any) // perform one environment step, then wait for quiescence
	Observe() any          // JSON-marshalable observation
	Cleanup()
}

type sched struct {
	g     *graphT
	tau   [][]int
	env   [][]envEdge
	macro map[[2]int][]int
}

func canon(v any) string {
	b, err := json.Marshal(v)
	if err != nil {
		tl.Fatal("marshal obs: %v", err)
	}
	var x any
	if err := json.Unmarshal(b, &x); err != nil {
		tl.Fatal("reparse obs: %v", err)
	}
	b, _ = json.Marshal(x)
	return string(b)
}

func loadSched(path string) *sched {
	g := &graphT{}
	tl.ReadJSON(path, g)
	sc := &sched{g: g, tau: make([][]int, len(g.States)), env: make([][]envEdge, len(g.States)), macro: map[[2]int][]int{}}
	for _, e := range g.Edges {
		if e[2] < 0 {
			sc.tau[e[0]] = append(sc.tau[e[0]], e[1])
		} else {
			sc.env[e[0]] = append(sc.env[e[0]], envEdge{e[2], e[1]})
		}
	}
	return sc
}

func (sc *sched) closure(start []int) []int {
	seen := map[int]bool{}
	var out []int
	stack := append([]int{}, start...)
	for len(stack) > 0 {
		s := stack[len(stack)-1]
		stack = stack[:len(stack)-1]
		if seen[s] {
			continue
		}
		seen[s] = true
		if sc.g.States[s].Quiet {
			out = append(out, s)
			continue
		}
		stack = append(stack, sc.tau[s]...)
	}
	sort.Ints(out)
	return out
}

func (sc *sched) step(q, a int) []int {
	k := [2]int{q, a}
	if r, ok := sc.macro[k]; ok {
		return r
	}
	var first []int
	for _, e := range sc.env[q] {
		if e.act == a {
			first = append(first, e.to)
		}
	}
	r := sc.closure(first)
	sc.macro[k] = r
	return r
}

type pathStep struct {
	Act  map[string]any `json:"act"`
	Real json.RawMessage `json:"real"`
}

// explore covers every (quiescent state, environment action) pair reachable in the graph.
// pending(desc, replay) lets the caller classify a divergence before it is reported.
func explore(sc *sched, newWorld func(pathNo int) world, sum *tl.Summary, what string) {
	g := sc.g
	initQ := sc.closure([]int{g.Init})
	if len(initQ) != 1 {
		tl.Fatal("initial state not quiescent/unique: %v", initQ)
	}
	type key = [2]int
	covered := map[key]bool{}
	reach := map[int]bool{initQ[0]: true}
	type par struct{ q, a int }
	parent := map[int]par{}
	queue := []int{initQ[0]}
	total := 0
	for len(queue) > 0 {
		q := queue[0]
		queue = queue[1:]
		seenA := map[int]bool{}
		for _, e := range sc.env[q] {
			if seenA[e.act] {
				continue
			}
			seenA[e.act] = true
			total++
			for _, t := range sc.step(q, e.act) {
				if !reach[t] {
					reach[t] = true
					parent[t] = par{q, e.act}
					queue = append(queue, t)
				}
			}
		}
	}
	pathTo := func(q int) []int {
		var rev []int
		for q != initQ[0] {
			p := parent[q]
			rev = append(rev, p.a)
			q = p.q
		}
		for i, j := 0, len(rev)-1; i < j; i, j = i+1, j-1 {
			rev[i], rev[j] = rev[j], rev[i]
		}
		return rev
	}
	uncoveredAct := func(q int) (int, bool) {
		for _, e := range sc.env[q] {
			if !covered[key{q, e.act}] {
				return e.act, true
			}
		}
		return 0, false
	}
	var order []int
	for q := range reach {
		order = append(order, q)
	}
	sort.Ints(order)
	nondet, unreached, paths, divergences, behind := 0, 0, 0, 0, 0
	diverged := map[key]bool{}
	badSeen := map[int]bool{}
	var badPaths []any
	maxPaths := 4*total + 10
	for _, target := range order {
		for {
			if _, ok := uncoveredAct(target); !ok || paths >= maxPaths || divergences >= 20 {
				break
			}
			paths++
			prefix := pathTo(target)
			var hist []pathStep
			progressed := false
			synctest.Run(func() {
				w := newWorld(paths)
				defer w.Cleanup()
				synctest.Wait()
				cand := initQ
				pi := 0
				for steps := 0; steps < 200; steps++ {
					var a int
					if pi < len(prefix) {
						a = prefix[pi]
						pi++
					} else {
						var ok bool
						a, ok = uncoveredAct(cand[0])
						if !ok {
							return
						}
					}
					w.Do(g.Acts[a])
					real := canon(w.Observe())
					hist = append(hist, pathStep{g.Acts[a], json.RawMessage(real)})
					var next []int
					var expected []json.RawMessage
					seen := map[int]bool{}
					for _, q := range cand {
						succ := sc.step(q, a)
						matched := false
						for _, t := range succ {
							if g.States[t].Obs == real {
								matched = true
								if !seen[t] {
									seen[t] = true
									next = append(next, t)
								}
							} else if len(expected) < 4 {
								expected = append(expected, json.RawMessage(g.States[t].Obs))
							}
						}
						if matched && !covered[key{q, a}] {
							covered[key{q, a}] = true
							progressed = true
							sum.Distinct++
						}
						if len(succ) > 1 {
							nondet++
						}
					}
					sum.Steps++
					sum.Count(fmt.Sprint(g.Acts[a]["op"]))
					if len(next) == 0 {
						// mark as covered so that exploration continues past a divergence
						dup := true
						for _, q := range cand {
							covered[key{q, a}] = true
							if !diverged[key{q, a}] {
								diverged[key{q, a}] = true
								dup = false
							}
						}
						if dup { // the way to the target leads through a divergence already reported
							for _, e := range sc.env[target] {
								covered[key{target, e.act}] = true
							}
							behind++
							progressed = true
							return
						}
						divergences++
						progressed = true
						sum.Violate(fmt.Sprintf("%s: after %d environment steps, %v(%v) leads to an observable state the specification does not allow", what, len(hist), g.Acts[a]["op"], g.Acts[a]["p"]),
							tl.M{"what": what, "meta": g.Meta, "path": hist, "expected_one_of": expected})
						return
					}
					cand = next
					if len(next) == 1 && g.States[next[0]].Ok != nil && !*g.States[next[0]].Ok && !badSeen[next[0]] {
						badSeen[next[0]] = true
						if len(badPaths) < 3 {
							badPaths = append(badPaths, tl.M{"path": append([]pathStep{}, hist...)})
						}
					}
				}
			})
			sum.Evaluations++
			if paths%100 == 1 && len(hist) > 0 {
				sum.Sample(tl.M{"what": what, "schedule": hist[:min(len(hist), 6)]})
			}
			if !progressed {
				if a, ok := uncoveredAct(target); ok {
					covered[key{target, a}] = true
					unreached++
				}
			}
		}
	}
	sum.Extra["macro_steps_total"] = total
	sum.Extra["macro_steps_covered"] = sum.Distinct
	sum.Extra["quiet_states"] = len(reach)
	sum.Extra["nondeterministic_macro_steps_seen"] = nondet
	sum.Extra["macro_steps_not_taken_by_runtime"] = unreached
	sum.Extra["states_behind_a_divergence"] = behind
	sum.Extra["property_violating_states_reached_on_real_code"] = len(badSeen)
	sum.Extra["property_violating_paths"] = badPaths
}
