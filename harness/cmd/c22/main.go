// c22 runs the TLC-enumerated layer stacks of spec/state/FlatIter.tla on the real flat-state
// iterators for property C22: pathdb fast (Database.AccountIterator / StorageIterator) and
// binary iterators, legacy snapshot.Tree fast and binary iterators, at account and at storage
// level.  Every case carries the specification's expected output (the existing entries of the
// state in ascending hash order from the seek position on, each tagged with the layer it must
// come from).
//
//	-mode cases -in cases.json
package main

import (
	"flag"
	"fmt"
	"os"

	"github.com/ethereum/go-ethereum/common"
	"github.com/ethereum/go-ethereum/core/rawdb"
	"github.com/ethereum/go-ethereum/core/state/snapshot"
	"github.com/ethereum/go-ethereum/core/types"
	"github.com/ethereum/go-ethereum/crypto"
	"github.com/ethereum/go-ethereum/log"
	"github.com/ethereum/go-ethereum/trie/trienode"
	"github.com/ethereum/go-ethereum/triedb"
	"github.com/ethereum/go-ethereum/triedb/pathdb"
	tl "verif/harness/tracelib"
)

type kcase struct {
	NKeys int        `json:"nkeys"`
	Stack [][][2]int `json:"stack"` // bottom first; layer = list of [key, value], value 0 = tombstone
	Seek  int        `json:"seek"`
	Want  [][2]int   `json:"want"`
}

// keyHash places model key k at 0x(k)0 11 11 ... ; the order of hashes is the order of keys.
func keyHash(k int) common.Hash {
	var h common.Hash
	for i := range h {
		h[i] = 0x11
	}
	h[0] = byte(k) << 4
	return h
}

// seekHash maps seek position p (key k sits at 2k): an even position is exactly the key's
// hash, an odd one lies strictly between two keys.
func seekHash(p int) common.Hash {
	if p%2 == 0 {
		return keyHash(p / 2)
	}
	var h common.Hash
	h[0] = byte(p/2)<<4 | 0x08
	return h
}

func keyOf(h common.Hash) int { return int(h[0] >> 4) }

func blob(v int) []byte {
	if v == 0 {
		return nil
	}
	return []byte{byte(v), 0xaa, 0xbb}
}

var owner = func() common.Hash { h := keyHash(9); return h }()

func rootOf(i int) common.Hash { return crypto.Keccak256Hash([]byte(fmt.Sprintf("c22-root-%d", i))) }

type iter interface {
	Next() bool
	Error() error
	Hash() common.Hash
	Release()
}

func drain(it iter, val func() []byte) ([][2]int, error) {
	defer it.Release()
	out := [][2]int{}
	var last common.Hash
	for n := 0; it.Next(); n++ {
		h := it.Hash()
		if n > 0 && string(h[:]) <= string(last[:]) {
			return out, fmt.Errorf("hashes not ascending: %x after %x", h[:2], last[:2])
		}
		last = h
		b := val()
		if len(b) == 0 {
			return out, fmt.Errorf("empty value exported for key %d", keyOf(h))
		}
		out = append(out, [2]int{keyOf(h), int(b[0])})
		if n > 64 {
			return out, fmt.Errorf("iterator does not terminate")
		}
	}
	return out, it.Error()
}

// sets turns a model layer into the account / storage maps handed to Update.
func sets(layer [][2]int, storage bool) (map[common.Hash][]byte, map[common.Hash]map[common.Hash][]byte) {
	accounts := map[common.Hash][]byte{}
	storages := map[common.Hash]map[common.Hash][]byte{}
	if !storage {
		for _, e := range layer {
			accounts[keyHash(e[0])] = blob(e[1])
		}
		return accounts, storages
	}
	if len(layer) > 0 {
		accounts[owner] = []byte{0x01, 0x02} // the owning account changes along with its slots
		slots := map[common.Hash][]byte{}
		for _, e := range layer {
			slots[keyHash(e[0])] = blob(e[1])
		}
		storages[owner] = slots
	}
	return accounts, storages
}

func same(a, b [][2]int) bool {
	if len(a) != len(b) {
		return false
	}
	for i := range a {
		if a[i] != b[i] {
			return false
		}
	}
	return true
}

// runPathdb builds the stack on a real pathdb.Database: layer 1 is flushed into the key-value
// store (Commit), layer 2 is merged into the disk layer's write buffer (cap with a buffer that
// never fills), the remaining layers stay diff layers.
func runPathdb(c *kcase, storage bool, sum *tl.Summary) {
	disk := rawdb.NewMemoryDatabase()
	db := pathdb.New(disk, &pathdb.Config{TrieCleanSize: 1 << 16, StateCleanSize: 1 << 16, WriteBufferSize: 1 << 28,
		NoAsyncFlush: true, NoAsyncGeneration: true, TrienodeHistory: -1}, false)
	defer db.Close()
	fail := func(format string, a ...any) {
		lvl := "account"
		if storage {
			lvl = "storage"
		}
		sum.Violate("pathdb "+lvl+" iterator: "+fmt.Sprintf(format, a...), tl.M{"case": c, "storage": storage})
	}
	parent := types.EmptyRootHash
	next := 1
	add := func(layer [][2]int) common.Hash {
		acc, sto := sets(layer, storage)
		r := rootOf(next)
		next++
		if err := db.Update(r, parent, uint64(next), trienode.NewMergedNodeSet(), pathdb.NewStateSetWithOrigin(acc, sto, nil, nil, false)); err != nil {
			tl.Fatal("pathdb update: %v", err)
		}
		parent = r
		return r
	}
	if len(c.Stack[0]) > 0 {
		r := add(c.Stack[0])
		if err := db.Commit(r, false); err != nil {
			tl.Fatal("pathdb commit: %v", err)
		}
	}
	top := parent
	bufRoot := common.Hash{}
	if len(c.Stack[1]) > 0 {
		bufRoot = add(c.Stack[1])
		top = bufRoot
	}
	for _, l := range c.Stack[2:] {
		top = add(l)
	}
	if bufRoot != (common.Hash{}) {
		head := top
		n := len(c.Stack) - 2
		if n == 0 { // no diff layer above: a throw-away child lets cap flatten the buffer layer
			acc, sto := sets([][2]int{{7, 9}}, storage)
			head = rootOf(99)
			if err := db.Update(head, bufRoot, 99, trienode.NewMergedNodeSet(), pathdb.NewStateSetWithOrigin(acc, sto, nil, nil, false)); err != nil {
				tl.Fatal("pathdb update: %v", err)
			}
			n = 1
		}
		if err := db.VerifCap(head, n); err != nil {
			tl.Fatal("pathdb cap: %v", err)
		}
		if d := db.VerifDisk(); d.Root != bufRoot || d.BufferLayers != 1 {
			tl.Fatal("stack construction: disk root %x buffer layers %d", d.Root[:4], d.BufferLayers)
		}
	}
	seek := seekHash(c.Seek)
	var (
		fast, bin iter
		fv, bv    func() []byte
		err       error
	)
	if !storage {
		var a pathdb.AccountIterator
		if a, err = db.AccountIterator(top, seek); err == nil {
			fast, fv = a, a.Account
		}
		var b pathdb.AccountIterator
		if err == nil {
			if b, err = db.VerifBinaryAccountIterator(top, seek); err == nil {
				bin, bv = b, b.Account
			}
		}
	} else {
		var a pathdb.StorageIterator
		if a, err = db.StorageIterator(top, owner, seek); err == nil {
			fast, fv = a, a.Slot
		}
		var b pathdb.StorageIterator
		if err == nil {
			if b, err = db.VerifBinaryStorageIterator(top, owner, seek); err == nil {
				bin, bv = b, b.Slot
			}
		}
	}
	if err != nil {
		fail("cannot be created: %v", err)
		return
	}
	if got, err := drain(fast, fv); err != nil || !same(got, c.Want) {
		fail("fast iterator yields %v (err %v), specification %v", got, err, c.Want)
	}
	if got, err := drain(bin, bv); err != nil || !same(got, c.Want) {
		fail("binary iterator yields %v (err %v), specification %v", got, err, c.Want)
	}
	sum.Evaluations += 2
}

// runLegacy builds the stack on a legacy snapshot.Tree: layer 1 is flattened into the disk
// layer (Cap 0), the others are diff layers; with two or more of them the lowest ones are
// flattened into the accumulator layer (Cap n).
func runLegacy(c *kcase, storage bool, sum *tl.Summary) {
	disk := rawdb.NewMemoryDatabase()
	tdb := triedb.NewDatabase(disk, nil)
	snaps, err := snapshot.New(snapshot.Config{CacheSize: 1}, disk, tdb, types.EmptyRootHash)
	if err != nil {
		tl.Fatal("snapshot.New: %v", err)
	}
	fail := func(format string, a ...any) {
		lvl := "account"
		if storage {
			lvl = "storage"
		}
		sum.Violate("legacy snapshot "+lvl+" iterator: "+fmt.Sprintf(format, a...), tl.M{"case": c, "storage": storage})
	}
	parent := types.EmptyRootHash
	next := 1
	add := func(layer [][2]int) common.Hash {
		acc, sto := sets(layer, storage)
		r := rootOf(next)
		next++
		if err := snaps.Update(r, parent, acc, sto); err != nil {
			tl.Fatal("snapshot update: %v", err)
		}
		parent = r
		return r
	}
	if len(c.Stack[0]) > 0 {
		r := add(c.Stack[0])
		if err := snaps.Cap(r, 0); err != nil {
			tl.Fatal("snapshot cap: %v", err)
		}
	}
	ndiff := 0
	for _, l := range c.Stack[1:] {
		if len(l) > 0 || ndiff > 0 {
			add(l)
			ndiff++
		}
	}
	top := parent
	if ndiff >= 2 {
		if err := snaps.Cap(top, ndiff-1); err != nil { // flattens the lowest diff layers into the accumulator
			tl.Fatal("snapshot cap: %v", err)
		}
	}
	seek := seekHash(c.Seek)
	var (
		fast, bin iter
		fv, bv    func() []byte
	)
	if !storage {
		a, err := snaps.AccountIterator(top, seek)
		if err != nil {
			fail("cannot be created: %v", err)
			return
		}
		b, err := snaps.VerifBinaryAccountIterator(top, seek)
		if err != nil {
			fail("binary iterator cannot be created: %v", err)
			return
		}
		fast, fv, bin, bv = a, a.Account, b, b.Account
	} else {
		a, err := snaps.StorageIterator(top, owner, seek)
		if err != nil {
			fail("cannot be created: %v", err)
			return
		}
		b, err := snaps.VerifBinaryStorageIterator(top, owner, seek)
		if err != nil {
			fail("binary iterator cannot be created: %v", err)
			return
		}
		fast, fv, bin, bv = a, a.Slot, b, b.Slot
	}
	// the legacy layers carry the values of the model layers except that flattening keeps the
	// value tag of the layer an entry was written in: same tags as the specification expects
	if got, err := drain(fast, fv); err != nil || !same(got, c.Want) {
		fail("fast iterator yields %v (err %v), specification %v", got, err, c.Want)
	}
	if got, err := drain(bin, bv); err != nil || !same(got, c.Want) {
		fail("binary iterator yields %v (err %v), specification %v", got, err, c.Want)
	}
	sum.Evaluations += 2
	snaps.Release()
}

func main() {
	mode := flag.String("mode", "cases", "cases")
	in := flag.String("in", "", "cases json")
	out := flag.String("out", "summary.json", "summary output")
	flag.Parse()
	log.SetDefault(log.NewLogger(log.DiscardHandler()))
	seed := int64(tl.EnvInt("VERIF_SEED", 1))
	sum := tl.NewSummary("c22", *mode, seed)
	if *mode != "cases" {
		tl.Fatal("bad mode")
	}
	var cases []kcase
	tl.ReadJSON(*in, &cases)
	seen := map[string]bool{}
	for i := range cases {
		c := &cases[i]
		for _, storage := range []bool{false, true} {
			runPathdb(c, storage, sum)
			runLegacy(c, storage, sum)
		}
		sum.Steps++
		k := fmt.Sprint(c.Stack)
		if !seen[k] {
			seen[k] = true
			if len(c.Stack) > 2 || len(c.Stack[1]) > 0 {
				sum.Distinct++
			}
		}
		sum.Count(fmt.Sprintf("layers-%d", len(c.Stack)))
		if i%1000 == 0 {
			sum.Sample(c)
		}
		if len(sum.Violations) >= 5 {
			break
		}
	}
	sum.Rule = "every emitted (stack, seek) case on pathdb fast+binary and legacy snapshot fast+binary iterators, account and storage level; distinct = distinct stacks with at least one layer above the persistent state"
	sum.Write(*out)
	if len(sum.Violations) > 0 {
		os.Exit(1)
	}
}
