// c24 binds spec/store/Freezer.tla (property C24) to core/rawdb.Freezer.
//
//	-mode xf     run seeded histories (append / sync / truncate head / truncate tail / crash) on a real
//	             freezer with a tiny data-file size limit; the fsync hook of core/rawdb records which file
//	             content is durable; at every fsync (just before it takes effect) and at the end of every
//	             call crash images are materialised (per file: any length between the durable and the
//	             current one, unsynced part written or zero-filled, metadata old or new), each image is
//	             reopened in a child process and projected (Ancients, Tail, every item).  Everything is
//	             recorded as ndjson and validated by spec/store/FreezerTrace.tla, which recomputes the
//	             file-level programs, the crash image and the repair and compares.
//	-mode child  reopen the listed image directories (log.Crit exits the process) and project them.
package main

import (
	"bufio"
	"bytes"
	"context"
	"crypto/sha1"
	"encoding/binary"
	"encoding/json"
	"flag"
	"fmt"
	"math/rand"
	"os"
	"os/exec"
	"path/filepath"
	"regexp"
	"sort"
	"strconv"
	"strings"
	"time"

	"github.com/ethereum/go-ethereum/core/rawdb"
	"github.com/ethereum/go-ethereum/ethdb"
	"github.com/ethereum/go-ethereum/rlp"
	"github.com/golang/snappy"
	tl "verif/harness/tracelib"
)

// ---------------------------------------------------------------- configuration

type tableCfg struct {
	Name     string `json:"name"`
	NoSnappy bool   `json:"nosnappy"`
	Group    string `json:"group"`
}

type config struct {
	Tables  []tableCfg `json:"tables"`
	MaxFile uint32     `json:"maxfile"`
}

var configs = map[string]config{
	// two prunable tables of one tail group, one compressed and one raw
	"g2": {Tables: []tableCfg{{"a", false, "g"}, {"b", true, "g"}}, MaxFile: 64},
	// a non-prunable compressed table and a prunable raw one (the chain freezer's shape)
	"mixed": {Tables: []tableCfg{{"a", false, ""}, {"b", true, "g"}}, MaxFile: 64},
	// two tables that are both not prunable: whichever table a call reaches first is not prunable (used by the
	// directed history of C24-F2, which must not depend on Go's map iteration order)
	"np2": {Tables: []tableCfg{{"a", false, ""}, {"b", true, ""}}, MaxFile: 64},
	// three tables, two tail groups and a non-prunable table
	"g3": {Tables: []tableCfg{{"a", false, ""}, {"b", true, "g"}, {"c", false, "h"}}, MaxFile: 64},
}

func (c config) verifTables() []rawdb.VerifTable {
	var out []rawdb.VerifTable
	for _, t := range c.Tables {
		out = append(out, rawdb.VerifTable{Name: t.Name, NoSnappy: t.NoSnappy, Group: t.Group})
	}
	return out
}

func (c config) groups() []string {
	seen := map[string]bool{}
	var out []string
	for _, t := range c.Tables {
		if t.Group != "" && !seen[t.Group] {
			seen[t.Group] = true
			out = append(out, t.Group)
		}
	}
	return out
}

// ---------------------------------------------------------------- payloads

// payload is the blob appended for item id in table ti: recognisable, of id-dependent length,
// with an incompressible filler.
func payload(id int, ti int) []byte {
	r := rand.New(rand.NewSource(int64(id)*7919 + int64(ti)*104729))
	n := 6 + r.Intn(25)
	b := make([]byte, n)
	b[0] = 'I'
	binary.BigEndian.PutUint32(b[1:5], uint32(id))
	b[5] = byte(ti)
	for i := 6; i < n; i++ {
		b[i] = byte(r.Intn(256))
	}
	return b
}

func diskSize(id int, ti int, nosnappy bool) int {
	if nosnappy {
		return len(payload(id, ti))
	}
	return len(snappy.Encode(nil, payload(id, ti)))
}

// identify maps a blob read back to the id it is the payload of (-1 if none).
func identify(blob []byte, ti int) int {
	if len(blob) < 6 || blob[0] != 'I' || int(blob[5]) != ti {
		return -1
	}
	id := int(binary.BigEndian.Uint32(blob[1:5]))
	if id <= 0 || id > 1<<20 || !bytes.Equal(blob, payload(id, ti)) {
		return -1
	}
	return id
}

// ---------------------------------------------------------------- projection of an open freezer

type result struct {
	OK    bool             `json:"ok"`
	Err   string           `json:"err"`
	Head  int              `json:"head"`
	Tails map[string]int   `json:"tails"`
	Items map[string][]int `json:"items"` // per table: ids of the items tail..head-1 (-1 = unreadable / wrong bytes)
	Edge  map[string][]int `json:"edge"`  // per table: what reading tail-1 and head gives (-1 = error, as it must be)
}

// failed is the projection of a freezer that did not open.
func failed(cfg config, msg string) result {
	res := result{Err: msg, Tails: map[string]int{}, Items: map[string][]int{}, Edge: map[string][]int{}}
	for _, g := range cfg.groups() {
		res.Tails[g] = 0
	}
	for _, t := range cfg.Tables {
		res.Items[t.Name] = []int{}
		res.Edge[t.Name] = []int{-1, -1}
	}
	return res
}

func project(f *rawdb.Freezer, cfg config) result {
	res := result{OK: true, Tails: map[string]int{}, Items: map[string][]int{}, Edge: map[string][]int{}}
	h, err := f.Ancients()
	if err != nil {
		return failed(cfg, "Ancients: "+err.Error())
	}
	res.Head = int(h)
	for _, g := range cfg.groups() {
		t, err := f.Tail(g)
		if err != nil {
			return failed(cfg, "Tail: "+err.Error())
		}
		res.Tails[g] = int(t)
	}
	for ti, t := range cfg.Tables {
		tail := 0
		if t.Group != "" {
			tail = res.Tails[t.Group]
		}
		ids := []int{}
		for i := tail; i < res.Head; i++ {
			blob, err := f.Ancient(t.Name, uint64(i))
			if err != nil {
				ids = append(ids, -1)
			} else {
				ids = append(ids, identify(blob, ti))
			}
		}
		res.Items[t.Name] = ids
		edge := []int{-1, -1}
		if tail > 0 {
			if blob, err := f.Ancient(t.Name, uint64(tail-1)); err == nil {
				edge[0] = identify(blob, ti)
			}
		}
		if blob, err := f.Ancient(t.Name, uint64(res.Head)); err == nil {
			edge[1] = identify(blob, ti)
		}
		res.Edge[t.Name] = edge
		// range reads must agree with single reads
		if n := res.Head - tail; n > 0 {
			blobs, err := f.AncientRange(t.Name, uint64(tail), uint64(n), 0)
			if err != nil || len(blobs) != n {
				for i := range ids {
					if ids[i] >= 0 {
						res.Items[t.Name][i] = -1
					}
				}
			} else {
				for i, b := range blobs {
					if identify(b, ti) != ids[i] {
						res.Items[t.Name][i] = -1
					}
				}
			}
		}
	}
	return res
}

// ---------------------------------------------------------------- child: reopen images

type childJob struct {
	Dir string `json:"dir"`
	Cfg config `json:"cfg"`
}

func runChild(in, out string) {
	var jobs []childJob
	tl.ReadJSON(in, &jobs)
	f, err := os.OpenFile(out, os.O_CREATE|os.O_WRONLY|os.O_APPEND, 0o644)
	if err != nil {
		tl.Fatal("open %s: %v", out, err)
	}
	defer f.Close()
	for i, j := range jobs {
		// marker first: if the open below terminates the process the parent knows where
		fmt.Fprintf(f, "{\"start\":%d}\n", i)
		var res result
		fr, err := rawdb.VerifNewFreezer(j.Dir, false, j.Cfg.MaxFile, j.Cfg.verifTables())
		if err != nil {
			res = failed(j.Cfg, "open: "+err.Error())
		} else {
			res = project(fr, j.Cfg)
			fr.Close()
		}
		b, _ := json.Marshal(map[string]any{"done": i, "res": res})
		f.Write(append(b, '\n'))
	}
}

// reopenImages runs child processes over the image directories and returns one result per image.
func reopenImages(self string, cfg config, dirs []string, scratch string) []result {
	out := make([]result, len(dirs))
	done := make([]bool, len(dirs))
	retried := make([]bool, len(dirs))
	next := 0
	for next < len(dirs) {
		var jobs []childJob
		for _, d := range dirs[next:] {
			jobs = append(jobs, childJob{Dir: d, Cfg: cfg})
		}
		in := filepath.Join(scratch, "child-in.json")
		res := filepath.Join(scratch, "child-out.ndjson")
		os.Remove(res)
		b, _ := json.Marshal(jobs)
		if err := os.WriteFile(in, b, 0o644); err != nil {
			tl.Fatal("write %s: %v", in, err)
		}
		cctx, cancel := context.WithTimeout(context.Background(), 30*time.Minute)
		cmd := exec.CommandContext(cctx, self, "-mode", "child", "-in", in, "-res", res)
		var stderr bytes.Buffer
		cmd.Stderr = &stderr
		cmd.Stdout = &stderr
		runErr := cmd.Run()
		timedOut := cctx.Err() != nil
		cancel()
		if timedOut {
			tl.Fatal("child process did not finish within 30 minutes")
		}
		started := -1
		if fh, err := os.Open(res); err == nil {
			sc := bufio.NewScanner(fh)
			sc.Buffer(make([]byte, 1<<20), 1<<26)
			for sc.Scan() {
				var m struct {
					Start *int    `json:"start"`
					Done  *int    `json:"done"`
					Res   *result `json:"res"`
				}
				if json.Unmarshal(sc.Bytes(), &m) != nil {
					continue
				}
				if m.Start != nil {
					started = *m.Start
				}
				if m.Done != nil && m.Res != nil {
					out[next+*m.Done] = *m.Res
					done[next+*m.Done] = true
				}
			}
			fh.Close()
		}
		if runErr == nil {
			for i := next; i < len(dirs); i++ {
				if !done[i] {
					tl.Fatal("child finished without a result for image %d", i)
				}
			}
			break
		}
		// the child died while opening image next+started
		if started < 0 || done[next+started] {
			tl.Fatal("child failed outside an open: %v\n%s", runErr, stderr.String())
		}
		if !retried[next+started] {
			// make sure it is the image and not the machine (a process killed under memory pressure
			// must not look like a failed open): the same image once more, alone
			retried[next+started] = true
			next = next + started
			continue
		}
		tail := stderr.String()
		if len(tail) > 400 {
			tail = tail[len(tail)-400:]
		}
		out[next+started] = failed(cfg, "process terminated while opening: "+tail)
		done[next+started] = true
		next = next + started + 1
	}
	return out
}

// ---------------------------------------------------------------- file tracking

var dataRe = regexp.MustCompile(`^([a-z]+)\.(\d{4})\.[cr]dat$`)
var idxRe = regexp.MustCompile(`^([a-z]+)\.[cr]idx$`)
var metaRe = regexp.MustCompile(`^([a-z]+)\.meta$`)

type fileID struct {
	Table string
	Kind  string // idx | dat | meta
	Fno   int
}

func classify(name string) (fileID, bool) {
	if m := dataRe.FindStringSubmatch(name); m != nil {
		n, _ := strconv.Atoi(m[2])
		return fileID{m[1], "dat", n}, true
	}
	if m := idxRe.FindStringSubmatch(name); m != nil {
		return fileID{m[1], "idx", 0}, true
	}
	if m := metaRe.FindStringSubmatch(name); m != nil {
		return fileID{m[1], "meta", 0}, true
	}
	return fileID{}, false
}

// tracker knows, for every file of the freezer directory, the content that is durable.
type tracker struct {
	dir string
	dur map[string][]byte // by base name
}

func (tk *tracker) current() map[string][]byte {
	out := map[string][]byte{}
	ents, err := os.ReadDir(tk.dir)
	if err != nil {
		tl.Fatal("readdir: %v", err)
	}
	for _, e := range ents {
		if _, ok := classify(e.Name()); !ok {
			continue
		}
		b, err := os.ReadFile(filepath.Join(tk.dir, e.Name()))
		if err != nil {
			tl.Fatal("read %s: %v", e.Name(), err)
		}
		out[e.Name()] = b
	}
	return out
}

// refresh reconciles the durable map with the directory: new files are durably empty, unlinked files
// are gone.
func (tk *tracker) refresh() map[string][]byte {
	cur := tk.current()
	for name := range tk.dur {
		if _, ok := cur[name]; !ok {
			delete(tk.dur, name)
		}
	}
	for name, c := range cur {
		d, ok := tk.dur[name]
		if !ok {
			tk.dur[name] = []byte{}
			continue
		}
		_, _ = c, d
	}
	return cur
}

func (tk *tracker) synced(name string) {
	b, err := os.ReadFile(filepath.Join(tk.dir, name))
	if err != nil {
		return // already unlinked
	}
	tk.dur[name] = b
}

// ---------------------------------------------------------------- crash images

type cutFile struct {
	Fno int  `json:"fno"`
	Len int  `json:"len"`
	Zf  bool `json:"zf"`
	Old bool `json:"old"`
	Dur int  `json:"dur"`
	Vol int  `json:"vol"`
}

type cutTable struct {
	Idx  cutFile   `json:"idx"`
	Dat  []cutFile `json:"dat"`
	Meta string    `json:"meta"` // old | new | torn (the new bytes at the old length)
	MLen []int     `json:"mlen"` // torn: [durable length, current length] of the metadata file
}

type option struct {
	Len  int
	Zf   bool
	Old  bool // metadata: the durable content; recycled data file: the old lineage
	Torn bool // metadata only: the current bytes cut at the durable length
}

func min(a, b int) int {
	if a < b {
		return a
	}
	return b
}
func max(a, b int) int {
	if a > b {
		return a
	}
	return b
}

// lengthsBetween proposes crash lengths between the durable and the current length: both ends, every
// boundary of a unit (index entry / item) with its neighbours, and - when thorough - every length.
func lengthsBetween(d, v int, unit int, every bool) []int {
	lo, hi := min(d, v), max(d, v)
	set := map[int]bool{lo: true, hi: true}
	if every {
		for l := lo; l <= hi; l++ {
			set[l] = true
		}
	} else {
		set[(lo+hi)/2] = true
		if unit > 0 {
			for l := (lo/unit + 1) * unit; l < hi; l += unit {
				set[l] = true
				set[l-1] = true
				if l+1 <= hi {
					set[l+1] = true
				}
			}
		}
	}
	var out []int
	for l := range set {
		if l >= lo && l <= hi {
			out = append(out, l)
		}
	}
	sort.Ints(out)
	return out
}

func related(dur, cur []byte) bool { return bytes.HasPrefix(cur, dur) || bytes.HasPrefix(dur, cur) }

// fileOptions lists what a crash may leave of an index/data file.
func fileOptions(d, c []byte, unit int, every bool) []option {
	var o []option
	if related(d, c) {
		for _, l := range lengthsBetween(len(d), len(c), unit, every) {
			o = append(o, option{Len: l})
			if len(d) < len(c) && l > len(d) {
				o = append(o, option{Len: l, Zf: true})
			}
		}
		return o
	}
	// a leftover file recycled by O_TRUNC and rewritten: the old content or the new one, cut anywhere
	for _, l := range lengthsBetween(0, len(c), unit, every) {
		o = append(o, option{Len: l})
		if l > 0 {
			o = append(o, option{Len: l, Zf: true})
		}
	}
	for _, l := range lengthsBetween(0, len(d), unit, every) {
		o = append(o, option{Len: l, Old: true})
	}
	return o
}

func imageContent(dur, cur []byte, o option) []byte {
	if !related(dur, cur) {
		if o.Old {
			return dur[:o.Len]
		}
		if o.Zf {
			return make([]byte, o.Len)
		}
		return cur[:o.Len]
	}
	if len(dur) <= len(cur) {
		if o.Zf {
			out := make([]byte, o.Len)
			copy(out, dur[:min(len(dur), o.Len)])
			return out
		}
		return cur[:o.Len]
	}
	return dur[:o.Len]
}

// ---------------------------------------------------------------- the history runner

type runner struct {
	cfg     config
	cfgName string
	self    string
	scratch string
	r       *rand.Rand
	tr      *tl.Trace
	sum     *tl.Summary
	thor    bool
	perPt   int // images per crash point

	fr        *rawdb.Freezer
	tk        *tracker
	recording bool
	shapes    map[string]bool
	imgSeen   map[string]bool
	dead      bool // the main line crashed into an image that does not open
	nextID    int
	imgSeq    int
	points    int

	// model-free bookkeeping for choosing legal calls
	head, synced int
	tail         map[string]int
}

func (rn *runner) hook(ev string, kv ...any) {
	switch ev {
	case "fsync":
		name := filepath.Base(kv[0].(string))
		id, ok := classify(name)
		if !ok {
			// temp file of copyFrom/reset: remember its content under its own name
			if b, err := os.ReadFile(kv[0].(string)); err == nil {
				rn.tk.dur[name] = b
			}
			return
		}
		if rn.recording {
			rn.tr.Emit(tl.M{"op": "presync", "t": id.Table, "kind": id.Kind, "fno": id.Fno, "lens": rn.lens()})
			rn.crashPoint(fmt.Sprintf("before fsync of %s", name))
		}
		rn.tk.synced(name)
		if rn.recording {
			rn.tr.Emit(tl.M{"op": "fsync", "t": id.Table, "kind": id.Kind, "fno": id.Fno})
			rn.sum.Count("fsync")
		}
	case "rename":
		src, dst := filepath.Base(kv[0].(string)), filepath.Base(kv[1].(string))
		id, ok := classify(dst)
		if !ok {
			return
		}
		if b, err := os.ReadFile(kv[1].(string)); err == nil {
			rn.tk.dur[dst] = b // fully synced before the rename, directory synced after
		}
		delete(rn.tk.dur, src)
		if rn.recording {
			rn.tr.Emit(tl.M{"op": "rename", "t": id.Table})
			rn.sum.Count("rename")
		}
	}
}

func (rn *runner) open(dir string) error {
	rn.tk.dir = dir
	fr, err := rawdb.VerifNewFreezer(dir, false, rn.cfg.MaxFile, rn.cfg.verifTables())
	if err != nil {
		return err
	}
	rn.fr = fr
	return nil
}

// crashPoint materialises crash images of the present moment, reopens them in a child and records them.
func (rn *runner) crashPoint(what string) {
	rn.points++
	cur := rn.tk.refresh()
	// per file options
	names := make([]string, 0, len(cur))
	for n := range cur {
		names = append(names, n)
	}
	sort.Strings(names)
	opts := map[string][]option{}
	for _, n := range names {
		id, _ := classify(n)
		d, c := rn.tk.dur[n], cur[n]
		var o []option
		if id.Kind == "meta" {
			o = []option{{Old: false}}
			if !bytes.Equal(d, c) {
				o = append(o, option{Old: true})
			}
			if len(c) > len(d) && len(d) > 0 {
				o = append(o, option{Torn: true}) // the in-place rewrite grew the file
			}
		} else {
			unit := 6
			if id.Kind == "dat" {
				unit = 0
			}
			o = fileOptions(d, c, unit, rn.thor)
		}
		opts[n] = o
	}
	// choose images: all-durable, all-current, then seeded samples of the product
	type image map[string]option
	pick := func(f func(n string, o []option) option) image {
		im := image{}
		for _, n := range names {
			im[n] = f(n, opts[n])
		}
		return im
	}
	var images []image
	seen := map[string]bool{}
	add := func(im image) {
		k := fmt.Sprint(im)
		if seen[k] {
			return
		}
		seen[k] = true
		// the same directory content was already reopened in this history
		hsh := sha1.New()
		for _, n := range names {
			id, _ := classify(n)
			var content []byte
			if id.Kind == "meta" {
				content = cur[n]
				if im[n].Old {
					content = rn.tk.dur[n]
				} else if im[n].Torn {
					content = cur[n][:len(rn.tk.dur[n])]
				}
			} else {
				content = imageContent(rn.tk.dur[n], cur[n], im[n])
			}
			fmt.Fprintf(hsh, "%s:%d:", n, len(content))
			hsh.Write(content)
		}
		hk := string(hsh.Sum(nil))
		if rn.imgSeen[hk] {
			return
		}
		rn.imgSeen[hk] = true
		images = append(images, im)
	}
	// everything unsynced lost / everything unsynced survived
	add(pick(func(n string, o []option) option {
		for _, x := range o {
			id, _ := classify(n)
			if (id.Kind == "meta" && x.Old) || (id.Kind != "meta" && !x.Zf && x.Len == len(rn.tk.dur[n]) && (x.Old || related(rn.tk.dur[n], cur[n]))) {
				return x
			}
		}
		return o[0]
	}))
	add(pick(func(n string, o []option) option {
		for _, x := range o {
			if !x.Old && !x.Zf && x.Len == len(cur[n]) {
				return x
			}
		}
		return o[0]
	}))
	for _, n := range names {
		for _, x := range opts[n] {
			if x.Torn {
				tn := n
				add(pick(func(m string, o []option) option {
					if m == tn {
						return option{Torn: true}
					}
					return o[0]
				}))
			}
		}
	}
	for tries := 0; len(images) < rn.perPt && tries < 4*rn.perPt; tries++ {
		add(pick(func(n string, o []option) option { return o[rn.r.Intn(len(o))] }))
	}
	// materialise
	var dirs []string
	var cuts []map[string]*cutTable
	for _, im := range images {
		rn.imgSeq++
		dir := filepath.Join(rn.scratch, fmt.Sprintf("img-%06d", rn.imgSeq))
		if err := os.MkdirAll(dir, 0o755); err != nil {
			tl.Fatal("mkdir: %v", err)
		}
		ct := map[string]*cutTable{}
		for _, t := range rn.cfg.Tables {
			ct[t.Name] = &cutTable{Meta: "new", Dat: []cutFile{}, MLen: []int{}}
		}
		for _, n := range names {
			id, _ := classify(n)
			o := im[n]
			d, c := rn.tk.dur[n], cur[n]
			var content []byte
			if id.Kind == "meta" {
				content = c
				if o.Old {
					content = d
					ct[id.Table].Meta = "old"
				} else if o.Torn {
					content = c[:len(d)]
					ct[id.Table].Meta = "torn"
					ct[id.Table].MLen = []int{len(d), len(c)}
				}
			} else {
				content = imageContent(d, c, o)
				cf := cutFile{Fno: id.Fno, Len: o.Len, Zf: o.Zf, Old: o.Old, Dur: len(d), Vol: len(c)}
				if id.Kind == "idx" {
					ct[id.Table].Idx = cf
				} else {
					ct[id.Table].Dat = append(ct[id.Table].Dat, cf)
				}
			}
			if err := os.WriteFile(filepath.Join(dir, n), content, 0o644); err != nil {
				tl.Fatal("write image: %v", err)
			}
		}
		dirs = append(dirs, dir)
		cuts = append(cuts, ct)
	}
	results := reopenImages(rn.self, rn.cfg, dirs, rn.scratch)
	for i, res := range results {
		rn.tr.Emit(tl.M{"op": "image", "at": what, "cuts": cuts[i], "res": res})
		rn.sum.Count("image")
		rn.sum.Evaluations++
		if !res.OK {
			rn.sum.Count("image-open-failed")
		}
		if rn.sum.Evaluations%97 == 1 {
			rn.sum.Sample(tl.M{"at": what, "cuts": cuts[i], "res": res})
		}
		if !keepImages {
			os.RemoveAll(dirs[i])
		}
	}
}

func (rn *runner) sizes(ids []int) map[string][]int {
	out := map[string][]int{}
	for ti, t := range rn.cfg.Tables {
		for _, id := range ids {
			out[t.Name] = append(out[t.Name], diskSize(id, ti, t.NoSnappy))
		}
	}
	return out
}

func (rn *runner) lens() map[string]any {
	cur := rn.tk.refresh()
	out := map[string]any{}
	for _, t := range rn.cfg.Tables {
		out[t.Name] = map[string]any{"idx": 0, "dat": []any{}, "meta": []int{-1, -1}}
	}
	names := make([]string, 0, len(cur))
	for n := range cur {
		names = append(names, n)
	}
	sort.Strings(names)
	for _, n := range names {
		id, _ := classify(n)
		m := out[id.Table].(map[string]any)
		switch id.Kind {
		case "idx":
			m["idx"] = len(cur[n])
		case "dat":
			m["dat"] = append(m["dat"].([]any), []int{id.Fno, len(cur[n])})
		case "meta":
			// the metadata file content: rlp([version, virtualTail, flushOffset])
			var md struct {
				Version uint16
				Tail    uint64
				Offset  uint64
			}
			if err := rlp.Decode(bytes.NewReader(cur[n]), &md); err == nil {
				m["meta"] = []int{int(md.Tail), int(md.Offset)}
			}
		}
	}
	return out
}

func (rn *runner) ret(name string, err error) {
	res := project(rn.fr, rn.cfg)
	rn.tr.Emit(tl.M{"op": "ret", "name": name, "err": err != nil, "res": res, "lens": rn.lens()})
	rn.crashPoint("after " + name)
}

// history runs one seeded history on a fresh freezer.
func (rn *runner) history(h int, steps int, script string) {
	dir := filepath.Join(rn.scratch, fmt.Sprintf("fz-%d", h))
	rn.tk = &tracker{dur: map[string][]byte{}}
	rn.imgSeen = map[string]bool{}
	rn.recording = false
	if err := rn.open(dir); err != nil {
		tl.Fatal("create freezer: %v", err)
	}
	rn.tk.refresh()
	rn.head, rn.synced, rn.tail = 0, 0, map[string]int{}
	rn.tr.Emit(tl.M{"op": "init", "cfg": rn.cfgName, "maxfile": rn.cfg.MaxFile, "res": project(rn.fr, rn.cfg), "lens": rn.lens()})
	rn.recording = true
	shape := ""
	crashes := 0
	do := func(kind byte, arg int) {
		switch kind {
		case 'a':
			var ids []int
			for i := 0; i < arg; i++ {
				ids = append(ids, rn.nextID)
				rn.nextID++
			}
			rn.tr.Emit(tl.M{"op": "call", "name": "append", "ids": ids, "sizes": rn.sizes(ids), "n": 0})
			start := rn.head
			_, err := rn.fr.ModifyAncients(func(op ethdb.AncientWriteOp) error {
				// table by table (a single writer decides the order of its AppendRaw calls)
				for ti, t := range rn.cfg.Tables {
					for i, id := range ids {
						if err := op.AppendRaw(t.Name, uint64(start+i), payload(id, ti)); err != nil {
							return err
						}
					}
				}
				return nil
			})
			if err == nil {
				rn.head += arg
			}
			rn.ret("append", err)
		case 's':
			rn.tr.Emit(tl.M{"op": "call", "name": "sync", "ids": []int{}, "sizes": rn.sizes(nil), "n": 0})
			err := rn.fr.SyncAncient()
			rn.synced = rn.head
			rn.ret("sync", err)
		case 'h':
			rn.tr.Emit(tl.M{"op": "call", "name": "thead", "ids": []int{}, "sizes": rn.sizes(nil), "n": arg})
			_, err := rn.fr.TruncateHead(uint64(arg))
			rn.head = min(rn.head, arg)
			rn.synced = min(rn.synced, arg)
			rn.ret("thead", err)
		case 't', 'u':
			grp := rn.cfg.groups()[0]
			if kind == 'u' {
				grp = rn.cfg.groups()[len(rn.cfg.groups())-1]
			}
			rn.tr.Emit(tl.M{"op": "call", "name": "ttail", "ids": []int{}, "sizes": rn.sizes(nil), "n": arg, "group": grp})
			_, err := rn.fr.TruncateTail(grp, uint64(arg))
			rn.tail[grp] = max(rn.tail[grp], arg)
			rn.ret("ttail", err)
		case 'c':
			crashes++
			rn.mainCrash(h, crashes)
		}
		shape += string(kind)
	}
	if script != "" {
		for _, tok := range strings.Split(script, ",") {
			arg := 0
			if len(tok) > 1 {
				arg, _ = strconv.Atoi(tok[1:])
			}
			// a scripted call whose precondition does not hold in the real state (the real crash images
			// differ from the model's) is skipped
			lo := 0
			for _, v := range rn.tail {
				lo = max(lo, v)
			}
			switch tok[0] {
			case 'h':
				if arg < lo || arg >= rn.head {
					continue
				}
			case 't':
				if len(rn.cfg.groups()) == 0 || arg <= rn.tail[rn.cfg.groups()[0]] || arg > rn.head {
					continue
				}
			case 'c':
				if crashes >= 3 {
					continue
				}
			case 'a':
				if arg < 1 {
					continue
				}
			}
			do(tok[0], arg)
			if !rn.recording {
				break // a main-line crash image did not open
			}
		}
		steps = 0
	}
	for s := 0; s < steps && rn.recording; s++ {
		c := rn.r.Intn(100)
		switch {
		case c < 45:
			do('a', 1+rn.r.Intn(4))
		case c < 60:
			do('s', 0)
		case c < 75: // truncate head (not below the tail)
			lo := 0
			for _, v := range rn.tail {
				lo = max(lo, v)
			}
			if rn.head <= lo {
				continue
			}
			do('h', lo+rn.r.Intn(rn.head-lo))
		case c < 90: // truncate tail (only below the synced head unless -unsynced-tail)
			g := rn.cfg.groups()
			if len(g) == 0 {
				continue
			}
			hi := rn.synced
			if unsyncedTail {
				hi = rn.head
			}
			gi := rn.r.Intn(len(g))
			if hi <= rn.tail[g[gi]] {
				continue
			}
			kind := byte('t')
			if gi == len(g)-1 && gi > 0 {
				kind = 'u'
			}
			do(kind, rn.tail[g[gi]]+1+rn.r.Intn(hi-rn.tail[g[gi]]))
		default: // main-line crash: continue on one of the images
			if crashes >= 2 {
				continue
			}
			do('c', 0)
		}
	}
	rn.recording = false
	if !rn.dead {
		rn.fr.Close()
	}
	rn.dead = false
	rn.sum.Traces++
	rn.shapes[shape] = true
}

var unsyncedTail bool
var keepImages bool

// mainCrash picks one crash image of the present moment and continues the history on it.
func (rn *runner) mainCrash(h, k int) {
	cur := rn.tk.refresh()
	dir := filepath.Join(rn.scratch, fmt.Sprintf("fz-%d-c%d", h, k))
	if err := os.MkdirAll(dir, 0o755); err != nil {
		tl.Fatal("mkdir: %v", err)
	}
	ct := map[string]*cutTable{}
	for _, t := range rn.cfg.Tables {
		ct[t.Name] = &cutTable{Meta: "new", Dat: []cutFile{}, MLen: []int{}}
	}
	names := make([]string, 0, len(cur))
	for n := range cur {
		names = append(names, n)
	}
	sort.Strings(names)
	newDur := map[string][]byte{}
	for _, n := range names {
		id, _ := classify(n)
		d, c := rn.tk.dur[n], cur[n]
		var content []byte
		if id.Kind == "meta" {
			content = c
			if !bytes.Equal(d, c) && rn.r.Intn(2) == 0 {
				content = d
				ct[id.Table].Meta = "old"
			}
		} else {
			unit := 6
			if id.Kind == "dat" {
				unit = 0
			}
			os_ := fileOptions(d, c, unit, true)
			o := os_[rn.r.Intn(len(os_))]
			if rn.r.Intn(3) == 0 && related(d, c) {
				o = option{Len: len(d)} // many crashes lose everything unsynced
			}
			content = imageContent(d, c, o)
			cf := cutFile{Fno: id.Fno, Len: o.Len, Zf: o.Zf, Old: o.Old, Dur: len(d), Vol: len(c)}
			if id.Kind == "idx" {
				ct[id.Table].Idx = cf
			} else {
				ct[id.Table].Dat = append(ct[id.Table].Dat, cf)
			}
		}
		if err := os.WriteFile(filepath.Join(dir, n), content, 0o644); err != nil {
			tl.Fatal("write image: %v", err)
		}
		newDur[n] = content
	}
	// make sure it opens at all before doing it in this process (log.Crit would kill the driver)
	probe := dir + "-probe"
	copyDir(dir, probe)
	pres := reopenImages(rn.self, rn.cfg, []string{probe}, rn.scratch)[0]
	os.RemoveAll(probe)
	rn.tr.Emit(tl.M{"op": "crash", "cuts": ct})
	rn.sum.Count("crash")
	if !pres.OK {
		rn.tr.Emit(tl.M{"op": "reopen", "res": pres, "lens": map[string]any{}})
		rn.recording = false
		rn.fr.Close()
		rn.dead = true
		return
	}
	// the old instance is abandoned: its directory is no longer looked at (the image is a copy), so it can
	// be closed to release descriptors and the lock - before the tracker is switched to the image
	rn.recording = false
	rn.fr.Close()
	rn.tk = &tracker{dur: newDur}
	if err := rn.open(dir); err != nil {
		tl.Fatal("reopen after probe succeeded: %v", err)
	}
	rn.tk.refresh()
	res := project(rn.fr, rn.cfg)
	rn.tr.Emit(tl.M{"op": "reopen", "res": res, "lens": rn.lens()})
	rn.head, rn.synced = res.Head, res.Head
	for g, t := range res.Tails {
		rn.tail[g] = t
	}
	rn.recording = true
}

func copyDir(src, dst string) {
	os.MkdirAll(dst, 0o755)
	ents, _ := os.ReadDir(src)
	for _, e := range ents {
		b, err := os.ReadFile(filepath.Join(src, e.Name()))
		if err == nil {
			os.WriteFile(filepath.Join(dst, e.Name()), b, 0o644)
		}
	}
}

func main() {
	mode := flag.String("mode", "xf", "xf|child")
	in := flag.String("in", "", "child: job list")
	resPath := flag.String("res", "", "child: result file")
	trace := flag.String("trace", "trace.ndjson", "xf: output trace")
	dir := flag.String("dir", "", "scratch directory")
	cfgName := flag.String("cfg", "g2", "table configuration: g2|mixed")
	n := flag.Int("n", 4, "histories")
	steps := flag.Int("steps", 10, "calls per history")
	perPt := flag.Int("images", 6, "crash images per crash point")
	every := flag.Bool("every-length", false, "propose every byte length between durable and current")
	flag.BoolVar(&keepImages, "keep-images", false, "do not remove the crash image directories (debugging)")
	flag.BoolVar(&unsyncedTail, "unsynced-tail", false, "also truncate the tail above the synced head")
	firstID := flag.Int("first-id", 1, "id of the first appended item (ids determine blob sizes; for replaying a recorded history)")
	script := flag.String("script", "", "run this history instead of random ones, e.g. a2,s,t1,h1,c,a1 (append/sync/tail/head/crash)")
	scripts := flag.String("scripts", "", "JSON file with call histories sampled by TLC ([[{c,n}..]..]) to run before the random ones")
	out := flag.String("out", "summary.json", "summary output")
	flag.Parse()
	if *mode == "child" {
		runChild(*in, *resPath)
		return
	}
	seed := int64(tl.EnvInt("VERIF_SEED", 1))
	sum := tl.NewSummary("c24", *mode, seed)
	cfg, ok := configs[*cfgName]
	if !ok {
		tl.Fatal("unknown cfg %s", *cfgName)
	}
	if *dir == "" {
		d, err := os.MkdirTemp("", "c24-")
		if err != nil {
			tl.Fatal("tempdir: %v", err)
		}
		defer os.RemoveAll(d)
		*dir = d
	}
	self, err := os.Executable()
	if err != nil {
		tl.Fatal("executable: %v", err)
	}
	rn := &runner{cfg: cfg, cfgName: *cfgName, self: self, scratch: *dir, r: tl.Rand(seed), sum: sum, thor: *every, perPt: *perPt, nextID: *firstID, shapes: map[string]bool{}}
	rn.tr = tl.NewTrace(*trace)
	rawdb.VerifHook = rn.hook
	h := 0
	if *scripts != "" {
		// behaviours sampled by TLC from MCFreezer.tla (call tokens [c, n])
		var hs [][]struct {
			C string `json:"c"`
			N int    `json:"n"`
		}
		tl.ReadJSON(*scripts, &hs)
		for _, hist := range hs {
			var toks []string
			for _, t := range hist {
				toks = append(toks, fmt.Sprintf("%s%d", t.C, t.N))
			}
			rn.history(h, 0, strings.Join(toks, ","))
			h++
		}
	}
	if *script != "" {
		rn.history(h, 0, *script)
		h++
	} else {
		for i := 0; i < *n; i++ {
			rn.history(h, *steps, "")
			h++
		}
	}
	rn.tr.Close()
	sum.Steps = rn.tr.N
	sum.Distinct = len(rn.shapes)
	sum.Extra["crash_points"] = rn.points
	sum.Rule = "seeded call histories on rawdb.Freezer (" + strings.Join([]string{*cfgName}, "") + ", 64-byte data files); crash images at every fsync and call end; evaluations = crash images reopened; distinct = distinct call-name sequences"
	sum.Write(*out)
}
