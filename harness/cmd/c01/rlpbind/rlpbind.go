// Package rlpbind binds the type descriptors and item trees of spec/codec/RLP.tla to
// package rlp: a descriptor becomes a Go type (reflect), a decoded Go value becomes an
// item tree by a type-directed walk that does not use the rlp encoder, and rlp errors
// are mapped to the coarse classes of the specification.
package rlpbind

import (
	"bytes"
	"encoding/json"
	"errors"
	"fmt"
	"io"
	"math/big"
	"math/rand"
	"reflect"
	"strings"

	"github.com/ethereum/go-ethereum/rlp"
	"github.com/holiman/uint256"
)

// B is a byte string that marshals as a JSON array of numbers (TLA+ Seq(0..255)).
type B []int

func FromBytes(b []byte) B {
	out := make(B, len(b))
	for i, x := range b {
		out[i] = int(x)
	}
	return out
}

func (b B) Bytes() []byte {
	out := make([]byte, len(b))
	for i, x := range b {
		out[i] = byte(x)
	}
	return out
}

// Item is the item tree of RLP.tla: k = "s" (b), "l" (xs) or "r" (b = encoding).
type Item struct {
	K  string  `json:"k"`
	B  *B      `json:"b,omitempty"`
	Xs *[]Item `json:"xs,omitempty"`
}

func S(b []byte) Item { x := FromBytes(b); return Item{K: "s", B: &x} }
func R(b []byte) Item { x := FromBytes(b); return Item{K: "r", B: &x} }
func L(xs []Item) Item {
	if xs == nil {
		xs = []Item{}
	}
	return Item{K: "l", Xs: &xs}
}

func (a Item) Equal(b Item) bool {
	if a.K != b.K {
		return false
	}
	if a.K == "l" {
		if a.Xs == nil || b.Xs == nil || len(*a.Xs) != len(*b.Xs) {
			return false
		}
		for i := range *a.Xs {
			if !(*a.Xs)[i].Equal((*b.Xs)[i]) {
				return false
			}
		}
		return true
	}
	if a.B == nil || b.B == nil || len(*a.B) != len(*b.B) {
		return false
	}
	for i := range *a.B {
		if (*a.B)[i] != (*b.B)[i] {
			return false
		}
	}
	return true
}

func (a Item) String() string {
	switch a.K {
	case "l":
		var sb strings.Builder
		sb.WriteString("[")
		for i, x := range *a.Xs {
			if i > 0 {
				sb.WriteString(" ")
			}
			sb.WriteString(x.String())
		}
		sb.WriteString("]")
		return sb.String()
	case "r":
		return fmt.Sprintf("raw:%x", a.B.Bytes())
	}
	return fmt.Sprintf("%x", a.B.Bytes())
}

// TD is a type descriptor of RLP.tla.
type TD struct {
	T  string `json:"t"`
	N  int    `json:"n,omitempty"`
	E  *TD    `json:"e,omitempty"`
	Fs *[]TD  `json:"fs,omitempty"`
	Ek string `json:"ek,omitempty"`
}

// MarshalJSON writes exactly the fields RLP.tla reads for the descriptor kind (a TLA+ record
// must carry every field that is accessed, and n = 0 must not be dropped).
func (t TD) MarshalJSON() ([]byte, error) {
	m := map[string]any{"t": t.T}
	switch t.T {
	case "uint", "arr":
		m["n"] = t.N
	case "list":
		m["e"] = t.E
	case "larr":
		m["n"] = t.N
		m["e"] = t.E
	case "struct":
		fs := []TD{}
		if t.Fs != nil {
			fs = *t.Fs
		}
		m["fs"] = fs
	case "nil":
		m["e"] = t.E
		m["ek"] = t.Ek
	}
	return json.Marshal(m)
}

func (t TD) String() string {
	switch t.T {
	case "uint":
		return fmt.Sprintf("uint%d", 8*t.N)
	case "arr":
		return fmt.Sprintf("[%d]byte", t.N)
	case "list":
		return "[]" + t.E.String()
	case "larr":
		return fmt.Sprintf("[%d]%s", t.N, t.E.String())
	case "nil":
		return "*" + t.E.String() + "/nil" + t.Ek
	case "struct":
		var p []string
		for _, f := range *t.Fs {
			p = append(p, f.String())
		}
		return "struct{" + strings.Join(p, ";") + "}"
	}
	return t.T
}

var (
	bigPtr  = reflect.TypeOf((*big.Int)(nil))
	u256Ptr = reflect.TypeOf((*uint256.Int)(nil))
	rawType = reflect.TypeOf(rlp.RawValue(nil))
	anyType = reflect.TypeOf((*interface{})(nil)).Elem()
)

// GoType builds the Go type a descriptor stands for.
func GoType(t TD) reflect.Type {
	switch t.T {
	case "uint":
		switch t.N {
		case 1:
			return reflect.TypeOf(uint8(0))
		case 2:
			return reflect.TypeOf(uint16(0))
		case 4:
			return reflect.TypeOf(uint32(0))
		case 8:
			return reflect.TypeOf(uint64(0))
		}
	case "big":
		return bigPtr
	case "u256":
		return u256Ptr
	case "bool":
		return reflect.TypeOf(false)
	case "bytes":
		return reflect.TypeOf([]byte(nil))
	case "string":
		return reflect.TypeOf("")
	case "arr":
		return reflect.ArrayOf(t.N, reflect.TypeOf(byte(0)))
	case "list":
		return reflect.SliceOf(GoType(*t.E))
	case "larr":
		return reflect.ArrayOf(t.N, GoType(*t.E))
	case "raw":
		return rawType
	case "any":
		return anyType
	case "struct":
		var fs []reflect.StructField
		for i, f := range *t.Fs {
			sf := reflect.StructField{Name: fmt.Sprintf("F%d", i)}
			if f.T == "nil" {
				sf.Type = reflect.PointerTo(GoType(*f.E))
				if f.Ek == "s" {
					sf.Tag = `rlp:"nilString"`
				} else {
					sf.Tag = `rlp:"nilList"`
				}
			} else {
				sf.Type = GoType(f)
			}
			fs = append(fs, sf)
		}
		return reflect.StructOf(fs)
	}
	panic("rlpbind: no Go type for descriptor " + t.String())
}

func MinimalBE(x uint64) []byte {
	var out []byte
	for ; x > 0; x >>= 8 {
		out = append([]byte{byte(x)}, out...)
	}
	return out
}

// ToItem converts a Go value of the descriptor's type to the item tree (the abstraction
// function of the binding).  It never calls the rlp encoder.
func ToItem(t TD, v reflect.Value) Item {
	switch t.T {
	case "uint":
		return S(MinimalBE(v.Uint()))
	case "big":
		if v.IsNil() {
			return S(nil)
		}
		return S(v.Interface().(*big.Int).Bytes())
	case "u256":
		if v.IsNil() {
			return S(nil)
		}
		return S(v.Interface().(*uint256.Int).Bytes())
	case "bool":
		if v.Bool() {
			return S([]byte{1})
		}
		return S(nil)
	case "bytes":
		return S(v.Bytes())
	case "string":
		return S([]byte(v.String()))
	case "arr":
		b := make([]byte, v.Len())
		for i := range b {
			b[i] = byte(v.Index(i).Uint())
		}
		return S(b)
	case "list", "larr":
		xs := make([]Item, v.Len())
		for i := range xs {
			xs[i] = ToItem(*t.E, v.Index(i))
		}
		return L(xs)
	case "struct":
		xs := make([]Item, len(*t.Fs))
		for i, f := range *t.Fs {
			xs[i] = ToItem(f, v.Field(i))
		}
		return L(xs)
	case "nil":
		if v.IsNil() {
			if t.Ek == "s" {
				return S(nil)
			}
			return L(nil)
		}
		return ToItem(*t.E, v.Elem())
	case "raw":
		return R(v.Bytes())
	case "any":
		if v.Kind() == reflect.Interface {
			if v.IsNil() {
				return S(nil)
			}
			v = v.Elem()
		}
		switch x := v.Interface().(type) {
		case []byte:
			return S(x)
		case []interface{}:
			xs := make([]Item, len(x))
			for i := range x {
				xs[i] = ToItem(t, reflect.ValueOf(x[i]))
			}
			return L(xs)
		}
	}
	panic(fmt.Sprintf("rlpbind: cannot convert %v (%s)", v.Type(), t.String()))
}

// AnyFromItem builds the interface{} value ([]byte / []interface{}) of an s/l item tree.
func AnyFromItem(it Item) interface{} {
	if it.K == "l" {
		out := make([]interface{}, len(*it.Xs))
		for i, x := range *it.Xs {
			out[i] = AnyFromItem(x)
		}
		return out
	}
	return it.B.Bytes()
}

// Class maps an rlp error to the coarse classes of RLP.tla.
func Class(err error) string {
	switch {
	case err == nil:
		return ""
	case errors.Is(err, rlp.ErrCanonInt), errors.Is(err, rlp.ErrCanonSize):
		return "canon"
	case errors.Is(err, io.EOF), errors.Is(err, io.ErrUnexpectedEOF), errors.Is(err, rlp.ErrValueTooLarge), errors.Is(err, rlp.ErrElemTooLarge):
		return "short"
	case errors.Is(err, rlp.ErrMoreThanOneValue):
		return "trailing"
	case strings.Contains(err.Error(), "non-canonical"):
		return "canon" // wrapped into the unexported *decodeError
	}
	return "type"
}

// Result is the outcome of one typed decode.
type Result struct {
	OK    bool   `json:"ok"`
	Cls   string `json:"cls"`
	Out   Item   `json:"out"`
	Reenc B      `json:"reenc"`
	Err   string `json:"-"`
}

// Decode runs rlp.DecodeBytes into a fresh value of the descriptor's type and, on success,
// abstracts the value and re-encodes it with rlp.EncodeToBytes.
func Decode(t TD, in []byte) Result {
	ptr := reflect.New(GoType(t))
	err := rlp.DecodeBytes(in, ptr.Interface())
	if err != nil {
		return Result{OK: false, Cls: Class(err), Out: S(nil), Reenc: B{}, Err: err.Error()}
	}
	out := ToItem(t, ptr.Elem())
	re, err := rlp.EncodeToBytes(ptr.Interface())
	if err != nil {
		return Result{OK: true, Out: out, Reenc: B{}, Err: "re-encode failed: " + err.Error()}
	}
	return Result{OK: true, Out: out, Reenc: FromBytes(re)}
}

// StreamFirst decodes the first value of in with the Stream API only (Kind, Bytes, List,
// ListEnd) and reports the number of bytes consumed.
func StreamFirst(in []byte) (Item, int, error) {
	r := bytes.NewReader(in)
	s := rlp.NewStream(r, 0)
	it, err := streamWalk(s)
	return it, len(in) - r.Len(), err
}

func streamWalk(s *rlp.Stream) (Item, error) {
	kind, _, err := s.Kind()
	if err != nil {
		return Item{}, err
	}
	if kind != rlp.List {
		b, err := s.Bytes()
		if err != nil {
			return Item{}, err
		}
		return S(b), nil
	}
	if _, err := s.List(); err != nil {
		return Item{}, err
	}
	xs := []Item{}
	for {
		x, err := streamWalk(s)
		if err == rlp.EOL {
			break
		}
		if err != nil {
			return Item{}, err
		}
		xs = append(xs, x)
	}
	if err := s.ListEnd(); err != nil {
		return Item{}, err
	}
	return L(xs), nil
}

// ---------------------------------------------------------------- random types and values

var lenClasses = []int{0, 0, 1, 1, 1, 2, 3, 8, 20, 32, 33, 54, 55, 56, 57, 60}

func randBytes(r *rand.Rand, n int) []byte {
	b := make([]byte, n)
	switch r.Intn(5) {
	case 0: // leading zero
		r.Read(b)
		if n > 0 {
			b[0] = 0
		}
	case 1: // small bytes (own encoding)
		for i := range b {
			b[i] = byte(r.Intn(128))
		}
	case 2:
		for i := range b {
			b[i] = []byte{0x00, 0x01, 0x7f, 0x80, 0x81, 0xb7, 0xb8, 0xc0, 0xf7, 0xf8, 0xff}[r.Intn(11)]
		}
	default:
		r.Read(b)
	}
	return b
}

// notByte: a Go slice or array of uint8 is a byte string, not a list; widen the element.
func notByte(t TD) TD {
	if t.T == "uint" && t.N == 1 {
		t.N = 2
	}
	return t
}

// RandType draws a descriptor; top=true excludes descriptors that exist only as struct fields.
func RandType(r *rand.Rand, depth int, field bool) TD {
	leaf := func() TD {
		switch r.Intn(12) {
		case 0:
			return TD{T: "uint", N: []int{1, 2, 4, 8}[r.Intn(4)]}
		case 1:
			return TD{T: "uint", N: 8}
		case 2:
			return TD{T: "big"}
		case 3:
			return TD{T: "u256"}
		case 4:
			return TD{T: "bool"}
		case 5, 6:
			return TD{T: "bytes"}
		case 7:
			return TD{T: "string"}
		case 8:
			return TD{T: "arr", N: []int{0, 1, 2, 20, 32, 55, 56}[r.Intn(7)]}
		case 9:
			return TD{T: "raw"}
		case 10:
			return TD{T: "any"}
		}
		return TD{T: "arr", N: 1 + r.Intn(4)}
	}
	if depth <= 0 {
		return leaf()
	}
	switch r.Intn(10) {
	case 0, 1:
		e := notByte(RandType(r, depth-1, false))
		return TD{T: "list", E: &e}
	case 2:
		e := notByte(RandType(r, depth-1, false))
		return TD{T: "larr", N: r.Intn(4), E: &e}
	case 3, 4, 5:
		n := r.Intn(5)
		fs := make([]TD, n)
		for i := range fs {
			fs[i] = RandType(r, depth-1, true)
		}
		return TD{T: "struct", Fs: &fs}
	case 6:
		if field {
			var e TD
			ek := "s"
			switch r.Intn(4) {
			case 0:
				e = TD{T: "arr", N: []int{1, 20, 32}[r.Intn(3)]}
			case 1:
				e = TD{T: "uint", N: 8}
			case 2:
				fs := []TD{RandType(r, 0, false)}
				e = TD{T: "struct", Fs: &fs}
				ek = "l"
			default:
				ee := notByte(RandType(r, 0, false))
				e = TD{T: "list", E: &ee}
				ek = "l"
			}
			return TD{T: "nil", E: &e, Ek: ek}
		}
	}
	return leaf()
}

// RandItemAny draws an s/l item tree.
func RandItemAny(r *rand.Rand, depth int) Item {
	if depth <= 0 || r.Intn(3) == 0 {
		return S(randBytes(r, lenClasses[r.Intn(len(lenClasses))]))
	}
	n := r.Intn(5)
	xs := make([]Item, n)
	for i := range xs {
		xs[i] = RandItemAny(r, depth-1)
	}
	return L(xs)
}

// RandValue draws a Go value of the descriptor's type (settable reflect.Value).
func RandValue(r *rand.Rand, t TD) reflect.Value {
	v := reflect.New(GoType(t)).Elem()
	fillValue(r, t, v)
	return v
}

func randUint(r *rand.Rand, nbytes int) uint64 {
	switch r.Intn(6) {
	case 0:
		return 0
	case 1:
		return uint64([]int{1, 0x7f, 0x80, 0xff, 0x100}[r.Intn(5)])
	}
	w := 1 + r.Intn(nbytes)
	x := r.Uint64()
	if w < 8 {
		x &= 1<<(8*uint(w)) - 1
	}
	return x
}

func fillValue(r *rand.Rand, t TD, v reflect.Value) {
	switch t.T {
	case "uint":
		x := randUint(r, t.N)
		if t.N < 8 {
			x &= 1<<(8*uint(t.N)) - 1
		}
		v.SetUint(x)
	case "big":
		n := []int{0, 1, 1, 2, 8, 9, 32, 33, 40}[r.Intn(9)]
		b := randBytes(r, n)
		v.Set(reflect.ValueOf(new(big.Int).SetBytes(b)))
	case "u256":
		n := []int{0, 1, 1, 2, 8, 9, 31, 32}[r.Intn(8)]
		b := randBytes(r, n)
		v.Set(reflect.ValueOf(new(uint256.Int).SetBytes(b)))
	case "bool":
		v.SetBool(r.Intn(2) == 0)
	case "bytes":
		v.SetBytes(randBytes(r, lenClasses[r.Intn(len(lenClasses))]))
	case "string":
		v.SetString(string(randBytes(r, lenClasses[r.Intn(len(lenClasses))])))
	case "arr":
		b := randBytes(r, t.N)
		for i := range b {
			v.Index(i).SetUint(uint64(b[i]))
		}
	case "list":
		n := r.Intn(4)
		if r.Intn(8) == 0 {
			n = 8 + r.Intn(60)
		}
		s := reflect.MakeSlice(v.Type(), n, n)
		for i := 0; i < n; i++ {
			fillValue(r, *t.E, s.Index(i))
		}
		v.Set(s)
	case "larr":
		for i := 0; i < t.N; i++ {
			fillValue(r, *t.E, v.Index(i))
		}
	case "struct":
		for i, f := range *t.Fs {
			fillValue(r, f, v.Field(i))
		}
	case "nil":
		if r.Intn(3) == 0 {
			return // nil pointer
		}
		p := reflect.New(v.Type().Elem())
		fillValue(r, *t.E, p.Elem())
		v.Set(p)
	case "raw":
		// a raw value must hold one well-formed encoding to be a value of the type
		v.SetBytes(EncodeItem(RandItemAny(r, 2), nil, 0))
	case "any":
		v.Set(reflect.ValueOf(AnyFromItem(RandItemAny(r, 2))))
	}
}

// ---------------------------------------------------------------- input generator (not an oracle)

func beLen(n int) []byte { return MinimalBE(uint64(n)) }

func head(off byte, n int, quirk int) []byte {
	switch {
	case quirk == 1 && n < 56: // long form although the short form applies
		return []byte{off + 56, byte(n)}
	case quirk == 2: // leading zero in the length of the long form
		l := beLen(n)
		if n < 56 {
			l = []byte{byte(n)}
		}
		l = append([]byte{0}, l...)
		return append([]byte{off + 55 + byte(len(l))}, l...)
	case quirk == 3 && n >= 56: // wider length field than needed is a leading zero too; use two zeros
		l := append([]byte{0, 0}, beLen(n)...)
		return append([]byte{off + 55 + byte(len(l))}, l...)
	}
	if n < 56 {
		return []byte{off + byte(n)}
	}
	l := beLen(n)
	return append([]byte{off + 55 + byte(len(l))}, l...)
}

// EncodeItem writes an item tree.  *quirkAt counts down over the nodes in preorder; the node
// reaching zero is written with the non-canonical header form `quirk` (1..4; 4 = a single
// byte below 0x80 wrapped as a one-byte string).  It is an input generator for the decoders,
// never an oracle.
func EncodeItem(it Item, quirkAt *int, quirk int) []byte {
	q := 0
	if quirkAt != nil {
		if *quirkAt == 0 {
			q = quirk
		}
		*quirkAt--
	}
	switch it.K {
	case "r":
		return it.B.Bytes()
	case "s":
		b := it.B.Bytes()
		if len(b) == 1 && b[0] < 0x80 {
			if q == 4 {
				return []byte{0x81, b[0]}
			}
			if q == 0 {
				return b
			}
		}
		return append(head(0x80, len(b), q), b...)
	}
	var p []byte
	for _, x := range *it.Xs {
		p = append(p, EncodeItem(x, quirkAt, quirk)...)
	}
	return append(head(0xc0, len(p), q), p...)
}

// CountNodes returns the number of nodes of the tree (preorder positions).
func CountNodes(it Item) int {
	n := 1
	if it.K == "l" {
		for _, x := range *it.Xs {
			n += CountNodes(x)
		}
	}
	return n
}
