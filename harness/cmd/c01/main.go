// c01 binds spec/codec/RLP.tla to package rlp (property C01).
//
//	-mode cases  -in cases.json    replay every byte string enumerated by TLC (MCRLP) with the
//	                                specification's verdict for every typed view, the Stream
//	                                API and the raw helpers (R)
//	-mode record -trace t.ndjson   seeded random typed values, their encodings and mutations;
//	                                one event per call, validated by RLPTrace.tla (V)
package main

import (
	"bytes"
	"flag"
	"fmt"
	"math/big"
	"os"
	"reflect"

	"github.com/ethereum/go-ethereum/rlp"
	"github.com/holiman/uint256"
	rb "verif/harness/cmd/c01/rlpbind"
	tl "verif/harness/tracelib"
)

// SpecRes is any result record printed by the specification.
type SpecRes struct {
	OK      bool     `json:"ok"`
	V       *rb.Item `json:"v"`
	N       int      `json:"n"`
	C       []string `json:"c"`
	K       string   `json:"k"`
	Size    int      `json:"size"`
	Kind    string   `json:"kind"`
	Content rb.B     `json:"content"`
	Rest    rb.B     `json:"rest"`
	X       rb.B     `json:"x"`
}

type Case struct {
	In     rb.B      `json:"in"`
	Fill   []int     `json:"fill"`
	Views  []SpecRes `json:"views"`
	Stream []SpecRes `json:"stream"`
	First  SpecRes   `json:"first"`
	Kind   SpecRes   `json:"kind"`
	Split  SpecRes   `json:"split"`
	SStr   SpecRes   `json:"sstr"`
	SList  SpecRes   `json:"slist"`
	SUint  SpecRes   `json:"suint"`
	Count  SpecRes   `json:"count"`
	Iter   struct {
		OK    bool     `json:"ok"`
		C     []string `json:"c"`
		Elems []rb.B   `json:"elems"`
	} `json:"iter"`
}

type CaseFile struct {
	Views []rb.TD `json:"views"`
	Cases []Case  `json:"cases"`
}

func hasClass(cs []string, c string) bool {
	for _, x := range cs {
		if x == c {
			return true
		}
	}
	return false
}

func eqB(a rb.B, b []byte) bool { return bytes.Equal(a.Bytes(), b) }

func kindName(k rlp.Kind) string {
	switch k {
	case rlp.Byte:
		return "byte"
	case rlp.String:
		return "string"
	}
	return "list"
}

// checkClass reports a divergence on accept/reject or on the reason class.
func verdict(what string, in []byte, specOK bool, specC []string, err error) string {
	if specOK != (err == nil) {
		return fmt.Sprintf("%s(%x): implementation %s, specification %s (impl err=%v, spec classes=%v)", what, in,
			map[bool]string{true: "accepts", false: "rejects"}[err == nil], map[bool]string{true: "accepts", false: "rejects"}[specOK], err, specC)
	}
	if err != nil && !hasClass(specC, rb.Class(err)) {
		return fmt.Sprintf("%s(%x): rejected for reason class %q (%v), specification allows only %v", what, in, rb.Class(err), err, specC)
	}
	return ""
}

func runCases(path string, sum *tl.Summary) {
	var cf CaseFile
	tl.ReadJSON(path, &cf)
	if len(cf.Views) == 0 || len(cf.Cases) == 0 {
		tl.Fatal("no views/cases in %s", path)
	}
	accepted := 0
	for ci, c := range cf.Cases {
		in := c.In.Bytes()
		if len(c.Fill) == 2 && c.Fill[0] > 0 {
			in = append(in, bytes.Repeat([]byte{byte(c.Fill[1])}, c.Fill[0])...)
		}
		if len(c.Views) != len(cf.Views) {
			tl.Fatal("case %d has %d view results, want %d", ci, len(c.Views), len(cf.Views))
		}
		bad := func(desc string, extra tl.M) {
			extra["in"] = fmt.Sprintf("%x", in)
			sum.Violate(desc, extra)
		}
		nontrivial := false
		// typed views through rlp.DecodeBytes / rlp.EncodeToBytes
		for vi, t := range cf.Views {
			want := c.Views[vi]
			got := rb.Decode(t, in)
			sum.Evaluations++
			sum.Count("DecodeBytes")
			var err error
			if !got.OK {
				err = fmt.Errorf("%s", got.Err)
			}
			if want.OK != got.OK {
				bad(fmt.Sprintf("DecodeBytes(%x) into %s: implementation %s (%s), specification %s %v", in, t, okStr(got.OK), got.Err, okStr(want.OK), want.C),
					tl.M{"type": t, "got": got, "want": want})
				continue
			}
			_ = err
			if !got.OK {
				if !hasClass(want.C, got.Cls) {
					bad(fmt.Sprintf("DecodeBytes(%x) into %s: rejected with class %q (%s), specification allows %v", in, t, got.Cls, got.Err, want.C),
						tl.M{"type": t, "got": got, "want": want})
				}
				continue
			}
			nontrivial = true
			accepted++
			if want.V == nil || !got.Out.Equal(*want.V) {
				bad(fmt.Sprintf("DecodeBytes(%x) into %s: value %v, specification %v", in, t, got.Out, want.V), tl.M{"type": t, "got": got, "want": want})
			}
			if got.Err != "" || !eqB(got.Reenc, in) {
				bad(fmt.Sprintf("DecodeBytes(%x) into %s accepted but EncodeToBytes gives %x (%s): not canonical", in, t, got.Reenc.Bytes(), got.Err),
					tl.M{"type": t, "got": got, "want": want})
			}
		}
		// Stream API: Kind, then a walk with Bytes/List/ListEnd
		{
			s := rlp.NewStream(bytes.NewReader(in), 0)
			k, size, err := s.Kind()
			sum.Count("Stream.Kind")
			if d := verdict("Stream.Kind", in, c.Kind.OK, c.Kind.C, err); d != "" {
				bad(d, tl.M{"want": c.Kind})
			} else if err == nil && (kindName(k) != c.Kind.K || int(size) != c.Kind.Size) {
				bad(fmt.Sprintf("Stream.Kind(%x) = %v,%d, specification %s,%d", in, k, size, c.Kind.K, c.Kind.Size), tl.M{"want": c.Kind})
			}
			it, n, err := rb.StreamFirst(in)
			sum.Count("Stream.walk")
			if d := verdict("Stream walk", in, c.First.OK, c.First.C, err); d != "" {
				bad(d, tl.M{"want": c.First})
			} else if err == nil && (!it.Equal(*c.First.V) || n != c.First.N) {
				bad(fmt.Sprintf("Stream walk(%x) = %v consuming %d, specification %v consuming %d", in, it, n, c.First.V, c.First.N), tl.M{"want": c.First})
			}
		}
		// typed read methods of Stream
		for oi, want := range c.Stream {
			it, n, err := streamOp(oi, in)
			sum.Count("Stream." + streamOpNames[oi])
			sum.Evaluations++
			if d := verdict("Stream."+streamOpNames[oi], in, want.OK, want.C, err); d != "" {
				bad(d, tl.M{"want": want})
			} else if err == nil && (want.V == nil || !it.Equal(*want.V) || n != want.N) {
				bad(fmt.Sprintf("Stream.%s(%x) = %v consuming %d, specification %v consuming %d", streamOpNames[oi], in, it, n, want.V, want.N), tl.M{"want": want})
			}
		}
		// raw helpers
		{
			k, content, rest, err := rlp.Split(in)
			sum.Count("Split")
			if d := verdict("Split", in, c.Split.OK, c.Split.C, err); d != "" {
				bad(d, tl.M{"want": c.Split})
			} else if err == nil && (kindName(k) != c.Split.Kind || !eqB(c.Split.Content, content) || !eqB(c.Split.Rest, rest)) {
				bad(fmt.Sprintf("Split(%x) = %v %x %x, specification %s %x %x", in, k, content, rest, c.Split.Kind, c.Split.Content.Bytes(), c.Split.Rest.Bytes()), tl.M{"want": c.Split})
			}
			content, rest, err = rlp.SplitString(in)
			sum.Count("SplitString")
			if d := verdict("SplitString", in, c.SStr.OK, c.SStr.C, err); d != "" {
				bad(d, tl.M{"want": c.SStr})
			} else if err == nil && (!eqB(c.SStr.Content, content) || !eqB(c.SStr.Rest, rest)) {
				bad(fmt.Sprintf("SplitString(%x) = %x %x, specification %x %x", in, content, rest, c.SStr.Content.Bytes(), c.SStr.Rest.Bytes()), tl.M{"want": c.SStr})
			}
			content, rest, err = rlp.SplitList(in)
			sum.Count("SplitList")
			if d := verdict("SplitList", in, c.SList.OK, c.SList.C, err); d != "" {
				bad(d, tl.M{"want": c.SList})
			} else if err == nil && (!eqB(c.SList.Content, content) || !eqB(c.SList.Rest, rest)) {
				bad(fmt.Sprintf("SplitList(%x) = %x %x, specification %x %x", in, content, rest, c.SList.Content.Bytes(), c.SList.Rest.Bytes()), tl.M{"want": c.SList})
			}
			x, rest, err := rlp.SplitUint64(in)
			sum.Count("SplitUint64")
			if d := verdict("SplitUint64", in, c.SUint.OK, c.SUint.C, err); d != "" {
				bad(d, tl.M{"want": c.SUint})
			} else if err == nil && (!eqB(c.SUint.X, rb.MinimalBE(x)) || !eqB(c.SUint.Rest, rest)) {
				bad(fmt.Sprintf("SplitUint64(%x) = %d %x, specification %x %x", in, x, rest, c.SUint.X.Bytes(), c.SUint.Rest.Bytes()), tl.M{"want": c.SUint})
			}
			n, err := rlp.CountValues(in)
			sum.Count("CountValues")
			if d := verdict("CountValues", in, c.Count.OK, c.Count.C, err); d != "" {
				bad(d, tl.M{"want": c.Count})
			} else if err == nil && n != c.Count.N {
				bad(fmt.Sprintf("CountValues(%x) = %d, specification %d", in, n, c.Count.N), tl.M{"want": c.Count})
			}
			sum.Evaluations += 7
		}
		// list iterator and SplitListValues
		{
			it, err := rlp.NewListIterator(rlp.RawValue(in))
			sum.Count("ListIterator")
			sum.Evaluations += 2
			if d := verdict("NewListIterator", in, c.Iter.OK, c.Iter.C, err); d != "" {
				bad(d, tl.M{"want": c.Iter})
			} else if err == nil {
				var elems [][]byte
				var ierr error
				for it.Next() {
					if it.Err() != nil {
						ierr = it.Err()
						break
					}
					elems = append(elems, append([]byte{}, it.Value()...))
				}
				same := len(elems) == len(c.Iter.Elems)
				for j := 0; same && j < len(elems); j++ {
					same = eqB(c.Iter.Elems[j], elems[j])
				}
				if !same {
					bad(fmt.Sprintf("list iterator over %x yields %x, specification %v", in, elems, c.Iter.Elems), tl.M{"want": c.Iter})
				}
				if (ierr != nil) != (len(c.Iter.C) > 0) || (ierr != nil && !hasClass(c.Iter.C, rb.Class(ierr))) {
					bad(fmt.Sprintf("list iterator over %x ends with error %v, specification %v", in, ierr, c.Iter.C), tl.M{"want": c.Iter})
				}
				vals, verr := rlp.SplitListValues(in)
				if (verr == nil) != (len(c.Iter.C) == 0) {
					bad(fmt.Sprintf("SplitListValues(%x) err=%v, specification element error classes %v", in, verr, c.Iter.C), tl.M{"want": c.Iter})
				} else if verr == nil {
					ok := len(vals) == len(c.Iter.Elems)
					for j := 0; ok && j < len(vals); j++ {
						ok = eqB(c.Iter.Elems[j], vals[j])
					}
					if !ok {
						bad(fmt.Sprintf("SplitListValues(%x) = %x, specification %v", in, vals, c.Iter.Elems), tl.M{"want": c.Iter})
					}
				}
			} else if _, verr := rlp.SplitListValues(in); verr == nil {
				bad(fmt.Sprintf("SplitListValues(%x) accepts what NewListIterator rejects", in), tl.M{"want": c.Iter})
			}
		}
		sum.Steps++
		if nontrivial {
			sum.Distinct++
		}
		if ci%2500 == 7 {
			sum.Sample(tl.M{"in": fmt.Sprintf("%x", in), "any": c.Views[0], "split": c.Split})
		}
	}
	sum.Extra["accepted_view_decodes"] = accepted
	sum.Extra["views"] = len(cf.Views)
	sum.Rule = "every byte string enumerated by TLC (MCRLP) is decoded into every view type with rlp.DecodeBytes, walked with rlp.Stream and split with the raw helpers; distinct = enumerated strings accepted by at least one view"
}

// the order of StreamOps in MCRLP.tla
var streamOpNames = []string{"Uint64", "Uint32", "Uint16", "Uint8", "Bool", "BigInt", "ReadUint256", "Bytes", "Raw", "ReadBytes2", "List+Uint64s"}

func streamOp(op int, in []byte) (rb.Item, int, error) {
	r := bytes.NewReader(in)
	s := rlp.NewStream(r, 0)
	var it rb.Item
	var err error
	switch op {
	case 0:
		var x uint64
		x, err = s.Uint64()
		it = rb.S(rb.MinimalBE(x))
	case 1:
		var x uint32
		x, err = s.Uint32()
		it = rb.S(rb.MinimalBE(uint64(x)))
	case 2:
		var x uint16
		x, err = s.Uint16()
		it = rb.S(rb.MinimalBE(uint64(x)))
	case 3:
		var x uint8
		x, err = s.Uint8()
		it = rb.S(rb.MinimalBE(uint64(x)))
	case 4:
		var x bool
		x, err = s.Bool()
		if x {
			it = rb.S([]byte{1})
		} else {
			it = rb.S(nil)
		}
	case 5:
		var x *big.Int
		x, err = s.BigInt()
		if err == nil {
			it = rb.S(x.Bytes())
		}
	case 6:
		var x uint256.Int
		err = s.ReadUint256(&x)
		it = rb.S(x.Bytes())
	case 7:
		var b []byte
		b, err = s.Bytes()
		it = rb.S(b)
	case 8:
		var b []byte
		b, err = s.Raw()
		it = rb.R(b)
	case 9:
		var b [2]byte
		err = s.ReadBytes(b[:])
		it = rb.S(b[:])
	case 10:
		if _, err = s.List(); err != nil {
			break
		}
		xs := []rb.Item{}
		for s.MoreDataInList() {
			var x uint64
			if x, err = s.Uint64(); err != nil {
				break
			}
			xs = append(xs, rb.S(rb.MinimalBE(x)))
		}
		if err == nil {
			err = s.ListEnd()
		}
		it = rb.L(xs)
	default:
		tl.Fatal("unknown stream op %d", op)
	}
	return it, len(in) - r.Len(), err
}

func okStr(b bool) string {
	if b {
		return "accepts"
	}
	return "rejects"
}

// ---------------------------------------------------------------- record mode

type recorder struct {
	tr   *tl.Trace
	sum  *tl.Summary
	seen map[string]bool
}

func (rc *recorder) dec(t rb.TD, in []byte) rb.Result {
	res := rb.Decode(t, in)
	if res.OK && res.Err != "" {
		// re-encoding failed although the value was just decoded: report as empty re-encoding
		res.Reenc = rb.B{}
	}
	rc.tr.Emit(tl.M{"op": "dec", "T": t, "in": rb.FromBytes(in), "ok": res.OK, "cls": res.Cls, "out": res.Out, "reenc": res.Reenc})
	rc.sum.Count("dec")
	key := t.String() + fmt.Sprintf("|%x", in)
	if !rc.seen[key] {
		rc.seen[key] = true
		rc.sum.Distinct++
	}
	return res
}

func (rc *recorder) helpers(in []byte) {
	k, content, rest, err := rlp.Split(in)
	rc.tr.Emit(tl.M{"op": "split", "in": rb.FromBytes(in), "ok": err == nil, "cls": rb.Class(err), "kind": kindName(k),
		"content": rb.FromBytes(content), "rest": rb.FromBytes(rest)})
	x, rest, err := rlp.SplitUint64(in)
	rc.tr.Emit(tl.M{"op": "suint", "in": rb.FromBytes(in), "ok": err == nil, "cls": rb.Class(err), "x": rb.FromBytes(rb.MinimalBE(x)), "rest": rb.FromBytes(rest)})
	n, err := rlp.CountValues(in)
	rc.tr.Emit(tl.M{"op": "count", "in": rb.FromBytes(in), "ok": err == nil, "cls": rb.Class(err), "n": n})
	it, cons, err := rb.StreamFirst(in)
	if err != nil {
		it, cons = rb.S(nil), 0
	}
	rc.tr.Emit(tl.M{"op": "first", "in": rb.FromBytes(in), "ok": err == nil, "cls": rb.Class(err), "out": it, "n": cons})
	rc.sum.Count("helpers")
}

var alphabet = []byte{0x00, 0x01, 0x37, 0x38, 0x7f, 0x80, 0x81, 0x82, 0xb7, 0xb8, 0xb9, 0xbf, 0xc0, 0xc1, 0xc2, 0xf7, 0xf8, 0xf9, 0xff}

func runRecord(path string, seed int64, n int, sum *tl.Summary) {
	r := tl.Rand(seed)
	tr := tl.NewTrace(path)
	defer tr.Close()
	rc := &recorder{tr: tr, sum: sum, seen: map[string]bool{}}
	for i := 0; i < n; i++ {
		t := rb.RandType(r, 1+r.Intn(3), false)
		v := rb.RandValue(r, t)
		val := rb.ToItem(t, v)
		enc, err := rlp.EncodeToBytes(v.Addr().Interface())
		if err != nil {
			tl.Fatal("EncodeToBytes(%s): %v", t, err)
		}
		if len(enc) > 400 {
			continue
		}
		// first half of the property: value -> encoding -> equal value
		tr.Emit(tl.M{"op": "enc", "T": t, "val": val, "enc": rb.FromBytes(enc)})
		sum.Count("enc")
		res := rc.dec(t, enc)
		if i < 3 {
			sum.Sample(tl.M{"type": t.String(), "enc": fmt.Sprintf("%x", enc), "decoded": res.Out.String()})
		}
		// second half: mutations of the encoding, every one decided by the specification
		muts := [][]byte{}
		pos := func() int { return r.Intn(len(enc)) }
		cp := func() []byte { return append([]byte{}, enc...) }
		for k := 0; k < 3; k++ {
			m := cp()
			switch r.Intn(8) {
			case 0:
				m[pos()] ^= 1 << uint(r.Intn(8))
			case 1:
				m[pos()] = alphabet[r.Intn(len(alphabet))]
			case 2:
				p := pos()
				m = append(m[:p], append([]byte{alphabet[r.Intn(len(alphabet))]}, m[p:]...)...)
			case 3:
				p := pos()
				m = append(m[:p], m[p+1:]...)
			case 4:
				m = m[:pos()]
			case 5:
				m = append(m, alphabet[r.Intn(len(alphabet))])
			case 6:
				m[pos()]++
			case 7:
				m[pos()]--
			}
			muts = append(muts, m)
		}
		// one non-minimal header somewhere in an otherwise valid encoding
		nodes := rb.CountNodes(val)
		for k := 0; k < 2; k++ {
			at := r.Intn(nodes)
			muts = append(muts, rb.EncodeItem(val, &at, 1+r.Intn(4)))
		}
		for _, m := range muts {
			rc.dec(t, m)
		}
		// the same bytes as another type
		t2 := rb.RandType(r, r.Intn(3), false)
		rc.dec(t2, enc)
		if len(muts) > 0 {
			rc.dec(rb.TD{T: "any"}, muts[r.Intn(len(muts))])
			rc.helpers(muts[r.Intn(len(muts))])
		}
		rc.helpers(enc)
		sum.Evaluations++
	}
	sum.Traces = 1
	sum.Steps = tr.N
	sum.Rule = "seeded random types (depth<=3) and values, rlp.EncodeToBytes, then rlp.DecodeBytes of the encoding, of byte-level mutations, of re-encodings with one non-minimal header, and of the same bytes as another type; distinct = distinct (type, input) pairs decoded"
}

func main() {
	mode := flag.String("mode", "record", "cases|record")
	in := flag.String("in", "", "cases json (mode cases)")
	trace := flag.String("trace", "trace.ndjson", "output trace (mode record)")
	out := flag.String("out", "summary.json", "summary output")
	n := flag.Int("n", 200, "number of random values")
	flag.Parse()
	seed := int64(tl.EnvInt("VERIF_SEED", 1))
	sum := tl.NewSummary("c01", *mode, seed)
	switch *mode {
	case "cases":
		sum.Mode = "replay"
		runCases(*in, sum)
	case "record":
		runRecord(*trace, seed, *n, sum)
	default:
		tl.Fatal("bad mode")
	}
	sum.Write(*out)
	_ = reflect.TypeOf
	if len(sum.Violations) > 0 {
		os.Exit(1)
	}
}
