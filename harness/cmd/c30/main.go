// c30 binds spec/codec/JumpDest.tla to core/vm (property C30, jump destination analysis).
//
//	-mode cases  -in cases.json   every code of the TLC-enumerated domain with the valid/data
//	                               positions the specification derives from the defining scan,
//	                               checked (a) white-box on codeBitmap/codeSegment and
//	                               Contract.validJumpdest (export file), (b) black-box by running
//	                               "PUSH1 0 CALLDATALOAD JUMP ++ code" in the EVM with a shared
//	                               JumpDestCache (cold, warm) and a fresh one, and as initcode
//	                               (frame without code hash) (R)
//	-mode paths  -in edges.json   every edge of the cache state machine replayed as a path from
//	                               the initial state on real vm.Contract frames sharing a cache (R)
//	-mode record -trace t.ndjson  seeded random codes (dense PUSHn patterns, truncated pushes);
//	                               the set of accepted targets observed through each route is
//	                               logged and validated by JumpDestTrace.tla (V)
package main

import (
	"encoding/json"
	"errors"
	"flag"
	"fmt"
	"math/big"
	"os"
	"reflect"

	"github.com/ethereum/go-ethereum/common"
	"github.com/ethereum/go-ethereum/core"
	"github.com/ethereum/go-ethereum/core/state"
	"github.com/ethereum/go-ethereum/core/tracing"
	"github.com/ethereum/go-ethereum/core/types"
	"github.com/ethereum/go-ethereum/core/vm"
	"github.com/ethereum/go-ethereum/core/vm/runtime"
	"github.com/ethereum/go-ethereum/crypto"
	"github.com/ethereum/go-ethereum/params"
	"github.com/holiman/uint256"
	tl "verif/harness/tracelib"
)

func toBytes(x []int) []byte {
	out := make([]byte, len(x))
	for i, v := range x {
		out[i] = byte(v)
	}
	return out
}
func toInts(b []byte) []int {
	out := make([]int, len(b))
	for i, v := range b {
		out[i] = int(v)
	}
	return out
}

// ---------------------------------------------------------------- observation routes

// countingCache wraps a JumpDestCache and counts hits/stores (coverage only, never a verdict).
type countingCache struct {
	inner        vm.JumpDestCache
	hits, stores int
}

func (c *countingCache) Load(h common.Hash) (vm.BitVec, bool) {
	v, ok := c.inner.Load(h)
	if ok {
		c.hits++
	}
	return v, ok
}
func (c *countingCache) Store(h common.Hash, v vm.BitVec) { c.stores++; c.inner.Store(h, v) }

// mapCache is a harness-owned JumpDestCache with eviction (the model's Evict action).
type mapCache map[common.Hash]vm.BitVec

func (m mapCache) Load(h common.Hash) (vm.BitVec, bool) { v, ok := m[h]; return v, ok }
func (m mapCache) Store(h common.Hash, v vm.BitVec)     { m[h] = v }

// whiteBitmap: positions p < len(code) that codeBitmap marks as data.
func whiteBitmap(code []byte) []int {
	bm := vm.VerifCodeBitmap(code)
	out := []int{}
	for p := 0; p < len(code); p++ {
		if !bm.VerifCodeSegment(uint64(p)) {
			out = append(out, p)
		}
	}
	return out
}

func newContract(code []byte, hashed bool, cache vm.JumpDestCache) *vm.Contract {
	c := vm.NewContract(common.Address{1}, common.Address{2}, new(uint256.Int), vm.GasBudget{}, cache)
	h := common.Hash{}
	if hashed {
		h = crypto.Keccak256Hash(code)
	}
	c.SetCallCode(h, code)
	return c
}

// whiteValid: positions 0..len+1 accepted by Contract.validJumpdest on a new frame.
func whiteValid(code []byte, hashed bool, cache vm.JumpDestCache) []int {
	c := newContract(code, hashed, cache)
	out := []int{}
	for p := 0; p <= len(code)+1; p++ {
		if c.VerifValidJumpdest(uint256.NewInt(uint64(p))) {
			out = append(out, p)
		}
	}
	return out
}

type world struct {
	st     *state.StateDB
	cfg    *runtime.Config
	origin common.Address
}

func newWorld() *world {
	st, err := state.New(types.EmptyRootHash, state.NewDatabaseForTesting())
	if err != nil {
		tl.Fatal("state: %v", err)
	}
	z := uint64(0)
	cfg := &runtime.Config{
		ChainConfig: &params.ChainConfig{ChainID: big.NewInt(1), HomesteadBlock: new(big.Int), DAOForkBlock: new(big.Int),
			EIP150Block: new(big.Int), EIP155Block: new(big.Int), EIP158Block: new(big.Int), ByzantiumBlock: new(big.Int),
			ConstantinopleBlock: new(big.Int), PetersburgBlock: new(big.Int), IstanbulBlock: new(big.Int),
			MuirGlacierBlock: new(big.Int), BerlinBlock: new(big.Int), LondonBlock: new(big.Int),
			TerminalTotalDifficulty: big.NewInt(0), MergeNetsplitBlock: new(big.Int), ShanghaiTime: &z, CancunTime: &z},
		Difficulty: new(big.Int), BlockNumber: new(big.Int), GasLimit: 10_000_000, GasPrice: new(big.Int), Value: new(big.Int),
		BaseFee: big.NewInt(params.InitialBaseFee), BlobBaseFee: big.NewInt(params.BlobTxMinBlobGasprice), Random: new(common.Hash),
		State: st, GetHashFn: func(uint64) common.Hash { return common.Hash{} },
		Origin: common.HexToAddress("0x0a"),
	}
	return &world{st: st, cfg: cfg, origin: cfg.Origin}
}

var callPrefix = []byte{byte(vm.PUSH1), 0, byte(vm.CALLDATALOAD), byte(vm.JUMP)} // 4 bytes; ends on an instruction boundary

// the same through a taken conditional jump: PUSH1 1; PUSH1 0; CALLDATALOAD; JUMPI (6 bytes)
var jumpiPrefix = []byte{byte(vm.PUSH1), 1, byte(vm.PUSH1), 0, byte(vm.CALLDATALOAD), byte(vm.JUMPI)}

// evmOutcome classifies one execution: "valid" (the jump was taken), "invalid" (ErrInvalidJump), or other.
func outcome(err error) string {
	switch {
	case errors.Is(err, vm.ErrInvalidJump):
		return "invalid"
	case err == nil:
		return "valid"
	}
	return "other:" + err.Error()
}

// blackCall: positions 0..len+1 (relative to code) to which "prefix ++ code" jumps successfully
// when the target is passed as call data; one EVM per call, all sharing cache.
func (w *world) blackCall(code []byte, cache vm.JumpDestCache, addr common.Address, positions []int, sum *tl.Summary) ([]int, string) {
	return w.blackCallWith(callPrefix, code, cache, addr, positions, sum)
}

func (w *world) blackCallWith(prefix, code []byte, cache vm.JumpDestCache, addr common.Address, positions []int, sum *tl.Summary) ([]int, string) {
	callPrefix := prefix
	full := append(append([]byte{}, callPrefix...), code...)
	w.st.SetCode(addr, full, tracing.CodeChangeUnspecified)
	out := []int{}
	for _, p := range positions {
		evm := runtime.NewEnv(w.cfg)
		evm.SetJumpDestCache(cache)
		input := uint256.NewInt(uint64(p + len(callPrefix))).Bytes32()
		_, _, err := evm.Call(w.origin, addr, input[:], vm.NewGasBudget(w.cfg.GasLimit, 0), new(uint256.Int))
		sum.Count("evm.Call")
		switch o := outcome(err); o {
		case "valid":
			out = append(out, p)
		case "invalid":
		default:
			return out, fmt.Sprintf("pos %d: %s", p, o)
		}
	}
	return out, ""
}

// blackCreate: the same through initcode "PUSH2 pos JUMP ++ code" (frame has no code hash).
func (w *world) blackCreate(code []byte, positions []int, sum *tl.Summary) ([]int, string) {
	out := []int{}
	for _, p := range positions {
		t := p + 4
		full := append([]byte{byte(vm.PUSH2), byte(t >> 8), byte(t), byte(vm.JUMP)}, code...)
		evm := runtime.NewEnv(w.cfg)
		_, _, _, err := evm.Create(w.origin, full, vm.NewGasBudget(w.cfg.GasLimit, 0), new(uint256.Int))
		sum.Count("evm.Create")
		switch o := outcome(err); o {
		case "valid":
			out = append(out, p)
		case "invalid":
		default:
			return out, fmt.Sprintf("pos %d: %s", p, o)
		}
	}
	return out, ""
}

func allPositions(code []byte) []int {
	out := make([]int, 0, len(code)+2)
	for p := 0; p <= len(code)+1; p++ {
		out = append(out, p)
	}
	return out
}

// benign: executing the code from any instruction boundary can only run STOP/JUMPDEST/PUSHn, so
// after a taken jump the run ends without error (needed for the black-box oracle "no error = taken").
func benign(code []byte) bool {
	for pc := 0; pc < len(code); pc++ {
		op := code[pc]
		switch {
		case op == 0 || op == 0x5b:
		case op >= 0x60 && op <= 0x7f:
			pc += int(op) - 0x5f
		default:
			return false
		}
	}
	return true
}

func eq(a, b []int) bool { return reflect.DeepEqual(append([]int{}, a...), append([]int{}, b...)) }

// ---------------------------------------------------------------- cases (R)

type kase struct {
	Code  []int `json:"code"`
	Valid []int `json:"valid"`
	Data  []int `json:"data"`
}

func runCases(in string, blackEvery int, sum *tl.Summary) {
	var cases []kase
	tl.ReadJSON(in, &cases)
	w := newWorld()
	shared := &countingCache{inner: core.NewJumpDestCache()}
	mapShared := &countingCache{inner: vm.VerifNewMapJumpDests()}
	for i, c := range cases {
		code := toBytes(c.Code)
		sum.Evaluations++
		sum.Steps += len(code) + 2
		if len(c.Valid)+len(c.Data) > 0 {
			sum.Distinct++
		}
		bad := func(route string, got, want []int) {
			sum.Violate(fmt.Sprintf("%s on code %x: implementation accepts %v, specification %v", route, code, got, want),
				tl.M{"case": c, "route": route, "got": got, "want": want})
		}
		if got := whiteBitmap(code); !eq(got, c.Data) {
			bad("codeBitmap data positions", got, c.Data)
		}
		sum.Count("codeBitmap")
		// frames: no hash (local analysis), hashed with a cold cache, hashed again (warm), default map cache
		if got := whiteValid(code, false, nil); !eq(got, c.Valid) {
			bad("validJumpdest (frame without code hash)", got, c.Valid)
		}
		if got := whiteValid(code, true, shared); !eq(got, c.Valid) {
			bad("validJumpdest (hashed, shared LRU cache, cold)", got, c.Valid)
		}
		if got := whiteValid(code, true, shared); !eq(got, c.Valid) {
			bad("validJumpdest (hashed, shared LRU cache, warm)", got, c.Valid)
		}
		if got := whiteValid(code, true, mapShared); !eq(got, c.Valid) {
			bad("validJumpdest (hashed, map cache, cold)", got, c.Valid)
		}
		if got := whiteValid(code, true, mapShared); !eq(got, c.Valid) {
			bad("validJumpdest (hashed, map cache, warm)", got, c.Valid)
		}
		sum.Count("validJumpdest")
		// destinations that do not fit 64 bits are never valid (even if the low 64 bits are)
		if len(code) > 0 {
			ct := newContract(code, true, shared)
			for _, p := range c.Valid {
				for _, sh := range []uint{64, 128, 192, 255} {
					d := new(uint256.Int).Add(new(uint256.Int).Lsh(uint256.NewInt(1), sh), uint256.NewInt(uint64(p)))
					if ct.VerifValidJumpdest(d) {
						bad(fmt.Sprintf("validJumpdest(2^%d+%d)", sh, p), []int{p}, nil)
					}
				}
			}
		}
		// black box (the domain alphabets are benign by construction; checked anyway)
		if blackEvery > 0 && i%blackEvery == 0 && benign(code) {
			addr := common.BytesToAddress([]byte("contract"))
			pos := allPositions(code)
			for _, round := range []string{"cold", "warm"} {
				got, other := w.blackCall(code, shared, addr, pos, sum)
				if other != "" {
					sum.Notes = append(sum.Notes, fmt.Sprintf("evm.Call %x: unexpected outcome %s", code, other))
				} else if !eq(got, c.Valid) {
					bad("EVM JUMP via evm.Call, shared cache "+round, got, c.Valid)
				}
			}
			got, other := w.blackCall(code, core.NewJumpDestCache(), addr, pos, sum)
			if other != "" {
				sum.Notes = append(sum.Notes, fmt.Sprintf("evm.Call %x: unexpected outcome %s", code, other))
			} else if !eq(got, c.Valid) {
				bad("EVM JUMP via evm.Call, fresh cache", got, c.Valid)
			}
			got, other = w.blackCallWith(jumpiPrefix, code, shared, addr, pos, sum)
			if other != "" {
				sum.Notes = append(sum.Notes, fmt.Sprintf("evm.Call (JUMPI) %x: unexpected outcome %s", code, other))
			} else if !eq(got, c.Valid) {
				bad("EVM taken JUMPI via evm.Call", got, c.Valid)
			}
			got, other = w.blackCreate(code, pos, sum)
			if other != "" {
				sum.Notes = append(sum.Notes, fmt.Sprintf("evm.Create %x: unexpected outcome %s", code, other))
			} else if !eq(got, c.Valid) {
				bad("EVM JUMP in initcode via evm.Create", got, c.Valid)
			}
		}
		if i%3000 == 11 {
			sum.Sample(c)
		}
	}
	if len(sum.Notes) > 5 {
		sum.Notes = append(sum.Notes[:5], fmt.Sprintf("... %d notes", len(sum.Notes)))
	}
	sum.Extra["cache_hits"] = shared.hits + mapShared.hits
	sum.Extra["cache_stores"] = shared.stores + mapShared.stores
	sum.Rule = "every code printed by TLC (all codes up to AlphaLen over {STOP,JUMPDEST,PUSH1/2/16/17/24/25/31/32} and schematic codes 5b^a PUSHn 5b^k) checked at every position 0..len+1 through codeBitmap, Contract.validJumpdest (no hash / hashed cold / hashed warm, LRU and map caches) and EVM execution (Call cold/warm/fresh cache, Create); distinct = codes with at least one JUMPDEST or data byte"
}

// ---------------------------------------------------------------- cache machine paths (R)

type cstate struct {
	Cache [][]int `json:"cache"`
	Frame struct {
		Code     []int `json:"code"`
		Hashed   bool  `json:"hashed"`
		Analysed bool  `json:"analysed"`
		Live     bool  `json:"live"`
	} `json:"frame"`
}
type edge struct {
	From cstate         `json:"from"`
	Act  map[string]any `json:"act"`
	To   cstate         `json:"to"`
}

func key(s cstate) string { b, _ := json.Marshal(s); return string(b) }

func anyInts(v any) []int {
	out := []int{}
	for _, x := range v.([]any) {
		out = append(out, int(x.(float64)))
	}
	return out
}

func runPaths(in string, sum *tl.Summary) {
	var edges []edge
	tl.ReadJSON(in, &edges)
	// BFS: shortest path (list of edge indices) to every state
	out := map[string][]int{}
	for i, e := range edges {
		out[key(e.From)] = append(out[key(e.From)], i)
	}
	var init string
	for _, e := range edges {
		if !e.From.Frame.Live && len(e.From.Cache) == 0 {
			init = key(e.From)
		}
	}
	if init == "" {
		tl.Fatal("no initial state among edges")
	}
	pathTo := map[string][]int{init: {}}
	queue := []string{init}
	for len(queue) > 0 {
		s := queue[0]
		queue = queue[1:]
		for _, ei := range out[s] {
			t := key(edges[ei].To)
			if _, seen := pathTo[t]; !seen {
				pathTo[t] = append(append([]int{}, pathTo[s]...), ei)
				queue = append(queue, t)
			}
		}
	}
	universe := map[string][]int{}
	for ei, e := range edges {
		prefix, ok := pathTo[key(e.From)]
		if !ok {
			tl.Fatal("edge %d starts in an unreachable state", ei)
		}
		path := append(append([]int{}, prefix...), ei)
		// replay on a fresh cache
		cache := mapCache{}
		var frame *vm.Contract
		var fcode []byte
		for si, pi := range path {
			pe := edges[pi]
			var gotValid, hasValid bool
			switch pe.Act["op"].(string) {
			case "NewFrame":
				fcode = toBytes(anyInts(pe.Act["code"]))
				universe[fmt.Sprint(fcode)] = toInts(fcode)
				frame = newContract(fcode, pe.Act["hashed"].(bool), cache)
			case "Jump":
				gotValid, hasValid = frame.VerifValidJumpdest(uint256.NewInt(uint64(pe.Act["pos"].(float64)))), true
			case "Evict":
				delete(cache, crypto.Keccak256Hash(toBytes(anyInts(pe.Act["code"]))))
			default:
				tl.Fatal("unknown op %v", pe.Act["op"])
			}
			sum.Steps++
			if si != len(path)-1 {
				continue
			}
			// compare the observable projection after the last step: which codes are cached, and the answer
			stored := [][]int{}
			for _, c := range pe.To.Cache {
				if _, ok := cache[crypto.Keccak256Hash(toBytes(c))]; ok {
					stored = append(stored, c)
				}
			}
			sum.Count(pe.Act["op"].(string))
			if len(stored) != len(pe.To.Cache) || len(cache) != len(pe.To.Cache) {
				sum.Violate(fmt.Sprintf("after %v the implementation's cache holds %d analyses (of the expected: %v), specification %v", pe.Act, len(cache), stored, pe.To.Cache),
					tl.M{"path": pathActs(edges, path), "to": pe.To})
			}
			if hasValid && gotValid != pe.Act["valid"].(bool) {
				sum.Violate(fmt.Sprintf("validJumpdest after path %v: implementation %v, specification %v", pathActs(edges, path), gotValid, pe.Act["valid"]),
					tl.M{"path": pathActs(edges, path), "got": gotValid})
			}
			// every cached analysis must equal a fresh one on its code (cached = fresh)
			for _, c := range stored {
				code := toBytes(c)
				bm := cache[crypto.Keccak256Hash(code)]
				fresh := vm.VerifCodeBitmap(code)
				for p := 0; p < len(code); p++ {
					if bm.VerifCodeSegment(uint64(p)) != fresh.VerifCodeSegment(uint64(p)) {
						sum.Violate(fmt.Sprintf("cached analysis of %x differs from a fresh one at %d", code, p), tl.M{"path": pathActs(edges, path)})
					}
				}
			}
		}
		sum.Evaluations++
		if !reflect.DeepEqual(e.From, e.To) {
			sum.Distinct++
		}
		if ei%400 == 3 {
			sum.Sample(tl.M{"path": pathActs(edges, path)})
		}
	}
	sum.Rule = "every edge of the TLC graph of MCJumpDestCache.cfg (three codes sharing one cache; NewFrame/Jump/Evict) replayed as the shortest path from the initial state on real vm.Contract frames; distinct = edges that change the state"
}

func pathActs(edges []edge, path []int) []map[string]any {
	out := []map[string]any{}
	for _, i := range path {
		out = append(out, edges[i].Act)
	}
	return out
}

// ---------------------------------------------------------------- record (V)

func randCode(r interface{ Intn(int) int }, maxLen int) []byte {
	n := r.Intn(maxLen + 1)
	code := make([]byte, 0, n+33)
	style := r.Intn(3)
	for len(code) < n {
		var op byte
		switch x := r.Intn(10); {
		case x < 3:
			op = 0x5b
		case x < 4:
			op = 0x00
		default:
			switch style {
			case 0: // all sizes
				op = 0x60 + byte(r.Intn(32))
			case 1: // the fast-path boundaries
				op = []byte{0x60, 0x61, 0x66, 0x67, 0x68, 0x6e, 0x6f, 0x70, 0x76, 0x77, 0x78, 0x7e, 0x7f}[r.Intn(13)]
			default: // long pushes
				op = 0x6f + byte(r.Intn(17))
			}
		}
		code = append(code, op)
		if op >= 0x60 && op <= 0x7f {
			for k := 0; k < int(op)-0x5f; k++ {
				// data: JUMPDESTs, push opcodes, JUMP, anything
				switch r.Intn(4) {
				case 0:
					code = append(code, 0x5b)
				case 1:
					code = append(code, 0x60+byte(r.Intn(32)))
				case 2:
					code = append(code, 0x56)
				default:
					code = append(code, byte(r.Intn(256)))
				}
			}
		}
	}
	return code[:n] // truncation cuts trailing pushes anywhere
}

// bigCode: a push-dense instruction stream (PUSH16..PUSH32, few single-byte instructions) of about
// the given size: contract-size and initcode-size codes, where 16-bit positions/counters would wrap.
func bigCode(r interface{ Intn(int) int }, size int) []byte {
	code := make([]byte, 0, size+40)
	for len(code) < size {
		if r.Intn(20) == 0 {
			code = append(code, []byte{0x5b, 0x00}[r.Intn(2)])
			continue
		}
		op := byte(0x6f + r.Intn(17))
		code = append(code, op)
		for k := 0; k < int(op)-0x5f; k++ {
			if r.Intn(2) == 0 {
				code = append(code, 0x5b)
			} else {
				code = append(code, byte(r.Intn(256)))
			}
		}
	}
	return code[:size]
}

func runRecord(path string, seed int64, n, maxLen, blackEvery, big int, sum *tl.Summary) {
	r := tl.Rand(seed)
	tr := tl.NewTrace(path)
	defer tr.Close()
	w := newWorld()
	shared := &countingCache{inner: core.NewJumpDestCache()}
	shapes := map[string]bool{}
	for i := 0; i < n+big; i++ {
		var code []byte
		if i < n {
			code = randCode(r, maxLen)
		} else {
			code = bigCode(r, []int{24576, 49152, 65536, 8192}[(i-n)%4]+r.Intn(7)-3)
		}
		ci := toInts(code)
		emit := func(route string, valid []int) {
			tr.Emit(tl.M{"route": route, "code": ci, "valid": valid})
			sum.Count(route)
		}
		if i < n { // the data-position list of a large code is not logged (the fast paths are model-checked on the small domain)
			tr.Emit(tl.M{"route": "bitmap", "code": ci, "valid": whiteBitmap(code)})
			sum.Count("bitmap")
		}
		emit("frame-nohash", whiteValid(code, false, nil))
		emit("frame-cold", whiteValid(code, true, shared))
		emit("frame-warm", whiteValid(code, true, shared))
		if i >= n && benign(code) {
			// large code: the EVM routes on the accepted targets near the end, the first refused
			// JUMPDEST bytes, and the positions around len
			want := map[int]bool{}
			for _, p := range whiteValid(code, false, nil) {
				want[p] = true
			}
			var pos []int
			for p := len(code) + 1; p >= 0 && len(pos) < 120; p-- {
				if p >= len(code) || code[p] == 0x5b {
					pos = append(pos, p)
				}
			}
			addr := common.BytesToAddress([]byte("bigcontract"))
			got, other := w.blackCall(code, shared, addr, pos, sum)
			for _, p := range pos {
				in := false
				for _, g := range got {
					in = in || g == p
				}
				if other == "" && in != want[p] {
					sum.Violate(fmt.Sprintf("EVM JUMP to %d in a %d-byte code: taken=%v, validJumpdest=%v", p, len(code), in, want[p]), tl.M{"len": len(code), "pos": p})
				}
			}
		}
		if i < n && blackEvery > 0 && i%blackEvery == 0 && benign(code) {
			addr := common.BytesToAddress([]byte("contract"))
			pos := allPositions(code)
			for _, route := range []string{"call-cold", "call-warm"} {
				if got, other := w.blackCall(code, shared, addr, pos, sum); other == "" {
					emit(route, got)
				} else {
					sum.Notes = append(sum.Notes, other)
				}
			}
			if got, other := w.blackCreate(code, pos, sum); other == "" {
				emit("create", got)
			} else {
				sum.Notes = append(sum.Notes, other)
			}
		}
		sum.Evaluations++
		sh := fmt.Sprintf("%d/%d", len(code)/8, len(whiteBitmap(code))/8)
		if !shapes[sh] {
			shapes[sh] = true
			sum.Distinct++
		}
		if i < 2 {
			sum.Sample(tl.M{"code": fmt.Sprintf("%x", code), "valid": whiteValid(code, false, nil)})
		}
		_ = i
	}
	if len(sum.Notes) > 5 {
		sum.Notes = append(sum.Notes[:5], fmt.Sprintf("... %d notes", len(sum.Notes)))
	}
	sum.Extra["cache_hits"] = shared.hits
	sum.Traces = 1
	sum.Steps = tr.N
	sum.Rule = fmt.Sprintf("seeded random instruction streams (STOP/JUMPDEST/PUSHn with random data incl. 0x5b/0x56/push opcodes) truncated at a random length <= %d; accepted targets over positions 0..len+1 logged per route; distinct = distinct (len/8, data/8) shapes", maxLen)
}

func main() {
	mode := flag.String("mode", "cases", "cases|paths|record")
	in := flag.String("in", "", "input json")
	trace := flag.String("trace", "trace.ndjson", "output trace")
	out := flag.String("out", "summary.json", "summary output")
	n := flag.Int("n", 300, "number of random codes")
	maxLen := flag.Int("maxlen", 300, "largest random code")
	black := flag.Int("black", 1, "run the EVM black-box routes on every k-th code (0 = never)")
	big := flag.Int("big", 0, "additional large codes (24576, 49152, 65536, 8192 bytes)")
	flag.Parse()
	seed := int64(tl.EnvInt("VERIF_SEED", 1))
	sum := tl.NewSummary("c30", *mode, seed)
	switch *mode {
	case "cases":
		sum.Mode = "replay"
		runCases(*in, *black, sum)
	case "paths":
		sum.Mode = "replay"
		runPaths(*in, sum)
	case "record":
		runRecord(*trace, seed, *n, *maxLen, *black, *big, sum)
	default:
		tl.Fatal("bad mode")
	}
	sum.Write(*out)
	if len(sum.Violations) > 0 {
		os.Exit(1)
	}
}
