// c07 binds spec/trie/TrieCommit.tla (property C07) to trie.Trie.Commit, trienode.NodeSet,
// rawdb's trie node key space (path and hash scheme) and StackTrie's OnTrieNode.
//
//	-mode edges -in edges.json   every Commit transition (base set, modified set) of the TLC
//	                             state graph: the base is committed into empty stores, reopened
//	                             (path or hash scheme), modified by a seeded operation sequence
//	                             that leads to the modified set (with detours: overwrite and
//	                             restore, insert and delete, reads, Hash), committed and compared.
//	-mode sim   -in mbt.json     TLC-generated multi-generation behaviours (put / del / commit)
//	                             replayed on one pair of stores.
//
// Comparison at a commit: the returned root against the reference root of the model tree;
// every entry of the node set must be allowed by the specification (right blob at a path of
// the new trie, or deletion of a stored path that is gone; previous value = what the path
// store held); the set must contain the model's minimal set; after applying it the rawdb
// path-scheme key space must equal the model's StoredPaths exactly (paths and blobs, blobs
// from triekit's reference encoder); the new root is reopened from both stores and read
// completely; earlier roots stay readable under the hash scheme; StackTrie emits exactly
// the stored nodes.
package main

import (
	"bytes"
	"flag"
	"fmt"
	"math/rand"
	"os"
	"sort"
	"strconv"
	"strings"

	"github.com/ethereum/go-ethereum/common"
	"github.com/ethereum/go-ethereum/core/rawdb"
	"github.com/ethereum/go-ethereum/crypto"
	"github.com/ethereum/go-ethereum/ethdb"
	"github.com/ethereum/go-ethereum/trie"
	"github.com/ethereum/go-ethereum/trie/trienode"
	"github.com/ethereum/go-ethereum/triedb"
	"github.com/ethereum/go-ethereum/triedb/database"
	"github.com/ethereum/go-ethereum/triedb/pathdb"
	tl "verif/harness/tracelib"
	tk "verif/harness/triekit"
)

type expState struct {
	KV   []tk.KV   `json:"kv"`
	Tree *tk.SNode `json:"tree"`
}

type minEntry struct {
	Path    []int `json:"path"`
	Del     bool  `json:"del"`
	HasPrev bool  `json:"hasprev"`
}

type action struct {
	Op     string     `json:"op"`
	K      []int      `json:"k,omitempty"`
	V      int        `json:"v,omitempty"`
	KV     []tk.KV    `json:"kv,omitempty"`
	Base   *expState  `json:"base,omitempty"`
	New    *expState  `json:"new,omitempty"`
	Minset []minEntry `json:"minset,omitempty"`
	// mechanism layer (TrieCommitMech.tla): the exact node set predicted for this history
	Exact    []minEntry `json:"exact,omitempty"`
	HasExact bool       `json:"hasexact,omitempty"`
}

type env struct {
	triedb   bool
	pad      int
	universe [][]int
	r        *rand.Rand
	sum      *tl.Summary
}

type world struct {
	path  *tk.RawStore
	hash  *tk.RawStore
	root  common.Hash
	roots []committed // earlier generations
	// optional: the same node sets fed to real triedb backends (path and hash scheme)
	pdisk, hdisk ethdb.Database
	pdb, hdb     *triedb.Database
	gen          uint64
}

// withTriedb attaches real triedb databases (pathdb and hashdb over memory databases).
func (w *world) withTriedb() *world {
	w.pdisk, w.hdisk = rawdb.NewMemoryDatabase(), rawdb.NewMemoryDatabase()
	w.pdb = triedb.NewDatabase(w.pdisk, &triedb.Config{PathDB: pathdb.Defaults})
	w.hdb = triedb.NewDatabase(w.hdisk, triedb.HashDefaults)
	return w
}

func (w *world) close() {
	if w.pdb != nil {
		w.pdb.Close()
		w.hdb.Close()
	}
}

// feedTriedb hands the commit's node set to both triedb backends, flushes them to disk and
// compares: the path-scheme disk key space with the model's stored nodes, and a complete
// read of the new root through both backends.
func (e *env) feedTriedb(w *world, parent, root common.Hash, set *trienode.NodeSet, expected map[string]tk.RefNode, kv []tk.KV) string {
	if w.pdb == nil || set == nil || parent == root {
		return ""
	}
	w.gen++
	if err := w.pdb.Update(root, parent, w.gen, trienode.NewWithNodeSet(set), triedb.NewStateSet()); err != nil {
		return "pathdb Update: " + err.Error()
	}
	if err := w.pdb.Commit(root, false); err != nil {
		return "pathdb Commit: " + err.Error()
	}
	if err := w.hdb.Update(root, parent, w.gen, trienode.NewWithNodeSet(set), nil); err != nil {
		return "hashdb Update: " + err.Error()
	}
	if err := w.hdb.Commit(root, false); err != nil {
		return "hashdb Commit: " + err.Error()
	}
	// every stored node of the model is served by both backends with the reference blob
	// (pathdb keeps recent nodes in its write buffer: the raw disk key space is not compared)
	pr, err := w.pdb.NodeReader(root)
	if err != nil {
		return "pathdb NodeReader: " + err.Error()
	}
	hr, err := w.hdb.NodeReader(root)
	if err != nil {
		return "hashdb NodeReader: " + err.Error()
	}
	for p, x := range expected {
		if b, err := pr.Node(common.Hash{}, []byte(p), x.Hash); err != nil || !bytes.Equal(b, x.Blob) {
			return fmt.Sprintf("pathdb serves %x (%v) at path %x, reference encoding is %x", b, err, p, x.Blob)
		}
		if b, err := hr.Node(common.Hash{}, []byte(p), x.Hash); err != nil || !bytes.Equal(b, x.Blob) {
			return fmt.Sprintf("hashdb serves %x (%v) for hash %x, reference encoding is %x", b, err, x.Hash, x.Blob)
		}
	}
	if d := e.readAll(w.pdb, root, kv, "triedb path scheme"); d != "" {
		return d
	}
	return e.readAll(w.hdb, root, kv, "triedb hash scheme")
}

type committed struct {
	root common.Hash
	kv   []tk.KV
}

func newWorld() *world {
	return &world{path: tk.NewRawStore(rawdb.PathScheme), hash: tk.NewRawStore(rawdb.HashScheme), root: tk.EmptyRoot}
}

func (e *env) key(k []int) []byte { return tk.KeyBytes(k, e.pad) }

func pathBytes(p []int) string {
	b := make([]byte, len(p))
	for i, x := range p {
		b[i] = byte(x)
	}
	return string(b)
}

func (e *env) open(w *world, hashScheme bool) (*trie.Trie, error) {
	var db database.NodeDatabase = w.path
	if hashScheme {
		db = w.hash
	}
	return trie.New(trie.TrieID(w.root), db)
}

// readAll checks that the trie opened at root on db reads exactly kv.
func (e *env) readAll(db database.NodeDatabase, root common.Hash, kv []tk.KV, what string) string {
	tr, err := trie.New(trie.TrieID(root), db)
	if err != nil {
		return fmt.Sprintf("%s: cannot open root %x: %v", what, root, err)
	}
	want := map[string]int{}
	for _, x := range kv {
		want[fmt.Sprint(x.K)] = x.V
	}
	for _, k := range e.universe {
		got, err := tr.Get(e.key(k))
		if err != nil {
			return fmt.Sprintf("%s: Get(%v): %v", what, k, err)
		}
		if !bytes.Equal(got, tk.ValBytes(want[fmt.Sprint(k)])) {
			return fmt.Sprintf("%s: Get(%v) = %x, specification has value id %d", what, k, got, want[fmt.Sprint(k)])
		}
	}
	// complete walk: every node must be resolvable
	tr2, _ := trie.New(trie.TrieID(root), db)
	it, err := tr2.NodeIterator(nil)
	if err != nil {
		return what + ": NodeIterator: " + err.Error()
	}
	n := 0
	for it.Next(true) {
		if it.Leaf() {
			n++
		}
	}
	if it.Error() != nil {
		return fmt.Sprintf("%s: walk of root %x fails: %v", what, root, it.Error())
	}
	if n != len(kv) {
		return fmt.Sprintf("%s: walk of root %x yields %d entries, specification has %d", what, root, n, len(kv))
	}
	return ""
}

// commit commits tr (which was opened on w at w.root) and compares with the model.
func (e *env) commit(w *world, tr *trie.Trie, exp *expState, minset []minEntry, checkMin bool, exact ...[]minEntry) string {
	ref, refRoot := tk.NewRef(exp.Tree, e.pad)
	if len(ref.SizeMismatch) > 0 {
		tl.Fatal("MPT!RlpSize mismatch: %v", ref.SizeMismatch)
	}
	expected := ref.StoredByPath()
	old := w.path.Listing()
	if e.r.Intn(4) == 0 {
		tr = tr.Copy() // committing a copy (as state.StateDB does) must give the same node set: tracers are copied
	}
	root, set := tr.Commit(e.r.Intn(2) == 0 && w.pdb == nil) // hashdb decodes collected leaves as accounts
	if root != refRoot {
		return fmt.Sprintf("Commit root %x, reference root of the model tree %x", root, refRoot)
	}
	if set != nil {
		for p, n := range set.Nodes {
			prev := set.Origins[p]
			if !bytes.Equal(prev, old[p]) {
				return fmt.Sprintf("node set entry at path %x carries previous value %x, the store holds %x", p, prev, old[p])
			}
			if n.IsDeleted() {
				if _, ok := old[p]; !ok {
					return fmt.Sprintf("node set deletes path %x which the store does not hold", p)
				}
				if _, ok := expected[p]; ok {
					return fmt.Sprintf("node set deletes path %x which is a stored node of the new trie", p)
				}
				continue
			}
			x, ok := expected[p]
			if !ok {
				return fmt.Sprintf("node set writes path %x (%d bytes) which is not a stored node of the new trie", p, len(n.Blob))
			}
			if !bytes.Equal(n.Blob, x.Blob) {
				return fmt.Sprintf("node set writes %x at path %x, reference encoding of the model node is %x", n.Blob, p, x.Blob)
			}
			if n.Hash != crypto.Keccak256Hash(n.Blob) {
				return fmt.Sprintf("node set entry at path %x has hash %x, Keccak of its blob is %x", p, n.Hash, crypto.Keccak256Hash(n.Blob))
			}
		}
	}
	if checkMin {
		for _, m := range minset {
			p := pathBytes(m.Path)
			var n interface{ IsDeleted() bool }
			if set != nil {
				if x, ok := set.Nodes[p]; ok {
					n = x
				}
			}
			if n == nil {
				return fmt.Sprintf("node set lacks the entry at path %x (delete=%v) required by the specification", p, m.Del)
			}
			if n.IsDeleted() != m.Del {
				return fmt.Sprintf("node set entry at path %x: deleted=%v, specification %v", p, n.IsDeleted(), m.Del)
			}
			if (len(set.Origins[p]) > 0) != m.HasPrev {
				return fmt.Sprintf("node set entry at path %x: has previous value=%v, specification %v", p, len(set.Origins[p]) > 0, m.HasPrev)
			}
		}
	}
	if len(exact) == 1 {
		// the mechanism model predicts the node set entry by entry
		want := map[string]minEntry{}
		for _, m := range exact[0] {
			want[pathBytes(m.Path)] = m
		}
		n := 0
		if set != nil {
			n = len(set.Nodes)
			for p, x := range set.Nodes {
				m, ok := want[p]
				if !ok {
					return fmt.Sprintf("node set has an entry at path %x (deleted=%v) the mechanism specification does not produce", p, x.IsDeleted())
				}
				if m.Del != x.IsDeleted() || m.HasPrev != (len(set.Origins[p]) > 0) {
					return fmt.Sprintf("node set entry at path %x: deleted=%v hasprev=%v, mechanism specification deleted=%v hasprev=%v", p, x.IsDeleted(), len(set.Origins[p]) > 0, m.Del, m.HasPrev)
				}
			}
		}
		if n != len(want) {
			return fmt.Sprintf("node set has %d entries, the mechanism specification produces %d: %v", n, len(want), exact[0])
		}
	}
	w.path.Apply(set)
	w.hash.Apply(set)
	if d := e.feedTriedb(w, w.root, root, set, expected, exp.KV); d != "" {
		return d
	}
	// key-space listing of the path scheme = StoredPaths of the model
	now := w.path.Listing()
	for p, x := range expected {
		b, ok := now[p]
		if !ok {
			return fmt.Sprintf("path store lacks the %s node at path %x after the commit", x.Kind, p)
		}
		if !bytes.Equal(b, x.Blob) {
			return fmt.Sprintf("path store holds %x at path %x, reference encoding is %x", b, p, x.Blob)
		}
	}
	for p := range now {
		if _, ok := expected[p]; !ok {
			return fmt.Sprintf("path store holds a stale node at path %x after the commit", p)
		}
	}
	w.root = root
	if d := e.readAll(w.path, root, exp.KV, "path scheme"); d != "" {
		return d
	}
	if d := e.readAll(w.hash, root, exp.KV, "hash scheme"); d != "" {
		return d
	}
	if len(w.roots) > 0 {
		c := w.roots[e.r.Intn(len(w.roots))]
		if d := e.readAll(w.hash, c.root, c.kv, "hash scheme, earlier generation"); d != "" {
			return d
		}
	}
	w.roots = append(w.roots, committed{root, exp.KV})
	// streaming builder emits exactly the stored nodes
	emitted := map[string][]byte{}
	st := trie.NewStackTrie(func(path []byte, hash common.Hash, blob []byte) {
		emitted[string(path)] = common.CopyBytes(blob)
		if crypto.Keccak256Hash(blob) != hash {
			emitted[string(path)] = nil
		}
	})
	for _, x := range exp.KV {
		if err := st.Update(e.key(x.K), tk.ValBytes(x.V)); err != nil {
			return "StackTrie.Update: " + err.Error()
		}
	}
	if h := st.Hash(); h != root {
		return fmt.Sprintf("StackTrie root %x, committed root %x", h, root)
	}
	if len(exp.KV) > 0 {
		for p, x := range expected {
			if !bytes.Equal(emitted[p], x.Blob) {
				return fmt.Sprintf("StackTrie emitted %x at path %x, committed node is %x", emitted[p], p, x.Blob)
			}
		}
		for p := range emitted {
			if _, ok := expected[p]; !ok {
				return fmt.Sprintf("StackTrie emitted a node at path %x which the committed trie does not store", p)
			}
		}
	}
	return ""
}

type op struct {
	k []int
	v int // 0 delete
}

// route returns a seeded operation sequence leading from key-value set a to b.
func (e *env) route(a, b []tk.KV) []op {
	am, bm := map[string]tk.KV{}, map[string]tk.KV{}
	for _, x := range a {
		am[fmt.Sprint(x.K)] = x
	}
	for _, x := range b {
		bm[fmt.Sprint(x.K)] = x
	}
	var ops []op
	for k, x := range am {
		if _, ok := bm[k]; !ok {
			ops = append(ops, op{x.K, 0})
		}
	}
	for k, x := range bm {
		if y, ok := am[k]; !ok || y.V != x.V {
			ops = append(ops, op{x.K, x.V})
		}
	}
	sort.Slice(ops, func(i, j int) bool { return fmt.Sprint(ops[i]) < fmt.Sprint(ops[j]) })
	e.r.Shuffle(len(ops), func(i, j int) { ops[i], ops[j] = ops[j], ops[i] })
	// detours: an operation pair that cancels out, placed before the real operation on that key
	var out []op
	for _, o := range ops {
		if e.r.Intn(3) == 0 {
			if o.v == 0 {
				out = append(out, op{o.k, 0}, op{o.k, 331}) // delete, resurrect, (delete)
			} else {
				out = append(out, op{o.k, 12}, op{o.k, 0}) // other value, delete, (put)
			}
		}
		out = append(out, o)
	}
	// now and then more than 100 modifications (an overwrite-and-restore loop on one key of the
	// target set): Commit then collects the nodes with its concurrent committer
	if len(b) > 0 && e.r.Intn(10) == 0 {
		x := b[e.r.Intn(len(b))]
		var bulk []op
		for i := 0; i < 51; i++ {
			bulk = append(bulk, op{x.K, 332 - x.V%2}, op{x.K, x.V})
		}
		out = append(out, bulk...)
	}
	// untouched keys: overwrite and restore / insert and delete
	if len(e.universe) > 0 && e.r.Intn(2) == 0 {
		k := e.universe[e.r.Intn(len(e.universe))]
		ks := fmt.Sprint(k)
		touched := false
		for _, o := range ops {
			if fmt.Sprint(o.k) == ks {
				touched = true
			}
		}
		if !touched {
			if x, ok := bm[ks]; ok {
				det := []op{{k, 0}, {k, x.V}}
				if e.r.Intn(2) == 0 {
					det = []op{{k, 331 + 1 - x.V%2}, {k, x.V}}
				}
				pos := e.r.Intn(len(out) + 1)
				out = append(out[:pos], append(det, out[pos:]...)...)
			} else {
				pos := e.r.Intn(len(out) + 1)
				out = append(out[:pos], append([]op{{k, 331}, {k, 0}}, out[pos:]...)...)
			}
		}
	}
	return out
}

func (e *env) applyOps(tr *trie.Trie, ops []op) error {
	for _, o := range ops {
		var err error
		switch {
		case o.v != 0:
			err = tr.Update(e.key(o.k), tk.ValBytes(o.v))
		case e.r.Intn(2) == 0:
			err = tr.Delete(e.key(o.k))
		default:
			err = tr.Update(e.key(o.k), [][]byte{nil, {}}[e.r.Intn(2)])
		}
		if err != nil {
			return err
		}
		switch e.r.Intn(8) {
		case 0:
			tr.Hash()
		case 1:
			if _, err := tr.Get(e.key(e.universe[e.r.Intn(len(e.universe))])); err != nil {
				return err
			}
		}
	}
	return nil
}

func runEdges(e *env, in string) {
	var edges []action
	tl.ReadJSON(in, &edges)
	seen := map[string]bool{}
	for i, ed := range edges {
		e.sum.Evaluations++
		e.sum.Steps++
		w := newWorld()
		fail := func(d string, extra tl.M) {
			extra["edge"] = ed
			extra["pad"] = e.pad
			e.sum.Violate(fmt.Sprintf("commit base %v -> %v: %s", ed.Base.KV, ed.New.KV, d), extra)
		}
		// generation 1: the base, committed from the empty trie into empty stores
		tr := trie.NewEmpty(w.path)
		for _, j := range e.r.Perm(len(ed.Base.KV)) {
			tr.MustUpdate(e.key(ed.Base.KV[j].K), tk.ValBytes(ed.Base.KV[j].V))
		}
		if d := e.commit(w, tr, ed.Base, nil, false); d != "" {
			fail("(base generation) "+d, tl.M{})
			continue
		}
		// generation 2: reopen, modify, commit
		hs := e.r.Intn(3) == 0
		tr, err := e.open(w, hs)
		if err != nil {
			fail("reopen: "+err.Error(), tl.M{})
			continue
		}
		ops := e.route(ed.Base.KV, ed.New.KV)
		if err := e.applyOps(tr, ops); err != nil {
			fail("modification error: "+err.Error(), tl.M{"ops": fmt.Sprint(ops)})
			continue
		}
		// under the hash scheme the path listing is only maintained through the node sets,
		// whose previous values come from whatever store the trie was opened on
		if d := e.commit(w, tr, ed.New, ed.Minset, true); d != "" {
			fail(d, tl.M{"ops": fmt.Sprint(ops), "opened_on_hash_scheme": hs})
			continue
		}
		e.sum.Count("commit")
		if len(ed.Minset) > 0 {
			e.sum.Count("commit-nonempty")
		}
		key := fmt.Sprint(ed.Base.KV, ed.New.KV)
		if !seen[key] && len(ed.Minset) > 0 {
			seen[key] = true
			e.sum.Distinct++
		}
		if i%3000 == 11 {
			e.sum.Sample(tl.M{"base": ed.Base.KV, "new": ed.New.KV, "ops": fmt.Sprint(ops), "minset": ed.Minset})
		}
	}
	e.sum.Rule = "every Commit transition (base set, modified set) of the TLC state graph: base committed from empty, reopened, seeded operation route with cancelling detours, commit compared with the model; distinct = distinct (base, modified) pairs with a non-empty minimal node set"
}

func runSim(e *env, in string) {
	var behaviours [][]action
	tl.ReadJSON(in, &behaviours)
	shapes := map[string]bool{}
	for bi, b := range behaviours {
		w := newWorld()
		if e.triedb {
			w.withTriedb()
		}
		tr, _ := e.open(w, false)
		shape := ""
		gens := 0
		for si, a := range b {
			e.sum.Steps++
			e.sum.Count(a.Op)
			shape += a.Op + fmt.Sprint(a.K, a.V)
			d := ""
			switch a.Op {
			case "put", "del":
				if err := e.applyOps(tr, []op{{a.K, a.V}}); err != nil {
					d = "error: " + err.Error()
				}
			case "get":
				if _, err := tr.Get(e.key(a.K)); err != nil {
					d = "Get error: " + err.Error()
				}
			case "commit":
				if a.HasExact {
					d = e.commit(w, tr, a.New, a.Minset, true, a.Exact)
					e.sum.Count("commit-exact")
				} else {
					d = e.commit(w, tr, a.New, a.Minset, true)
				}
				if d == "" {
					gens++
					var err error
					if tr, err = e.open(w, e.r.Intn(4) == 0); err != nil {
						d = "reopen: " + err.Error()
					}
				}
			default:
				tl.Fatal("unknown op %q", a.Op)
			}
			if d != "" {
				e.sum.Violate(fmt.Sprintf("behaviour %d step %d (%s, generation %d): %s", bi, si, a.Op, gens+1, d),
					tl.M{"behaviour": b[:si+1], "pad": e.pad})
				break
			}
		}
		w.close()
		e.sum.Evaluations++
		if !shapes[shape] && gens > 0 {
			shapes[shape] = true
			e.sum.Distinct++
		}
		if bi == 0 && len(b) > 3 {
			e.sum.Sample(b[:3])
		}
	}
	e.sum.Rule = "TLC-simulated multi-generation behaviours (put / del / commit) replayed on one pair of rawdb stores; distinct = distinct operation sequences with at least one commit"
}

func parseNib(s string) []int {
	var out []int
	for _, f := range strings.Split(s, ",") {
		n, err := strconv.Atoi(strings.TrimSpace(f))
		if err != nil {
			tl.Fatal("bad -nib %q", s)
		}
		out = append(out, n)
	}
	return out
}

func universe(nib []int, keylen int) [][]int {
	out := [][]int{{}}
	for i := 0; i < keylen; i++ {
		var next [][]int
		for _, p := range out {
			for _, n := range nib {
				next = append(next, append(append([]int{}, p...), n))
			}
		}
		out = next
	}
	return out
}

func main() {
	mode := flag.String("mode", "edges", "edges|sim|record")
	trace := flag.String("trace", "trace.ndjson", "output trace (mode record)")
	ntr := flag.Int("n", 20, "number of traces (mode record)")
	steps := flag.Int("steps", 60, "steps per trace (mode record)")
	in := flag.String("in", "", "input json")
	out := flag.String("out", "summary.json", "summary output")
	pad := flag.Int("pad", 0, "zero nibbles appended to model keys")
	nib := flag.String("nib", "0,1", "nibble alphabet of the model")
	keylen := flag.Int("keylen", 2, "model key length")
	withTriedb := flag.Bool("triedb", false, "sim: also feed the node sets to real triedb path/hash databases")
	flag.Parse()
	seed := int64(tl.EnvInt("VERIF_SEED", 1))
	sum := tl.NewSummary("c07", *mode, seed)
	e := &env{triedb: *withTriedb, pad: *pad, universe: universe(parseNib(*nib), *keylen), r: tl.Rand(seed), sum: sum}
	switch *mode {
	case "edges":
		runEdges(e, *in)
	case "sim":
		sum.Mode = "replay"
		runSim(e, *in)
	case "record":
		runRecord(e, *trace, *ntr, *steps)
	default:
		tl.Fatal("bad mode")
	}
	sum.Write(*out)
	if len(sum.Violations) > 0 {
		os.Exit(1)
	}
}
