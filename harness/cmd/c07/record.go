package main

import (
	"fmt"

	"github.com/ethereum/go-ethereum/trie"
	tl "verif/harness/tracelib"
	tk "verif/harness/triekit"
)

type setEntry struct {
	Path    []int `json:"path"`
	Del     bool  `json:"del"`
	HasPrev bool  `json:"hasprev"`
}

func ints(p string) []int {
	out := make([]int, len(p))
	for i := range p {
		out[i] = int(p[i])
	}
	return out
}

// runRecord: seeded multi-generation histories over 32-byte keys; every commit is applied to
// a rawdb path-scheme store and logged with its node set and the resulting key-space listing.
func runRecord(e *env, path string, n, steps int) {
	tr := tl.NewTrace(path)
	defer tr.Close()
	prefixes := [][]int{{}, {}, {3}, {3, 4}, {3, 4, 5, 6, 7}, {15, 15}, {9, 9, 9, 9, 9, 9, 9, 9}}
	for t := 0; t < n; t++ {
		// key pool with shared prefixes and late differences
		var pool [][]int
		seen := map[string]bool{}
		for len(pool) < 5+e.r.Intn(20) {
			k := append([]int{}, prefixes[e.r.Intn(len(prefixes))]...)
			for len(k) < 64 {
				k = append(k, e.r.Intn(16))
			}
			if len(pool) > 0 && e.r.Intn(3) == 0 {
				k = append([]int{}, pool[e.r.Intn(len(pool))]...)
				k[50+e.r.Intn(14)] = e.r.Intn(16)
			}
			if !seen[fmt.Sprint(k)] {
				seen[fmt.Sprint(k)] = true
				pool = append(pool, k)
			}
		}
		w := newWorld()
		real, err := e.open(w, false)
		if err != nil {
			tl.Fatal("open: %v", err)
		}
		tr.Emit(tl.M{"op": "reset"})
		e.sum.Traces++
		gens := 0
		for s := 0; s < steps; s++ {
			c := e.r.Intn(12)
			if s == steps-1 {
				c = 11
			}
			switch {
			case c < 6:
				k := pool[e.r.Intn(len(pool))]
				size := 1 + e.r.Intn(3)
				if e.r.Intn(2) == 0 {
					size = 25 + e.r.Intn(12)
				}
				v := size*10 + e.r.Intn(10)
				if err := real.Update(tk.KeyBytes(k, 0), tk.ValBytes(v)); err != nil {
					e.sum.Violate("Update: "+err.Error(), tl.M{})
				}
				tr.Emit(tl.M{"op": "put", "k": k, "v": v})
				e.sum.Count("put")
			case c < 10:
				k := pool[e.r.Intn(len(pool))]
				var err error
				if e.r.Intn(2) == 0 {
					err = real.Delete(tk.KeyBytes(k, 0))
				} else {
					err = real.Update(tk.KeyBytes(k, 0), [][]byte{nil, {}}[e.r.Intn(2)])
				}
				if err != nil {
					e.sum.Violate("Delete: "+err.Error(), tl.M{})
				}
				tr.Emit(tl.M{"op": "del", "k": k, "v": 0})
				e.sum.Count("del")
			default:
				if e.r.Intn(3) == 0 {
					real.Hash()
				}
				cp := real
				if e.r.Intn(4) == 0 {
					cp = real.Copy()
				}
				old := w.path.Listing()
				root, set := cp.Commit(e.r.Intn(2) == 0)
				entries := []setEntry{}
				bad := ""
				if set != nil {
					for p, nd := range set.Nodes {
						entries = append(entries, setEntry{ints(p), nd.IsDeleted(), len(set.Origins[p]) > 0})
						if string(set.Origins[p]) != string(old[p]) {
							bad = fmt.Sprintf("node set entry at path %x carries previous value %x, the store holds %x", p, set.Origins[p], old[p])
						}
					}
				}
				if bad != "" {
					e.sum.Violate(bad, tl.M{"trace": t, "step": s})
				}
				w.path.Apply(set)
				w.root = root
				listing := [][]int{}
				for p := range w.path.Listing() {
					listing = append(listing, ints(p))
				}
				tr.Emit(tl.M{"op": "commit", "set": entries, "listing": listing})
				e.sum.Count("commit")
				e.sum.Evaluations++
				if len(entries) > 0 {
					e.sum.Distinct++
				}
				gens++
				if t == 0 && gens <= 2 {
					e.sum.Sample(tl.M{"op": "commit", "set": entries, "stored_paths": len(listing)})
				}
				if real, err = trie.New(trie.TrieID(root), w.path); err != nil {
					e.sum.Violate("reopen: "+err.Error(), tl.M{"trace": t, "step": s})
					return
				}
			}
		}
	}
	e.sum.Steps = tr.N
	e.sum.Rule = "seeded multi-generation histories (Update / Delete / empty-value Update, commit every few steps, sometimes on a Copy, sometimes after Hash) over pools of 5..24 32-byte keys with shared prefixes, committed into a rawdb path-scheme store; distinct = commits with a non-empty node set"
}
