// c37 drives eth/gasestimator.Estimate for property C37 (gas estimates are sufficient).
//
//	-mode record -trace t.ndjson -n N
//
// For every generated (world, program, request) it runs the real Estimate, observes the
// probe sequence through the verif hook in gasestimator.run, and re-executes the call
// independently at the returned limit r and at r-1.  The events are validated by
// spec/evm/EstimatorTrace.tla.
package main

import (
	"context"
	"errors"
	"flag"
	"fmt"
	"math/big"
	"math/rand"
	"os"

	"github.com/ethereum/go-ethereum/common"
	"github.com/ethereum/go-ethereum/core"
	"github.com/ethereum/go-ethereum/core/state"
	"github.com/ethereum/go-ethereum/core/types"
	"github.com/ethereum/go-ethereum/core/vm"
	"github.com/ethereum/go-ethereum/eth/gasestimator"
	"github.com/ethereum/go-ethereum/params"
	"github.com/holiman/uint256"
	me "verif/harness/minievm"
	tl "verif/harness/tracelib"
)

type request struct {
	CallGas  uint64 `json:"callGas"`
	BlockGas uint64 `json:"blockGas"`
	Osaka    bool   `json:"osaka"`
	FeeCap   uint64 `json:"feeCap"`
	Balance  uint64 `json:"balance"`
	Value    uint64 `json:"value"`
	GasCap   uint64 `json:"gasCap"`
}

type probe struct {
	gas        uint64
	out        string
	used, peak uint64
}

type scenario struct {
	fork     string
	world    *me.World
	to       *uint64
	data     []byte
	req      request
	errShift int
	mono     bool
	skipTx   bool
	kind     string
}

func classify(res *core.ExecutionResult, err error) (string, uint64, uint64) {
	switch {
	case err == nil && res != nil && !res.Failed():
		return "ok", res.UsedGas, res.MaxUsedGas
	case err == nil:
		return "vmfail", 0, 0
	case errors.Is(err, core.ErrIntrinsicGas):
		return "intrinsic", 0, 0
	case errors.Is(err, core.ErrGasLimitTooHigh):
		return "toohigh", 0, 0
	}
	return "error", 0, 0
}

func message(sc *scenario, gas uint64) *core.Message {
	m := &core.Message{
		From:                  me.Addr(me.AddrSender),
		Value:                 uint256.NewInt(sc.req.Value),
		GasLimit:              gas,
		GasPrice:              uint256.NewInt(sc.req.FeeCap),
		GasFeeCap:             uint256.NewInt(sc.req.FeeCap),
		GasTipCap:             uint256.NewInt(sc.req.FeeCap),
		Data:                  sc.data,
		SkipNonceChecks:       true,
		SkipTransactionChecks: sc.skipTx,
	}
	if sc.to != nil {
		a := me.Addr(*sc.to)
		m.To = &a
	}
	return m
}

// execAt is the driver's own trial execution (independent of gasestimator.run).
func execAt(sc *scenario, cfg *params.ChainConfig, chain *me.Chain, header *types.Header, st *state.StateDB, gas uint64) bool {
	bctx := core.NewEVMBlockContext(header, chain, nil)
	if sc.req.FeeCap == 0 {
		bctx.BaseFee = new(big.Int)
	}
	evm := vm.NewEVM(bctx, st.Copy(), cfg, vm.Config{NoBaseFee: true})
	defer evm.Release()
	res, err := core.ApplyMessage(evm, message(sc, gas), nil)
	return err == nil && res != nil && !res.Failed()
}

// edgeScenario overrides a generated scenario with a boundary request (mode edge).
func edgeScenario(r *rand.Rand, k int, lowcap bool) *scenario {
	sc := genScenario(r)
	sc.errShift = 0
	t := uint64(me.AddrEOA2)
	if lowcap {
		k = 0
	}
	switch k % 6 {
	case 0: // plain transfer under an RPC gas cap below the cost of a transfer
		sc.kind, sc.to, sc.data, sc.mono = "transfer-lowcap", &t, nil, true
		sc.req.Value, sc.req.GasCap, sc.req.FeeCap = 1, uint64(1+r.Intn(20999)), 0
	case 1: // plain transfer with funds for less than 21000 gas
		sc.kind, sc.to, sc.data, sc.mono = "transfer-poor", &t, nil, true
		sc.req.Value, sc.req.GasCap, sc.req.FeeCap = 1, 0, 10
		sc.req.Balance = 1 + 10*uint64(r.Intn(21000))
	case 2: // caller gas below 21000 is ignored in favour of the block gas limit
		sc.req.CallGas = uint64(r.Intn(21000))
	case 3: // gas cap exactly at / one below the requirement is found by the regular path
		sc.req.GasCap = 21000 + uint64(r.Intn(3))
	case 4: // Osaka: caller gas above the transaction cap
		sc.fork, sc.req.Osaka = "osaka", true
		sc.req.CallGas, sc.req.GasCap, sc.req.FeeCap = 16_777_216+uint64(r.Intn(1000)), 0, 0
	default: // allowance one unit around the requirement
		sc.req.FeeCap = 1
		sc.req.Balance = sc.req.Value + 21000 + uint64(r.Intn(60000))
	}
	if w := sc.world.Get(me.AddrSender); w != nil {
		w.Balance = sc.req.Balance
	}
	return sc
}

func genScenario(r *rand.Rand) *scenario {
	sc := &scenario{fork: me.Forks[r.Intn(3)]}
	sc.req.Osaka = sc.fork == "osaka"
	w := &me.World{}
	sc.world = w
	// callee contracts
	leaf := me.Opts{MaxDepth: 1, Stmts: 4, FailBias: 2, NoSenderBal: true, AllowOpaque: r.Intn(2) == 0}
	mid := leaf
	mid.Targets = []uint64{me.AddrC3}
	mid.IgnoreCallFail = r.Intn(3) == 0
	top := me.Opts{MaxDepth: 2, Stmts: 6, FailBias: 1, NoSenderBal: true, Targets: []uint64{me.AddrC2, me.AddrC3},
		AllowOpaque: r.Intn(2) == 0, AllowCreate: r.Intn(3) == 0, AllowDestruct: r.Intn(4) == 0}
	nonMono := r.Intn(4) == 0
	if nonMono {
		top.AllowGas = true
		top.IgnoreCallFail = true
		mid.AllowGas = r.Intn(2) == 0
	}
	p3 := me.Generate(r, leaf)
	p2 := me.Generate(r, mid)
	p1 := me.Generate(r, top)
	mkStore := func() map[uint64]uint64 {
		m := map[uint64]uint64{}
		for s := uint64(0); s < 3; s++ {
			if r.Intn(2) == 0 {
				m[s] = uint64(1 + r.Intn(2))
			}
		}
		return m
	}
	w.Add(&me.Account{Addr: me.AddrC1, Balance: uint64(r.Intn(3000)), Nonce: 1, Code: p1.Code, Storage: mkStore()})
	w.Add(&me.Account{Addr: me.AddrC2, Balance: uint64(r.Intn(3000)), Nonce: 1, Code: p2.Code, Storage: mkStore()})
	w.Add(&me.Account{Addr: me.AddrC3, Balance: uint64(r.Intn(3000)), Nonce: 1, Code: p3.Code, Storage: mkStore()})
	w.Add(&me.Account{Addr: me.AddrEOA2, Balance: 5, Nonce: 0})
	sc.mono = p1.Monotone && p2.Monotone && p3.Monotone

	sc.req.BlockGas = []uint64{30_000_000, 5_000_000, 16_777_216, 20_000_000}[r.Intn(4)]
	switch r.Intn(5) {
	case 0:
		sc.req.CallGas = 0
	case 1:
		sc.req.CallGas = uint64(r.Intn(21000))
	case 2:
		sc.req.CallGas = 21000 + uint64(r.Intn(400000))
	case 3:
		sc.req.CallGas = 21000 + uint64(r.Intn(6_000_000))
	default:
		sc.req.CallGas = 16_000_000 + uint64(r.Intn(14_000_000))
	}
	if r.Intn(3) == 0 {
		sc.req.Value = uint64(r.Intn(1000))
	}
	sc.req.Balance = 1_000_000_000 + uint64(r.Intn(1_000_000_000))
	if r.Intn(2) == 0 {
		sc.req.FeeCap = uint64(1 + r.Intn(100))
		if r.Intn(3) == 0 {
			// funds-limited allowance in the interesting range
			sc.req.Balance = sc.req.Value + sc.req.FeeCap*uint64(15000+r.Intn(500000)) + uint64(r.Intn(int(sc.req.FeeCap)))
		}
		if r.Intn(25) == 0 {
			sc.req.Balance = uint64(r.Intn(int(sc.req.Value + 1))) // value >= balance
		}
	}
	switch r.Intn(4) {
	case 0:
		sc.req.GasCap = 21000 + uint64(r.Intn(300000))
	case 1:
		sc.req.GasCap = 1_000_000 + uint64(r.Intn(25_000_000))
	}
	if r.Intn(5) < 2 {
		sc.errShift = 3 + r.Intn(4)
	}
	sc.skipTx = r.Intn(3) != 0
	// the call itself
	switch k := r.Intn(20); {
	case k < 2:
		sc.kind = "transfer"
		t := uint64(me.AddrEOA2)
		if r.Intn(2) == 0 {
			t = me.AddrEmpty
		}
		sc.to = &t
		if sc.req.Value == 0 {
			sc.req.Value = 1
		}
		sc.mono = true
	case k < 4:
		sc.kind = "nodata-contract"
		t := uint64(me.AddrC1)
		sc.to = &t
	case k < 6:
		sc.kind = "create"
		rt := me.Generate(r, leaf)
		sc.data = me.InitCode(nil, rt.Code, false)
		if r.Intn(3) == 0 {
			ct := me.Generate(r, top)
			sc.data = me.InitCode(ct.Code, rt.Code, true)
			sc.mono = sc.mono && ct.Monotone
		}
	default:
		sc.kind = "call"
		t := uint64(me.AddrC1)
		sc.to = &t
		nw := r.Intn(4)
		for i := 0; i < nw; i++ {
			word := make([]byte, 32)
			word[31] = byte(r.Intn(4))
			if r.Intn(6) == 0 {
				word[30] = byte(r.Intn(256))
			}
			sc.data = append(sc.data, word...)
		}
		if nw == 0 && r.Intn(2) == 0 {
			sc.data = []byte{1}
		}
	}
	w.Add(&me.Account{Addr: me.AddrSender, Balance: sc.req.Balance, Nonce: uint64(r.Intn(3))})
	return sc
}

func runRecord(path string, seed int64, n int, edge string, sum *tl.Summary) {
	r := tl.Rand(seed)
	tr := tl.NewTrace(path)
	defer tr.Close()
	var probes []probe
	gasestimator.VerifHook = func(ev string, kv ...any) {
		if ev != "run" {
			return
		}
		var res *core.ExecutionResult
		if kv[1] != nil {
			res, _ = kv[1].(*core.ExecutionResult)
		}
		var err error
		if kv[2] != nil {
			err, _ = kv[2].(error)
		}
		out, used, peak := classify(res, err)
		probes = append(probes, probe{kv[0].(uint64), out, used, peak})
	}
	shapes := map[string]bool{}
	for i := 0; i < n; i++ {
		var sc *scenario
		if edge != "" {
			sc = edgeScenario(r, i, edge == "lowcap")
		} else {
			sc = genScenario(r)
		}
		cfg := me.ChainConfig(sc.fork)
		chain := me.NewChain(cfg)
		header := me.Header(sc.req.BlockGas, 0)
		if sc.req.FeeCap > 0 {
			header.BaseFee = new(big.Int).SetUint64(uint64(r.Intn(int(sc.req.FeeCap) + 1)))
		}
		rules := cfg.Rules(header.Number, true, header.Time)
		st := sc.world.NewState(rules)
		plain := len(sc.data) == 0 && sc.to != nil && st.GetCodeSize(me.Addr(*sc.to)) == 0
		tr.Emit(tl.M{"op": "start", "req": sc.req, "plain": plain, "errShift": sc.errShift, "mono": sc.mono, "fork": sc.fork, "kind": sc.kind})
		probes = probes[:0]
		ratio := 0.0
		if sc.errShift > 0 {
			ratio = 1.0 / float64(uint64(1)<<uint(sc.errShift))
		}
		opts := &gasestimator.Options{Config: cfg, Chain: chain, Header: header, State: st, ErrorRatio: ratio}
		est, _, err := gasestimator.Estimate(context.Background(), message(sc, sc.req.CallGas), opts, sc.req.GasCap)
		for _, p := range probes {
			tr.Emit(tl.M{"op": "probe", "gas": p.gas, "out": p.out, "used": p.used, "peak": p.peak})
			sum.Count("probe-" + p.out)
		}
		tr.Emit(tl.M{"op": "result", "ok": err == nil, "gas": est})
		shape := fmt.Sprint(sc.kind, sc.fork, len(probes), err == nil, sc.mono, sc.errShift > 0)
		if !shapes[shape] {
			shapes[shape] = true
			sum.Distinct++
		}
		sum.Count("kind-" + sc.kind)
		if err == nil {
			sum.Count("estimated")
			okAt := execAt(sc, cfg, chain, header, st, est)
			okBelow := execAt(sc, cfg, chain, header, st, est-1)
			mono := sc.mono
			if mono {
				sum.Count("monotone")
			}
			tr.Emit(tl.M{"op": "recheck", "gas": est, "okAt": okAt, "okBelow": okBelow})
			// self-check of the generator's monotonicity mark on sampled limits (never a verdict)
			if mono && len(probes) > 0 {
				capGas := probes[0].gas
				if probes[0].gas == params.TxGas && len(probes) > 1 {
					capGas = probes[1].gas
				}
				for k := 0; k < 4; k++ {
					var g uint64
					if k%2 == 0 && est > params.TxGas && sc.errShift == 0 {
						g = params.TxGas + uint64(r.Int63n(int64(est-params.TxGas)))
						if g < est-1 && execAt(sc, cfg, chain, header, st, g) {
							sum.Count("mono-mark-contradicted")
							sum.Notes = append(sum.Notes, fmt.Sprintf("case %d: marked monotone but succeeds at %d < estimate %d", i, g, est))
						}
					} else if capGas > est {
						g = est + uint64(r.Int63n(int64(capGas-est)))
						if !execAt(sc, cfg, chain, header, st, g) {
							sum.Count("mono-mark-contradicted")
							sum.Notes = append(sum.Notes, fmt.Sprintf("case %d: marked monotone but fails at %d > estimate %d", i, g, est))
						}
					}
				}
			}
		} else {
			sum.Count("no-estimate")
		}
		if i < 3 {
			sum.Sample(tl.M{"kind": sc.kind, "fork": sc.fork, "req": sc.req, "probes": len(probes), "estimate": est, "ok": err == nil})
		}
		sum.Traces++
		sum.Evaluations++
	}
	sum.Steps = tr.N
	sum.Rule = "each case = one gasestimator.Estimate run on a generated world/program/request; distinct = distinct (call kind, fork, number of probes, outcome, monotone, error ratio) shapes"
	_ = common.Address{}
}

func main() {
	mode := flag.String("mode", "record", "record|edge|lowcap")
	trace := flag.String("trace", "trace.ndjson", "output trace")
	out := flag.String("out", "summary.json", "summary output")
	n := flag.Int("n", 200, "number of estimations")
	flag.Parse()
	seed := int64(tl.EnvInt("VERIF_SEED", 1))
	sum := tl.NewSummary("c37", *mode, seed)
	switch *mode {
	case "record":
		runRecord(*trace, seed, *n, "", sum)
	case "edge", "lowcap":
		runRecord(*trace, seed, *n, *mode, sum)
	default:
		tl.Fatal("bad mode")
	}
	sum.Write(*out)
	if len(sum.Violations) > 0 {
		os.Exit(1)
	}
}
