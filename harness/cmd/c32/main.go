// c32 binds spec/evm/Ledger.tla to real block execution (property C32: ether is conserved
// by block execution).
//
//	-mode record -trace t.ndjson   V: seeded random chains (random value-moving contracts, creations
//	                               with endowment, self-destructs, failing and reverting transactions,
//	                               legacy / access-list / dynamic-fee / blob transactions, withdrawals,
//	                               proof-of-work rewards) under every rule set are generated, then every
//	                               block is executed by core.StateProcessor.Process with a tracer.  Every
//	                               OnBalanceChange / OnEnter / OnExit / OnTxStart / OnTxEnd becomes an
//	                               event; real balances are audited after every transaction and the
//	                               totals of a full state dump are logged around every block.
package main

import (
	"bytes"
	"context"
	"crypto/ecdsa"
	"flag"
	"fmt"
	"math/big"
	"math/rand"
	"os"
	"sort"

	"github.com/ethereum/go-ethereum/common"
	"github.com/ethereum/go-ethereum/consensus"
	"github.com/ethereum/go-ethereum/consensus/beacon"
	"github.com/ethereum/go-ethereum/consensus/ethash"
	"github.com/ethereum/go-ethereum/consensus/misc/eip4844"
	"github.com/ethereum/go-ethereum/core"
	"github.com/ethereum/go-ethereum/core/state"
	"github.com/ethereum/go-ethereum/core/tracing"
	"github.com/ethereum/go-ethereum/core/types"
	"github.com/ethereum/go-ethereum/core/vm"
	"github.com/ethereum/go-ethereum/crypto"
	"github.com/ethereum/go-ethereum/ethdb"
	"github.com/ethereum/go-ethereum/params"
	"github.com/ethereum/go-ethereum/triedb"
	"github.com/holiman/uint256"

	ek "verif/harness/evmkit"
	tl "verif/harness/tracelib"
)

// rewardUnit = 1/32 ether: every proof-of-work reward is a whole number of these.
var rewardUnit = new(big.Int).Div(big.NewInt(params.Ether), big.NewInt(32))

// split decomposes an amount into (wei below the unit, whole units); both clipped for TLC.
func split(v *big.Int) (w, u int64) {
	q, m := new(big.Int).DivMod(v, rewardUnit, new(big.Int))
	w, u = ek.Big, ek.Big
	if m.IsInt64() && m.Int64() < ek.Big {
		w = m.Int64()
	}
	if q.IsInt64() && q.Int64() < ek.Big {
		u = q.Int64()
	}
	return
}

type chainCtx struct {
	cfg     *params.ChainConfig
	eng     consensus.Engine
	byHash  map[common.Hash]*types.Header
	byNum   map[uint64]*types.Header
	current *types.Header
}

func (c *chainCtx) Config() *params.ChainConfig                     { return c.cfg }
func (c *chainCtx) Engine() consensus.Engine                        { return c.eng }
func (c *chainCtx) CurrentHeader() *types.Header                    { return c.current }
func (c *chainCtx) GetHeader(h common.Hash, n uint64) *types.Header { return c.byHash[h] }
func (c *chainCtx) GetHeaderByNumber(n uint64) *types.Header        { return c.byNum[n] }
func (c *chainCtx) GetHeaderByHash(h common.Hash) *types.Header     { return c.byHash[h] }
func (c *chainCtx) add(h *types.Header) {
	c.byHash[h.Hash()] = h
	c.byNum[h.Number.Uint64()] = h
	c.current = h
}

// ledger numbers the accounts (1-based) in order of appearance.
type ledger struct {
	tr    *tl.Trace
	idx   map[common.Address]int
	addrs []common.Address
	db    *state.StateDB // the state being processed (for audits and fresh-account checks)
}

func (l *ledger) id(a common.Address) int {
	if i, ok := l.idx[a]; ok {
		return i
	}
	l.addrs = append(l.addrs, a)
	l.idx[a] = len(l.addrs)
	w, u := int64(0), int64(0)
	if l.db != nil {
		w, u = split(l.db.GetBalance(a).ToBig())
	}
	l.tr.Emit(tl.M{"op": "acct", "a": len(l.addrs), "w": w, "u": u})
	return len(l.addrs)
}

// idAt numbers an account whose (first) balance change is being reported: it held `prev` before.
func (l *ledger) idAt(a common.Address, prev *big.Int) int {
	if i, ok := l.idx[a]; ok {
		return i
	}
	l.addrs = append(l.addrs, a)
	l.idx[a] = len(l.addrs)
	w, u := split(prev)
	l.tr.Emit(tl.M{"op": "acct", "a": len(l.addrs), "w": w, "u": u})
	return len(l.addrs)
}

func (l *ledger) audit() (ws, us []int64) {
	ws, us = make([]int64, len(l.addrs)), make([]int64, len(l.addrs))
	for i, a := range l.addrs {
		ws[i], us[i] = split(l.db.GetBalance(a).ToBig())
	}
	return
}

// dumpTotal sums the balances of ALL accounts of the state with the given root (full trie walk).
func dumpTotal(tdb *triedb.Database, root common.Hash) (w, u int64, n int) {
	sdb, err := state.New(root, state.NewDatabase(tdb, nil))
	if err != nil {
		tl.Fatal("open state %x: %v", root, err)
	}
	d := sdb.RawDump(&state.DumpConfig{SkipCode: true, SkipStorage: true, OnlyWithAddresses: false, Max: 0})
	total := new(big.Int)
	for _, acc := range d.Accounts {
		b, ok := new(big.Int).SetString(acc.Balance, 10)
		if !ok {
			tl.Fatal("bad balance in dump: %q", acc.Balance)
		}
		total.Add(total, b)
		n++
	}
	w, u = split(total)
	return
}

var reasonName = map[tracing.BalanceChangeReason]string{
	tracing.BalanceDecreaseGasBuy:               "GasBuy",
	tracing.BalanceIncreaseGasReturn:            "GasReturn",
	tracing.BalanceIncreaseRewardTransactionFee: "Tip",
	tracing.BalanceChangeTransfer:               "Transfer",
	tracing.BalanceIncreaseSelfdestruct:         "SdInc",
	tracing.BalanceDecreaseSelfdestruct:         "SdDec",
	tracing.BalanceDecreaseSelfdestructBurn:     "SdBurn",
	tracing.BalanceIncreaseWithdrawal:           "Withdrawal",
	tracing.BalanceIncreaseRewardMineBlock:      "Reward",
	tracing.BalanceIncreaseRewardMineUncle:      "Reward",
}

type keyed struct {
	key  *ecdsa.PrivateKey
	addr common.Address
}

func mkKey(i int) keyed {
	k, err := crypto.ToECDSA(common.LeftPadBytes([]byte{0x42, byte(i + 1)}, 32))
	if err != nil {
		tl.Fatal("key: %v", err)
	}
	return keyed{k, crypto.PubkeyToAddress(k.PublicKey)}
}

type stats struct {
	txs, failedTxs, creates, blobTxs, dynTxs, withdrawals, rewards, changes, frames, reverted, selfdestructs, burns int
	reasons                                                                                                         map[string]int
}

// oneChain generates and replays one chain under rule set f.
func oneChain(f ek.Fork, r *rand.Rand, nBlocks, txPerBlock int, tr *tl.Trace, sum *tl.Summary, st *stats) {
	var (
		senders   = []keyed{mkKey(0), mkKey(1), mkKey(2)}
		coinbase  = common.HexToAddress("0x00000000000000000000000000000000c01bbace")
		wdTarget  = common.HexToAddress("0x00000000000000000000000000000000000d7a17")
		contracts []common.Address
	)
	for i := 0; i < 4; i++ {
		contracts = append(contracts, common.BytesToAddress([]byte{0xc0, byte(i + 1)}))
	}
	feeder := common.BytesToAddress([]byte{0xc0, 0xfe})
	// refunder clears the pre-filled storage slot named by the first calldata word (refund counter > 0); it is
	// called with long calldata so that from Prague on the calldata floor exceeds the gas used after the refund
	refunder := common.BytesToAddress([]byte{0xc0, 0xfd})
	refundSlots := 0
	targets := append([]common.Address{}, contracts...)
	targets = append(targets, senders[0].addr, senders[1].addr, coinbase, ek.NoSuch, common.BytesToAddress([]byte{2}), common.BytesToAddress([]byte{4}))
	alloc := types.GenesisAlloc{}
	for _, s := range senders {
		alloc[s.addr] = types.Account{Balance: big.NewInt(150_000_000)}
	}
	for _, c := range contracts {
		alloc[c] = types.Account{Balance: big.NewInt(int64(1000 + r.Intn(5000))), Code: ek.LedgerContract(r, targets, 1), Nonce: 1}
	}
	rst := map[common.Hash]common.Hash{}
	for n := 1; n <= 64; n++ {
		rst[common.BigToHash(big.NewInt(int64(n)))] = common.Hash{31: 1}
	}
	alloc[refunder] = types.Account{Balance: big.NewInt(1), Nonce: 1, Storage: rst,
		Code: ek.NewAsm().Push(0).Push(0).Op(vm.CALLDATALOAD, vm.SSTORE, vm.STOP).Bytes()}
	alloc[feeder] = types.Account{Balance: big.NewInt(5000), Code: ek.PhoenixFeeder(coinbase, 5), Nonce: 1}
	if f.Idx >= ek.Cancun {
		alloc[params.BeaconRootsAddress] = types.Account{Code: params.BeaconRootsCode, Nonce: 1}
	}
	if f.Idx >= ek.Prague {
		alloc[params.HistoryStorageAddress] = types.Account{Code: params.HistoryStorageCode, Nonce: 1}
		alloc[params.WithdrawalQueueAddress] = types.Account{Code: params.WithdrawalQueueCode, Nonce: 1}
		alloc[params.ConsolidationQueueAddress] = types.Account{Code: params.ConsolidationQueueCode, Nonce: 1}
	}
	if f.Idx >= ek.Amsterdam {
		alloc[params.BuilderDepositAddress] = types.Account{Code: params.BuilderDepositCode, Nonce: 1}
		alloc[params.BuilderExitAddress] = types.Account{Code: params.BuilderExitCode, Nonce: 1}
	}
	gspec := &core.Genesis{Config: f.Config, GasLimit: 30_000_000, Alloc: alloc, Difficulty: big.NewInt(1), Coinbase: coinbase}
	if f.Idx >= ek.London {
		gspec.BaseFee = big.NewInt(7)
	}
	if f.Merge {
		gspec.Difficulty = new(big.Int)
	}
	engine := beacon.New(ethash.NewFaker())
	wdDone := false

	gen := func(i int, b *core.BlockGen) {
		b.SetCoinbase(coinbase)
		signer := b.Signer()
		rules := f.Config.Rules(b.Number(), f.Merge, b.Timestamp())
		blobsLeft := 2
		for k := 0; k < txPerBlock; k++ {
			from := senders[r.Intn(len(senders))]
			var to *common.Address
			var data []byte
			switch c := r.Intn(10); {
			case k == 0 && i == 0: // once per chain: ether sent to an account destroyed in the same transaction
				t := feeder
				to = &t
			case k == 1 && refundSlots < 64: // once per block: storage refund under long calldata
				t := refunder
				to = &t
				refundSlots++
				data = append(common.BigToHash(big.NewInt(int64(refundSlots))).Bytes(), bytes.Repeat([]byte{0xff}, 600+200*(refundSlots%6))...)
			case c < 6:
				t := contracts[r.Intn(len(contracts))]
				to = &t
			case c < 7:
				t := targets[r.Intn(len(targets))]
				to = &t
			case c < 8:
				t := senders[r.Intn(len(senders))].addr
				to = &t
			default: // creation: constructor moves ether, may fail
				if r.Intn(2) == 0 {
					data = ek.Initcode(nil, ek.LedgerContract(r, targets, 1))
				} else {
					data = ek.LedgerContract(r, targets, 1)
				}
			}
			value := big.NewInt(int64(r.Intn(2000)))
			if r.Intn(4) == 0 {
				value = new(big.Int)
			}
			var al types.AccessList
			if f.Idx >= ek.Berlin && r.Intn(3) == 0 {
				al = types.AccessList{{Address: contracts[r.Intn(len(contracts))], StorageKeys: []common.Hash{{}, {1}}}}
			}
			v256, _ := uint256.FromBig(value)
			intrinsic, err := core.IntrinsicGas(data, al, nil, from.addr, to, v256, rules)
			if err != nil {
				tl.Fatal("intrinsic gas: %v", err)
			}
			if rules.IsPrague {
				floor, err := core.FloorDataGas(rules, from.addr, to, v256, data, al)
				if err != nil {
					tl.Fatal("floor gas: %v", err)
				}
				if floor > intrinsic {
					intrinsic = floor
				}
			}
			gas := intrinsic
			switch r.Intn(5) {
			case 0:
				gas += uint64(r.Intn(3000)) // execution will most likely run out of gas
			case 1:
				gas += uint64(r.Intn(40000))
			default:
				gas += uint64(50000 + r.Intn(250000))
			}
			nonce := b.TxNonce(from.addr)
			base := int64(0)
			if f.Idx >= ek.London {
				base = b.BaseFee().Int64()
			}
			var txdata types.TxData
			kind := r.Intn(10)
			switch {
			case f.Idx >= ek.Cancun && kind < 2 && to != nil && blobsLeft > 0:
				nb := 1 + r.Intn(blobsLeft)
				blobsLeft -= nb
				hashes := make([]common.Hash, nb)
				for j := range hashes {
					hashes[j] = common.Hash{0x01, byte(j), byte(k)}
				}
				tip := int64(r.Intn(20))
				txdata = &types.BlobTx{ChainID: uint256.NewInt(1), Nonce: nonce, GasTipCap: uint256.NewInt(uint64(tip)),
					GasFeeCap: uint256.NewInt(uint64(base + tip + int64(r.Intn(10)))), Gas: gas, To: *to, Value: v256, Data: data,
					AccessList: al, BlobFeeCap: uint256.NewInt(uint64(1 + r.Intn(5))), BlobHashes: hashes}
				st.blobTxs++
			case f.Idx >= ek.London && kind < 6:
				tip := int64(r.Intn(30))
				if r.Intn(4) == 0 {
					tip = 0
				}
				feecap := base + int64(r.Intn(40))
				if feecap < tip {
					feecap = tip
				}
				txdata = &types.DynamicFeeTx{ChainID: big.NewInt(1), Nonce: nonce, GasTipCap: big.NewInt(tip), GasFeeCap: big.NewInt(feecap),
					Gas: gas, To: to, Value: value, Data: data, AccessList: al}
				st.dynTxs++
			case f.Idx >= ek.Berlin && kind < 8:
				txdata = &types.AccessListTx{ChainID: big.NewInt(1), Nonce: nonce, GasPrice: big.NewInt(base + int64(r.Intn(40))),
					Gas: gas, To: to, Value: value, Data: data, AccessList: al}
			default:
				price := base + int64(r.Intn(40))
				if f.Idx < ek.London && r.Intn(8) == 0 {
					price = 0
				}
				txdata = &types.LegacyTx{Nonce: nonce, GasPrice: big.NewInt(price), Gas: gas, To: to, Value: value, Data: data}
			}
			tx, err := types.SignNewTx(from.key, signer, txdata)
			if err != nil {
				tl.Fatal("sign: %v", err)
			}
			// worst-case cost must be covered, otherwise the block would be invalid
			need := new(big.Int).Mul(new(big.Int).SetUint64(gas), tx.GasFeeCap())
			need.Add(need, value)
			need.Add(need, big.NewInt(int64(len(tx.BlobHashes()))*131072*6))
			if b.GetBalance(from.addr).ToBig().Cmp(need) < 0 || b.Gas() < gas {
				continue
			}
			b.AddTx(tx)
		}
		if !f.Merge && i >= 2 && r.Intn(3) != 0 {
			// proof-of-work: include earlier blocks again as uncles mined by somebody else (the chain maker
			// needs the uncle's parent among the generated blocks: siblings of block 2 and later)
			nu := 1 + r.Intn(2)
			for d := 1; d <= nu && i-d >= 1; d++ {
				u := b.PrevBlock(i - d).Header()
				u.Extra = []byte{byte(d)}
				u.Coinbase = common.BytesToAddress([]byte{0xbb, byte(d)})
				b.AddUncle(u)
			}
		}
		if f.Idx >= ek.Shanghai && !wdDone && r.Intn(2) == 0 {
			// one 1-gwei withdrawal per chain keeps all sums below 2^31 wei
			b.AddWithdrawal(&types.Withdrawal{Validator: 5, Address: wdTarget, Amount: 1})
			wdDone = true
		}
	}
	var genErr any
	func() {
		defer func() {
			if os.Getenv("C32_NORECOVER") == "" {
				genErr = recover()
			}
		}()
		rdb, blocks, _ := core.GenerateChainWithGenesis(gspec, engine, nBlocks, gen)
		replay(f, gspec, rdb, engine, blocks, tr, sum, st)
	}()
	if genErr != nil {
		tl.Fatal("chain generation/replay under %s panicked: %v", f.Name, genErr)
	}
}

// replay executes the generated blocks with core.StateProcessor.Process under a tracer.
func replay(f ek.Fork, gspec *core.Genesis, rdb ethdb.Database, engine consensus.Engine, blocks []*types.Block, tr *tl.Trace, sum *tl.Summary, st *stats) {
	tdb := triedb.NewDatabase(rdb, triedb.HashDefaults)
	defer tdb.Close()
	genesis := gspec.ToBlock()
	cc := &chainCtx{cfg: f.Config, eng: engine, byHash: map[common.Hash]*types.Header{}, byNum: map[uint64]*types.Header{}}
	cc.add(genesis.Header())
	l := &ledger{tr: tr, idx: map[common.Address]int{}}
	// genesis accounts in address order
	for a := range gspec.Alloc {
		l.addrs = append(l.addrs, a)
	}
	sort.Slice(l.addrs, func(i, j int) bool { return l.addrs[i].Cmp(l.addrs[j]) < 0 })
	gw, gu := make([]int64, len(l.addrs)), make([]int64, len(l.addrs))
	for i, a := range l.addrs {
		l.idx[a] = i + 1
		b := gspec.Alloc[a].Balance
		if b == nil {
			b = new(big.Int)
		}
		gw[i], gu[i] = split(b)
	}
	tr.Emit(tl.M{"op": "genesis", "fork": f.Idx, "bal": gw, "balu": gu})
	sum.Traces++

	parentRoot := genesis.Root()
	for _, block := range blocks {
		header := block.Header()
		sdb, err := state.New(parentRoot, state.NewDatabase(tdb, nil))
		if err != nil {
			tl.Fatal("open parent state: %v", err)
		}
		l.db = sdb
		tw, tu, _ := dumpTotal(tdb, parentRoot)
		basefee, blobbase := int64(0), int64(1)
		if header.BaseFee != nil {
			basefee = header.BaseFee.Int64()
		}
		if header.ExcessBlobGas != nil {
			blobbase = ek.Clip(eip4844.CalcBlobFee(f.Config, header).Uint64())
		}
		wds := []tl.M{}
		for _, w := range block.Withdrawals() {
			amt := new(big.Int).Mul(new(big.Int).SetUint64(w.Amount), big.NewInt(params.GWei))
			ww, _ := split(amt)
			wds = append(wds, tl.M{"a": l.id(w.Address), "amt": ww})
			st.withdrawals++
		}
		uncles := []tl.M{}
		for _, u := range block.Uncles() {
			uncles = append(uncles, tl.M{"a": l.id(u.Coinbase), "dist": int64(header.Number.Uint64() - u.Number.Uint64())})
			st.rewards++
		}
		tr.Emit(tl.M{"op": "block", "fork": f.Idx, "n": header.Number.Uint64(), "basefee": basefee, "blobbasefee": blobbase,
			"coinbase": l.id(header.Coinbase), "wd": wds, "pow": header.Difficulty.Sign() > 0, "uncles": uncles, "tw": tw, "tu": tu})

		moved := false
		hooks := &tracing.Hooks{
			OnTxStart: func(vmctx *tracing.VMContext, tx *types.Transaction, from common.Address) {
				moved = false
				tr.Emit(tl.M{"op": "tx", "from": l.id(from), "gas": ek.Clip(tx.Gas()), "feecap": ek.Clip(tx.GasFeeCap().Uint64()),
					"tipcap": ek.Clip(tx.GasTipCap().Uint64()), "blobs": len(tx.BlobHashes()), "type": int(tx.Type()), "create": tx.To() == nil})
				st.txs++
				if tx.To() == nil {
					st.creates++
				}
			},
			OnTxEnd: func(receipt *types.Receipt, err error) {
				if err != nil || receipt == nil {
					tl.Fatal("generated transaction was rejected on replay: %v", err)
				}
				ws, us := l.audit()
				tr.Emit(tl.M{"op": "txend", "used": ek.Clip(receipt.GasUsed), "ok": receipt.Status == types.ReceiptStatusSuccessful, "bal": ws, "balu": us})
				if receipt.Status != types.ReceiptStatusSuccessful {
					st.failedTxs++
				}
				if moved {
					sum.Distinct++
				}
				sum.Evaluations++
			},
			OnEnter: func(depth int, typ byte, from, to common.Address, input []byte, gas uint64, value *big.Int) {
				st.frames++
				if vm.OpCode(typ) == vm.SELFDESTRUCT {
					st.selfdestructs++
				}
				tr.Emit(tl.M{"op": "enter", "d": depth, "typ": int(typ), "from": l.id(from), "to": l.id(to)})
			},
			OnExit: func(depth int, output []byte, gasUsed uint64, err error, reverted bool) {
				if reverted {
					st.reverted++
				}
				tr.Emit(tl.M{"op": "exit", "d": depth, "rev": reverted})
			},
			OnBalanceChange: func(addr common.Address, prev, new *big.Int, reason tracing.BalanceChangeReason) {
				name, ok := reasonName[reason]
				if !ok {
					name = fmt.Sprintf("Other%d", reason)
				}
				st.reasons[name]++
				st.changes++
				if name == "Transfer" || name == "SdInc" || name == "SdDec" || name == "SdBurn" {
					moved = true
				}
				a := l.idAt(addr, prev)
				pw, pu := split(prev)
				nw, nu := split(new)
				tr.Emit(tl.M{"op": "bc", "a": a, "pw": pw, "pu": pu, "nw": nw, "nu": nu, "r": name})
			},
		}
		if _, err := core.NewStateProcessor(cc).Process(context.Background(), block, sdb, nil, nil, vm.Config{Tracer: hooks}, nil); err != nil {
			tl.Fatal("Process(block %d, %s): %v", header.Number, f.Name, err)
		}
		rules := f.Config.Rules(header.Number, header.Difficulty.Sign() == 0, header.Time)
		root, err := sdb.Commit(rules, header.Number.Uint64())
		if err != nil {
			tl.Fatal("commit: %v", err)
		}
		if root != header.Root {
			tl.Fatal("replayed state root %x differs from the generated block's %x (%s, block %d)", root, header.Root, f.Name, header.Number)
		}
		post, err := state.New(root, state.NewDatabase(tdb, nil))
		if err != nil {
			tl.Fatal("open post state: %v", err)
		}
		l.db = post
		tw2, tu2, naccts := dumpTotal(tdb, root)
		ws, us := l.audit()
		tr.Emit(tl.M{"op": "blockend", "tw": tw2, "tu": tu2, "bal": ws, "balu": us, "accounts": naccts})
		if sum.Traces%3 == 1 && len(sum.Samples) < 5 {
			sum.Sample(tl.M{"fork": f.Name, "block": header.Number.Uint64(), "txs": len(block.Transactions()), "total_wei_part": tw2, "total_reward_units": tu2, "accounts": naccts})
		}
		cc.add(header)
		parentRoot = root
	}
}

func main() {
	mode := flag.String("mode", "record", "record")
	trace := flag.String("trace", "trace.ndjson", "output trace")
	out := flag.String("out", "summary.json", "summary output")
	chains := flag.Int("chains", 6, "number of chains (rule sets are cycled)")
	nBlocks := flag.Int("blocks", 2, "blocks per chain")
	txs := flag.Int("txs", 5, "transactions attempted per block")
	flag.Parse()
	seed := int64(tl.EnvInt("VERIF_SEED", 1))
	sum := tl.NewSummary("c32", *mode, seed)
	if *mode != "record" {
		tl.Fatal("bad mode")
	}
	r := tl.Rand(seed)
	tr := tl.NewTrace(*trace)
	forks := ek.Forks()
	st := &stats{reasons: map[string]int{}}
	for c := 0; c < *chains; c++ {
		f := forks[(c*7+int(seed)*3)%len(forks)]
		if c == 0 {
			f = forks[len(forks)-1-int(seed)%2] // always one of the newest rule sets
		}
		oneChain(f, r, *nBlocks, *txs, tr, sum, st)
		sum.Count("chain:" + f.Name)
	}
	tr.Close()
	sum.Steps = tr.N
	for k, v := range st.reasons {
		sum.Counts["reason:"+k] = v
	}
	sum.Extra["txs"] = st.txs
	sum.Extra["failed_txs"] = st.failedTxs
	sum.Extra["blob_txs"] = st.blobTxs
	sum.Extra["dynamic_fee_txs"] = st.dynTxs
	sum.Extra["frames"] = st.frames
	sum.Extra["reverted_frames"] = st.reverted
	sum.Extra["selfdestructs"] = st.selfdestructs
	sum.Extra["withdrawals"] = st.withdrawals
	sum.Extra["uncles"] = st.rewards
	sum.Extra["balance_changes"] = st.changes
	sum.Rule = "seeded random chains x rule sets replayed by StateProcessor.Process; distinct = transactions with at least one value-moving frame or balance change beyond gas payment"
	sum.Write(*out)
	if len(sum.Violations) > 0 {
		os.Exit(1)
	}
}
