// c31s drives the transaction-level gas settlement (core.ApplyMessage + core.GasPool) for
// property C31: random transactions in random blocks under London(Cancun)/Prague(Osaka)/
// Amsterdam rules; one event per transaction with the observable settlement figures, one per
// block start.  Validated by spec/evm/SettlementTrace.tla.
package main

import (
	"errors"
	"flag"
	"fmt"
	"math/big"
	"os"

	"github.com/ethereum/go-ethereum/common"
	"github.com/ethereum/go-ethereum/core"
	"github.com/ethereum/go-ethereum/core/state"
	"github.com/ethereum/go-ethereum/core/tracing"
	"github.com/ethereum/go-ethereum/core/types"
	"github.com/ethereum/go-ethereum/core/vm"
	"github.com/ethereum/go-ethereum/params"
	"github.com/holiman/uint256"
	tl "verif/harness/tracelib"
)

var (
	storeAddr  = common.HexToAddress("0x00000000000000000000000000000000000c0de1")
	loopAddr   = common.HexToAddress("0x00000000000000000000000000000000000c0de3")
	loopCode   = common.FromHex("60005b8036111560185780602001358135556040016002565b00")
	burnAddr   = common.HexToAddress("0x00000000000000000000000000000000000c0de2")
	coinbase   = common.HexToAddress("0x00000000000000000000000000000000000c01b5")
	senders    = []common.Address{common.HexToAddress("0xa1"), common.HexToAddress("0xa2"), common.HexToAddress("0xa3")}
	storeCode  = common.FromHex("60203560003555" + "60603560403555" + "608035601557" + "00" + "5b" + "60006000fd")
	burnCode   = common.FromHex("5b600056")
	returnInit = common.FromHex("600a600c600039600a6000f3" + "60016000556000ff0000")
)

func u64p(v uint64) *uint64 { return &v }

func configFor(fork string) *params.ChainConfig {
	c := *params.MergedTestChainConfig
	bs := *c.BlobScheduleConfig
	c.BlobScheduleConfig = &bs
	switch fork {
	case "london": // Cancun rules: refund quotient 5, no calldata floor
		c.PragueTime, c.OsakaTime = nil, nil
	case "prague": // Osaka rules: floor + tx gas cap
	case "amsterdam":
		c.AmsterdamTime = u64p(0)
	}
	return &c
}

type gasObs struct {
	leftBeforeRefund, refund, floorDiff, returned uint64
	sawRefund, sawFloor, sawReturn                 bool
}

func word(v uint64) []byte { return common.LeftPadBytes(new(big.Int).SetUint64(v).Bytes(), 32) }

func classify(err error) string {
	switch {
	case err == nil:
		return "none"
	case errors.Is(err, core.ErrGasLimitReached):
		return "gaslimit"
	case errors.Is(err, core.ErrIntrinsicGas):
		return "intrinsic"
	case errors.Is(err, core.ErrFloorDataGas):
		return "floor"
	case errors.Is(err, core.ErrGasLimitTooHigh):
		return "txcap"
	}
	return "other"
}

func main() {
	trace := flag.String("trace", "trace.ndjson", "output trace")
	out := flag.String("out", "summary.json", "summary output")
	nblocks := flag.Int("blocks", 60, "number of blocks")
	flag.Parse()
	seed := int64(tl.EnvInt("VERIF_SEED", 1))
	r := tl.Rand(seed)
	sum := tl.NewSummary("c31s", "record", seed)
	tr := tl.NewTrace(*trace)
	shapes := map[string]bool{}

	for b := 0; b < *nblocks; b++ {
		fork := []string{"london", "prague", "amsterdam"}[r.Intn(3)]
		cfg := configFor(fork)
		sdb, err := state.New(types.EmptyRootHash, state.NewDatabaseForTesting())
		if err != nil {
			tl.Fatal("state: %v", err)
		}
		for _, s := range senders {
			sdb.SetBalance(s, uint256.NewInt(1e18), tracing.BalanceChangeUnspecified)
		}
		sdb.SetCode(storeAddr, storeCode, tracing.CodeChangeUnspecified)
		sdb.SetNonce(storeAddr, 1, tracing.NonceChangeUnspecified)
		for i := uint64(1); i <= 12; i++ {
			sdb.SetState(storeAddr, common.BytesToHash(word(i)), common.BytesToHash(word(7)))
		}
		sdb.SetCode(loopAddr, loopCode, tracing.CodeChangeUnspecified)
		sdb.SetNonce(loopAddr, 1, tracing.NonceChangeUnspecified)
		for i := uint64(1); i <= 40; i++ {
			sdb.SetState(loopAddr, common.BytesToHash(word(i)), common.BytesToHash(word(5)))
		}
		sdb.SetCode(burnAddr, burnCode, tracing.CodeChangeUnspecified)
		sdb.SetNonce(burnAddr, 1, tracing.NonceChangeUnspecified)
		root, err := sdb.Commit(cfg.Rules(big.NewInt(0), true, 0), 0)
		if err != nil {
			tl.Fatal("commit: %v", err)
		}
		sdb, err = state.New(root, sdb.Database())
		if err != nil {
			tl.Fatal("reopen: %v", err)
		}
		gasLimit := uint64(60000 + r.Intn(600000))
		if r.Intn(5) == 0 {
			gasLimit = uint64(21000 + r.Intn(40000))
		}
		big_ := fork == "amsterdam" && r.Intn(3) == 0 // blocks that admit transactions above the EIP-7825 cap: non-empty state reservoir
		if big_ {
			gasLimit = uint64(20_000_000 + r.Intn(40_000_000))
		}
		header := &types.Header{Number: big.NewInt(1), Time: 10, GasLimit: gasLimit, BaseFee: big.NewInt(7), Difficulty: big.NewInt(0),
			Coinbase: coinbase, ExcessBlobGas: u64p(0), BlobGasUsed: u64p(0), ParentBeaconRoot: &common.Hash{}}
		rnd := common.Hash{1}
		header.MixDigest = rnd
		var obs gasObs
		hooks := &tracing.Hooks{OnGasChangeV2: func(old, new tracing.Gas, reason tracing.GasChangeReason) {
			switch reason {
			case tracing.GasChangeTxRefunds:
				obs.leftBeforeRefund, obs.refund, obs.sawRefund = old.Execution, new.Execution-old.Execution, true
			case tracing.GasChangeTxDataFloor:
				obs.floorDiff, obs.sawFloor = old.Execution-new.Execution, true
			case tracing.GasChangeTxLeftOverReturned:
				obs.returned, obs.sawReturn = old.Execution, true
			}
		}}
		bctx := vm.BlockContext{CanTransfer: core.CanTransfer, Transfer: core.Transfer,
			GetHash: func(uint64) common.Hash { return common.Hash{} }, Coinbase: coinbase, BlockNumber: big.NewInt(1), Time: 10,
			Difficulty: big.NewInt(0), BaseFee: big.NewInt(7), BlobBaseFee: big.NewInt(1), GasLimit: gasLimit, Random: &rnd,
			CostPerStateByte: params.CostPerStateByte}
		evm := vm.NewEVM(bctx, sdb, cfg, vm.Config{Tracer: hooks})
		rules := evm.GetRules()
		gp := core.NewGasPool(gasLimit)
		tr.Emit(tl.M{"op": "block", "fork": fork, "initial": gasLimit})
		nonces := map[common.Address]uint64{}
		ntx := 1 + r.Intn(8)
		shape := fork
		for t := 0; t < ntx; t++ {
			from := senders[r.Intn(len(senders))]
			var to *common.Address
			var data []byte
			kind := r.Intn(10)
			switch {
			case kind < 3: // k storage writes in a loop: refund counter from 0 to far above the cap
				a := loopAddr
				to = &a
				k := 1 + r.Intn(14)
				clearBias := r.Intn(4)
				for j := 0; j < k; j++ {
					v := uint64(0)
					if r.Intn(4) > clearBias {
						v = uint64(1 + r.Intn(9))
					}
					data = append(append(data, word(uint64(1+r.Intn(48)))...), word(v)...)
				}
			case kind < 5: // storage writes: clears give refunds, sets cost state gas
				a := storeAddr
				to = &a
				v1, v2 := uint64(r.Intn(2))*uint64(r.Intn(9)), uint64(r.Intn(2))*uint64(r.Intn(9))
				rev := uint64(0)
				if r.Intn(6) == 0 {
					rev = 1
				}
				data = append(append(append(append(word(uint64(1+r.Intn(16))), word(v1)...), word(uint64(1+r.Intn(16)))...), word(v2)...), word(rev)...)
			case kind < 6:
				a := burnAddr
				to = &a
			case kind < 8: // plain transfer with calldata (floor)
				a := common.HexToAddress("0xee")
				to = &a
				n := r.Intn(300)
				data = make([]byte, n)
				for i := range data {
					if r.Intn(3) > 0 {
						data[i] = byte(1 + r.Intn(255))
					}
				}
			default: // creation
				data = returnInit
			}
			intrinsic, _ := core.IntrinsicGas(data, nil, nil, from, to, uint256.NewInt(0), rules)
			floor := uint64(0)
			if rules.IsPrague {
				floor, _ = core.FloorDataGas(rules, from, to, uint256.NewInt(0), data, nil)
			}
			var limit uint64
			switch r.Intn(8) {
			case 0:
				limit = intrinsic
			case 1:
				limit = max(intrinsic, floor)
			case 2:
				limit = max(intrinsic, floor) + uint64(r.Intn(3000))
			case 3:
				limit = uint64(r.Intn(int(intrinsic) + 1))
			case 4:
				limit = gp.Gas() + uint64(r.Intn(3)) // at / just above what the pool still has
				if limit > 0 && r.Intn(2) == 0 {
					limit--
				}
			default:
				limit = max(intrinsic, floor) + uint64(r.Intn(400000))
			}
			if big_ && r.Intn(2) == 0 {
				limit = params.MaxTxGas - 2000 + uint64(r.Intn(5_000_000))
			}
			msg := &core.Message{To: to, From: from, Nonce: nonces[from], Value: uint256.NewInt(0), GasLimit: limit,
				GasPrice: uint256.NewInt(9), GasFeeCap: uint256.NewInt(9), GasTipCap: uint256.NewInt(2), Data: data}
			obs = gasObs{}
			sdb.SetTxContext(common.Hash{byte(t + 1)}, t, uint32(t+1))
			snap := sdb.Snapshot()
			gpSnap := gp.Snapshot() // callers restore the pool when a transaction is refused (miner.commitTransaction)
			res, err := core.ApplyMessage(evm, msg, gp)
			if err != nil {
				gp.Set(gpSnap)
			}
			ev := tl.M{"op": "tx", "fork": fork, "limit": limit, "intrinsic": intrinsic, "floor": floor, "err": classify(err),
				"pool": tl.M{"remaining": gp.Gas(), "cumUsed": gp.CumulativeUsed(), "cumExec": gp.CumulativeExecution(), "cumState": gp.CumulativeState(), "used": gp.Used()}}
			if err != nil {
				sdb.RevertToSnapshot(snap)
				ev["left"], ev["counter"], ev["refund"], ev["used"], ev["peak"], ev["returned"], ev["failed"] = 0, 0, 0, 0, 0, 0, false
				if classify(err) == "other" {
					tl.Fatal("unexpected consensus error: %v", err)
				}
			} else {
				nonces[from]++
				left := obs.leftBeforeRefund
				if !obs.sawRefund {
					tl.Fatal("no refund gas-change event observed")
				}
				ev["left"], ev["counter"], ev["refund"] = left, sdb.GetRefund(), obs.refund
				ev["used"], ev["peak"], ev["returned"], ev["failed"] = res.UsedGas, res.MaxUsedGas, obs.returned, res.Failed()
				sdb.Finalise(rules)
			}
			tr.Emit(ev)
			sum.Count("tx-" + fork + "-" + classify(err))
			shape += fmt.Sprintf("|%d%s%v", kind, classify(err), err == nil && res.Failed())
			if b < 2 {
				sum.Sample(ev)
			}
		}
		sum.Traces++
		sum.Evaluations++
		if !shapes[shape] {
			shapes[shape] = true
			sum.Distinct++
		}
	}
	tr.Close()
	sum.Steps = tr.N
	sum.Rule = "random blocks (fork, block gas limit) of random transactions (storage set/clear incl. reverting, out-of-gas loop, calldata-heavy transfers, creations; gas limits at/around intrinsic, floor and remaining pool) through core.ApplyMessage with a shared core.GasPool; distinct = distinct (fork, tx-kind, outcome) sequences"
	sum.Write(*out)
	if len(sum.Violations) > 0 {
		os.Exit(1)
	}
}
