// c51 binds spec/codec/ABI.tla (property C51: contract ABI encoding round-trips and follows
// the ABI specification) to accounts/abi.
//
//	-mode cases  -in cases.json    every TLC-enumerated case (argument types, bytes, verdict and
//	                               value demanded by the specification) on abi.Arguments:
//	                               pack cases: Pack(value) must equal the specification's bytes;
//	                               all cases: Unpack(bytes) must reject / accept-with-value as the
//	                               verdict says, never panic, and what it accepts must re-encode (R)
//	-mode record -trace t.ndjson   random nested types (depth <= 4), random values, Pack and Unpack
//	                               of canonical and mutated encodings, one event per call (V)
//
// Values travel in the specification's form: a static leaf is its canonical 32-byte word, bytes and
// string are their data bytes, arrays/slices/tuples are lists.  The driver converts between that form
// and Go values by reflection over abi.Type.GetType(); it holds no encoder or decoder of its own.
package main

import (
	"bytes"
	"encoding/json"
	"flag"
	"fmt"
	"math/big"
	"math/rand"
	"os"
	"reflect"
	"strings"

	"github.com/ethereum/go-ethereum/accounts/abi"
	"github.com/ethereum/go-ethereum/common"
	tl "verif/harness/tracelib"
)

// ------------------------------------------------------------------ types

type ty struct {
	K   string `json:"k"`
	N   int    `json:"n"`
	Sub []ty   `json:"sub"`
}

func (t ty) String() string {
	switch t.K {
	case "uint", "int":
		return fmt.Sprintf("%s%d", t.K, t.N)
	case "bytesN":
		return fmt.Sprintf("bytes%d", t.N)
	case "array":
		return fmt.Sprintf("%s[%d]", t.Sub[0], t.N)
	case "slice":
		return t.Sub[0].String() + "[]"
	case "tuple":
		parts := make([]string, len(t.Sub))
		for i, s := range t.Sub {
			parts[i] = s.String()
		}
		return "(" + strings.Join(parts, ",") + ")"
	}
	return t.K
}

func (t ty) isDynamic() bool {
	switch t.K {
	case "bytes", "string", "slice":
		return true
	case "array":
		return t.Sub[0].isDynamic()
	case "tuple":
		for _, s := range t.Sub {
			if s.isDynamic() {
				return true
			}
		}
	}
	return false
}

// marshaling renders the type for abi.NewType: the type string with "tuple" for the innermost
// tuple, and that tuple's components.
func marshaling(t ty, name string) abi.ArgumentMarshaling {
	base := t
	for base.K == "array" || base.K == "slice" {
		base = base.Sub[0]
	}
	m := abi.ArgumentMarshaling{Name: name}
	if base.K == "tuple" {
		m.Type = "tuple" + dims(t)
		for i, s := range base.Sub {
			m.Components = append(m.Components, marshaling(s, fmt.Sprintf("f%d", i)))
		}
	} else {
		m.Type = base.String() + dims(t)
	}
	return m
}

// dims returns the array suffixes of t, innermost dimension first (Solidity order).
func dims(t ty) string {
	switch t.K {
	case "array":
		return dims(t.Sub[0]) + fmt.Sprintf("[%d]", t.N)
	case "slice":
		return dims(t.Sub[0]) + "[]"
	}
	return ""
}

func abiArgs(ts []ty) (abi.Arguments, error) {
	var out abi.Arguments
	for i, t := range ts {
		m := marshaling(t, fmt.Sprintf("a%d", i))
		at, err := abi.NewType(m.Type, "", m.Components)
		if err != nil {
			return nil, fmt.Errorf("abi.NewType(%s): %v", m.Type, err)
		}
		out = append(out, abi.Argument{Name: m.Name, Type: at})
	}
	return out, nil
}

// ------------------------------------------------------------------ spec values <-> Go values

// A spec value is: []byte (leaf word or bytes/string data) or []any (components).

func wordToBig(w []byte, signed bool) *big.Int {
	v := new(big.Int).SetBytes(w)
	if signed && w[0] >= 0x80 {
		v.Sub(v, new(big.Int).Lsh(big.NewInt(1), 256))
	}
	return v
}

func bigToWord(v *big.Int) []byte {
	x := new(big.Int).Set(v)
	if x.Sign() < 0 {
		x.Add(x, new(big.Int).Lsh(big.NewInt(1), 256))
	}
	out := make([]byte, 32)
	x.FillBytes(out)
	return out
}

// toGo builds a Go value of Go type gt for the specification value sv of type t.
func toGo(t ty, gt reflect.Type, sv any) (reflect.Value, error) {
	v := reflect.New(gt).Elem()
	switch t.K {
	case "uint", "int":
		w, ok := sv.([]byte)
		if !ok || len(w) != 32 {
			return v, fmt.Errorf("leaf word expected for %s", t)
		}
		b := wordToBig(w, t.K == "int")
		switch gt.Kind() {
		case reflect.Uint8, reflect.Uint16, reflect.Uint32, reflect.Uint64:
			v.SetUint(b.Uint64())
		case reflect.Int8, reflect.Int16, reflect.Int32, reflect.Int64:
			v.SetInt(b.Int64())
		default:
			v.Set(reflect.ValueOf(b))
		}
	case "bool":
		v.SetBool(sv.([]byte)[31] == 1)
	case "address":
		v.Set(reflect.ValueOf(common.BytesToAddress(sv.([]byte)[12:])))
	case "bytesN":
		reflect.Copy(v, reflect.ValueOf(sv.([]byte)[:t.N]))
	case "bytes":
		v.SetBytes(append([]byte{}, sv.([]byte)...))
	case "string":
		v.SetString(string(sv.([]byte)))
	case "array", "slice":
		xs := sv.([]any)
		if t.K == "slice" {
			v = reflect.MakeSlice(gt, len(xs), len(xs))
		} else if len(xs) != t.N {
			return v, fmt.Errorf("array length %d for %s", len(xs), t)
		}
		for i, x := range xs {
			e, err := toGo(t.Sub[0], gt.Elem(), x)
			if err != nil {
				return v, err
			}
			v.Index(i).Set(e)
		}
	case "tuple":
		xs := sv.([]any)
		if len(xs) != len(t.Sub) || gt.Kind() != reflect.Struct || gt.NumField() != len(t.Sub) {
			return v, fmt.Errorf("tuple shape mismatch for %s", t)
		}
		for i, x := range xs {
			e, err := toGo(t.Sub[i], gt.Field(i).Type, x)
			if err != nil {
				return v, err
			}
			v.Field(i).Set(e)
		}
	default:
		return v, fmt.Errorf("unknown kind %q", t.K)
	}
	return v, nil
}

// fromGo renders a Go value (as returned by Unpack) in the specification's form.
func fromGo(t ty, v reflect.Value) (any, error) {
	for v.Kind() == reflect.Interface {
		v = v.Elem()
	}
	switch t.K {
	case "uint", "int":
		switch v.Kind() {
		case reflect.Uint8, reflect.Uint16, reflect.Uint32, reflect.Uint64:
			return bigToWord(new(big.Int).SetUint64(v.Uint())), nil
		case reflect.Int8, reflect.Int16, reflect.Int32, reflect.Int64:
			return bigToWord(big.NewInt(v.Int())), nil
		}
		b, ok := v.Interface().(*big.Int)
		if !ok {
			return nil, fmt.Errorf("%s decoded to %s", t, v.Type())
		}
		if b.BitLen() > 256 {
			return nil, fmt.Errorf("%s decoded to a number wider than 256 bits", t)
		}
		return bigToWord(b), nil
	case "bool":
		w := make([]byte, 32)
		if v.Bool() {
			w[31] = 1
		}
		return w, nil
	case "address":
		a, ok := v.Interface().(common.Address)
		if !ok {
			return nil, fmt.Errorf("address decoded to %s", v.Type())
		}
		return common.LeftPadBytes(a[:], 32), nil
	case "bytesN":
		if v.Kind() != reflect.Array || v.Len() != t.N {
			return nil, fmt.Errorf("%s decoded to %s", t, v.Type())
		}
		w := make([]byte, 32)
		reflect.Copy(reflect.ValueOf(w), v)
		return w, nil
	case "bytes":
		return append([]byte{}, v.Bytes()...), nil
	case "string":
		return []byte(v.String()), nil
	case "array", "slice":
		if t.K == "array" && v.Len() != t.N {
			return nil, fmt.Errorf("%s decoded to length %d", t, v.Len())
		}
		out := make([]any, v.Len())
		for i := range out {
			e, err := fromGo(t.Sub[0], v.Index(i))
			if err != nil {
				return nil, err
			}
			out[i] = e
		}
		return out, nil
	case "tuple":
		if v.Kind() != reflect.Struct || v.NumField() != len(t.Sub) {
			return nil, fmt.Errorf("%s decoded to %s", t, v.Type())
		}
		out := make([]any, len(t.Sub))
		for i := range out {
			e, err := fromGo(t.Sub[i], v.Field(i))
			if err != nil {
				return nil, err
			}
			out[i] = e
		}
		return out, nil
	}
	return nil, fmt.Errorf("unknown kind %q", t.K)
}

// parseVal converts the JSON rendering of a specification value (compact: a leaf word that is a
// small number is printed as that number) into []byte / []any.
func parseVal(t ty, j any) (any, error) {
	switch t.K {
	case "array", "slice", "tuple":
		xs, ok := j.([]any)
		if !ok {
			return nil, fmt.Errorf("list expected for %s", t)
		}
		out := make([]any, len(xs))
		for i, x := range xs {
			st := t.Sub[0]
			if t.K == "tuple" {
				if i >= len(t.Sub) {
					return nil, fmt.Errorf("too many components for %s", t)
				}
				st = t.Sub[i]
			}
			e, err := parseVal(st, x)
			if err != nil {
				return nil, err
			}
			out[i] = e
		}
		return out, nil
	case "bytes", "string":
		return byteList(j)
	}
	if n, ok := j.(float64); ok {
		return natWord(int(n)), nil
	}
	return byteList(j)
}

func natWord(n int) []byte {
	w := make([]byte, 32)
	w[29], w[30], w[31] = byte(n>>16), byte(n>>8), byte(n)
	return w
}

func byteList(j any) ([]byte, error) {
	xs, ok := j.([]any)
	if !ok {
		return nil, fmt.Errorf("byte list expected, got %T", j)
	}
	out := make([]byte, len(xs))
	for i, x := range xs {
		f, ok := x.(float64)
		if !ok || f < 0 || f > 255 {
			return nil, fmt.Errorf("byte expected, got %v", x)
		}
		out[i] = byte(f)
	}
	return out, nil
}

// expandMem expands the compact memory rendering (numbers = small words, lists = raw bytes).
func expandMem(items []any) ([]byte, error) {
	var out []byte
	for _, it := range items {
		if n, ok := it.(float64); ok {
			out = append(out, natWord(int(n))...)
			continue
		}
		b, err := byteList(it)
		if err != nil {
			return nil, err
		}
		out = append(out, b...)
	}
	return out, nil
}

// plain renders a specification value as nested lists of numbers (for events).
func plain(v any) any {
	switch x := v.(type) {
	case []byte:
		out := make([]int, len(x))
		for i, b := range x {
			out[i] = int(b)
		}
		return out
	case []any:
		out := make([]any, len(x))
		for i, e := range x {
			out[i] = plain(e)
		}
		return out
	}
	return v
}

func specEqual(a, b any) bool {
	switch x := a.(type) {
	case []byte:
		y, ok := b.([]byte)
		return ok && bytes.Equal(x, y)
	case []any:
		y, ok := b.([]any)
		if !ok || len(x) != len(y) {
			return false
		}
		for i := range x {
			if !specEqual(x[i], y[i]) {
				return false
			}
		}
		return true
	}
	return false
}

// ------------------------------------------------------------------ guarded calls

type unpacked struct {
	ok       bool
	panicked string
	err      string
	vals     []any // specification form, when ok
	raw      []any
}

// unpack runs Arguments.Unpack; never-panic is part of the property, so a panic is caught
// here and reported by the caller as a violation.
func unpack(args abi.Arguments, ts []ty, data []byte) (u unpacked) {
	defer func() {
		if r := recover(); r != nil {
			u = unpacked{panicked: fmt.Sprint(r)}
		}
	}()
	raw, err := args.Unpack(data)
	if err != nil {
		return unpacked{err: err.Error()}
	}
	if len(raw) != len(ts) {
		return unpacked{ok: true, raw: raw, err: fmt.Sprintf("Unpack returned %d values for %d arguments", len(raw), len(ts))}
	}
	u = unpacked{ok: true, raw: raw}
	for i, t := range ts {
		sv, err := fromGo(t, reflect.ValueOf(raw[i]))
		if err != nil {
			u.err = err.Error()
			return u
		}
		u.vals = append(u.vals, sv)
	}
	return u
}

func pack(args abi.Arguments, vals []any) (out []byte, err error) {
	defer func() {
		if r := recover(); r != nil {
			err = fmt.Errorf("panic: %v", r)
		}
	}()
	return args.Pack(vals...)
}

func goValues(args abi.Arguments, ts []ty, svs []any) ([]any, error) {
	out := make([]any, len(ts))
	for i, t := range ts {
		v, err := toGo(t, args[i].Type.GetType(), svs[i])
		if err != nil {
			return nil, err
		}
		out[i] = v.Interface()
	}
	return out, nil
}

// ------------------------------------------------------------------ mode cases (R)

type caseLine struct {
	Ph      string `json:"ph"`
	Note    string `json:"note"`
	P       int    `json:"p"`
	K       int    `json:"k"`
	Args    []ty   `json:"args"`
	Len     int    `json:"len"`
	Mem     []any  `json:"mem"`
	Verdict string `json:"verdict"`
	Val     []any  `json:"val"`
}

func sig(ts []ty) string {
	p := make([]string, len(ts))
	for i, t := range ts {
		p[i] = t.String()
	}
	return strings.Join(p, ",")
}

func runCases(in string, sum *tl.Summary) {
	var cases []caseLine
	tl.ReadJSON(in, &cases)
	distinct := map[string]bool{}
	types := map[string]bool{}
	for idx, c := range cases {
		mem, err := expandMem(c.Mem)
		if err != nil || len(mem) != c.Len {
			tl.Fatal("case %d: bad memory rendering (%v, %d bytes for len %d)", idx, err, len(mem), c.Len)
		}
		args, err := abiArgs(c.Args)
		if err != nil {
			tl.Fatal("case %d: %v", idx, err)
		}
		s := sig(c.Args)
		types[s] = true
		var want []any
		if c.Verdict != "reject" {
			for i, t := range c.Args {
				sv, err := parseVal(t, c.Val[i])
				if err != nil {
					tl.Fatal("case %d: bad value rendering: %v", idx, err)
				}
				want = append(want, sv)
			}
		}
		sum.Evaluations++
		sum.Count(c.Ph)
		viol := func(desc string, extra tl.M) {
			extra["case"] = c
			extra["type"] = s
			extra["bytes"] = fmt.Sprintf("%x", mem)
			sum.Violate(fmt.Sprintf("(%s) %s case %s: %s", s, c.Ph, c.Note, desc), extra)
		}
		// Pack of the sample value must produce exactly the specification's bytes
		if c.Ph == "pack" {
			gv, err := goValues(args, c.Args, want)
			if err != nil {
				tl.Fatal("case %d: cannot build Go value: %v", idx, err)
			}
			enc, err := pack(args, gv)
			if err != nil {
				viol("Pack failed: "+err.Error(), tl.M{})
			} else if !bytes.Equal(enc, mem) {
				viol(fmt.Sprintf("Pack gives %x, the specification (ABI.tla Enc) demands %x", enc, mem), tl.M{})
			}
		}
		// Unpack
		u := unpack(args, c.Args, mem)
		got := "reject"
		if u.ok {
			got = "accept"
		}
		key := fmt.Sprint(s, c.Ph, c.Verdict, got)
		if !distinct[key] {
			distinct[key] = true
			sum.Distinct++
		}
		switch {
		case u.panicked != "":
			viol("Unpack panicked: "+u.panicked, tl.M{})
		case u.ok && u.err != "":
			viol("Unpack returned a value of the wrong shape: "+u.err, tl.M{})
		case c.Verdict == "reject" && u.ok:
			viol(fmt.Sprintf("Unpack accepts (%v) what the specification rejects", plain(u.vals)), tl.M{"got": plain(u.vals)})
		case c.Verdict == "accept" && !u.ok:
			viol("Unpack rejects a canonical encoding: "+u.err, tl.M{})
		case u.ok:
			if !specEqual(any(u.vals), any(want)) {
				viol(fmt.Sprintf("Unpack gives %v, the specification (ABI.tla Dec) %v", plain(u.vals), plain(want)), tl.M{"got": plain(u.vals)})
			}
			// what was accepted re-encodes, and the re-encoding decodes to the same value
			re, err := pack(args, u.raw)
			if err != nil {
				viol("accepted value does not re-encode: "+err.Error(), tl.M{})
			} else {
				if c.Verdict == "accept" && !bytes.HasPrefix(mem, re) {
					viol(fmt.Sprintf("re-encoding %x is not a prefix of the canonical input", re), tl.M{})
				}
				u2 := unpack(args, c.Args, re)
				if !u2.ok || !specEqual(any(u2.vals), any(u.vals)) {
					viol(fmt.Sprintf("re-encoding %x does not decode to the same value", re), tl.M{})
				}
			}
		}
		if idx%3000 == 0 {
			sum.Sample(tl.M{"type": s, "ph": c.Ph, "bytes": fmt.Sprintf("%x", mem), "verdict": c.Verdict, "got": got})
		}
	}
	sum.Steps = sum.Evaluations
	sum.Extra["types"] = len(types)
	sum.Rule = "every TLC-enumerated case (argument types x sample value / mutated encoding / word string) executed on abi.Arguments Pack and Unpack; distinct = distinct (type list, case kind, verdict, outcome)"
}

// ------------------------------------------------------------------ mode record (V)

func leaf(k string, n int) ty { return ty{K: k, N: n, Sub: []ty{}} }

func randType(r *rand.Rand, depth int) ty {
	if depth == 0 || r.Intn(3) == 0 {
		switch r.Intn(9) {
		case 0:
			return leaf("uint", []int{8, 16, 24, 32, 40, 64, 128, 248, 256, 256}[r.Intn(10)])
		case 1:
			return leaf("int", []int{8, 16, 24, 32, 40, 64, 128, 248, 256}[r.Intn(9)])
		case 2:
			return leaf("bool", 0)
		case 3:
			return leaf("address", 0)
		case 4:
			return leaf("bytesN", 1+r.Intn(32))
		case 5, 6:
			return leaf("bytes", 0)
		case 7:
			return leaf("string", 0)
		default:
			return leaf("uint", 256)
		}
	}
	switch r.Intn(3) {
	case 0:
		return ty{K: "array", N: 1 + r.Intn(3), Sub: []ty{randType(r, depth-1)}}
	case 1:
		return ty{K: "slice", Sub: []ty{randType(r, depth-1)}}
	}
	n := 1 + r.Intn(3)
	t := ty{K: "tuple"}
	for i := 0; i < n; i++ {
		t.Sub = append(t.Sub, randType(r, depth-1))
	}
	return t
}

func randVal(r *rand.Rand, t ty) any {
	switch t.K {
	case "uint":
		w := make([]byte, 32)
		n := t.N / 8
		switch r.Intn(4) {
		case 0:
		case 1:
			for i := 32 - n; i < 32; i++ {
				w[i] = 0xff
			}
		default:
			r.Read(w[32-n:])
		}
		return w
	case "int":
		w := make([]byte, 32)
		n := t.N / 8
		r.Read(w[32-n:])
		switch r.Intn(5) {
		case 0:
			w = bigToWord(big.NewInt(-1))
		case 1: // minimum
			w = make([]byte, 32)
			w[32-n] = 0x80
		case 2: // maximum
			for i := 32 - n; i < 32; i++ {
				w[i] = 0xff
			}
			w[32-n] = 0x7f
		}
		if w[32-n] >= 0x80 {
			for i := 0; i < 32-n; i++ {
				w[i] = 0xff
			}
		}
		return w
	case "bool":
		w := make([]byte, 32)
		w[31] = byte(r.Intn(2))
		return w
	case "address":
		w := make([]byte, 32)
		r.Read(w[12:])
		return w
	case "bytesN":
		w := make([]byte, 32)
		r.Read(w[:t.N])
		return w
	case "bytes", "string":
		n := []int{0, 1, 31, 32, 33, 64, 65}[r.Intn(7)]
		if r.Intn(3) == 0 {
			n = r.Intn(100)
		}
		b := make([]byte, n)
		for i := range b {
			b[i] = byte('a' + r.Intn(26))
		}
		return b
	case "array":
		out := make([]any, t.N)
		for i := range out {
			out[i] = randVal(r, t.Sub[0])
		}
		return out
	case "slice":
		out := make([]any, r.Intn(4))
		for i := range out {
			out[i] = randVal(r, t.Sub[0])
		}
		return out
	}
	out := make([]any, len(t.Sub))
	for i := range out {
		out[i] = randVal(r, t.Sub[i])
	}
	return out
}

func mutate(r *rand.Rand, enc []byte) ([]byte, string) {
	m := append([]byte{}, enc...)
	words := len(m) / 32
	switch k := r.Intn(8); {
	case k == 0 || words == 0:
		return append(m, byte(r.Intn(256))), "extend"
	case k == 1:
		return m[:r.Intn(len(m))], "truncate"
	case k == 2:
		return m[:32*r.Intn(words+1)], "truncate-word"
	case k == 3:
		m[r.Intn(len(m))] ^= byte(1 << uint(r.Intn(8)))
		return m, "bitflip"
	case k == 4: // small change of a word's low bytes (offsets and lengths live there)
		p := 32 * r.Intn(words)
		m[p+31] += byte([]int{1, 31, 32, 33, 255}[r.Intn(5)])
		return m, "low-byte"
	case k == 5:
		p := 32 * r.Intn(words)
		copy(m[p:p+32], natWord([]int{0, 1, 32, 64, len(m) - 32, len(m), len(m) + 1}[r.Intn(7)]))
		return m, "word"
	case k == 6:
		p := 32 * r.Intn(words)
		for i := p; i < p+32; i++ {
			m[i] = 0xff
		}
		return m, "ff-word"
	default:
		p := 32 * r.Intn(words)
		m[p+r.Intn(29)] = byte(1 + r.Intn(255))
		return m, "high-byte"
	}
}

func intList(b []byte) []int {
	out := make([]int, len(b))
	for i, x := range b {
		out[i] = int(x)
	}
	return out
}

func runRecord(path string, seed int64, n int, sum *tl.Summary) {
	r := tl.Rand(seed)
	tr := tl.NewTrace(path)
	defer tr.Close()
	shapes := map[string]bool{}
	for i := 0; i < n; i++ {
		var ts []ty
		for k := 1 + r.Intn(2); k > 0; k-- {
			ts = append(ts, randType(r, 1+r.Intn(4)))
		}
		args, err := abiArgs(ts)
		if err != nil {
			tl.Fatal("%v", err)
		}
		svs := make([]any, len(ts))
		for j, t := range ts {
			svs[j] = randVal(r, t)
		}
		gv, err := goValues(args, ts, svs)
		if err != nil {
			tl.Fatal("build value: %v", err)
		}
		enc, err := pack(args, gv)
		if len(enc) > 1600 {
			continue // keep TLC's byte sequences small
		}
		ev := tl.M{"op": "pack", "args": ts, "vals": plain(any(svs)), "ok": err == nil, "mem": intList(enc)}
		tr.Emit(ev)
		sum.Count("pack")
		if err != nil {
			continue
		}
		inputs := [][]byte{enc}
		kinds := []string{"canonical"}
		for k := 0; k < 3; k++ {
			m, kind := mutate(r, enc)
			inputs, kinds = append(inputs, m), append(kinds, kind)
		}
		for k, m := range inputs {
			u := unpack(args, ts, m)
			vals := any([]any{})
			if u.ok && u.err == "" {
				vals = plain(any(u.vals))
			}
			reenc := true
			if u.ok {
				re, err := pack(args, u.raw)
				u2 := unpacked{}
				if err == nil {
					u2 = unpack(args, ts, re)
				}
				reenc = err == nil && u2.ok && specEqual(any(u2.vals), any(u.vals))
			}
			tr.Emit(tl.M{"op": "unpack", "args": ts, "kind": kinds[k], "mem": intList(m), "ok": u.ok && u.err == "", "panicked": u.panicked != "",
				"shapeErr": u.ok && u.err != "", "vals": vals, "reencodes": reenc})
			sum.Count("unpack-" + kinds[k])
			shape := fmt.Sprint(sig(ts), kinds[k], u.ok)
			if !shapes[shape] {
				shapes[shape] = true
				sum.Distinct++
			}
		}
		sum.Evaluations++
		if i < 2 {
			sum.Sample(tl.M{"type": sig(ts), "bytes": fmt.Sprintf("%x", enc)})
		}
	}
	sum.Steps = tr.N
	sum.Traces = 1
	sum.Rule = "random nested argument types (depth <= 4) with random values: Pack, Unpack of the encoding and of 3 mutations each; distinct = distinct (type list, input kind, accepted) combinations"
}

func main() {
	mode := flag.String("mode", "cases", "cases|record")
	in := flag.String("in", "", "cases json")
	trace := flag.String("trace", "trace.ndjson", "output trace")
	out := flag.String("out", "summary.json", "summary output")
	n := flag.Int("n", 100, "random type/value rounds")
	flag.Parse()
	seed := int64(tl.EnvInt("VERIF_SEED", 1))
	sum := tl.NewSummary("c51", *mode, seed)
	switch *mode {
	case "cases":
		sum.Mode = "replay"
		runCases(*in, sum)
	case "record":
		runRecord(*trace, seed, *n, sum)
	default:
		tl.Fatal("bad mode")
	}
	sum.Write(*out)
	_ = json.Marshal
	if len(sum.Violations) > 0 {
		os.Exit(1)
	}
}
