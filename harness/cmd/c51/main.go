package main

import (
	"fmt"

	"github.com/ethereum/go-ethereum/accounts/abi"
)

func main() {
	st, _ := abi.NewType("string[2]", "", nil)
	args := abi.Arguments{{Type: st}}
	enc, err := args.Pack([2]string{"a", "bc"})
	fmt.Printf("%x %v\n", enc, err)
	enc[23] = 1 // offset word += 2^64
	out, err := args.Unpack(enc)
	fmt.Println(out, err)
	// same for string[] (slice) for comparison
	st2, _ := abi.NewType("string[]", "", nil)
	args2 := abi.Arguments{{Type: st2}}
	enc2, _ := args2.Pack([]string{"a", "bc"})
	enc2[23] = 1
	out2, err := args2.Unpack(enc2)
	fmt.Println(out2, err)
	// uint256[0]?
	_, err = abi.NewType("uint256[0]", "", nil)
	fmt.Println("uint256[0]:", err)
	tt, err := abi.NewType("tuple", "", []abi.ArgumentMarshaling{{Name: "a", Type: "uint8"}, {Name: "b", Type: "bytes"}})
	fmt.Println(tt.GetType(), err)
}
