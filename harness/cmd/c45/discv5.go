package main

import tl "verif/harness/tracelib"

func runSessions(path string, sum *tl.Summary)                            { tl.Fatal("not yet") }
func runSessRecord(path string, seed int64, n, steps int, sum *tl.Summary) { tl.Fatal("not yet") }
