package main

// Session part of C45: schedules of spec/net/Discv5.tla executed on real v5wire.Codec instances.
// One simNode per model node; the driver plays the packet layer above the codec (it keeps the last
// Unknown nonce and the last decoded WHOAREYOU per peer, exactly the `unk` and `got` variables of the
// specification) and the network/adversary (wire = every packet ever produced, tampered copies,
// redirection, replay).

import (
	"bytes"
	"crypto/ecdsa"
	"fmt"
	"math/rand"
	"net"
	"time"

	"github.com/ethereum/go-ethereum/common/mclock"
	"github.com/ethereum/go-ethereum/p2p/discover/v5wire"
	"github.com/ethereum/go-ethereum/p2p/enode"
	"github.com/ethereum/go-ethereum/p2p/enr"
	"github.com/ethereum/go-ethereum/rlp"
	tl "verif/harness/tracelib"
)

type simNode struct {
	name  string
	key   *ecdsa.PrivateKey
	db    *enode.DB
	ln    *enode.LocalNode
	clock *mclock.Simulated
	c     *v5wire.Codec
	addr  string
	known map[string]*enode.Node       // records this node has, by node name
	unk   map[string]*v5wire.Nonce     // nonce of the last unreadable packet from peer
	got   map[string]*v5wire.Whoareyou // last WHOAREYOU decoded from peer
}

type wirePkt struct {
	data     []byte
	src, dst string
	msg      v5wire.Packet // the message it carries (nil for WHOAREYOU)
	kind     string        // "msg" (message or random packet), "way", "hs"
	tampered bool
}

type simNet struct {
	r     *rand.Rand
	nodes map[string]*simNode
	order []string
	wire  []wirePkt
}

func newSimNet(r *rand.Rand, names []string, knows map[string]map[string]bool) *simNet {
	sn := &simNet{r: r, nodes: map[string]*simNode{}, order: names}
	for i, name := range names {
		n := &simNode{name: name, key: detKey(r), clock: new(mclock.Simulated)}
		n.db, _ = enode.OpenDB("")
		n.ln = enode.NewLocalNode(n.db, n.key)
		n.ln.SetStaticIP(net.IP{10, 0, 0, byte(i + 1)})
		n.ln.Set(enr.UDP(30303))
		n.addr = fmt.Sprintf("10.0.0.%d:30303", i+1)
		n.reset()
		sn.nodes[name] = n
	}
	for _, a := range names {
		sn.nodes[a].known = map[string]*enode.Node{}
		for _, b := range names {
			if a != b && knows[a][b] {
				sn.nodes[a].known[b] = sn.nodes[b].ln.Node()
			}
		}
	}
	return sn
}

func (sn *simNet) close() {
	for _, n := range sn.nodes {
		n.db.Close()
	}
}

// reset is a restart: a new codec (no sessions, no pending challenges), same identity and record.
func (n *simNode) reset() {
	n.c = v5wire.NewCodec(n.ln, n.key, n.clock, nil)
	n.unk = map[string]*v5wire.Nonce{}
	n.got = map[string]*v5wire.Whoareyou{}
}

func (sn *simNet) reqID() []byte {
	b := make([]byte, 1+sn.r.Intn(8))
	sn.r.Read(b)
	return b
}

func (sn *simNet) makeMsg(kind string) v5wire.Packet {
	r := sn.r
	blob := func(n int) []byte { b := make([]byte, n); r.Read(b); return b }
	switch kind {
	case "ping":
		return &v5wire.Ping{ReqID: sn.reqID(), ENRSeq: r.Uint64() >> uint(r.Intn(64))}
	case "pong":
		ip := net.IP(blob(4))
		if r.Intn(2) == 0 {
			ip = net.IP(blob(16))
		}
		return &v5wire.Pong{ReqID: sn.reqID(), ENRSeq: uint64(r.Intn(1000)), ToIP: ip, ToPort: uint16(r.Intn(65536))}
	case "findnode":
		d := make([]uint, r.Intn(4))
		for i := range d {
			d[i] = uint(r.Intn(257))
		}
		return &v5wire.Findnode{ReqID: sn.reqID(), Distances: d}
	case "nodes":
		var recs []*enr.Record
		for _, name := range sn.order {
			if r.Intn(2) == 0 {
				recs = append(recs, sn.nodes[name].ln.Node().Record())
			}
		}
		return &v5wire.Nodes{ReqID: sn.reqID(), RespCount: uint8(1 + r.Intn(3)), Nodes: recs}
	case "talkreq":
		return &v5wire.TalkRequest{ReqID: sn.reqID(), Protocol: []string{"", "p", "portal-state"}[r.Intn(3)], Message: blob(r.Intn(60))}
	case "talkresp":
		return &v5wire.TalkResponse{ReqID: sn.reqID(), Message: blob(r.Intn(60))}
	}
	tl.Fatal("unknown message kind %q", kind)
	return nil
}

// ---- the codec calls (one per action of Discv5.tla) ----

func (sn *simNet) sendMsg(from, to, kind string) (int, error) {
	a, b := sn.nodes[from], sn.nodes[to]
	m := sn.makeMsg(kind)
	enc, _, err := a.c.Encode(b.ln.ID(), b.addr, m, nil)
	if err != nil {
		return 0, err
	}
	sn.wire = append(sn.wire, wirePkt{data: append([]byte{}, enc...), src: from, dst: to, msg: m, kind: "msg"})
	return len(sn.wire), nil
}

func (sn *simNet) sendWhoareyou(from, to string) (int, bool, error) {
	a, b := sn.nodes[from], sn.nodes[to]
	nonce := a.unk[to]
	if nonce == nil {
		return 0, false, fmt.Errorf("driver: %s holds no unreadable packet from %s", from, to)
	}
	w := &v5wire.Whoareyou{Nonce: *nonce}
	sn.r.Read(w.IDNonce[:])
	knows := a.known[to] != nil
	if knows {
		w.Node = a.known[to]
		w.RecordSeq = w.Node.Seq()
	}
	enc, _, err := a.c.Encode(b.ln.ID(), b.addr, w, nil)
	if err != nil {
		return 0, knows, err
	}
	delete(a.unk, to)
	sn.wire = append(sn.wire, wirePkt{data: append([]byte{}, enc...), src: from, dst: to, kind: "way"})
	return len(sn.wire), knows, nil
}

func (sn *simNet) sendHandshake(from, to, kind string) (int, bool, error) {
	a, b := sn.nodes[from], sn.nodes[to]
	ch := a.got[to]
	if ch == nil || a.known[to] == nil {
		return 0, false, fmt.Errorf("driver: %s cannot answer a challenge of %s", from, to)
	}
	cpy := *ch
	cpy.Node = a.known[to]
	withRecord := cpy.RecordSeq < a.ln.Node().Seq()
	m := sn.makeMsg(kind)
	enc, _, err := a.c.Encode(b.ln.ID(), b.addr, m, &cpy)
	if err != nil {
		return 0, withRecord, err
	}
	delete(a.got, to)
	sn.wire = append(sn.wire, wirePkt{data: append([]byte{}, enc...), src: from, dst: to, msg: m, kind: "hs"})
	return len(sn.wire), withRecord, nil
}

// Packet layout (discv5-wire): masking-iv 16 | static header 23 (protocol-id 6, version 2, flag 1,
// nonce 12, authdata-size 2) | authdata | message.
func (sn *simNet) tamper(i int, class string) (int, error) {
	p := sn.wire[i-1]
	if p.tampered {
		return 0, fmt.Errorf("driver: packet %d is already a tampered copy", i)
	}
	d := append([]byte{}, p.data...)
	var lo, hi int
	switch class {
	case "iv":
		lo, hi = 0, 16
	case "ver": // high byte of the version field (the low byte would make the version 0 = below minimum)
		lo, hi = 22, 23
	case "nonce":
		lo, hi = 25, 37
	case "src": // source id: first 32 bytes of the authdata of message and handshake packets
		lo, hi = 39, 71
	case "idn": // id-nonce: first 16 bytes of the WHOAREYOU authdata
		lo, hi = 39, 55
	case "sig": // id-signature follows src-id(32) sig-size(1) eph-key-size(1)
		lo, hi = 73, 137
	case "ct": // the GCM tag at the end of the packet
		lo, hi = len(d)-16, len(d)
	default:
		return 0, fmt.Errorf("driver: unknown tamper class %q", class)
	}
	if hi > len(d) || lo < 0 {
		return 0, fmt.Errorf("driver: packet %d too short for tamper class %s", i, class)
	}
	d[lo+sn.r.Intn(hi-lo)] ^= 1 << uint(sn.r.Intn(8))
	sn.wire = append(sn.wire, wirePkt{data: d, src: p.src, dst: p.dst, msg: p.msg, kind: p.kind, tampered: true})
	return len(sn.wire), nil
}

// forge: a third party (its own key) reads WHOAREYOU packet i and answers it in the name of the challenged
// node: a codec with that node's public identity (id, record) but the forger's private key.
func (sn *simNet) forge(i int, kind string) (int, error) {
	p := sn.wire[i-1]
	if p.kind != "way" {
		return 0, fmt.Errorf("driver: packet %d is not a WHOAREYOU", i)
	}
	victim, challenger := sn.nodes[p.dst], sn.nodes[p.src]
	forger := v5wire.NewCodec(victim.ln, detKey(sn.r), new(mclock.Simulated), nil)
	_, _, pkt, err := forger.Decode(p.data, challenger.addr)
	if err != nil {
		return 0, fmt.Errorf("driver: forger cannot read WHOAREYOU %d: %v", i, err)
	}
	ch, ok := pkt.(*v5wire.Whoareyou)
	if !ok {
		return 0, fmt.Errorf("driver: packet %d does not decode as WHOAREYOU", i)
	}
	ch.Node = challenger.ln.Node()
	m := sn.makeMsg(kind)
	enc, _, err := forger.Encode(challenger.ln.ID(), challenger.addr, m, ch)
	if err != nil {
		return 0, err
	}
	sn.wire = append(sn.wire, wirePkt{data: append([]byte{}, enc...), src: p.dst, dst: p.src, msg: m, kind: "hs", tampered: true})
	return len(sn.wire), nil
}

// deliver hands packet i to node `to` as coming from the address of its original sender and
// classifies what Decode reports.
func (sn *simNet) deliver(i int, to, from string) (string, string) {
	p := sn.wire[i-1]
	n := sn.nodes[to]
	src := sn.nodes[p.src]
	id, node, pkt, err := n.c.Decode(p.data, sn.nodes[from].addr)
	if err != nil {
		return "err", err.Error()
	}
	switch q := pkt.(type) {
	case *v5wire.Unknown:
		// the caller would challenge (id, address): it is the peer only if both are the sender's
		if id == src.ln.ID() && from == p.src {
			nn := q.Nonce
			n.unk[p.src] = &nn
		}
		return "unknown", ""
	case *v5wire.Whoareyou:
		if from == p.src {
			n.got[p.src] = q
		}
		return "way", ""
	}
	// an authenticated message: must be the one that was sent, from the node that sent it
	detail := ""
	if id != src.ln.ID() {
		detail = "source id differs from the sender's"
	} else if p.msg == nil {
		detail = "message decoded from a packet that carries none"
	} else {
		want, _ := rlp.EncodeToBytes(p.msg)
		have, _ := rlp.EncodeToBytes(pkt)
		if pkt.Kind() != p.msg.Kind() || !bytes.Equal(want, have) || !bytes.Equal(pkt.RequestID(), p.msg.RequestID()) {
			detail = fmt.Sprintf("message differs: sent %s %x, got %s %x", p.msg.Name(), want, pkt.Name(), have)
		}
	}
	if node != nil {
		if node.ID() != src.ln.ID() {
			detail = "handshake node differs from the sender"
		}
		n.known[p.src] = node
		return "hsmsg", detail
	}
	return "msg", detail
}

func (sn *simNet) expire(name string) { sn.nodes[name].clock.Run(2 * time.Second) }

// ---------------------------------------------------------------- R: behaviours from TLC

type Act struct {
	Op    string                     `json:"op"`
	N     string                     `json:"n"`
	P     string                     `json:"p"`
	M     string                     `json:"m"`
	I     int                        `json:"i"`
	T     string                     `json:"t"`
	Out   string                     `json:"out"`
	Knows map[string]map[string]bool `json:"knows,omitempty"`
}

func names(knows map[string]map[string]bool) []string {
	var out []string
	for _, c := range []string{"A", "B", "C", "D"} {
		if _, ok := knows[c]; ok {
			out = append(out, c)
		}
	}
	return out
}

func runSessions(path string, sum *tl.Summary) {
	var behs [][]Act
	tl.ReadJSON(path, &behs)
	if len(behs) == 0 {
		tl.Fatal("no behaviours in %s", path)
	}
	r := tl.Rand(sum.Seed)
	seen := map[string]bool{}
	for bi, beh := range behs {
		if len(beh) == 0 || beh[0].Op != "init" {
			tl.Fatal("behaviour %d does not start with init", bi)
		}
		sn := newSimNet(r, names(beh[0].Knows), beh[0].Knows)
		shape := ""
		for si, a := range beh[1:] {
			fail := func(desc string) {
				sum.Violate(fmt.Sprintf("discv5 behaviour %d step %d (%s %s->%s i=%d t=%s): %s", bi, si+1, a.Op, a.N, a.P, a.I, a.T, desc),
					tl.M{"behaviour": beh[:si+2], "step": si + 1})
			}
			stop := false
			switch a.Op {
			case "msg":
				i, err := sn.sendMsg(a.N, a.P, a.M)
				if err != nil || i != a.I {
					fail(fmt.Sprintf("Encode failed or packet index %d != %d: %v", i, a.I, err))
					stop = true
				}
			case "way":
				i, knows, err := sn.sendWhoareyou(a.N, a.P)
				if err != nil || i != a.I {
					fail(fmt.Sprintf("WHOAREYOU could not be sent (index %d, want %d): %v", i, a.I, err))
					stop = true
				} else if knows != (a.Out == "known") {
					fail("driver and specification disagree on the records known")
					stop = true
				}
			case "hs":
				i, rec, err := sn.sendHandshake(a.N, a.P, a.M)
				if err != nil || i != a.I {
					fail(fmt.Sprintf("handshake could not be sent (index %d, want %d): %v", i, a.I, err))
					stop = true
				} else if rec != (a.Out == "record") {
					fail(fmt.Sprintf("handshake packet encloses record=%v, specification %s", rec, a.Out))
				}
			case "tamper":
				if _, err := sn.tamper(a.I, a.T); err != nil {
					tl.Fatal("%v", err)
				}
			case "forge":
				if _, err := sn.forge(a.I, a.M); err != nil {
					tl.Fatal("%v", err)
				}
			case "deliver":
				got, detail := sn.deliver(a.I, a.N, a.P)
				sum.Count("deliver:" + got)
				if got != a.Out {
					fail(fmt.Sprintf("Decode reports %q (%s), specification %q", got, detail, a.Out))
					stop = true
				} else if (got == "msg" || got == "hsmsg") && detail != "" {
					fail("accepted message is not the one sent: " + detail)
				}
			case "reset":
				sn.nodes[a.N].reset()
			case "expire":
				sn.expire(a.N)
			default:
				tl.Fatal("unknown action %q", a.Op)
			}
			sum.Steps++
			shape += a.Op[:1] + a.Out + a.T + "|"
			if stop {
				break
			}
		}
		sn.close()
		sum.Evaluations++
		if !seen[shape] {
			seen[shape] = true
			sum.Distinct++
		}
		if bi%97 == 0 {
			sum.Sample(tl.M{"behaviour": bi, "shape": shape})
		}
	}
	sum.Rule = "behaviours sampled by TLC from MCDiscv5 (guided simulation) executed step by step on real v5wire codecs: every Decode outcome class, the enclosed record, and the identity of every accepted message are compared with the specification; distinct = distinct (action, outcome, tamper) sequences"
}

// ---------------------------------------------------------------- V: random schedules recorded from the real codecs

func runSessRecord(path string, seed int64, ntraces, steps int, sum *tl.Summary) {
	r := tl.Rand(seed)
	tr := tl.NewTrace(path)
	defer tr.Close()
	nodes := []string{"A", "B", "C"}
	kinds := []string{"ping", "pong", "findnode", "nodes", "talkreq", "talkresp"}
	classes := map[string][]string{"msg": {"iv", "ver", "nonce", "src", "ct"}, "way": {"iv", "ver", "nonce", "idn"}, "hs": {"iv", "ver", "nonce", "src", "sig", "ct"}}
	shapes := map[string]bool{}
	for t := 0; t < ntraces; t++ {
		knows := map[string]map[string]bool{}
		for _, a := range nodes {
			knows[a] = map[string]bool{}
			for _, b := range nodes {
				knows[a][b] = a != b && r.Intn(3) != 0
			}
		}
		sn := newSimNet(r, nodes, knows)
		tr.Emit(tl.M{"op": "init", "n": "", "p": "", "m": "", "i": 0, "t": "", "out": "", "knows": knows})
		emit := func(op, n, p, m string, i int, t, out string) {
			tr.Emit(tl.M{"op": op, "n": n, "p": p, "m": m, "i": i, "t": t, "out": out, "knows": map[string]any{}})
			sum.Count(op + ":" + out)
		}
		undelivered := []int{}
		shape := ""
		// attack in flight: a tampered copy of the packet just sent, delivered before or after the original
		inflight := func(i int) {
			if r.Intn(4) != 0 {
				return
			}
			cl := classes[sn.wire[i-1].kind]
			tc := cl[r.Intn(len(cl))]
			j, err := sn.tamper(i, tc)
			if err != nil {
				return
			}
			emit("tamper", "", "", "", i, tc, "")
			shape += "T" + tc
			if r.Intn(2) == 0 {
				undelivered[len(undelivered)-1] = j
				undelivered = append(undelivered, i)
			} else {
				undelivered = append(undelivered, j)
			}
		}
		for s := 0; s < steps; s++ {
			// pending packets are delivered (mostly to their destination) before anything else happens
			if len(undelivered) > 0 && r.Intn(8) != 0 {
				i := undelivered[0]
				undelivered = undelivered[1:]
				to := sn.wire[i-1].dst
				if r.Intn(6) == 0 {
					to = nodes[r.Intn(len(nodes))] // redirected
				}
				from := sn.wire[i-1].src
				if r.Intn(10) == 0 {
					from = nodes[r.Intn(len(nodes))] // spoofed source address
				}
				out, detail := sn.deliver(i, to, from)
				if detail != "" && (out == "msg" || out == "hsmsg") {
					out += ":corrupt" // an accepted message that is not the one sent: never allowed by the specification
				}
				emit("deliver", to, from, "", i, "", out)
				shape += "d" + out
				continue
			}
			a, b := nodes[r.Intn(2)], nodes[r.Intn(2)] // C only receives redirected packets
			if a == b {
				continue
			}
			na := sn.nodes[a]
			switch c := r.Intn(20); {
			case c < 5 && na.got[b] != nil && na.known[b] != nil:
				k := kinds[r.Intn(len(kinds))]
				i, rec, err := sn.sendHandshake(a, b, k)
				if err != nil {
					tl.Fatal("%v", err)
				}
				emit("hs", a, b, k, i, "", map[bool]string{true: "record", false: "norecord"}[rec])
				undelivered = append(undelivered, i)
				shape += "h"
				inflight(i)
			case c < 10 && na.unk[b] != nil:
				i, kn, err := sn.sendWhoareyou(a, b)
				if err != nil {
					tl.Fatal("%v", err)
				}
				emit("way", a, b, "", i, "", map[bool]string{true: "known", false: "unknownnode"}[kn])
				undelivered = append(undelivered, i)
				shape += "w"
				if r.Intn(5) == 0 {
					// a third party answers the challenge before (or after) the challenged node sees it
					k := kinds[r.Intn(len(kinds))]
					if j, err := sn.forge(i, k); err == nil {
						emit("forge", b, a, k, i, "forged", "")
						shape += "F"
						if r.Intn(2) == 0 {
							undelivered = append([]int{j}, undelivered...)
						} else {
							undelivered = append(undelivered, j)
						}
					}
				} else {
					inflight(i)
				}
			case c < 14 && na.known[b] != nil:
				k := kinds[r.Intn(len(kinds))]
				i, err := sn.sendMsg(a, b, k)
				if err != nil {
					tl.Fatal("%v", err)
				}
				emit("msg", a, b, k, i, "", "")
				undelivered = append(undelivered, i)
				shape += "m"
				inflight(i)
			case c < 17 && len(sn.wire) > 0:
				// tamper with one of the recent packets and deliver the copy
				i := len(sn.wire) - r.Intn(min(3, len(sn.wire)))
				cl := classes[sn.wire[i-1].kind]
				tc := cl[r.Intn(len(cl))]
				j, err := sn.tamper(i, tc)
				if err != nil {
					continue
				}
				emit("tamper", "", "", "", i, tc, "")
				undelivered = append(undelivered, j)
				shape += "t" + tc
			case c < 18 && len(sn.wire) > 0:
				// replay an old packet
				i := 1 + r.Intn(len(sn.wire))
				to := sn.wire[i-1].dst
				out, detail := sn.deliver(i, to, sn.wire[i-1].src)
				if detail != "" && (out == "msg" || out == "hsmsg") {
					out += ":corrupt"
				}
				emit("deliver", to, sn.wire[i-1].src, "", i, "", out)
				shape += "r" + out
			case c == 18:
				sn.nodes[a].reset()
				emit("reset", a, "", "", 0, "", "")
				shape += "R"
			case c == 19:
				sn.expire(a)
				emit("expireall", a, "", "", 0, "", "")
				shape += "E"
			}
		}
		sn.close()
		sum.Traces++
		sum.Evaluations++
		if !shapes[shape] {
			shapes[shape] = true
			sum.Distinct++
		}
		if t < 2 {
			sum.Sample(tl.M{"trace": t, "shape": shape})
		}
	}
	sum.Steps = tr.N
	sum.Rule = "seeded random schedules (send / WHOAREYOU / handshake / tamper / redirect / replay / restart / timeout) on three real v5wire codecs, every Decode outcome recorded; distinct = distinct schedule shapes"
}
