// c45 binds spec/codec/ENR.tla and spec/net/Discv5.tla to p2p/enr, p2p/enode and
// p2p/discover/v5wire (property C45).
//
//	-mode enrbase   -o bases.json     really signed base records for MCENR
//	-mode enrcases  -in cases.json    replay of MCENR's mutated records (R)
//	-mode enrrecord -trace t.ndjson   random records and mutations (V, ENRTrace.tla)
//	-mode sessions  -in behs.json     replay of Discv5 schedules on real v5wire codecs (R)
//	-mode sessrecord -trace t.ndjson  random schedules recorded from real codecs (V, Discv5Trace.tla)
package main

import (
	"encoding/json"
	"flag"
	"os"

	tl "verif/harness/tracelib"
)

func main() {
	mode := flag.String("mode", "", "enrbase|enrcases|enrrecord|sessions|sessrecord")
	in := flag.String("in", "", "input json")
	o := flag.String("o", "bases.json", "output file (enrbase)")
	trace := flag.String("trace", "trace.ndjson", "output trace")
	out := flag.String("out", "summary.json", "summary output")
	n := flag.Int("n", 50, "number of random cases")
	steps := flag.Int("steps", 30, "steps per random schedule")
	flag.Parse()
	seed := int64(tl.EnvInt("VERIF_SEED", 1))
	sum := tl.NewSummary("c45", *mode, seed)
	switch *mode {
	case "enrbase":
		bases := makeBases(seed, sum)
		b, _ := json.Marshal(map[string]any{"bases": bases})
		if err := os.WriteFile(*o, b, 0o644); err != nil {
			tl.Fatal("write bases: %v", err)
		}
		sum.Extra["bases"] = len(bases)
	case "enrcases":
		sum.Mode = "replay"
		runEnrCases(*in, sum)
	case "enrrecord":
		runEnrRecord(*trace, seed, *n, sum)
	case "sessions":
		sum.Mode = "replay"
		runSessions(*in, sum)
	case "sessrecord":
		runSessRecord(*trace, seed, *n, *steps, sum)
	default:
		tl.Fatal("bad mode")
	}
	sum.Write(*out)
	if len(sum.Violations) > 0 {
		os.Exit(1)
	}
}
