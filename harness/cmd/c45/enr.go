package main

// ENR record part of C45: binding of spec/codec/ENR.tla to p2p/enr + p2p/enode.

import (
	"bytes"
	"crypto/ecdsa"
	"fmt"
	"math/rand"
	"strings"

	"github.com/ethereum/go-ethereum/crypto"
	"github.com/ethereum/go-ethereum/p2p/enode"
	"github.com/ethereum/go-ethereum/p2p/enr"
	"github.com/ethereum/go-ethereum/rlp"
	rb "verif/harness/cmd/c01/rlpbind"
	tl "verif/harness/tracelib"
)

// Pair and RecAbs are the abstract record of ENR.tla.
type Pair struct {
	K rb.B `json:"k"`
	V rb.B `json:"v"`
}
type RecAbs struct {
	Sig   rb.B   `json:"sig"`
	Seq   rb.B   `json:"seq"`
	Pairs []Pair `json:"pairs"`
}

// Base is one really signed record handed to TLC.
type Base struct {
	Raw     rb.B `json:"raw"`
	Sig     rb.B `json:"sig"`
	Content rb.B `json:"content"`
	Pub     rb.B `json:"pub"`
	Valid   bool `json:"valid"` // the harness expects enode.New to accept the unmodified record
	Note    string
}

func detKey(r *rand.Rand) *ecdsa.PrivateKey {
	for {
		b := make([]byte, 32)
		r.Read(b)
		if k, err := crypto.ToECDSA(b); err == nil {
			return k
		}
	}
}

// craft signs the content [seq, k, v, ...] directly (not through enr.Record), so that records the
// API refuses to build (oversized, non-canonical values, unsorted keys) can carry a genuine signature.
func craft(key *ecdsa.PrivateKey, seq uint64, pairs []Pair) Base {
	items := []rb.Item{rb.S(rb.MinimalBE(seq))}
	for _, p := range pairs {
		items = append(items, rb.S(p.K.Bytes()), rb.R(p.V.Bytes()))
	}
	content := rb.EncodeItem(rb.L(items), nil, 0)
	sig, err := crypto.Sign(crypto.Keccak256(content), key)
	if err != nil {
		tl.Fatal("sign: %v", err)
	}
	sig = sig[:64]
	raw := rb.EncodeItem(rb.L(append([]rb.Item{rb.S(sig)}, items...)), nil, 0)
	return Base{Raw: rb.FromBytes(raw), Sig: rb.FromBytes(sig), Content: rb.FromBytes(content),
		Pub: rb.FromBytes(crypto.CompressPubkey(&key.PublicKey))}
}

func strVal(b []byte) rb.B { return rb.FromBytes(rb.EncodeItem(rb.S(b), nil, 0)) }

func v4pairs(key *ecdsa.PrivateKey, extra ...Pair) []Pair {
	ps := []Pair{{rb.FromBytes([]byte("id")), strVal([]byte("v4"))}}
	ps = append(ps, extra...)
	ps = append(ps, Pair{rb.FromBytes([]byte("secp256k1")), strVal(crypto.CompressPubkey(&key.PublicKey))})
	// keys must be sorted: extras are chosen between "id" and "secp256k1" or appended by the caller
	return ps
}

// fromAPI signs through enode.SignV4 and extracts the signed triple.
func fromAPI(key *ecdsa.PrivateKey, seq uint64, entries ...enr.Entry) Base {
	var r enr.Record
	r.SetSeq(seq)
	for _, e := range entries {
		r.Set(e)
	}
	if err := enode.SignV4(&r, key); err != nil {
		// the real code refuses to sign (or to verify its own signature on) a well-formed record
		return Base{Note: "SignV4 failed: " + err.Error()}
	}
	raw, err := rlp.EncodeToBytes(&r)
	if err != nil {
		tl.Fatal("encode record: %v", err)
	}
	content, _ := rlp.EncodeToBytes(r.AppendElements(nil))
	return Base{Raw: rb.FromBytes(raw), Sig: rb.FromBytes(r.Signature()), Content: rb.FromBytes(content),
		Pub: rb.FromBytes(crypto.CompressPubkey(&key.PublicKey)), Valid: true}
}

func makeBases(seed int64, sum *tl.Summary) []Base {
	r := tl.Rand(seed)
	k1, k2 := detKey(r), detKey(r)
	var out []Base
	add := func(b Base, note string) {
		if len(b.Raw) == 0 {
			sum.Violate("enode.SignV4 fails on a well-formed record ("+note+"): "+b.Note, tl.M{"record": note})
			return
		}
		b.Note = note
		out = append(out, b)
	}
	// 1: minimal v4 record, signed through the API
	add(fromAPI(k1, 1), "minimal")
	// 2: typical record with endpoint entries and a multi-byte seq
	add(fromAPI(k2, 0x0102, enr.IPv4{127, 0, 0, 1}, enr.UDP(30303), enr.TCP(30303)), "endpoint")
	// 3: exactly 300 bytes, crafted (generic padding entry "pad" between "id" and "secp256k1")
	for _, want := range []int{300, 301} {
		valid := want <= 300
		for n := 100; n < 260; n++ {
			c := craft(k1, 7, v4pairs(k1, Pair{rb.FromBytes([]byte("pad")), strVal(bytes.Repeat([]byte{0xaa}, n))}))
			if len(c.Raw) == want {
				c.Valid = valid // 301 bytes: genuine signature, but over the size limit
				c.Note = fmt.Sprintf("size%d", want)
				out = append(out, c)
				break
			}
		}
	}
	// 5: genuine signature over a record whose extra value is a list (arbitrary RLP as value)
	c := craft(k2, 3, v4pairs(k2, Pair{rb.FromBytes([]byte("lst")), rb.FromBytes([]byte{0xc2, 0x01, 0x02})}))
	c.Valid = true
	c.Note = "listvalue"
	out = append(out, c)
	return out
}

// ---------------------------------------------------------------- observation of the real decoder

func enrClass(err error) string {
	if err == nil {
		return ""
	}
	s := err.Error()
	switch {
	case strings.Contains(s, "record bigger than"):
		return "toobig"
	case strings.Contains(s, "incomplete k/v pair"), strings.Contains(s, "less than two list elements"):
		return "incomplete"
	case strings.Contains(s, "not sorted"):
		return "order"
	case strings.Contains(s, "duplicate key"):
		return "dup"
	}
	return rb.Class(err)
}

type EnrObs struct {
	OK     bool   `json:"ok"`
	Cls    string `json:"cls"`
	R      RecAbs `json:"r"`
	Reenc  rb.B   `json:"reenc"`
	Accept bool   `json:"accept"` // enode.New(ValidSchemes) succeeded
	Err    string `json:"-"`
}

func emptyRec() RecAbs { return RecAbs{Sig: rb.B{}, Seq: rb.B{}, Pairs: []Pair{}} }

func observeRecord(in []byte) EnrObs {
	var rec enr.Record
	if err := rlp.DecodeBytes(in, &rec); err != nil {
		return EnrObs{Cls: enrClass(err), R: emptyRec(), Reenc: rb.B{}, Err: err.Error()}
	}
	o := EnrObs{OK: true, R: emptyRec()}
	o.R.Sig = rb.FromBytes(rec.Signature())
	els := rec.AppendElements(nil) // [seq, k, v, k, v, ...] through the public API
	o.R.Seq = rb.FromBytes(rb.MinimalBE(els[0].(uint64)))
	for i := 1; i+1 < len(els); i += 2 {
		o.R.Pairs = append(o.R.Pairs, Pair{rb.FromBytes([]byte(els[i].(string))), rb.FromBytes(els[i+1].(rlp.RawValue))})
	}
	re, err := rlp.EncodeToBytes(&rec)
	if err != nil {
		o.Err = "re-encode: " + err.Error()
	}
	o.Reenc = rb.FromBytes(re)
	if _, err := enode.New(enode.ValidSchemes, &rec); err == nil {
		o.Accept = true
	} else {
		o.Err = err.Error()
	}
	return o
}

func recEqual(a, b RecAbs) bool {
	if !bytes.Equal(a.Sig.Bytes(), b.Sig.Bytes()) || !bytes.Equal(a.Seq.Bytes(), b.Seq.Bytes()) || len(a.Pairs) != len(b.Pairs) {
		return false
	}
	for i := range a.Pairs {
		if !bytes.Equal(a.Pairs[i].K.Bytes(), b.Pairs[i].K.Bytes()) || !bytes.Equal(a.Pairs[i].V.Bytes(), b.Pairs[i].V.Bytes()) {
			return false
		}
	}
	return true
}

// ---------------------------------------------------------------- R: cases from MCENR

type EnrSpecOut struct {
	OK bool     `json:"ok"`
	C  []string `json:"c"`
	R  *RecAbs  `json:"r"`
}
type EnrCase struct {
	Base   int        `json:"base"`
	Kind   string     `json:"kind"`
	Pos    int        `json:"pos"`
	Sym    int        `json:"sym"`
	In     rb.B       `json:"in"`
	Dec    EnrSpecOut `json:"dec"`
	Accept bool       `json:"accept"`
}

func hasClass(cs []string, c string) bool {
	for _, x := range cs {
		if x == c {
			return true
		}
	}
	return false
}

func runEnrCases(path string, sum *tl.Summary) {
	var cases []EnrCase
	tl.ReadJSON(path, &cases)
	if len(cases) == 0 {
		tl.Fatal("no cases in %s", path)
	}
	accepted := 0
	for i, c := range cases {
		in := c.In.Bytes()
		got := observeRecord(in)
		sum.Evaluations++
		sum.Steps++
		sum.Count("record:" + c.Kind)
		bad := func(desc string) {
			sum.Violate(fmt.Sprintf("ENR %s@%d/%d of base %d (%x): %s", c.Kind, c.Pos, c.Sym, c.Base, in, desc),
				tl.M{"case": c, "got": got, "err": got.Err})
		}
		switch {
		case got.OK != c.Dec.OK:
			bad(fmt.Sprintf("rlp.DecodeBytes(&enr.Record) ok=%v (%s), specification ok=%v %v", got.OK, got.Err, c.Dec.OK, c.Dec.C))
		case !got.OK:
			if !hasClass(c.Dec.C, got.Cls) {
				bad(fmt.Sprintf("rejected with class %q (%s), specification allows %v", got.Cls, got.Err, c.Dec.C))
			}
		default:
			sum.Distinct++
			if c.Dec.R == nil || !recEqual(got.R, *c.Dec.R) {
				bad("decoded record content differs from the specification's")
			}
			if !bytes.Equal(got.Reenc.Bytes(), in) {
				bad(fmt.Sprintf("accepted but re-encodes to %x", got.Reenc.Bytes()))
			}
			if got.Accept != c.Accept {
				bad(fmt.Sprintf("enode.New accepts=%v (%s), specification (signature/identity) accepts=%v", got.Accept, got.Err, c.Accept))
			}
			if got.Accept {
				accepted++
			}
		}
		if i%700 == 5 {
			sum.Sample(tl.M{"kind": c.Kind, "pos": c.Pos, "decodes": got.OK, "class": got.Cls, "node_accepted": got.Accept})
		}
	}
	sum.Extra["records_with_valid_signature"] = accepted
	sum.Rule = "every byte edit and structural mutation of the really signed base records enumerated by TLC (MCENR) is decoded with rlp.DecodeBytes(&enr.Record), re-encoded and validated with enode.New(ValidSchemes); distinct = mutated records that decode"
}

// ---------------------------------------------------------------- V: random records

func runEnrRecord(path string, seed int64, n int, sum *tl.Summary) {
	r := tl.Rand(seed)
	tr := tl.NewTrace(path)
	defer tr.Close()
	keyNames := []string{"a", "eth", "eth2", "ip", "ip6", "pad", "quic", "snap", "tcp", "udp", "x", "zz", "", "secp256k2"}
	for i := 0; i < n; i++ {
		key := detKey(r)
		// random entries (sorted set of keys), values: random RLP (strings, small lists)
		var extra []Pair
		used := map[string]bool{"id": true, "secp256k1": true}
		for k := r.Intn(5); k > 0; k-- {
			name := keyNames[r.Intn(len(keyNames))]
			if used[name] {
				continue
			}
			used[name] = true
			extra = append(extra, Pair{rb.FromBytes([]byte(name)), rb.FromBytes(rb.EncodeItem(rb.RandItemAny(r, 1), nil, 0))})
		}
		ps := append(v4pairs(key)[:1:1], extra...)
		ps = append(ps, v4pairs(key)[1])
		// sort by key (bytewise)
		for a := 0; a < len(ps); a++ {
			for b := a + 1; b < len(ps); b++ {
				if bytes.Compare(ps[b].K.Bytes(), ps[a].K.Bytes()) < 0 {
					ps[a], ps[b] = ps[b], ps[a]
				}
			}
		}
		seq := []uint64{0, 1, 127, 128, 0xffff, r.Uint64()}[r.Intn(6)]
		b := craft(key, seq, ps)
		tr.Emit(tl.M{"op": "signed", "sig": b.Sig, "content": b.Content, "pub": b.Pub})
		inputs := [][]byte{b.Raw.Bytes()}
		raw := b.Raw.Bytes()
		for k := 0; k < 5; k++ {
			m := append([]byte{}, raw...)
			p := r.Intn(len(m))
			switch r.Intn(6) {
			case 0:
				m[p] ^= 1 << uint(r.Intn(8))
			case 1:
				m = append(m[:p], m[p+1:]...)
			case 2:
				m = append(m[:p], append([]byte{byte(r.Intn(256))}, m[p:]...)...)
			case 3:
				m = m[:p]
			case 4:
				m = append(m, byte(r.Intn(256)))
			case 5:
				// swap two adjacent pairs / duplicate one: re-craft unsorted with the same key
				q := append([]Pair{}, ps...)
				if len(q) >= 2 {
					a := r.Intn(len(q) - 1)
					if r.Intn(2) == 0 {
						q[a], q[a+1] = q[a+1], q[a]
					} else {
						q[a+1] = q[a]
					}
				}
				c := craft(key, seq, q)
				tr.Emit(tl.M{"op": "signed", "sig": c.Sig, "content": c.Content, "pub": c.Pub})
				m = c.Raw.Bytes()
			}
			inputs = append(inputs, m)
		}
		for _, in := range inputs {
			o := observeRecord(in)
			tr.Emit(tl.M{"op": "record", "in": rb.FromBytes(in), "ok": o.OK, "cls": o.Cls, "r": o.R, "reenc": o.Reenc, "accept": o.Accept})
			sum.Count("record")
			if o.OK {
				sum.Distinct++
			}
		}
		if i < 2 {
			sum.Sample(tl.M{"record": fmt.Sprintf("%x", raw), "pairs": len(ps)})
		}
		sum.Evaluations++
	}
	sum.Traces = 1
	sum.Steps = tr.N
	sum.Rule = "seeded random v4 records (random keys/values/seq, genuinely signed) and byte/structure mutations decoded with rlp.DecodeBytes(&enr.Record) + enode.New; distinct = inputs that decode"
}
