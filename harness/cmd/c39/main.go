// c39 binds spec/chain/ChainCrash.tla to core.BlockChain (property C39: the blockchain restarts
// consistently after a crash).
//
//	-mode replay -in behaviours.json   replay TLC behaviours (chain shape, scheme, snapshots, imports, trie
//	                                    commits, snapshot flattening, freezer cycles, crashes) on a real
//	                                    BlockChain over pebble + freezer; after every call the projected state
//	                                    (stored blocks, available states, number index, heads, frozen count) is
//	                                    compared with the specification; at the end the rest of the main line is
//	                                    imported and the head state is compared with a node that never crashed.
//	                                    The work is done in child processes (log.Crit exits the process).
//	-mode child                        internal: executes a chunk of behaviours
package main

import (
	"encoding/json"
	"errors"
	"flag"
	"fmt"
	"math/big"
	"os"
	"os/exec"
	"path/filepath"
	"reflect"
	"sort"
	"strconv"
	"time"

	"github.com/ethereum/go-ethereum/common"
	"github.com/ethereum/go-ethereum/consensus"
	"github.com/ethereum/go-ethereum/consensus/ethash"
	"github.com/ethereum/go-ethereum/core"
	"github.com/ethereum/go-ethereum/core/rawdb"
	"github.com/ethereum/go-ethereum/core/types"
	"github.com/ethereum/go-ethereum/ethdb"
	"github.com/ethereum/go-ethereum/ethdb/pebble"
	"github.com/ethereum/go-ethereum/params"
	tl "verif/harness/tracelib"
)

type Tree struct {
	Parent []int   `json:"parent"`
	Txs    [][]int `json:"txs"`
	Ntx    int     `json:"ntx"`
	Main   int     `json:"main"`
}

type State struct {
	Known    []int  `json:"known"`
	HasState []int  `json:"hasState"`
	Canon    []int  `json:"canon"`
	Hb       int    `json:"hb"`
	Hh       int    `json:"hh"`
	Hs       int    `json:"hs"`
	Frozen   int    `json:"frozen"`
	SnapDisk int    `json:"snapDisk"`
	Recov    int    `json:"recov"`
	Err      string `json:"err"`
}

type Act struct {
	Op  string `json:"op"`
	Seg []int  `json:"seg,omitempty"`
	F   int    `json:"f,omitempty"`
}

type Step struct {
	Act Act   `json:"act"`
	St  State `json:"st"`
}

type Behaviour struct {
	Tree   Tree   `json:"tree"`
	Scheme string `json:"scheme"`
	Snaps  bool   `json:"snaps"`
	Steps  []Step `json:"steps"`
}

var engine = ethash.NewFaker()

type Universe struct {
	tree   Tree
	gspec  *core.Genesis
	blocks []*types.Block
	num    []int
	idOf   map[common.Hash]int
	rootOf map[common.Hash]int
}

var universes = map[string]*Universe{}

func buildUniverse(t Tree) *Universe {
	kb, _ := json.Marshal(t)
	if u, ok := universes[string(kb)]; ok {
		return u
	}
	u := &Universe{tree: t, idOf: map[common.Hash]int{}}
	u.gspec = &core.Genesis{Config: params.AllEthashProtocolChanges, BaseFee: big.NewInt(params.InitialBaseFee)}
	genDb, _, _ := core.GenerateChainWithGenesis(u.gspec, engine, 0, nil)
	n := len(t.Parent)
	u.blocks = make([]*types.Block, n+1)
	u.num = make([]int, n+1)
	u.blocks[0] = u.gspec.ToBlock()
	u.idOf[u.blocks[0].Hash()] = 0
	roots := map[common.Hash]int{u.blocks[0].Root(): 0}
	for b := 1; b <= n; b++ {
		p, id := t.Parent[b-1], b
		if p < 0 || p >= b {
			tl.Fatal("bad tree: parent[%d]=%d", b, p)
		}
		blks, _ := core.GenerateChain(u.gspec.Config, u.blocks[p], engine, genDb, 1, func(i int, g *core.BlockGen) {
			g.SetCoinbase(coinbase(id))
			g.SetExtra([]byte{byte(id)})
		})
		u.blocks[b], u.num[b] = blks[0], u.num[p]+1
		u.idOf[blks[0].Hash()] = b
		if o, dup := roots[blks[0].Root()]; dup {
			tl.Fatal("blocks %d and %d share a state root", o, b)
		}
		roots[blks[0].Root()] = b
	}
	u.rootOf = roots
	universes[string(kb)] = u
	return u
}

func coinbase(id int) common.Address { return common.BytesToAddress([]byte{0xc0, byte(id)}) }

func (u *Universe) id(h common.Hash) int {
	if h == (common.Hash{}) {
		return -1
	}
	if id, ok := u.idOf[h]; ok {
		return id
	}
	return -2
}

type Node struct {
	u      *Universe
	scheme string
	snaps  bool
	dir    string
	db     ethdb.Database
	bc     *core.BlockChain
}

func (n *Node) config() *core.BlockChainConfig {
	cfg := &core.BlockChainConfig{
		TrieCleanLimit: 256,
		TrieDirtyLimit: 256,
		TrieTimeLimit:  5 * time.Minute,
		SnapshotLimit:  0,
		TxLookupLimit:  -1,
		StateScheme:    n.scheme,
	}
	if n.snaps && n.scheme == rawdb.HashScheme {
		cfg.SnapshotLimit = 256
		cfg.SnapshotWait = true
	}
	return cfg
}

func (n *Node) open() {
	pdb, err := pebble.New(n.dir, 0, 0, "", false)
	if err != nil {
		tl.Fatal("pebble: %v", err)
	}
	db, err := rawdb.Open(pdb, rawdb.OpenOptions{Ancient: filepath.Join(n.dir, "ancient")})
	if err != nil {
		tl.Fatal("rawdb.Open: %v", err)
	}
	n.db = db
	bc, err := core.NewBlockChain(db, n.u.gspec, engine, n.config())
	if err != nil {
		tl.Fatal("NewBlockChain: %v", err)
	}
	n.bc = bc
}

func classify(err error) string {
	switch {
	case err == nil:
		return "none"
	case errors.Is(err, consensus.ErrUnknownAncestor):
		return "unknown_ancestor"
	}
	return "other: " + err.Error()
}

type freezer interface {
	Freeze() error
	Ancients() (uint64, error)
}

func (n *Node) apply(a Act) string {
	var err error
	switch a.Op {
	case "InsertChain":
		blks := make(types.Blocks, len(a.Seg))
		for i, b := range a.Seg {
			blks[i] = n.u.blocks[b]
		}
		_, err = n.bc.InsertChain(blks)
	case "CommitTrie":
		err = n.bc.TrieDB().Commit(n.bc.CurrentBlock().Root, false)
	case "FlattenSnap":
		err = n.bc.Snapshots().Cap(n.bc.CurrentBlock().Root, 0)
	case "Freeze":
		h := rawdb.ReadCanonicalHash(n.db, uint64(a.F))
		hdr := n.bc.GetHeader(h, uint64(a.F))
		if hdr == nil {
			tl.Fatal("Freeze(%d): no canonical header", a.F)
		}
		n.bc.SetFinalized(hdr)
		err = n.db.(freezer).Freeze()
	case "CrashReopen":
		// pull the plug exactly as core/blockchain_repair_test.go does: nothing is flushed or journaled
		n.bc.TrieDB().Close()
		n.db.Close()
		n.bc.VerifStopWithoutSaving()
		n.open()
	default:
		tl.Fatal("unknown op %q", a.Op)
	}
	return classify(err)
}

func (n *Node) project() State {
	u, bc := n.u, n.bc
	N := len(u.tree.Parent)
	st := State{Known: []int{}, HasState: []int{}, Canon: make([]int, N)}
	for b := 1; b <= N; b++ {
		// stored data (key-value store or ancient store); BlockChain.HasBlock would also answer from
		// its block cache, which the freezer does not invalidate when it deletes side chains
		if h, num := u.blocks[b].Hash(), uint64(u.num[b]); rawdb.HasHeader(n.db, h, num) && rawdb.HasBody(n.db, h, num) {
			st.Known = append(st.Known, b)
		}
		if bc.HasState(u.blocks[b].Root()) {
			st.HasState = append(st.HasState, b)
		}
	}
	for i := 1; i <= N; i++ {
		st.Canon[i-1] = u.id(rawdb.ReadCanonicalHash(n.db, uint64(i)))
	}
	st.Hb, st.Hh, st.Hs = u.id(bc.CurrentBlock().Hash()), u.id(bc.CurrentHeader().Hash()), u.id(bc.CurrentSnapBlock().Hash())
	fr, err := n.db.(freezer).Ancients()
	if err != nil {
		tl.Fatal("Ancients: %v", err)
	}
	st.Frozen = int(fr)
	// persistent flat-state layer and snapshot recovery number (hash scheme with snapshots)
	st.SnapDisk, st.Recov = 0, -1
	if n.snaps && n.scheme == rawdb.HashScheme {
		if id, ok := u.rootOf[rawdb.ReadSnapshotRoot(n.db)]; ok {
			st.SnapDisk = id
		} else {
			st.SnapDisk = -2
		}
		if r := rawdb.ReadSnapshotRecoveryNumber(n.db); r != nil {
			st.Recov = int(*r)
		}
	}
	return st
}

func normalize(s *State) {
	if s.Known == nil {
		s.Known = []int{}
	}
	if s.HasState == nil {
		s.HasState = []int{}
	}
	if s.Canon == nil {
		s.Canon = []int{}
	}
	sort.Ints(s.Known)
	sort.Ints(s.HasState)
}

func diff(want, got State) []string {
	var d []string
	wv, gv := reflect.ValueOf(want), reflect.ValueOf(got)
	for i := 0; i < wv.NumField(); i++ {
		if !reflect.DeepEqual(wv.Field(i).Interface(), gv.Field(i).Interface()) {
			d = append(d, fmt.Sprintf("%s: specification %v, implementation %v", wv.Type().Field(i).Tag.Get("json"), wv.Field(i).Interface(), gv.Field(i).Interface()))
		}
	}
	return d
}

func describe(steps []Step) string {
	s := ""
	for i, st := range steps {
		if i > 0 {
			s += " "
		}
		switch st.Act.Op {
		case "InsertChain":
			s += fmt.Sprintf("InsertChain%v", st.Act.Seg)
		case "Freeze":
			s += fmt.Sprintf("Freeze(%d)", st.Act.F)
		default:
			s += st.Act.Op
		}
	}
	return s
}

// control: the head state of a node that imported the main line and never crashed
type account struct {
	Balance string
	Nonce   uint64
}

func headAccounts(bc *core.BlockChain, u *Universe) (common.Hash, []account, error) {
	st, err := bc.State()
	if err != nil {
		return common.Hash{}, nil, err
	}
	var out []account
	for id := 1; id <= len(u.tree.Parent); id++ {
		out = append(out, account{st.GetBalance(coinbase(id)).String(), st.GetNonce(coinbase(id))})
	}
	return bc.CurrentBlock().Root, out, nil
}

var controls = map[string]struct {
	root common.Hash
	acc  []account
}{}

func control(u *Universe) (common.Hash, []account) {
	kb, _ := json.Marshal(u.tree)
	if c, ok := controls[string(kb)]; ok {
		return c.root, c.acc
	}
	bc, err := core.NewBlockChain(rawdb.NewMemoryDatabase(), u.gspec, engine, core.DefaultConfig())
	if err != nil {
		tl.Fatal("control chain: %v", err)
	}
	defer bc.Stop()
	if _, err := bc.InsertChain(u.blocks[1 : u.tree.Main+1]); err != nil {
		tl.Fatal("control import: %v", err)
	}
	root, acc, err := headAccounts(bc, u)
	if err != nil {
		tl.Fatal("control state: %v", err)
	}
	controls[string(kb)] = struct {
		root common.Hash
		acc  []account
	}{root, acc}
	return root, acc
}

// finale imports the rest of the main line and compares the head state with the control node.
func (n *Node) finale() []string {
	u := n.u
	st := n.project()
	if st.Hb < 0 || st.Hb > u.tree.Main || st.Hh < 0 {
		return nil // the head is on the side chain: not a re-import scenario
	}
	// head block must be an ancestor of the head header on the main line
	if st.Hh > u.tree.Main || st.Hh < st.Hb {
		return nil
	}
	var d []string
	if st.Hb < u.tree.Main {
		if _, err := n.bc.InsertChain(u.blocks[st.Hb+1 : u.tree.Main+1]); err != nil {
			return []string{fmt.Sprintf("re-import of main line blocks %d..%d failed: %v", st.Hb+1, u.tree.Main, err)}
		}
	}
	end := n.project()
	tip := u.tree.Main
	if end.Hb != tip || end.Hh != tip || end.Hs != tip {
		d = append(d, fmt.Sprintf("after re-import heads are block=%d header=%d snap=%d, expected %d", end.Hb, end.Hh, end.Hs, tip))
	}
	for i := 1; i <= tip; i++ {
		if end.Canon[i-1] != i {
			d = append(d, fmt.Sprintf("after re-import canonical block at height %d is %d", i, end.Canon[i-1]))
		}
	}
	croot, cacc := control(u)
	root, acc, err := headAccounts(n.bc, u)
	if err != nil {
		d = append(d, fmt.Sprintf("head state cannot be opened after re-import: %v", err))
	} else {
		if root != croot {
			d = append(d, fmt.Sprintf("head state root %x differs from the never-crashed node's %x", root, croot))
		}
		if !reflect.DeepEqual(acc, cacc) {
			d = append(d, fmt.Sprintf("head state accounts %v differ from the never-crashed node's %v", acc, cacc))
		}
	}
	return d
}

func runChild(in, progress string, sum *tl.Summary) {
	var bs []Behaviour
	tl.ReadJSON(in, &bs)
	for bi, b := range bs {
		os.WriteFile(progress, []byte(strconv.Itoa(bi)), 0o644)
		u := buildUniverse(b.Tree)
		dir, err := os.MkdirTemp(".", "c39-node-")
		if err != nil {
			tl.Fatal("mkdir: %v", err)
		}
		n := &Node{u: u, scheme: b.Scheme, snaps: b.Snaps, dir: dir}
		n.open()
		sum.Evaluations++
		failed := false
		for si, s := range b.Steps {
			errc := n.apply(s.Act)
			got := n.project()
			got.Err = errc
			want := s.St
			normalize(&want)
			normalize(&got)
			sum.Steps++
			sum.Count(s.Act.Op)
			if d := diff(want, got); len(d) > 0 {
				sum.Violate(fmt.Sprintf("%s scheme snaps=%v main=%d side=%d: after %s (step %d) %s", b.Scheme, b.Snaps, b.Tree.Main, len(b.Tree.Parent)-b.Tree.Main, describe(b.Steps[:si+1]), si+1, d[0]),
					tl.M{"tree": b.Tree, "scheme": b.Scheme, "snaps": b.Snaps, "steps": b.Steps[:si+1], "got": got, "diff": d})
				failed = true
				break
			}
		}
		if !failed {
			if d := n.finale(); len(d) > 0 {
				sum.Violate(fmt.Sprintf("%s scheme snaps=%v main=%d side=%d: after %s and re-import of the main line: %s", b.Scheme, b.Snaps, b.Tree.Main, len(b.Tree.Parent)-b.Tree.Main, describe(b.Steps), d[0]),
					tl.M{"tree": b.Tree, "scheme": b.Scheme, "snaps": b.Snaps, "steps": b.Steps, "diff": d})
			} else {
				sum.Count("finale")
			}
		}
		if bi%41 == 0 {
			sum.Sample(tl.M{"main": b.Tree.Main, "side": len(b.Tree.Parent) - b.Tree.Main, "scheme": b.Scheme, "snaps": b.Snaps, "calls": describe(b.Steps)})
		}
		n.bc.Stop()
		n.db.Close()
		os.RemoveAll(dir)
	}
	os.WriteFile(progress, []byte(strconv.Itoa(len(bs))), 0o644)
}

func runReplay(in string, chunk int, sum *tl.Summary) {
	var bs []Behaviour
	tl.ReadJSON(in, &bs)
	self, err := os.Executable()
	if err != nil {
		tl.Fatal("executable: %v", err)
	}
	seen := map[string]bool{}
	for _, b := range bs {
		k, _ := json.Marshal(b)
		if !seen[string(k)] {
			seen[string(k)] = true
			sum.Distinct++
		}
	}
	for start := 0; start < len(bs); {
		end := min(start+chunk, len(bs))
		cin, cout, cprog := "c39-chunk.json", "c39-chunk.sum.json", "c39-chunk.progress"
		cb, _ := json.Marshal(bs[start:end])
		os.WriteFile(cin, cb, 0o644)
		os.Remove(cout)
		os.Remove(cprog)
		cmd := exec.Command(self, "-mode", "child", "-in", cin, "-out", cout, "-progress", cprog)
		outb, _ := cmd.CombinedOutput()
		var cs tl.Summary
		if b, err := os.ReadFile(cout); err == nil && json.Unmarshal(b, &cs) == nil {
			sum.Evaluations += cs.Evaluations
			sum.Steps += cs.Steps
			for k, v := range cs.Counts {
				sum.Counts[k] += v
			}
			for _, s := range cs.Samples {
				sum.Sample(s)
			}
			for _, v := range cs.Violations {
				sum.Violate(v.Desc, v.Replay)
			}
			start = end
			continue
		}
		// the child died: log.Crit (or a panic) in the code under test while handling behaviour `at`
		pb, _ := os.ReadFile(cprog)
		at, perr := strconv.Atoi(string(pb))
		if perr != nil || cmd.ProcessState == nil || cmd.ProcessState.ExitCode() == 2 {
			tl.Fatal("child failed without progress (rc=%v): %s", cmd.ProcessState, tail(string(outb), 2000))
		}
		b := bs[start+at]
		sum.Violate(fmt.Sprintf("%s scheme snaps=%v main=%d side=%d: the process exited (rc=%d) during %s", b.Scheme, b.Snaps, b.Tree.Main, len(b.Tree.Parent)-b.Tree.Main, cmd.ProcessState.ExitCode(), describe(b.Steps)),
			tl.M{"tree": b.Tree, "scheme": b.Scheme, "snaps": b.Snaps, "steps": b.Steps, "output_tail": tail(string(outb), 3000)})
		sum.Evaluations += at + 1
		start += at + 1
	}
	sum.Rule = "each TLC behaviour (main/side chain lengths, scheme, snapshots, imports, trie commits, snapshot flattening, freezer cycles, crashes) runs on a real core.BlockChain over pebble+freezer; state compared after every call, then the main line is re-imported and the head state compared with a never-crashed node; distinct = distinct behaviours"
}

func tail(s string, n int) string {
	if len(s) > n {
		return s[len(s)-n:]
	}
	return s
}

func main() {
	mode := flag.String("mode", "replay", "replay|child")
	in := flag.String("in", "", "behaviours (JSON array)")
	out := flag.String("out", "", "summary output")
	progress := flag.String("progress", "", "child: progress file")
	chunk := flag.Int("chunk", 40, "behaviours per child process")
	flag.Parse()
	seed := int64(tl.EnvInt("VERIF_SEED", 1))
	sum := tl.NewSummary("c39", *mode, seed)
	switch *mode {
	case "replay":
		runReplay(*in, *chunk, sum)
	case "child":
		runChild(*in, *progress, sum)
	default:
		tl.Fatal("unknown mode %s", *mode)
	}
	if *out != "" {
		sum.Write(*out)
	}
	if len(sum.Violations) > 0 && *mode != "child" {
		os.Exit(1)
	}
}
