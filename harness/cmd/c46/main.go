// c46 drives the real p2p/discover.Table (handlers called directly through the verif export
// file, no network, no main loop) for property C46: Kademlia bucket and IP-diversity invariants.
//
//	-mode record -trace t.ndjson   seeded random sequences of found/inbound contacts, deletions,
//	                               revalidation results, findnode bookkeeping and closest-node
//	                               queries; one event per handler call with the complete projected
//	                               table state, validated by spec/net/KademliaTrace.tla (V) with
//	                               the real constants (16/10 bucket sizes, 2/10 address limits)
//
// Model ids are small integers (XOR distance to the local node).  Their bits are spread over
// the bit positions `positions` of a 256-bit id, which preserves log-distance and XOR order;
// the three lowest positions (100, 239, 240) all fall into bucket 0.
package main

import (
	"flag"
	"fmt"
	"net/netip"
	"os"
	"sort"
	"strconv"
	"strings"

	"github.com/ethereum/go-ethereum/p2p/discover"
	"github.com/ethereum/go-ethereum/p2p/enode"
	"github.com/ethereum/go-ethereum/p2p/enr"
	tl "verif/harness/tracelib"
)

var positions = []int{100, 239, 240, 241, 242, 243, 244, 245, 246, 247, 248, 249, 250, 251, 252, 253, 254, 255, 256}

const lowBits = 3

type nodeD struct{ ID, Net, Host, Port, Seq int }

func (n nodeD) tuple() []any { return []any{n.ID, n.Net, n.Host, n.Port, n.Seq} }

type world struct {
	self   enode.ID
	addrOf map[netip.Addr][2]int
}

func (w *world) realID(m int) enode.ID {
	id := w.self
	for j, p := range positions {
		if m&(1<<uint(j)) != 0 {
			k := 256 - p
			id[k/8] ^= 1 << uint(7-k%8)
		}
	}
	return id
}
func (w *world) modelID(id enode.ID) (int, bool) {
	var x enode.ID
	for i := range x {
		x[i] = id[i] ^ w.self[i]
	}
	m := 0
	for j, p := range positions {
		k := 256 - p
		if x[k/8]&(1<<uint(7-k%8)) != 0 {
			m |= 1 << uint(j)
			x[k/8] &^= 1 << uint(7-k%8)
		}
	}
	return m, x == enode.ID{}
}

// compress maps an arbitrary real target to the model target with the same XOR order.
func (w *world) compress(id enode.ID) int {
	m, _ := w.modelID(id)
	return m
}

func (w *world) addr(net, host int) (netip.Addr, bool) {
	var a netip.Addr
	switch {
	case net == -1:
		return netip.Addr{}, false // no ip entry at all
	case net == -2:
		a = netip.AddrFrom4([4]byte{0, 0, 0, 0}) // unspecified
	case net == 0:
		switch host % 4 {
		case 0:
			a = netip.AddrFrom4([4]byte{192, 168, byte(host >> 8), byte(host)})
		case 1:
			a = netip.AddrFrom4([4]byte{10, 1, byte(host >> 8), byte(host)})
		case 2:
			a = netip.AddrFrom4([4]byte{127, 0, byte(host >> 8), byte(host)})
		default:
			a = netip.AddrFrom4([4]byte{169, 254, byte(host >> 8), byte(host)})
		}
	default:
		a = netip.AddrFrom4([4]byte{11, byte(net >> 8), byte(net), byte(host)})
	}
	w.addrOf[a] = [2]int{net, host}
	return a, true
}

func (w *world) node(d nodeD) *enode.Node {
	var r enr.Record
	if a, ok := w.addr(d.Net, d.Host); ok {
		r.Set(enr.IPv4Addr(a))
	}
	if d.Port != 0 {
		r.Set(enr.UDP(d.Port))
	}
	r.SetSeq(uint64(d.Seq))
	return enode.SignNull(&r, w.realID(d.ID))
}

func (w *world) proj(n *enode.Node, notes *[]string) nodeD {
	m, ok := w.modelID(n.ID())
	if !ok {
		*notes = append(*notes, "table contains an id the driver never delivered")
	}
	d := nodeD{ID: m, Port: n.UDP(), Seq: int(n.Seq())}
	ip := n.IPAddr()
	if !ip.IsValid() {
		d.Net, d.Host = -1, 0
	} else if nh, ok := w.addrOf[ip]; ok {
		d.Net, d.Host = nh[0], nh[1]
	} else {
		*notes = append(*notes, "table contains an address the driver never delivered")
	}
	return d
}

// parseSet parses netutil.DistinctNetSet.String(): {11.0.1.0/24×2 ...}
func (w *world) parseSet(s string, notes *[]string) [][]int {
	out := [][]int{}
	s = strings.Trim(s, "{}")
	if s == "" {
		return out
	}
	for _, f := range strings.Fields(s) {
		parts := strings.Split(f, "×")
		if len(parts) != 2 {
			*notes = append(*notes, "unparsable ip set "+s)
			continue
		}
		pfx, err := netip.ParsePrefix(parts[0])
		c, err2 := strconv.Atoi(parts[1])
		if err != nil || err2 != nil || pfx.Bits() != 24 {
			*notes = append(*notes, "unparsable ip set "+s)
			continue
		}
		b := pfx.Addr().As4()
		if b[0] != 11 {
			*notes = append(*notes, "ip set tracks an exempt address "+f)
			continue
		}
		out = append(out, []int{int(b[1])<<8 | int(b[2]), c})
	}
	sort.Slice(out, func(i, j int) bool { return out[i][0] < out[j][0] })
	return out
}

type inst struct {
	w   *world
	tab *discover.Table
	db  *enode.DB
}

func newInst(w *world) *inst {
	db, err := enode.OpenDB("")
	if err != nil {
		tl.Fatal("opendb: %v", err)
	}
	var r enr.Record
	r.Set(enr.IPv4Addr(netip.AddrFrom4([4]byte{11, 255, 255, 1})))
	r.Set(enr.UDP(30303))
	self := enode.SignNull(&r, w.self)
	tab, err := discover.VerifNewTable(self, db, discover.Config{})
	if err != nil {
		tl.Fatal("newTable: %v", err)
	}
	return &inst{w: w, tab: tab, db: db}
}

// state projects the whole table: per bucket entries/replacements/ip counters, table ip counters,
// and cross-checks the revalidation lists against the entries.
func (in *inst) state() (tl.M, []string) {
	var notes []string
	buckets, ips, fast, slow, _ := discover.VerifState(in.tab)
	ent, rep, bips := make([]any, len(buckets)), make([]any, len(buckets)), make([]any, len(buckets))
	inList := map[enode.ID]string{}
	for _, id := range fast {
		if inList[id] != "" {
			notes = append(notes, "node twice in revalidation lists")
		}
		inList[id] = "fast"
	}
	for _, id := range slow {
		if inList[id] != "" {
			notes = append(notes, "node twice in revalidation lists")
		}
		inList[id] = "slow"
	}
	nent := 0
	for i, b := range buckets {
		es := []any{}
		for _, e := range b.Entries {
			d := in.w.proj(e.Node, &notes)
			if inList[e.Node.ID()] != e.List || e.List == "" {
				notes = append(notes, fmt.Sprintf("entry %d: revalList %q but lists say %q", d.ID, e.List, inList[e.Node.ID()]))
			}
			es = append(es, append(d.tuple(), int(e.Checks), e.Live, e.List))
			nent++
		}
		rs := []any{}
		for _, e := range b.Replacements {
			d := in.w.proj(e.Node, &notes)
			if e.List != "" {
				notes = append(notes, fmt.Sprintf("replacement %d is in a revalidation list", d.ID))
			}
			rs = append(rs, d.tuple())
		}
		ent[i], rep[i], bips[i] = es, rs, in.w.parseSet(b.IPs.String(), &notes)
	}
	if nent != len(fast)+len(slow) {
		notes = append(notes, fmt.Sprintf("%d entries but %d nodes in revalidation lists", nent, len(fast)+len(slow)))
	}
	return tl.M{"ent": ent, "rep": rep, "bips": bips, "tips": in.w.parseSet(ips.String(), &notes)}, notes
}

func runRecord(path string, seed int64, ntraces, steps int, sum *tl.Summary) {
	r := tl.Rand(seed)
	tr := tl.NewTrace(path)
	defer tr.Close()
	shapes := map[string]bool{}
	for t := 0; t < ntraces; t++ {
		w := &world{addrOf: map[netip.Addr][2]int{}}
		r.Read(w.self[:])
		in := newInst(w)
		tr.Emit(tl.M{"op": "reset"})
		// node pool of this trace: concentrated in a few buckets so they fill up, few /24s
		nnets := 3 + r.Intn(28)
		focus := []int{19, 19, 19, 18, 3, 2, 4, 1 + r.Intn(19)} // bit lengths (log distances)
		pool := []nodeD{}
		randID := func() int {
			bl := focus[r.Intn(len(focus))]
			if r.Intn(6) == 0 {
				bl = 1 + r.Intn(19)
			}
			return 1<<uint(bl-1) | r.Intn(1<<uint(bl-1))
		}
		randAddr := func(d *nodeD) {
			switch c := r.Intn(20); {
			case c == 0:
				d.Net, d.Host = -1-r.Intn(2), 0
			case c < 3:
				d.Net, d.Host = 0, r.Intn(1000)
			default:
				d.Net, d.Host = 1+r.Intn(nnets), 1+r.Intn(40)
			}
		}
		for i := 0; i < 80+r.Intn(170); i++ {
			d := nodeD{ID: randID(), Port: 30000 + r.Intn(3), Seq: r.Intn(3)}
			randAddr(&d)
			pool = append(pool, d)
		}
		pick := func() *nodeD { return &pool[r.Intn(len(pool))] }
		// announce returns a record for a pool node, sometimes a changed one
		announce := func() nodeD {
			p := pick()
			switch r.Intn(8) {
			case 0:
				p.Seq++
				randAddr(p)
			case 1:
				p.Seq++
				p.Port = 30000 + r.Intn(3)
			case 2:
				p.Seq += r.Intn(2)
			case 3:
				c := *p
				c.Seq = r.Intn(p.Seq + 1) // stale record
				if r.Intn(2) == 0 {
					randAddr(&c)
				}
				return c
			case 4:
				if r.Intn(10) == 0 {
					return nodeD{ID: 0, Net: 1, Host: 1, Port: 30000, Seq: 1} // the local node itself
				}
			}
			return *p
		}
		inTable := func() []int {
			var ids []int
			buckets, _, _, _, _ := discover.VerifState(in.tab)
			var notes []string
			for _, b := range buckets {
				for _, e := range b.Entries {
					ids = append(ids, w.proj(e.Node, &notes).ID)
				}
			}
			return ids
		}
		pending := map[int]*discover.VerifReval{}
		initDone := false
		// a node that keeps failing findnode requests (drop threshold: maxFindnodeFailures, only in
		// buckets holding at least bucketSize/4 entries): taken from a bucket near that boundary
		var victim *nodeD
		victimLeft := 0
		pickVictim := func() {
			buckets, _, _, _, _ := discover.VerifState(in.tab)
			var notes []string
			var cands []nodeD
			for _, b := range buckets {
				if n := len(b.Entries); n >= discover.VerifBucketSize/4-1 && n <= discover.VerifBucketSize/4+2 {
					for _, e := range b.Entries {
						cands = append(cands, w.proj(e.Node, &notes))
					}
				}
			}
			if len(cands) > 0 {
				v := cands[r.Intn(len(cands))]
				victim, victimLeft = &v, discover.VerifMaxFindnodeFailures+1+r.Intn(2)
			}
		}
		shape := ""
		for i := 0; i < steps; i++ {
			var ev tl.M
			if victimLeft == 0 && r.Intn(40) == 0 {
				pickVictim()
			}
			if victimLeft > 0 && r.Intn(3) != 0 {
				victimLeft--
				real := w.node(*victim)
				discover.VerifTrackRequest(in.tab, real, false, nil)
				ev = tl.M{"op": "track", "n": victim.tuple(), "succ": false, "found": []any{}, "f": in.db.FindFails(real.ID(), real.IPAddr())}
				sum.Count("track:victim")
			} else {
				switch c := r.Intn(100); {
				case c < 2 || (!initDone && i > steps/8 && c < 20):
					if initDone {
						continue
					}
					discover.VerifSetInitDone(in.tab)
					initDone = true
					ev = tl.M{"op": "initdone"}
				case c < 49:
					n := announce()
					inb := r.Intn(3) == 0
					ok := discover.VerifHandleAddNode(in.tab, w.node(n), inb)
					ev = tl.M{"op": "add", "n": n.tuple(), "inb": inb, "ok": ok}
				case c < 53:
					var id int
					if ids := inTable(); len(ids) > 0 && r.Intn(4) != 0 {
						id = ids[r.Intn(len(ids))]
					} else {
						id = pick().ID
					}
					discover.VerifDeleteNode(in.tab, w.node(nodeD{ID: id, Net: 1, Host: 1, Port: 1}))
					ev = tl.M{"op": "delete", "id": id}
				case c < 65:
					ids := inTable()
					if len(ids) == 0 {
						continue
					}
					id := ids[r.Intn(len(ids))]
					if pending[id] != nil {
						continue
					}
					h := discover.VerifStartReval(in.tab, w.realID(id))
					if h == nil {
						tl.Fatal("entry vanished")
					}
					pending[id] = h
					ev = tl.M{"op": "start", "id": id}
				case c < 85:
					if len(pending) == 0 {
						continue
					}
					ids := make([]int, 0, len(pending))
					for id := range pending {
						ids = append(ids, id)
					}
					sort.Ints(ids)
					id := ids[r.Intn(len(ids))]
					ok := r.Intn(5) < 3
					nr := []any{}
					var rec *enode.Node
					if r.Intn(3) == 0 {
						var cur *nodeD
						for k := range pool {
							if pool[k].ID == id {
								cur = &pool[k]
							}
						}
						if cur != nil {
							d := *cur
							d.Seq += r.Intn(3)
							switch r.Intn(3) {
							case 0:
								randAddr(&d)
							case 1:
								d.Port = 30000 + r.Intn(3)
							}
							if r.Intn(2) == 0 {
								*cur = d
							}
							rec = w.node(d)
							nr = []any{d.tuple()}
						}
					}
					discover.VerifRevalResponse(in.tab, pending[id], ok, rec)
					delete(pending, id)
					ev = tl.M{"op": "resp", "id": id, "ok": ok, "nr": nr}
				case c < 93:
					n := announce()
					if ids := inTable(); len(ids) > 0 && r.Intn(3) != 0 { // mostly about table nodes
						want := ids[r.Intn(len(ids))]
						for k := range pool {
							if pool[k].ID == want {
								n = pool[k]
							}
						}
					}
					succ := r.Intn(4) == 0
					found := []any{}
					var fn []*enode.Node
					for k := r.Intn(5); k > 0; k-- {
						f := announce()
						found = append(found, f.tuple())
						fn = append(fn, w.node(f))
					}
					real := w.node(n)
					discover.VerifTrackRequest(in.tab, real, succ, fn)
					ev = tl.M{"op": "track", "n": n.tuple(), "succ": succ, "found": found, "f": in.db.FindFails(real.ID(), real.IPAddr())}
				default:
					var target enode.ID
					r.Read(target[:])
					if r.Intn(3) == 0 {
						target = w.realID(pick().ID)
					}
					k := 1 + r.Intn(20)
					pl := r.Intn(2) == 0
					res := []int{}
					var notes []string
					for _, n := range discover.VerifFindnodeByID(in.tab, target, k, pl) {
						res = append(res, w.proj(n, &notes).ID)
					}
					ev = tl.M{"op": "find", "t": w.compress(func() enode.ID { // model target: bits of target^self
						return target
					}()), "k": k, "pl": pl, "res": res}
				}
			}
			st, notes := in.state()
			for _, b := range st["ent"].([]any) {
				if len(b.([]any)) == discover.VerifBucketSize {
					sum.Count("step:some-bucket-full")
					break
				}
			}
			for _, b := range st["rep"].([]any) {
				if len(b.([]any)) == discover.VerifMaxReplacements {
					sum.Count("step:some-replacement-list-full")
					break
				}
			}
			if len(notes) > 0 {
				sum.Violate(fmt.Sprintf("discover.Table inconsistent after %v: %v", ev, notes), tl.M{"event": ev, "state": st, "trace": t, "step": i})
			}
			ev["st"] = st
			tr.Emit(ev)
			op := ev["op"].(string)
			sum.Count(op)
			shape += op[:2]
			if ok, has := ev["ok"].(bool); has && ok {
				shape += "+"
			}
			if t == 0 && i < 3 {
				sum.Sample(tl.M{"op": op, "n": ev["n"], "id": ev["id"], "ok": ev["ok"]})
			}
		}
		// coverage facts of this trace
		buckets, _, _, _, _ := discover.VerifState(in.tab)
		for _, b := range buckets {
			if len(b.Entries) == discover.VerifBucketSize {
				sum.Count("final:full-bucket")
			}
			if len(b.Replacements) > 0 {
				sum.Count("final:bucket-with-replacements")
			}
			if len(b.Replacements) == discover.VerifMaxReplacements {
				sum.Count("final:full-replacements")
			}
		}
		in.db.Close()
		sum.Traces++
		sum.Evaluations++
		if !shapes[shape] {
			shapes[shape] = true
			sum.Distinct++
		}
	}
	sum.Steps = tr.N
	sum.Extra["constants"] = tl.M{"B": discover.VerifBucketSize, "R": discover.VerifMaxReplacements, "BIPL": discover.VerifBucketIPLimit,
		"TIPL": discover.VerifTableIPLimit, "MaxFails": discover.VerifMaxFindnodeFailures, "NB": discover.VerifNBuckets,
		"minDist": discover.VerifBucketMinDistance}
	sum.Rule = "seeded random handler sequences on a real discover.Table (60-180 node pool concentrated in few buckets and /24s); distinct = distinct (operation, result) sequences"
}

func main() {
	mode := flag.String("mode", "record", "record")
	trace := flag.String("trace", "trace.ndjson", "output trace")
	out := flag.String("out", "summary.json", "summary output")
	n := flag.Int("n", 10, "number of traces")
	steps := flag.Int("steps", 300, "steps per trace")
	flag.Parse()
	seed := int64(tl.EnvInt("VERIF_SEED", 1))
	sum := tl.NewSummary("c46", *mode, seed)
	if discover.VerifBucketMinDistance != 239 || discover.VerifNBuckets != 17 {
		tl.Fatal("bit position plan does not match the table constants")
	}
	switch *mode {
	case "record":
		runRecord(*trace, seed, *n, *steps, sum)
	default:
		tl.Fatal("bad mode")
	}
	sum.Write(*out)
	if len(sum.Violations) > 0 {
		os.Exit(1)
	}
}
