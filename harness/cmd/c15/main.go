// c15 drives core/state.StateDB under Amsterdam rules for property C15 (block access lists
// record exactly the net state changes; spec/state/BAL.tla).
//
//	-mode mbt    -in behaviours.json  replay behaviours sampled by TLC from MCBAL.tla: at every
//	                                  Finalise the list returned by the real StateDB must equal
//	                                  ExpectedBAL, the merged block list must equal the model's (R)
//	-mode record -trace t.ndjson      seeded random Amsterdam blocks recorded with the projected
//	                                  state per call, the projected list per Finalise and the
//	                                  projected encoding object per block (V, BALTrace cfg)
//
// The observables are always read from a Copy() of the StateDB so that the projection itself
// leaves no reads in the access list under construction.
package main

import (
	"encoding/json"
	"flag"
	"fmt"
	"os"
	"sort"

	"github.com/ethereum/go-ethereum/common"
	"github.com/ethereum/go-ethereum/core/types/bal"
	sk "verif/harness/statekit"
	tl "verif/harness/tracelib"
)

type mblk struct {
	In    bool        `json:"in"`
	Bal   []sk.Pair   `json:"bal"`
	Nonce []sk.Pair   `json:"nonce"`
	Code  []sk.Pair   `json:"code"`
	Wr    [][]sk.Pair `json:"wr"`
	Rd    []int       `json:"rd"`
}

type step struct {
	Act sk.Act          `json:"act"`
	St  sk.Proj         `json:"st"`
	Bal json.RawMessage `json:"bal"`
	Blk json.RawMessage `json:"blk"`
}

func envFor(i int) *sk.Env {
	switch i % 4 {
	case 0:
		return sk.NewEnv("hash", false)
	case 1:
		return sk.NewEnv("path", false)
	case 2:
		return sk.NewEnv("hash", true)
	default:
		return sk.NewEnv("path", true)
	}
}

func sortPairs(p []sk.Pair) []sk.Pair {
	q := append([]sk.Pair{}, p...)
	sort.Slice(q, func(i, j int) bool { return q[i][0] < q[j][0] || (q[i][0] == q[j][0] && q[i][1] < q[j][1]) })
	return q
}

// blockKey renders a block-level list as a canonical text (pairs sorted) so that the model's
// sets and the implementation's sequences can be compared.
func blockKey(in []bool, balc, nonce, code [][]sk.Pair, wr [][][]sk.Pair, rd [][]bool) string {
	type acc struct {
		In               bool
		Bal, Nonce, Code []sk.Pair
		Wr               [][]sk.Pair
		Rd               []bool
	}
	out := make([]acc, len(in))
	for i := range in {
		out[i] = acc{In: in[i], Bal: sortPairs(balc[i]), Nonce: sortPairs(nonce[i]), Code: sortPairs(code[i]), Rd: rd[i]}
		for _, w := range wr[i] {
			out[i].Wr = append(out[i].Wr, sortPairs(w))
		}
	}
	b, _ := json.Marshal(out)
	return string(b)
}

func modelBlockKey(m []mblk, ns int) string {
	n := len(m)
	in, balc, nonce, code, wr, rd := make([]bool, n), make([][]sk.Pair, n), make([][]sk.Pair, n), make([][]sk.Pair, n), make([][][]sk.Pair, n), make([][]bool, n)
	for i, a := range m {
		in[i], balc[i], nonce[i], code[i], wr[i] = a.In, a.Bal, a.Nonce, a.Code, a.Wr
		rd[i] = make([]bool, ns)
		for _, k := range a.Rd {
			rd[i][k-1] = true
		}
	}
	return blockKey(in, balc, nonce, code, wr, rd)
}

func implBlockKey(m []sk.BlkAcc) string {
	n := len(m)
	in, balc, nonce, code, wr, rd := make([]bool, n), make([][]sk.Pair, n), make([][]sk.Pair, n), make([][]sk.Pair, n), make([][][]sk.Pair, n), make([][]bool, n)
	for i, a := range m {
		in[i], balc[i], nonce[i], code[i], wr[i], rd[i] = a.In, a.Bal, a.Nonce, a.Code, a.Wr, a.Rd
	}
	return blockKey(in, balc, nonce, code, wr, rd)
}

// endOfBlock checks the merged list of a finished block against the states the block went
// through: (1) the index-addressable Lookup view returns the per-transaction worlds, (1b) a
// state opened on the parent through the access-list overlay reader at index L reads the
// world before index L, and (2) applying the list to the parent state with StateDB.ApplyBlockAccessList (no execution)
// reproduces the post-state root of the executed block.
func endOfBlock(m *sk.Machine, block *bal.ConstructionBlockAccessList, baseRoot common.Hash, worlds []sk.World) []string {
	enc := block.ToEncodingObj()
	problems := m.U.CheckLookup(enc, worlds)
	problems = append(problems, m.U.CheckOverlay(m.Env, baseRoot, enc, worlds)...)
	parent, err := m.Env.Open(baseRoot)
	if err != nil {
		return append(problems, fmt.Sprintf("open parent state: %v", err))
	}
	if err := parent.ApplyBlockAccessList(enc); err != nil {
		return append(problems, fmt.Sprintf("ApplyBlockAccessList: %v", err))
	}
	got := parent.IntermediateRoot(m.R)
	want := m.U.RefRoot(worlds[len(worlds)-1])
	if got != want {
		problems = append(problems, fmt.Sprintf("applying the recorded block access list to the parent state gives root %x, the executed block ends in a world with root %x", got, want))
	}
	if exec := m.SDB.Copy().IntermediateRoot(m.R); exec != want {
		problems = append(problems, fmt.Sprintf("executed state has root %x, its projected world has root %x", exec, want))
	}
	return problems
}

// replay executes one behaviour of MCBAL on a fresh StateDB.
func replay(u *sk.Universe, steps []step, idx int, sum *tl.Summary) (string, int) {
	env := envFor(idx)
	defer env.Close()
	m, err := sk.NewMachine(u, env, "amsterdam", steps[0].St.World())
	if err != nil {
		return err.Error(), 0
	}
	block := bal.NewConstructionBlockAccessList()
	baseRoot, worlds := m.LastRoot, []sk.World{steps[0].St.World()}
	for i := 1; i < len(steps); i++ {
		act := steps[i].Act
		txIdx := uint32(m.Tx + 1)
		if err := m.Apply(act); err != nil {
			tl.Fatal("%v", err)
		}
		sum.Steps++
		sum.Count(act.Op)
		got, problems := m.Project(true)
		if len(problems) > 0 {
			return fmt.Sprintf("step %d %+v: inconsistent observables: %v", i, act, problems), i
		}
		if gk, wk := got.Key(), steps[i].St.Key(); gk != wk {
			return fmt.Sprintf("step %d %+v: observables differ from the model\n  implementation: %s\n  specification:  %s", i, act, gk, wk), i
		}
		if act.Op != "Finalise" {
			continue
		}
		// the per-transaction list
		var want []sk.BalAcc
		if err := json.Unmarshal(steps[i].Bal, &want); err != nil {
			tl.Fatal("bal of step %d: %v", i, err)
		}
		gotBal, problems := u.ProjectTxBAL(m.LastBAL, txIdx)
		if len(problems) > 0 {
			return fmt.Sprintf("step %d Finalise: access list has entries outside the model: %v", i, problems), i
		}
		gj, _ := json.Marshal(gotBal)
		wj, _ := json.Marshal(want)
		if string(gj) != string(wj) {
			return fmt.Sprintf("step %d Finalise (index %d): recorded list differs from the net change of the transaction\n  implementation: %s\n  specification:  %s", i, txIdx, gj, wj), i
		}
		sum.Count("bal-compared")
		// the block-level list
		block.Merge(m.LastBAL)
		var wantBlk []mblk
		if err := json.Unmarshal(steps[i].Blk, &wantBlk); err != nil {
			tl.Fatal("blk of step %d: %v", i, err)
		}
		gotBlk, problems := u.ProjectBlockBAL(block.ToEncodingObj())
		if len(problems) > 0 {
			return fmt.Sprintf("step %d: encoding object of the merged list is not canonical: %v", i, problems), i
		}
		if gk, wk := implBlockKey(gotBlk), modelBlockKey(wantBlk, u.NS); gk != wk {
			return fmt.Sprintf("step %d: merged block list differs\n  implementation: %s\n  specification:  %s", i, gk, wk), i
		}
		if p := sk.CheckEncoding(block, m.Tx); len(p) > 0 {
			return fmt.Sprintf("step %d: encoded form of the block list: %v", i, p), i
		}
		worlds = append(worlds, steps[i].St.World())
		if p := endOfBlock(m, block, baseRoot, worlds); len(p) > 0 {
			return fmt.Sprintf("step %d (block of %d transactions): %v", i, m.Tx, p), i
		}
	}
	return "", 0
}

func runMBT(in string, ripemd int, sum *tl.Summary) {
	var bs [][]step
	tl.ReadJSON(in, &bs)
	distinct := map[string]bool{}
	for i, b := range bs {
		if len(b) < 2 {
			continue
		}
		st := b[0].St
		u := &sk.Universe{NA: len(st.Acc), NS: len(st.Acc[0].St), Ripemd: ripemd}
		sum.Evaluations++
		if d, at := replay(u, b, i, sum); d != "" {
			sum.Violate(fmt.Sprintf("block access list diverges from BAL.tla (behaviour %d): %s", i, d),
				tl.M{"behaviour": b[:at+1], "universe": u, "env": i % 4})
		}
		key := st.Key()
		for _, s := range b[1:] {
			key += fmt.Sprintf("%s.%d.%d.%d.%d;", s.Act.Op, s.Act.A, s.Act.K, s.Act.V, s.Act.I)
		}
		if !distinct[key] {
			distinct[key] = true
			sum.Distinct++
		}
		if i%97 == 0 {
			var acts []sk.Act
			for _, s := range b {
				acts = append(acts, s.Act)
			}
			sum.Sample(tl.M{"behaviour": acts})
		}
	}
	sum.Traces = len(bs)
	sum.Rule = "behaviours sampled by TLC -simulate from MCBAL (Amsterdam rules) replayed on fresh StateDBs; observables after every step, the returned access list at every Finalise and the merged block list compared with the model; distinct = distinct (initial state, action sequence)"
}

func runRecord(path string, seed int64, ntraces, steps, na, ns, ripemd int, sum *tl.Summary) {
	r := tl.Rand(seed)
	tr := tl.NewTrace(path)
	defer tr.Close()
	u := &sk.Universe{NA: na, NS: ns, Ripemd: ripemd}
	shapes := map[string]bool{}
	emit := func(act sk.Act, st sk.Proj, ok bool, extra tl.M) {
		ev := tl.M{"op": act.Op, "a": act.A, "k": act.K, "v": act.V, "i": act.I, "st": st, "ok": ok}
		for k, v := range extra {
			ev[k] = v
		}
		tr.Emit(ev)
	}
	note := func(t, i int, act sk.Act, p []string) {
		if len(p) > 0 && len(sum.Notes) < 20 {
			sum.Notes = append(sum.Notes, fmt.Sprintf("trace %d step %d %+v: %v", t, i, act, p))
		}
	}
	for t := 0; t < ntraces; t++ {
		g := sk.DefaultGen()
		g.NoIRoot = true
		g.TxLen = 10 + r.Intn(12)
		w := u.RandomWorldX(r, g.MaxCode, false) // EIP-7523: no empty accounts in Amsterdam states
		env := envFor(t)
		m, err := sk.NewMachine(u, env, "amsterdam", w)
		if err != nil {
			sum.Violate("opening a committed base world: "+err.Error(), tl.M{"world": w})
			env.Close()
			continue
		}
		block := bal.NewConstructionBlockAccessList()
		baseRoot, worlds := m.LastRoot, []sk.World{w}
		p, problems := m.Project(true)
		emit(sk.Act{Op: "reset"}, p, len(problems) == 0, tl.M{"rules": "amsterdam", "world": w})
		shape := ""
		diverged := false
		for i := 0; i < steps; i++ {
			act := g.Next(r, m, &p)
			if i == steps-1 {
				if !m.InTx {
					break // the block ends between two transactions
				}
				act = sk.Act{Op: "Finalise"}
			}
			txIdx := uint32(m.Tx + 1)
			if err := m.Apply(act); err != nil {
				tl.Fatal("%v", err)
			}
			p, problems = m.Project(true)
			note(t, i, act, problems)
			ok := len(problems) == 0
			var extra tl.M
			if act.Op == "Finalise" {
				txBal, bp := u.ProjectTxBAL(m.LastBAL, txIdx)
				note(t, i, act, bp)
				ok = ok && len(bp) == 0
				extra = tl.M{"bal": txBal}
				if m.LastBAL != nil {
					block.Merge(m.LastBAL)
				}
				worlds = append(worlds, p.World())
				sum.Count("bal-recorded")
				if t == 0 {
					sum.Sample(tl.M{"tx": txIdx, "bal": txBal})
				}
			}
			emit(act, p, ok, extra)
			sum.Count(act.Op)
			shape += act.Op[:2]
			if !ok {
				diverged = true
				break // the trace is rejected at this event
			}
		}
		if diverged {
			env.Close()
			sum.Traces++
			continue
		}
		// end of block: the merged list in its encoding form
		enc := block.ToEncodingObj()
		blk, bp := u.ProjectBlockBAL(enc)
		ep := sk.CheckEncoding(block, m.Tx)
		ep = append(ep, endOfBlock(m, block, baseRoot, worlds)...)
		note(t, steps, sk.Act{Op: "EndBlock"}, append(bp, ep...))
		emit(sk.Act{Op: "EndBlock"}, p, len(bp) == 0 && len(ep) == 0, tl.M{"blk": blk})
		sum.Count("EndBlock")
		env.Close()
		sum.Traces++
		sum.Evaluations++
		if !shapes[shape] {
			shapes[shape] = true
			sum.Distinct++
		}
	}
	sum.Steps = tr.N
	sum.Rule = fmt.Sprintf("seeded random Amsterdam blocks on real StateDBs (%d addresses, %d slots, hash/path scheme with and without snapshot tree); distinct = distinct operation-name sequences", na, ns)
}

func main() {
	mode := flag.String("mode", "record", "mbt|record|cases")
	in := flag.String("in", "", "behaviours json (mode mbt)")
	trace := flag.String("trace", "trace.ndjson", "output trace (mode record)")
	out := flag.String("out", "summary.json", "summary output")
	n := flag.Int("n", 40, "number of traces (blocks)")
	steps := flag.Int("steps", 120, "steps per trace")
	na := flag.Int("na", 3, "addresses (record)")
	ns := flag.Int("ns", 2, "slots (record)")
	ripemd := flag.Int("ripemd", 0, "model address mapped to 0x03")
	flag.Parse()
	seed := int64(tl.EnvInt("VERIF_SEED", 1))
	sum := tl.NewSummary("c15", *mode, seed)
	switch *mode {
	case "mbt":
		runMBT(*in, *ripemd, sum)
		sum.Mode = "replay"
	case "record":
		runRecord(*trace, seed, *n, *steps, *na, *ns, *ripemd, sum)
	case "cases":
		runCases(*in, sum)
		sum.Mode = "replay"
	default:
		tl.Fatal("bad mode")
	}
	sum.Write(*out)
	if len(sum.Violations) > 0 {
		os.Exit(1)
	}
}
