package main

import (
	"bytes"
	"fmt"

	"github.com/ethereum/go-ethereum/common"
	"github.com/ethereum/go-ethereum/core/types/bal"
	"github.com/ethereum/go-ethereum/rlp"
	"github.com/holiman/uint256"
	sk "verif/harness/statekit"
	tl "verif/harness/tracelib"
)

// mirror of the EIP-7928 encoding types (the element types of bal.AccountAccess are not
// exported): the RLP layout is the specification's, lists of lists in field order.
type (
	mWrite struct {
		Idx uint32
		Val *uint256.Int
	}
	mSlot struct {
		Slot    *uint256.Int
		Changes []mWrite
	}
	mBal struct {
		Idx uint32
		Bal *uint256.Int
	}
	mNonce struct {
		Idx   uint32
		Nonce uint64
	}
	mCode struct {
		Idx  uint32
		Code []byte
	}
	mAcc struct {
		Address        common.Address
		StorageChanges []mSlot
		StorageReads   []*uint256.Int
		BalanceChanges []mBal
		NonceChanges   []mNonce
		CodeChanges    []mCode
	}
)

type balCase struct {
	In struct {
		Accs   []int `json:"accs"`
		Wslots []int `json:"wslots"`
		Widx   []int `json:"widx"`
		Reads  []int `json:"reads"`
		Bidx   []int `json:"bidx"`
		Nidx   []int `json:"nidx"`
		Cidx   []int `json:"cidx"`
	} `json:"in"`
	MaxIdx int  `json:"maxidx"`
	Valid  bool `json:"valid"`
}

// runCases executes the cases enumerated by MCBALCases.tla on BlockAccessList.Validate.
func runCases(in string, sum *tl.Summary) {
	var cases []balCase
	tl.ReadJSON(in, &cases)
	u := &sk.Universe{NA: 2, NS: 2}
	accepted := 0
	for i, c := range cases {
		var list []mAcc
		for _, a := range c.In.Accs {
			acc := mAcc{Address: u.Addr(a), StorageChanges: []mSlot{}, StorageReads: []*uint256.Int{}, BalanceChanges: []mBal{}, NonceChanges: []mNonce{}, CodeChanges: []mCode{}}
			for _, s := range c.In.Wslots {
				sl := mSlot{Slot: uint256.NewInt(uint64(s)), Changes: []mWrite{}}
				for _, x := range c.In.Widx {
					sl.Changes = append(sl.Changes, mWrite{uint32(x), uint256.NewInt(uint64(7 + x))})
				}
				acc.StorageChanges = append(acc.StorageChanges, sl)
			}
			for _, s := range c.In.Reads {
				acc.StorageReads = append(acc.StorageReads, uint256.NewInt(uint64(s)))
			}
			for _, x := range c.In.Bidx {
				acc.BalanceChanges = append(acc.BalanceChanges, mBal{uint32(x), uint256.NewInt(uint64(100 + x))})
			}
			for _, x := range c.In.Nidx {
				acc.NonceChanges = append(acc.NonceChanges, mNonce{uint32(x), uint64(x)})
			}
			for _, x := range c.In.Cidx {
				acc.CodeChanges = append(acc.CodeChanges, mCode{uint32(x), sk.Code(1 + x%2)})
			}
			list = append(list, acc)
		}
		if list == nil {
			list = []mAcc{}
		}
		blob, err := rlp.EncodeToBytes(list)
		if err != nil {
			tl.Fatal("encode case %d: %v", i, err)
		}
		var dec bal.BlockAccessList
		sum.Evaluations++
		sum.Steps++
		if err := rlp.DecodeBytes(blob, &dec); err != nil {
			sum.Violate(fmt.Sprintf("BlockAccessList.DecodeRLP rejects a structurally well-formed list (case %d): %v", i, err), tl.M{"case": c})
			continue
		}
		err = dec.Validate(1<<40, c.MaxIdx-1)
		if (err == nil) != c.Valid {
			sum.Violate(fmt.Sprintf("BlockAccessList.Validate accepts=%v (err %v), the ordering rule of BAL.tla says valid=%v", err == nil, err, c.Valid),
				tl.M{"case": c})
		}
		if err == nil {
			accepted++
			re, err2 := rlp.EncodeToBytes(&dec)
			if err2 != nil || !bytes.Equal(re, blob) {
				sum.Violate(fmt.Sprintf("accepted list does not re-encode to the bytes it was decoded from (case %d, err %v)", i, err2), tl.M{"case": c})
			}
			if dec.Hash() != (common.Hash{}) && len(dec) > 0 {
				if cp := dec.Copy(); cp.Hash() != dec.Hash() {
					sum.Violate(fmt.Sprintf("Copy of an accepted list hashes differently (case %d)", i), tl.M{"case": c})
				}
			}
		}
		if i%4001 == 0 {
			sum.Sample(c)
		}
	}
	sum.Distinct = len(cases)
	sum.Counts["accepted"] = accepted
	sum.Counts["rejected"] = len(cases) - accepted
	sum.Rule = "every abstract encoding list enumerated by MCBALCases.tla (sequences of length <= 2 per dimension, sorted / unsorted / duplicated) built as a real list and passed to Validate; distinct = cases"
}
