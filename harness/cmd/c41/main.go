// c41 drives a real core/txpool/legacypool.LegacyPool over a harness chain for property C41.
//
//	-mode replay -in behaviours.json -trace t.ndjson   execute TLC-generated behaviours (R)
//	-mode record -trace t.ndjson -n N -steps S         seeded random operation sequences (V)
//
// In both modes every operation is applied to the real pool and one ndjson event is
// written carrying the operation, the coarse error class and the full projection of the
// pool (Content/Stats/Nonce + the verif export); LegacyPoolTrace.tla decides whether each
// step is a step of LegacyPool.tla and evaluates the C41 invariants on every state.
package main

import (
	"crypto/ecdsa"
	"errors"
	"flag"
	"fmt"
	"math/big"
	"os"
	"sort"
	"sync"

	"github.com/ethereum/go-ethereum/common"
	"github.com/ethereum/go-ethereum/core"
	"github.com/ethereum/go-ethereum/core/state"
	"github.com/ethereum/go-ethereum/core/tracing"
	"github.com/ethereum/go-ethereum/core/txpool"
	"github.com/ethereum/go-ethereum/core/txpool/legacypool"
	"github.com/ethereum/go-ethereum/core/types"
	"github.com/ethereum/go-ethereum/crypto"
	"github.com/ethereum/go-ethereum/params"
	"github.com/ethereum/go-ethereum/trie"
	"github.com/holiman/uint256"
	tl "verif/harness/tracelib"
)

// ---------------------------------------------------------------- abstract values

type atx struct {
	From  string `json:"from"`
	Nonce int64  `json:"nonce"`
	Cap   int64  `json:"cap"`
	Tip   int64  `json:"tip"`
	Val   int64  `json:"val"`
	Gas   int64  `json:"gas"`
	Sl    int64  `json:"sl"`
}

type ablock struct {
	Parent int64            `json:"parent"`
	Num    int64            `json:"num"`
	Txs    []atx            `json:"txs"`
	Nonce  map[string]int64 `json:"nonce"`
	Bal    map[string]int64 `json:"bal"`
	Deleg  map[string]bool  `json:"deleg"`
	Bf     int64            `json:"bf"`
}

type acfg struct {
	Bump   int64 `json:"bump"`
	ASlots int64 `json:"aslots"`
	GSlots int64 `json:"gslots"`
	AQueue int64 `json:"aqueue"`
	GQueue int64 `json:"gqueue"`
}

type act struct {
	Op      string  `json:"op"`
	Tx      *atx    `json:"tx,omitempty"`
	ID      int64   `json:"id"`
	Block   *ablock `json:"block,omitempty"`
	Tip     int64   `json:"tip"`
	Cfg     *acfg   `json:"cfg,omitempty"`
	Genesis *ablock `json:"genesis,omitempty"`
}

type step struct {
	Act act    `json:"act"`
	Err string `json:"err"`
}

var acctNames = []string{"a1", "a2", "a3"}

type account struct {
	name string
	key  *ecdsa.PrivateKey
	addr common.Address
}

var (
	accts  = map[string]*account{}
	byAddr = map[common.Address]*account{}
	signer types.Signer
	config = params.MergedTestChainConfig
)

func initAccounts() {
	signer = types.LatestSigner(config)
	for i, n := range acctNames {
		// fixed keys: the same abstract transaction is always the same signed transaction
		key, err := crypto.ToECDSA(common.LeftPadBytes([]byte{0x41, byte(i + 1)}, 32))
		if err != nil {
			tl.Fatal("key: %v", err)
		}
		a := &account{name: n, key: key, addr: crypto.PubkeyToAddress(key.PublicKey)}
		accts[n], byAddr[a.addr] = a, a
	}
}

// realisation of abstract transactions (memoised: identical records give identical hashes)
var (
	txCache = map[atx]*types.Transaction{}
	absOf   = map[common.Hash]atx{}
	recip   = common.HexToAddress("0x00000000000000000000000000000000000c41c4")
)

func mkTx(a atx) *types.Transaction {
	if tx, ok := txCache[a]; ok {
		return tx
	}
	var data []byte
	if a.Sl > 1 {
		data = make([]byte, int(a.Sl-1)*32*1024+512) // zero bytes: cheap in intrinsic gas, sized into the next slot
	}
	var inner types.TxData
	if a.Cap == a.Tip {
		inner = &types.LegacyTx{Nonce: uint64(a.Nonce), To: &recip, Value: big.NewInt(a.Val), Gas: uint64(a.Gas), GasPrice: big.NewInt(a.Cap), Data: data}
	} else {
		inner = &types.DynamicFeeTx{ChainID: config.ChainID, Nonce: uint64(a.Nonce), To: &recip, Value: big.NewInt(a.Val), Gas: uint64(a.Gas),
			GasFeeCap: big.NewInt(a.Cap), GasTipCap: big.NewInt(a.Tip), Data: data}
	}
	tx, err := types.SignNewTx(accts[a.From].key, signer, inner)
	if err != nil {
		tl.Fatal("sign: %v", err)
	}
	if got := int64((tx.Size() + 32*1024 - 1) / (32 * 1024)); got != a.Sl {
		tl.Fatal("tx %+v occupies %d slots", a, got)
	}
	txCache[a], absOf[tx.Hash()] = tx, a
	return tx
}

// ---------------------------------------------------------------- harness chain

type hblock struct {
	id    int64
	abs   *ablock
	block *types.Block
}

type chain struct {
	mu     sync.Mutex
	byID   map[int64]*hblock
	byHash map[common.Hash]*hblock
	head   *hblock
}

const blockGasLimit = 30_000_000

func (c *chain) add(id int64, b *ablock) *hblock {
	h := &types.Header{
		Number:     big.NewInt(b.Num),
		Difficulty: new(big.Int),
		GasLimit:   blockGasLimit,
		GasUsed:    blockGasLimit / 2, // exactly on target: the next block's base fee equals this one's
		BaseFee:    big.NewInt(b.Bf),
		Time:       uint64(1000 + b.Num),
		Extra:      []byte(fmt.Sprintf("c41-%d", id)),
	}
	if p, ok := c.byID[b.Parent]; ok && id != b.Parent {
		h.ParentHash = p.block.Hash()
	}
	txs := make([]*types.Transaction, len(b.Txs))
	for i, a := range b.Txs {
		txs[i] = mkTx(a)
	}
	hb := &hblock{id: id, abs: b, block: types.NewBlock(h, &types.Body{Transactions: txs}, nil, trie.NewStackTrie(nil))}
	c.byID[id], c.byHash[hb.block.Hash()] = hb, hb
	return hb
}

func (c *chain) Config() *params.ChainConfig { return config }
func (c *chain) CurrentBlock() *types.Header {
	c.mu.Lock()
	defer c.mu.Unlock()
	return c.head.block.Header()
}
func (c *chain) Genesis() *types.Block { return c.byID[0].block }
func (c *chain) GetBlock(hash common.Hash, number uint64) *types.Block {
	c.mu.Lock()
	defer c.mu.Unlock()
	if b, ok := c.byHash[hash]; ok && b.block.NumberU64() == number {
		return b.block
	}
	return nil
}

var delegTarget = common.HexToAddress("0x000000000000000000000000000000000000de1e")

func (c *chain) StateAt(header *types.Header) (*state.StateDB, error) {
	c.mu.Lock()
	b, ok := c.byHash[header.Hash()]
	c.mu.Unlock()
	if !ok {
		return nil, errors.New("unknown block")
	}
	db, err := state.New(types.EmptyRootHash, state.NewDatabaseForTesting())
	if err != nil {
		return nil, err
	}
	for _, n := range acctNames {
		a := accts[n]
		db.SetNonce(a.addr, uint64(b.abs.Nonce[n]), tracing.NonceChangeUnspecified)
		db.SetBalance(a.addr, uint256.NewInt(uint64(b.abs.Bal[n])), tracing.BalanceChangeUnspecified)
		if b.abs.Deleg[n] {
			db.SetCode(a.addr, types.AddressToDelegation(delegTarget), tracing.CodeChangeUnspecified)
		}
	}
	return db, nil
}

// reserver records the reservation set and any protocol error (double hold / release)
type reserver struct {
	mu   sync.Mutex
	held map[common.Address]bool
	errs int
}

func (r *reserver) Hold(a common.Address) error {
	r.mu.Lock()
	defer r.mu.Unlock()
	if r.held[a] {
		r.errs++
	}
	r.held[a] = true
	return nil
}
func (r *reserver) Release(a common.Address) error {
	r.mu.Lock()
	defer r.mu.Unlock()
	if !r.held[a] {
		r.errs++
	}
	delete(r.held, a)
	return nil
}
func (r *reserver) Has(common.Address) bool { return false }

// ---------------------------------------------------------------- the system under test

type sut struct {
	pool  *legacypool.LegacyPool
	chain *chain
	res   *reserver
}

func newSUT(cfg *acfg, genesis *ablock, tip int64) *sut {
	c := &chain{byID: map[int64]*hblock{}, byHash: map[common.Hash]*hblock{}}
	c.head = c.add(0, genesis)
	pc := legacypool.Config{
		NoLocals: true, Journal: "", PriceLimit: 1, PriceBump: uint64(cfg.Bump),
		AccountSlots: uint64(cfg.ASlots), GlobalSlots: uint64(cfg.GSlots),
		AccountQueue: uint64(cfg.AQueue), GlobalQueue: uint64(cfg.GQueue),
		Lifetime: 1000 * 3600 * 1e9,
	}
	s := &sut{pool: legacypool.New(pc, c), chain: c, res: &reserver{held: map[common.Address]bool{}}}
	if err := s.pool.Init(uint64(tip), c.head.block.Header(), s.res); err != nil {
		tl.Fatal("pool init: %v", err)
	}
	return s
}

func (s *sut) close() { s.pool.Close() }

func errClass(err error) string {
	switch {
	case err == nil:
		return "ok"
	case errors.Is(err, txpool.ErrAlreadyKnown):
		return "known"
	case errors.Is(err, txpool.ErrTxGasPriceTooLow):
		return "tip_low"
	case errors.Is(err, core.ErrNonceTooLow):
		return "nonce_low"
	case errors.Is(err, core.ErrInsufficientFunds):
		return "funds"
	case errors.Is(err, legacypool.ErrOutOfOrderTxFromDelegated):
		return "delegated_gap"
	case errors.Is(err, txpool.ErrInflightTxLimitReached):
		return "inflight_limit"
	case errors.Is(err, txpool.ErrUnderpriced):
		return "underpriced"
	case errors.Is(err, legacypool.ErrTxPoolOverflow):
		return "overflow"
	case errors.Is(err, legacypool.ErrFutureReplacePending):
		return "future_replace_pending"
	case errors.Is(err, txpool.ErrReplaceUnderpriced):
		return "replace_underpriced"
	}
	return "other:" + err.Error()
}

// apply executes one operation on the real pool and returns the coarse result class.
func (s *sut) apply(a *act) string {
	switch a.Op {
	case "add":
		return errClass(s.pool.Add([]*types.Transaction{mkTx(*a.Tx)}, true)[0])
	case "reset":
		nb, ok := s.chain.byID[a.ID]
		if !ok {
			nb = s.chain.add(a.ID, a.Block)
		}
		old := s.chain.head
		s.chain.mu.Lock()
		s.chain.head = nb
		s.chain.mu.Unlock()
		s.pool.Reset(old.block.Header(), nb.block.Header())
		return "ok"
	case "settip":
		s.pool.SetGasTip(big.NewInt(a.Tip))
		return "ok"
	}
	tl.Fatal("unknown op %q", a.Op)
	return ""
}

// project computes the abstract pool state; tie reports equal heartbeats (order undefined).
func (s *sut) project() (m tl.M, tie bool) {
	pend, queue := s.pool.Content()
	np, nq := s.pool.Stats()
	vs := s.pool.VerifState()
	abs := func(h common.Hash) atx {
		a, ok := absOf[h]
		if !ok {
			tl.Fatal("pool holds a transaction the harness never made: %x", h)
		}
		return a
	}
	lists := func(c map[common.Address][]*types.Transaction) map[string][]atx {
		out := map[string][]atx{}
		for _, n := range acctNames {
			out[n] = []atx{}
		}
		for addr, txs := range c {
			a, ok := byAddr[addr]
			if !ok {
				tl.Fatal("unknown account in pool content")
			}
			for _, tx := range txs {
				out[a.name] = append(out[a.name], abs(tx.Hash()))
			}
		}
		return out
	}
	hashes := func(hs []common.Hash) []atx {
		out := make([]atx, 0, len(hs))
		for _, h := range hs {
			out = append(out, abs(h))
		}
		sort.Slice(out, func(i, j int) bool { return fmt.Sprint(out[i]) < fmt.Sprint(out[j]) })
		return out
	}
	costs := func(c map[common.Address]*big.Int) map[string]int64 {
		out := map[string]int64{}
		for _, n := range acctNames {
			out[n] = 0
			if v, ok := c[accts[n].addr]; ok {
				out[n] = v.Int64()
			}
		}
		return out
	}
	// index sizes of the per-account nonce heaps must agree with the item maps
	idx := func(c map[common.Address][]uint64) map[string]int {
		out := map[string]int{}
		for _, n := range acctNames {
			out[n] = len(c[accts[n].addr])
		}
		return out
	}
	pn := map[string]uint64{}
	for _, n := range acctNames {
		pn[n] = s.pool.Nonce(accts[n].addr)
	}
	type beat struct {
		n string
		t int64
	}
	var bs []beat
	for addr, t := range vs.Beats {
		bs = append(bs, beat{byAddr[addr].name, t.UnixNano()})
	}
	sort.Slice(bs, func(i, j int) bool { return bs[i].t < bs[j].t })
	beats := []string{}
	for i, b := range bs {
		if i > 0 && bs[i-1].t == b.t {
			tie = true
		}
		beats = append(beats, b.n)
	}
	reserved := []string{}
	s.res.mu.Lock()
	for _, n := range acctNames {
		if s.res.held[accts[n].addr] {
			reserved = append(reserved, n)
		}
	}
	rerr := s.res.errs
	s.res.mu.Unlock()
	bf := int64(-1)
	if vs.UrgentBaseFee != nil {
		bf = vs.UrgentBaseFee.Int64()
	}
	// the public pending view (block building) must show exactly the pending lists
	lazy, cnt := s.pool.Pending(txpool.PendingFilter{})
	pview := map[string][]atx{}
	for _, n := range acctNames {
		pview[n] = []atx{}
	}
	for addr, ls := range lazy {
		for _, l := range ls {
			pview[byAddr[addr].name] = append(pview[byAddr[addr].name], abs(l.Hash))
		}
	}
	return tl.M{
		"pend": lists(pend), "queue": lists(queue), "all": hashes(vs.All), "urg": hashes(vs.Urgent), "flo": hashes(vs.Floating),
		"stales": vs.Stales, "pn": pn, "beats": beats, "bf": bf, "changes": vs.ChangesSinceRe,
		"ptotal": costs(vs.PendingCost), "qtotal": costs(vs.QueuedCost), "pidx": idx(vs.PendingNonces), "qidx": idx(vs.QueuedNonces),
		"slots": vs.Slots, "npend": np, "nqueue": nq, "reserved": reserved, "rerr": rerr, "pview": pview, "pcount": cnt,
	}, tie
}

var seenStates = map[string]bool{}
var lastStrict = true // strict gapless property on the final state of the last behaviour run

// norm fills in the accounts a TLC behaviour does not mention (models with fewer accounts).
func norm(b *ablock) *ablock {
	if b == nil {
		return nil
	}
	if b.Nonce == nil {
		b.Nonce = map[string]int64{}
	}
	if b.Bal == nil {
		b.Bal = map[string]int64{}
	}
	if b.Deleg == nil {
		b.Deleg = map[string]bool{}
	}
	if b.Txs == nil {
		b.Txs = []atx{}
	}
	for _, n := range acctNames {
		b.Nonce[n], b.Bal[n], b.Deleg[n] = b.Nonce[n], b.Bal[n], b.Deleg[n]
	}
	return b
}

// strictGapless evaluates the property as stated on a projection: every pending list is a
// gapless nonce run starting at the account's state nonce.
func strictGapless(st tl.M, nonce map[string]int64) bool {
	for n, txs := range st["pend"].(map[string][]atx) {
		for i, t := range txs {
			if t.Nonce != nonce[n]+int64(i) {
				return false
			}
		}
	}
	return true
}

// occurrences of open known findings (reported to the check in Summary.Extra["pending"])
type pendingFinding struct {
	Count  int `json:"count"`
	Sample any `json:"sample"`
}

var pending = map[string]*pendingFinding{}

func notePending(id string, sample any) {
	if pending[id] == nil {
		pending[id] = &pendingFinding{Sample: sample}
	}
	pending[id].Count++
}

// feedback for the interactive generator: the last projection and result
var (
	lastPend  = map[string][]atx{}
	lastQueue = map[string][]atx{}
	lastCls   string
	// the projection before the last operation
	prevPend, prevQueue = map[string][]atx{}, map[string][]atx{}
)

// run executes one behaviour on a fresh pool and writes its events; next yields the i-th operation
// (nil ends the behaviour) and may consult the feedback variables above.
func run(tr *tl.Trace, in act, next func(i int) *act, sum *tl.Summary) int {
	if in.Op != "init" {
		tl.Fatal("behaviour does not start with init")
	}
	norm(in.Genesis)
	s := newSUT(in.Cfg, in.Genesis, in.Tip)
	defer s.close()
	st, _ := s.project()
	lastPend, lastQueue, lastCls = st["pend"].(map[string][]atx), st["queue"].(map[string][]atx), "ok"
	tr.Emit(tl.M{"op": "init", "cfg": in.Cfg, "genesis": in.Genesis, "tip": in.Tip, "err": "ok", "state": st})
	n := 0
	for a := next(n); a != nil; a = next(n) {
		norm(a.Block)
		cls := s.apply(a)
		if len(cls) > 6 && cls[:6] == "other:" {
			tl.Fatal("harness produced a transaction outside the modelled error classes: %+v: %s", a.Tx, cls)
		}
		st, tie := s.project()
		if tie {
			sum.Notes = append(sum.Notes, "equal heartbeats observed; rest of the behaviour skipped")
			break
		}
		lastPend, lastQueue, lastCls = st["pend"].(map[string][]atx), st["queue"].(map[string][]atx), cls
		lastStrict = strictGapless(st, s.chain.head.abs.Nonce)
		if !lastStrict && a.Op == "reset" {
			// fingerprint of the open finding C41-gap-after-reorg: a Reset leaves a pending list with a nonce
			// gap (the specification excuses exactly these accounts; a gap made by any other operation
			// violates PendingGapless in the trace validation)
			notePending("C41-gap-after-reorg", tl.M{"op": a, "pend": st["pend"], "state_nonce": s.chain.head.abs.Nonce})
		}
		seenStates[fmt.Sprint(st["pend"], st["queue"], st["urg"], st["flo"], st["stales"])] = true
		ev := tl.M{"op": a.Op, "err": cls, "state": st, "id": a.ID, "tip": a.Tip}
		if a.Tx != nil {
			ev["tx"] = a.Tx
		} else {
			ev["tx"] = 0
		}
		if a.Op == "reset" {
			ev["block"] = s.chain.byID[a.ID].abs
		} else {
			ev["block"] = 0
		}
		tr.Emit(ev)
		sum.Count(a.Op + ":" + cls)
		n++
	}
	return n
}

// ---------------------------------------------------------------- modes

func runReplay(in, trace string, sum *tl.Summary) {
	var behaviours [][]step
	tl.ReadJSON(in, &behaviours)
	tr := tl.NewTrace(trace)
	defer tr.Close()
	seen := map[string]bool{}
	for i, b := range behaviours {
		b := b
		n := run(tr, b[0].Act, func(i int) *act {
			if 1+i >= len(b) {
				return nil
			}
			return &b[1+i].Act
		}, sum)
		sum.Traces++
		sum.Evaluations++
		sum.Steps += n
		key := fmt.Sprint(b)
		if !seen[key] {
			seen[key] = true
			sum.Distinct++
		}
		if i < 2 && len(b) > 1 {
			sum.Sample(b[len(b)-1])
		}
	}
	sum.Rule = "every behaviour printed by TLC (simulation of MCLegacyPool) is executed operation by operation on a fresh legacypool.LegacyPool; distinct = distinct behaviours"
}

// runWitness replays the model's witnesses of the known finding C41-gap-after-reorg and
// reports on how many of them the real pool ends in a state violating the strict property.
func runWitness(in, trace string, sum *tl.Summary) {
	var behaviours [][]step
	tl.ReadJSON(in, &behaviours)
	tr := tl.NewTrace(trace)
	defer tr.Close()
	reproduced := 0
	for _, b := range behaviours {
		b := b
		n := run(tr, b[0].Act, func(i int) *act {
			if 1+i >= len(b) {
				return nil
			}
			return &b[1+i].Act
		}, sum)
		sum.Traces++
		sum.Evaluations++
		sum.Steps += n
		if !lastStrict {
			reproduced++
		}
	}
	sum.Extra["witnesses"] = len(behaviours)
	sum.Extra["reproduced_on_real_pool"] = reproduced
	sum.Distinct = reproduced
	sum.Rule = "model witnesses of a gapped pending list after Reset replayed on the real pool; distinct = witnesses whose final real state violates the strict property"
}

var feeMenu = [][2]int64{{20, 20}, {21, 21}, {22, 22}, {22, 2}, {25, 5}, {30, 30}, {19, 19}, {2, 2}, {24, 24}, {40, 1}}

func runRecord(trace string, seed int64, ntraces, nsteps int, sum *tl.Summary) {
	r := tl.Rand(seed)
	tr := tl.NewTrace(trace)
	defer tr.Close()
	for t := 0; t < ntraces; t++ {
		cfg := &acfg{Bump: []int64{10, 10, 25}[r.Intn(3)], ASlots: int64(1 + r.Intn(3)), GSlots: int64(2 + r.Intn(4)),
			AQueue: int64(1 + r.Intn(3)), GQueue: int64(1 + r.Intn(4))}
		if r.Intn(5) == 0 { // roomy pool: long lists, heap balancing
			cfg = &acfg{Bump: 10, ASlots: 4, GSlots: 8, AQueue: 4, GQueue: 4}
		}
		bals := []int64{0, 420000, 462000, 900000, 3000000, 20000000, 441000} // some equal to the cost of a plain transfer at fee 20/22/21
		gen := &ablock{Parent: 0, Num: 0, Txs: []atx{}, Nonce: map[string]int64{}, Bal: map[string]int64{}, Deleg: map[string]bool{}, Bf: int64(r.Intn(3)) * 7}
		for _, n := range acctNames {
			gen.Nonce[n] = int64(r.Intn(2)) * int64(r.Intn(3))
			gen.Bal[n] = bals[1+r.Intn(len(bals)-1)]
			gen.Deleg[n] = r.Intn(8) == 0
		}
		initAct := act{Op: "init", Cfg: cfg, Genesis: gen, Tip: 1}
		var (
			sample  []act
			lastAdd *atx // the transaction of the previous operation if that was an Add
		)
		// the generator tracks only what it needs to make interesting choices: the block tree
		blocks := map[int64]*ablock{0: gen}
		head := int64(0)
		known := map[string][]atx{} // "acct/nonce" -> transactions ever made
		remember := func(a atx) {
			k := fmt.Sprintf("%s/%d", a.From, a.Nonce)
			for _, x := range known[k] {
				if x == a {
					return
				}
			}
			known[k] = append(known[k], a)
		}
		fresh := func(from string, nonce int64) atx {
			f := feeMenu[r.Intn(len(feeMenu))]
			a := atx{From: from, Nonce: nonce, Cap: f[0], Tip: f[1], Val: []int64{0, 0, 1000, 400000}[r.Intn(4)], Gas: 21000, Sl: 1}
			if r.Intn(25) == 0 {
				a.Gas, a.Sl, a.Val = 400000, 2, 0
			}
			return a
		}
		occupied := func(t *atx) *atx { // the pooled transaction that sat at t's position before t was added
			for _, l := range [][]atx{prevPend[t.From], prevQueue[t.From]} {
				for i := range l {
					if l[i].Nonce == t.Nonce && l[i] != *t {
						return &l[i]
					}
				}
			}
			return nil
		}
		gen1 := func(i int) *act {
			if i >= nsteps {
				return nil
			}
			var a act
			defer func() { prevPend, prevQueue = lastPend, lastQueue }()
			// "squeeze": right after a replacement by a costlier transaction, a new head leaves the sender a
			// balance between the replaced and the replacing cost (the cached cost cap of the list must have
			// been raised by the replacement for the now unaffordable transaction to be dropped)
			if lastAdd != nil && lastCls == "ok" && r.Intn(3) != 0 {
				if o := occupied(lastAdd); o != nil {
					oc, nc := o.Gas*o.Cap+o.Val, lastAdd.Gas*lastAdd.Cap+lastAdd.Val
					if nc > oc {
						pb := blocks[head]
						nb := &ablock{Parent: head, Num: pb.Num + 1, Txs: []atx{}, Nonce: map[string]int64{}, Bal: map[string]int64{}, Deleg: map[string]bool{}, Bf: pb.Bf}
						for _, n := range acctNames {
							nb.Nonce[n], nb.Bal[n], nb.Deleg[n] = pb.Nonce[n], pb.Bal[n], pb.Deleg[n]
						}
						nb.Bal[lastAdd.From] = oc + r.Int63n(nc-oc) // in [old cost, new cost)
						id := int64(len(blocks))
						blocks[id], head, lastAdd = nb, id, nil
						a = act{Op: "reset", ID: id, Block: nb}
						return &a
					}
				}
			}
			lastAdd = nil
			switch c := r.Intn(100); {
			case c < 72:
				from := acctNames[r.Intn(len(acctNames))]
				base := blocks[head].Nonce[from]
				nonce := base + int64(r.Intn(5))
				if r.Intn(12) == 0 && base > 0 {
					nonce = base - 1
				}
				tx := fresh(from, nonce)
				if k := known[fmt.Sprintf("%s/%d", from, nonce)]; len(k) > 0 && r.Intn(4) == 0 {
					tx = k[r.Intn(len(k))] // resubmission of something seen before
				} else if len(k) > 0 && r.Intn(2) == 0 {
					// replacement attempt right at the price-bump boundary of something seen before
					o := k[r.Intn(len(k))]
					tx = o
					tx.Cap = o.Cap*(100+cfg.Bump)/100 + int64(r.Intn(3)) - 1
					tx.Tip = o.Tip*(100+cfg.Bump)/100 + int64(r.Intn(3)) - 1
					if r.Intn(3) == 0 {
						tx.Tip = o.Tip + int64(r.Intn(2))
					}
					if tx.Cap < 1 {
						tx.Cap = 1
					}
					if tx.Tip < 1 {
						tx.Tip = 1
					}
					if tx.Tip > tx.Cap {
						tx.Tip = tx.Cap
					}
				}
				remember(tx)
				a = act{Op: "add", Tx: &tx}
				lastAdd = &tx
			case c < 92:
				if len(blocks) > 1 && r.Intn(8) == 0 { // jump to an existing block
					ids := []int64{}
					for id := range blocks {
						if id != head {
							ids = append(ids, id)
						}
					}
					sort.Slice(ids, func(i, j int) bool { return ids[i] < ids[j] })
					id := ids[r.Intn(len(ids))]
					a = act{Op: "reset", ID: id, Block: blocks[id]}
					head = id
					break
				}
				parent := head
				for d := r.Intn(8) - 4; d > 0 && parent != blocks[parent].Parent; d-- { // reorgs of depth 1..3
					parent = blocks[parent].Parent
				}
				pb := blocks[parent]
				nb := &ablock{Parent: parent, Num: pb.Num + 1, Txs: []atx{}, Nonce: map[string]int64{}, Bal: map[string]int64{}, Deleg: map[string]bool{}, Bf: pb.Bf}
				if r.Intn(6) == 0 {
					nb.Bf = int64(r.Intn(4)) * 7
				}
				for _, n := range acctNames {
					nonce, bal := pb.Nonce[n], pb.Bal[n]
					for k := r.Intn(4) - 1; k > 0; k-- {
						var tx atx
						if c := known[fmt.Sprintf("%s/%d", n, nonce)]; len(c) > 0 && r.Intn(6) != 0 {
							tx = c[r.Intn(len(c))]
						} else {
							tx = fresh(n, nonce)
							remember(tx)
						}
						nb.Txs = append(nb.Txs, tx)
						nonce++
						if bal -= tx.Gas*tx.Cap + tx.Val; bal < 0 {
							bal = 0
						}
					}
					if r.Intn(7) == 0 {
						bal = bals[r.Intn(len(bals))]
					}
					nb.Nonce[n], nb.Bal[n], nb.Deleg[n] = nonce, bal, pb.Deleg[n]
					if r.Intn(15) == 0 {
						nb.Deleg[n] = !nb.Deleg[n]
					}
				}
				id := int64(len(blocks))
				blocks[id] = nb
				head = id
				a = act{Op: "reset", ID: id, Block: nb}
			default:
				a = act{Op: "settip", Tip: []int64{1, 3, 21, 25, 2}[r.Intn(5)]}
			}
			if i == 0 || i == nsteps-1 {
				sample = append(sample, a)
			}
			return &a
		}
		n := run(tr, initAct, gen1, sum)
		sum.Traces++
		sum.Evaluations++
		sum.Steps += n
		if t == 0 {
			for _, a := range sample {
				sum.Sample(a)
			}
		}
	}
	// distinct non-trivial cases: distinct projected pool states seen
	sum.Distinct = len(seenStates)
	sum.Rule = "seeded random Add/Reset/SetGasTip sequences over 3 accounts with tiny random limits, forks up to depth 3, balance/nonce/delegation changes; distinct = distinct projected pool states"
}

func main() {
	mode := flag.String("mode", "record", "replay|witness|record")
	in := flag.String("in", "", "behaviours json (mode replay)")
	trace := flag.String("trace", "trace.ndjson", "output trace")
	out := flag.String("out", "summary.json", "summary output")
	n := flag.Int("n", 20, "number of traces (mode record)")
	steps := flag.Int("steps", 60, "operations per trace (mode record)")
	flag.Parse()
	seed := int64(tl.EnvInt("VERIF_SEED", 1))
	sum := tl.NewSummary("c41", *mode, seed)
	initAccounts()
	switch *mode {
	case "replay":
		runReplay(*in, *trace, sum)
	case "witness":
		runWitness(*in, *trace, sum)
	case "record":
		runRecord(*trace, seed, *n, *steps, sum)
	default:
		tl.Fatal("bad mode")
	}
	sum.Extra["pending"] = pending
	sum.Write(*out)
	if len(sum.Violations) > 0 {
		os.Exit(1)
	}
}
