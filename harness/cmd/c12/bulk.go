package main

// Bulk run for C12: one contract with tens of thousands of storage slots synced through
// state.NewStateSync with honest batched delivery.  At this size the per-depth in-flight
// throttle of trie.Sync (maxFetchesPerDepth) comes into play: Missing stops handing out requests
// of a depth that has too many uncompleted ones, and resumes when they complete.  The run is
// summarised as one event per round (BulkSyncTrace.tla); the termination clause is decided here:
// when Missing returns nothing, nothing may be pending and the database must hold the target.

import (
	"bytes"
	"fmt"
	"sort"

	"github.com/ethereum/go-ethereum/common"
	"github.com/ethereum/go-ethereum/core/rawdb"
	"github.com/ethereum/go-ethereum/core/state"
	"github.com/ethereum/go-ethereum/core/types"
	"github.com/ethereum/go-ethereum/crypto"
	"github.com/ethereum/go-ethereum/rlp"
	"github.com/ethereum/go-ethereum/trie"
	"github.com/ethereum/go-ethereum/trie/trienode"
	"github.com/holiman/uint256"
	tl "verif/harness/tracelib"
)

type bulkSource struct {
	root   common.Hash
	nodes  map[string][]byte // composite path -> blob
	hashes map[string]common.Hash
	codes  map[common.Hash][]byte
	slots  map[common.Hash][]byte
	big    common.Hash
	accts  map[common.Hash]uint64
}

func buildBulk(seed int64, nslots int) *bulkSource {
	r := tl.Rand(seed)
	src := &bulkSource{nodes: map[string][]byte{}, hashes: map[string]common.Hash{}, codes: map[common.Hash][]byte{}, slots: map[common.Hash][]byte{}, accts: map[common.Hash]uint64{}}
	store := &mapStore{nodes: map[common.Hash][]byte{}}
	collect := func(prefix []byte, set *trienode.NodeSet) {
		for p, n := range set.Nodes {
			if len(n.Blob) > 0 {
				src.nodes[string(prefix)+p] = n.Blob
				src.hashes[string(prefix)+p] = n.Hash
			}
		}
	}
	var h common.Hash
	r.Read(h[:])
	src.big = h
	st, _ := trie.New(trie.StorageTrieID(types.EmptyRootHash, src.big, types.EmptyRootHash), store)
	for i := 0; i < nslots; i++ {
		var k common.Hash
		r.Read(k[:])
		v := []byte{byte(1 + r.Intn(200)), byte(r.Intn(256))}
		src.slots[k] = v
		st.MustUpdate(k[:], v)
	}
	sroot, set := st.Commit(false)
	collect(hexOf(src.big[:]), set)
	code := bytes.Repeat([]byte{0x60, 0x03}, 30)
	src.codes[crypto.Keccak256Hash(code)] = code
	at, _ := trie.New(trie.StateTrieID(types.EmptyRootHash), store)
	put := func(k common.Hash, bal uint64, root common.Hash, ch []byte) {
		enc, _ := rlp.EncodeToBytes(&types.StateAccount{Nonce: 1, Balance: uint256.NewInt(bal), Root: root, CodeHash: ch})
		at.MustUpdate(k[:], enc)
		src.accts[k] = bal
	}
	put(src.big, 7, sroot, crypto.Keccak256(code))
	for i := 0; i < 40; i++ {
		var k common.Hash
		r.Read(k[:])
		put(k, uint64(100+i), types.EmptyRootHash, types.EmptyCodeHash[:])
	}
	root, aset := at.Commit(false)
	collect(nil, aset)
	src.root = root
	return src
}

func runBulk(scheme, tracePath string, seed int64, nslots int, sum *tl.Summary) {
	src := buildBulk(seed, nslots)
	r := tl.Rand(seed + 99)
	tr := tl.NewTrace(tracePath)
	defer tr.Close()
	db := rawdb.NewMemoryDatabase()
	sched := state.NewStateSync(src.root, db, nil, scheme)
	target := len(src.nodes) + len(src.codes)
	tr.Emit(tl.M{"op": "start", "scheme": scheme, "target": target, "pending": sched.Pending()})
	askedNodes := map[string]bool{}
	askedCodes := map[common.Hash]bool{}
	totalAsked, totalDelivered, rounds := 0, 0, 0
	inflight := map[int]int{} // handed out and not yet delivered, by depth (a lower bound of the scheduler's own count)
	for {
		max := []int{128, 512, 2048, 8192, 0}[r.Intn(5)]
		paths, hashes, codes := sched.Missing(max)
		n := len(paths) + len(codes)
		if n == 0 {
			break
		}
		if max != 0 && n > max {
			sum.Violate(fmt.Sprintf("Missing(%d) returned %d requests", max, n), tl.M{"scheme": scheme})
			return
		}
		byDepth := map[int]int{}
		for i, p := range paths {
			if askedNodes[p] || src.hashes[p] != hashes[i] {
				sum.Violate(fmt.Sprintf("bulk sync requested path %x (hash %x) twice or outside the target", p, hashes[i]), tl.M{"scheme": scheme})
				return
			}
			askedNodes[p] = true
			byDepth[len(p)]++
		}
		for _, c := range codes {
			if askedCodes[c] || src.codes[c] == nil {
				sum.Violate(fmt.Sprintf("bulk sync requested code %x twice or outside the target", c), tl.M{"scheme": scheme})
				return
			}
			askedCodes[c] = true
			byDepth[64]++
		}
		maxInflight := 0
		for d, k := range byDepth {
			inflight[d] += k
			if inflight[d] > maxInflight {
				maxInflight = inflight[d]
			}
		}
		// honest delivery of the whole batch in a random order
		order := r.Perm(len(paths))
		for _, i := range order {
			if err := sched.ProcessNode(trie.NodeSyncResult{Path: paths[i], Data: src.nodes[paths[i]]}); err != nil {
				sum.Violate("ProcessNode rejected a requested node: "+err.Error(), tl.M{"scheme": scheme})
				return
			}
			inflight[len(paths[i])]--
		}
		for _, c := range codes {
			if err := sched.ProcessCode(trie.CodeSyncResult{Hash: c, Data: src.codes[c]}); err != nil {
				sum.Violate("ProcessCode rejected a requested code: "+err.Error(), tl.M{"scheme": scheme})
				return
			}
			inflight[64]--
		}
		committed := false
		if r.Intn(3) == 0 {
			batch := db.NewBatch()
			if err := sched.Commit(batch); err != nil {
				sum.Violate("Commit failed: "+err.Error(), tl.M{"scheme": scheme})
				return
			}
			batch.Write()
			committed = true
		}
		totalAsked += n
		totalDelivered += n
		rounds++
		tr.Emit(tl.M{"op": "round", "max": max, "asked": n, "delivered": n, "undelivered_peak": maxInflight, "pending": sched.Pending(), "committed": committed})
		sum.Steps += n
	}
	batch := db.NewBatch()
	if err := sched.Commit(batch); err != nil {
		sum.Violate("Commit failed: "+err.Error(), tl.M{"scheme": scheme})
		return
	}
	batch.Write()
	pending := sched.Pending()
	// the database against the source
	stored, foreign := 0, ""
	it := db.NewIterator(nil, nil)
	for it.Next() {
		k, v := it.Key(), it.Value()
		if ok, _ := rawdb.IsCodeKey(k); ok {
			if src.codes[crypto.Keccak256Hash(v)] == nil {
				foreign = "a code that the target does not reference"
			}
			stored++
			continue
		}
		if scheme == rawdb.HashScheme {
			if len(k) == common.HashLength {
				stored++
				if crypto.Keccak256Hash(v) != common.BytesToHash(k) {
					foreign = "a blob under another hash"
				}
			}
			continue
		}
		var full string
		if ok, p := rawdb.ResolveAccountTrieNodeKey(k); ok {
			full = string(p)
		} else if ok, owner, p := rawdb.ResolveStorageTrieNode(k); ok {
			full = string(hexOf(owner[:])) + string(p)
		} else {
			continue
		}
		stored++
		if !bytes.Equal(src.nodes[full], v) {
			foreign = fmt.Sprintf("a node at path %x that is not the target's", full)
		}
	}
	it.Release()
	complete := ""
	if pending == 0 {
		complete = bulkReadBack(src, rawNodeDB{db, scheme})
	}
	distinctHashes := map[common.Hash]bool{}
	for _, h := range src.hashes {
		distinctHashes[h] = true
	}
	want := target
	if scheme == rawdb.HashScheme {
		want = len(distinctHashes) + len(src.codes)
	}
	tr.Emit(tl.M{"op": "final", "asked": totalAsked, "delivered": totalDelivered, "pending": pending,
		"complete": pending == 0 && complete == "", "foreign": foreign != "", "stored": stored, "want": want, "target": target})
	sum.Evaluations, sum.Traces, sum.Distinct = 1, 1, 1
	sum.Extra["target_items"], sum.Extra["rounds"], sum.Extra["slots"] = target, rounds, nslots
	sum.Sample(tl.M{"scheme": scheme, "slots": nslots, "target_items": target, "asked": totalAsked, "rounds": rounds, "pending_at_end": pending})
	switch {
	case pending > 0:
		sum.Violate(fmt.Sprintf("bulk sync (%s scheme, %d slots): Missing returns nothing although %d of %d requests are still pending (%d handed out, all answered): the sync never completes",
			scheme, nslots, pending, target, totalAsked), tl.M{"scheme": scheme, "slots": nslots, "seed": seed})
	case complete != "":
		sum.Violate("bulk sync finished with nothing pending, but "+complete, tl.M{"scheme": scheme, "slots": nslots, "seed": seed})
	case foreign != "":
		sum.Violate("bulk sync wrote "+foreign, tl.M{"scheme": scheme, "slots": nslots, "seed": seed})
	}
	sum.Rule = "one contract with tens of thousands of slots synced through state.NewStateSync with honest batched delivery until Missing returns nothing; one summary event per round"
}

func bulkReadBack(src *bulkSource, ndb rawNodeDB) string {
	at, err := trie.New(trie.StateTrieID(src.root), ndb)
	if err != nil {
		return "the synced state does not open: " + err.Error()
	}
	it, _ := at.NodeIterator(nil)
	seen := 0
	for it.Next(true) {
		if !it.Leaf() {
			continue
		}
		k := common.BytesToHash(it.LeafKey())
		if _, ok := src.accts[k]; !ok {
			return "an account the source has not"
		}
		seen++
		var a types.StateAccount
		if err := rlp.DecodeBytes(it.LeafBlob(), &a); err != nil {
			return "undecodable account"
		}
		if k != src.big {
			continue
		}
		if rawdb.ReadCodeWithPrefix(ndb.db, common.BytesToHash(a.CodeHash)) == nil {
			return "the contract's code is missing"
		}
		st, err := trie.New(trie.StorageTrieID(src.root, k, a.Root), ndb)
		if err != nil {
			return "the contract's storage trie does not open: " + err.Error()
		}
		sit, _ := st.NodeIterator(nil)
		n := 0
		for sit.Next(true) {
			if sit.Leaf() {
				n++
				if !bytes.Equal(src.slots[common.BytesToHash(sit.LeafKey())], sit.LeafBlob()) {
					return "a storage slot differs from the source"
				}
			}
		}
		if sit.Error() != nil {
			return "the contract's storage trie is incomplete: " + sit.Error().Error()
		}
		if n != len(src.slots) {
			return fmt.Sprintf("%d of %d slots synced", n, len(src.slots))
		}
	}
	if it.Error() != nil {
		return "the account trie is incomplete: " + it.Error().Error()
	}
	if seen != len(src.accts) {
		return fmt.Sprintf("%d of %d accounts synced", seen, len(src.accts))
	}
	return ""
}

var _ = sort.Ints
