package main

// Healing through the real snap/1 syncer: the part of C12 that says a delivered node whose hash
// does not match its request is rejected and never written.  trie.Sync itself trusts its caller;
// the hash cross-reference lives in eth/protocols/snap (OnTrieNodes / onHealByteCodes).  The
// driver marks the snap phase as finished (empty task list in the sync status), so that
// snap.NewV1Syncer goes straight to healing with state.NewStateSync as its scheduler, and plays
// the remote peer: it answers RequestTrieNodes / RequestByteCodes honestly, with gaps, with a
// corrupted blob, out of order, or with an extra blob, and records for every response what was
// requested, what was delivered and whether the syncer accepted it (HealTrace.tla).

import (
	"bytes"
	"fmt"
	"math/rand"
	"sort"
	"sync"
	"time"

	"github.com/ethereum/go-ethereum/common"
	"github.com/ethereum/go-ethereum/core/rawdb"
	"github.com/ethereum/go-ethereum/core/types"
	"github.com/ethereum/go-ethereum/crypto"
	"github.com/ethereum/go-ethereum/eth/protocols/snap"
	"github.com/ethereum/go-ethereum/ethdb"
	"github.com/ethereum/go-ethereum/log"
	tl "verif/harness/tracelib"
)

type healPeer struct {
	id     string
	w      *world
	syncer snap.Syncer
	mu     sync.Mutex
	r      *rand.Rand
	events []tl.M
	notes  map[string]int
	bad    string
	last   time.Time // when the syncer last asked for something
}

func (p *healPeer) ID() string      { return p.id }
func (p *healPeer) Log() log.Logger { return log.New("peer", p.id) }
func (p *healPeer) RequestAccountRange(id uint64, root, origin, limit common.Hash, bytes int) error {
	p.fail("syncer asked for an account range although the snap phase is complete")
	return nil
}
func (p *healPeer) RequestStorageRanges(id uint64, root common.Hash, accounts []common.Hash, origin, limit []byte, bytes int) error {
	p.fail("syncer asked for storage ranges although the snap phase is complete")
	return nil
}
func (p *healPeer) RequestAccessLists(id uint64, hashes []common.Hash, bytes int) error { return nil }

func (p *healPeer) fail(msg string) {
	p.mu.Lock()
	if p.bad == "" {
		p.bad = msg
	}
	p.mu.Unlock()
}

// compactToHex decodes the hex-prefix form of a node path (no terminator).
func compactToHex(c []byte) []byte {
	if len(c) == 0 {
		return nil
	}
	var out []byte
	if c[0]>>4&1 == 1 {
		out = append(out, c[0]&0x0f)
	}
	for _, b := range c[1:] {
		out = append(out, b>>4, b&0x0f)
	}
	return out
}

func (p *healPeer) asked() {
	p.mu.Lock()
	p.last = time.Now()
	p.mu.Unlock()
}

func (p *healPeer) RequestTrieNodes(id uint64, root common.Hash, count int, paths []snap.TrieNodePathSet, bytes int) error {
	p.asked()
	var locs []int
	for _, ps := range paths {
		if len(ps) == 1 {
			locs = append(locs, p.w.locID[string(compactToHex(ps[0]))])
			continue
		}
		acc := string(hexOf(ps[0]))
		for _, sp := range ps[1:] {
			locs = append(locs, p.w.locID[acc+string(compactToHex(sp))])
		}
	}
	for _, l := range locs {
		if l == 0 || p.w.target[l-1].blob == nil {
			p.fail("healer requested a path that holds no node of the target")
			return nil
		}
	}
	if root != p.w.root {
		p.fail("healer requested nodes of another root")
	}
	go p.respondNodes(id, locs)
	return nil
}

func (p *healPeer) RequestByteCodes(id uint64, hashes []common.Hash, bytes int) error {
	p.asked()
	var ids []int
	for _, h := range hashes {
		c := p.w.codeID[h]
		if c == 0 {
			p.fail("healer requested a code the target does not reference")
			return nil
		}
		ids = append(ids, c)
	}
	go p.respondCodes(id, ids)
	return nil
}

// tamper turns the honest answer (blobs in request order) into what the peer sends.
// It returns the delivered blobs, their hash ids (0: matches nothing in the world) and the kind.
func (p *healPeer) tamper(honest [][]byte, ids []int, extra []byte, extraID int) ([][]byte, []int, string) {
	p.mu.Lock()
	defer p.mu.Unlock()
	blobs := append([][]byte{}, honest...)
	out := append([]int{}, ids...)
	switch x := p.r.Intn(20); {
	case x < 10:
		return blobs, out, "honest"
	case x < 13 && len(blobs) > 1: // gaps (never empty: an empty answer means "I do not have this state")
		var b2 [][]byte
		var o2 []int
		for i := range blobs {
			if p.r.Intn(2) == 0 {
				b2, o2 = append(b2, blobs[i]), append(o2, out[i])
			}
		}
		if len(b2) == 0 {
			b2, o2 = blobs[:1], out[:1]
		}
		return b2, o2, "gaps"
	case x < 16: // one blob with a flipped byte: same length, still looks like a node, other hash
		i := p.r.Intn(len(blobs))
		c := common.CopyBytes(blobs[i])
		c[len(c)-1] ^= 0x01
		blobs[i], out[i] = c, 0
		return blobs, out, "corrupt"
	case x < 18 && len(blobs) > 1 && out[0] != out[1]:
		blobs[0], blobs[1] = blobs[1], blobs[0]
		out[0], out[1] = out[1], out[0]
		return blobs, out, "reorder"
	case extra != nil:
		return append(blobs, extra), append(out, extraID), "extra"
	}
	return blobs, out, "honest"
}

func (p *healPeer) record(op string, req, resp []int, kind string, err error) {
	p.mu.Lock()
	defer p.mu.Unlock()
	p.notes[kind]++
	if err == nil && (kind == "corrupt" || kind == "extra" || kind == "reorder") {
		// no error for a tampered answer: either the request had already timed out (the syncer then
		// ignores the packet and returns nil) or the filter let it through.  The verdict alone cannot
		// tell; the listing of the database after the run does (a foreign blob must not be there).
		p.notes["tampered-answer-without-error"]++
		return
	}
	p.events = append(p.events, tl.M{"op": op, "req": req, "resp": resp, "kind": kind, "accepted": err == nil})
}

func (p *healPeer) respondNodes(id uint64, locs []int) {
	var honest [][]byte
	var req []int
	for _, l := range locs {
		honest = append(honest, p.w.target[l-1].blob)
		req = append(req, p.w.hashID[p.w.target[l-1].hash])
	}
	// an unrequested but genuine node of the target
	var extra []byte
	extraID := 0
	for i := range p.w.locs {
		if t := p.w.target[i]; t.blob != nil {
			found := false
			for _, r := range req {
				found = found || r == p.w.hashID[t.hash]
			}
			if !found {
				extra, extraID = t.blob, p.w.hashID[t.hash]
				break
			}
		}
	}
	blobs, resp, kind := p.tamper(honest, req, extra, extraID)
	err := p.syncer.OnTrieNodes(p, id, blobs)
	p.record("trienodes", req, resp, kind, err)
}

func (p *healPeer) respondCodes(id uint64, ids []int) {
	var honest [][]byte
	for _, c := range ids {
		honest = append(honest, p.w.codes[c-1])
	}
	req := make([]int, len(ids))
	for i, c := range ids {
		req[i] = 1000 + c
	}
	blobs, resp, kind := p.tamper(honest, req, []byte{0xde, 0xad, 0xbe, 0xef}, 0)
	err := p.syncer.OnByteCodes(p, id, blobs)
	p.record("bytecodes", req, resp, kind, err)
}

// checkHealed lists the database after the heal: every trie node must hash to a node of the
// world sitting at its place, every code must be a target code, and the target must be complete.
func checkHealed(w *world, db ethdb.Database, scheme string) string {
	it := db.NewIterator(nil, nil)
	defer it.Release()
	for it.Next() {
		k, val := it.Key(), it.Value()
		if ok, h := rawdb.IsCodeKey(k); ok {
			if id := w.codeID[common.BytesToHash(h)]; id == 0 || !bytes.Equal(val, w.codes[id-1]) || crypto.Keccak256Hash(val) != common.BytesToHash(h) {
				return fmt.Sprintf("a code was written under %x that is not that code", h)
			}
			continue
		}
		if scheme == rawdb.HashScheme {
			if len(k) == common.HashLength {
				if crypto.Keccak256Hash(val) != common.BytesToHash(k) {
					return fmt.Sprintf("a blob with another hash was written under node hash %x", k)
				}
				if w.hashID[common.BytesToHash(k)] == 0 {
					return fmt.Sprintf("node %x written although the target does not contain it", k)
				}
			}
			continue
		}
		var full string
		if ok, p := rawdb.ResolveAccountTrieNodeKey(k); ok {
			full = string(p)
		} else if ok, owner, p := rawdb.ResolveStorageTrieNode(k); ok {
			full = string(hexOf(owner[:])) + string(p)
		} else {
			continue // flat state, sync status
		}
		loc := w.locID[full]
		if loc == 0 {
			return fmt.Sprintf("a node was written at path %x where neither the target nor the old state has one", full)
		}
		hsh := crypto.Keccak256Hash(val)
		if hsh != w.target[loc-1].hash && hsh != w.stale[loc-1].hash {
			return fmt.Sprintf("the blob at path %x is neither the target node nor the pre-existing one", full)
		}
	}
	return ""
}

func runHeal(w *world, scheme, tracePath string, seed int64, n int, sum *tl.Summary) {
	r := tl.Rand(seed)
	tr := tl.NewTrace(tracePath)
	defer tr.Close()
	for t := 0; t < n; t++ {
		init := randomInit(w, r, scheme)
		db := rawdb.NewMemoryDatabase()
		for _, l := range init.Present {
			writeNode(db, scheme, w.locs[l-1], w.target[l-1])
		}
		for _, l := range init.Stale {
			writeNode(db, scheme, w.locs[l-1], w.stale[l-1])
		}
		for _, id := range init.Codes {
			rawdb.WriteCode(db, crypto.Keccak256Hash(w.codes[id-1]), w.codes[id-1])
		}
		rawdb.WriteSnapshotSyncStatus(db, []byte(`{"Tasks":[]}`)) // snap phase complete: heal only
		syncer := snap.NewV1Syncer(db, scheme)
		peer := &healPeer{id: fmt.Sprintf("peer-%d", t), w: w, syncer: syncer, r: rand.New(rand.NewSource(r.Int63())), notes: map[string]int{}, last: time.Now()}
		if err := syncer.Register(peer); err != nil {
			tl.Fatal("register: %v", err)
		}
		cancel := make(chan struct{})
		done := make(chan error, 1)
		go func() { done <- syncer.Sync(&types.Header{Root: w.root}, cancel) }()
		// Wait for the heal to finish.  Termination is judged by work, not by time: a heal of this
		// target needs a few answers per node; a peer that has served far more, or a healer that has
		// asked for something outside the target, will not finish.
		var err error
		bound := 400*(len(w.locs)+len(w.codes)) + 2000
		tick := time.NewTicker(100 * time.Millisecond)
		start := time.Now()
	wait:
		for {
			select {
			case err = <-done:
				break wait
			case <-tick.C:
				peer.mu.Lock()
				served, bad, last := len(peer.events)+peer.notes["tampered-answer-without-error"], peer.bad, peer.last
				peer.mu.Unlock()
				if bad == "" && served > 0 && time.Since(last) > 5*time.Minute {
					// every request has been answered and the syncer neither finishes nor asks again
					bad = fmt.Sprintf("the heal stalls: nothing requested for 5 minutes after %d answers, sync still pending", served)
				}
				if bad != "" || served > bound {
					close(cancel)
					<-done
					if bad == "" {
						bad = fmt.Sprintf("the heal does not terminate: %d answers served for a target of %d nodes and %d codes, still pending", served, len(w.locs), len(w.codes))
					}
					sum.Violate("healing through the snap syncer: "+bad, tl.M{"scheme": scheme, "seed": seed, "run": t, "init": init})
					tick.Stop()
					return
				}
				if time.Since(start) > 2*time.Hour {
					tl.Fatal("snap heal made no decision within 2 hours")
				}
			}
		}
		tick.Stop()
		if err != nil {
			sum.Violate("snap heal returned an error: "+err.Error(), tl.M{"scheme": scheme, "seed": seed, "run": t})
			return
		}
		peer.mu.Lock()
		events, bad := peer.events, peer.bad
		for k, v := range peer.notes {
			sum.Counts[k] += v
		}
		peer.mu.Unlock()
		if bad != "" {
			sum.Violate(bad, tl.M{"scheme": scheme, "seed": seed, "run": t})
			return
		}
		foreign := checkHealed(w, db, scheme)
		s := &session{w: w, scheme: scheme, db: db}
		complete := s.verifyComplete()
		if foreign != "" || complete != "" {
			sum.Violate("after healing through the snap syncer: "+foreign+" "+complete, tl.M{"scheme": scheme, "seed": seed, "run": t, "init": init})
			return
		}
		tr.Emit(tl.M{"op": "start", "scheme": scheme})
		for _, ev := range events {
			tr.Emit(ev)
		}
		tr.Emit(tl.M{"op": "healed", "complete": complete == "", "foreign": foreign != ""})
		sum.Traces++
		sum.Evaluations++
		sum.Distinct++
		if t == 0 {
			k := len(events)
			if k > 4 {
				k = 4
			}
			sum.Sample(tl.M{"scheme": scheme, "responses": events[:k]})
		}
	}
	sum.Steps = tr.N
	sum.Rule = "heal-only runs of snap.NewV1Syncer (scheduler = state.NewStateSync) against a harness peer that answers honestly, with gaps, corrupted, reordered or with extra blobs; distinct = runs completed and verified"
}

var _ = sort.Ints
