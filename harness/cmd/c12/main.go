// c12 binds spec/trie/TrieSync.tla to trie.Sync / state.NewStateSync (property C12: trie
// synchronisation completes with exactly the target nodes).
//
//	-mode world  -target K -world w.json            build a real state and write it as TLC constants
//	-mode replay -target K -scheme S -in s.json     execute TLC-generated delivery schedules (R) on
//	             -trace t.ndjson                     state.NewStateSync over a real database, one event
//	                                                 per call with the observable results (validated by
//	                                                 TrieSyncTrace.tla)
//	-mode record -target -k -scheme S -trace ...     random schedules on larger random states (V)
package main

import (
	"bytes"
	"encoding/json"
	"errors"
	"flag"
	"fmt"
	"math/rand"
	"os"
	"sort"

	"github.com/ethereum/go-ethereum/common"
	"github.com/ethereum/go-ethereum/core/rawdb"
	"github.com/ethereum/go-ethereum/core/state"
	"github.com/ethereum/go-ethereum/core/types"
	"github.com/ethereum/go-ethereum/crypto"
	"github.com/ethereum/go-ethereum/ethdb"
	"github.com/ethereum/go-ethereum/rlp"
	"github.com/ethereum/go-ethereum/trie"
	"github.com/ethereum/go-ethereum/triedb/database"
	tl "verif/harness/tracelib"
)

type item struct {
	Kind string `json:"kind"` // "n" node location / "c" code
	ID   int    `json:"id"`
}

type cmd struct {
	Op      string `json:"op"`
	Max     int    `json:"max"`
	Loc     int    `json:"loc"`
	Code    int    `json:"code"`
	Present []int  `json:"present"`
	Stale   []int  `json:"stale"`
	Codes   []int  `json:"codes"`
}

// rawNodeDB reads trie nodes straight from the key-value store (both schemes), verifying hashes.
type rawNodeDB struct {
	db     ethdb.KeyValueReader
	scheme string
}

func (r rawNodeDB) NodeReader(root common.Hash) (database.NodeReader, error) { return r, nil }
func (r rawNodeDB) Node(owner common.Hash, path []byte, hash common.Hash) ([]byte, error) {
	var blob []byte
	if r.scheme == rawdb.HashScheme {
		blob = rawdb.ReadLegacyTrieNode(r.db, hash)
	} else if owner == (common.Hash{}) {
		blob = rawdb.ReadAccountTrieNode(r.db, path)
	} else {
		blob = rawdb.ReadStorageTrieNode(r.db, owner, path)
	}
	if len(blob) == 0 || crypto.Keccak256Hash(blob) != hash {
		return nil, nil
	}
	return blob, nil
}

type dbView struct {
	Nodes  [][2]int `json:"nodes"`  // path scheme: [location, hash id]
	Hashes []int    `json:"hashes"` // hash scheme: hash ids
	Codes  []int    `json:"codes"`
}

// listDB projects the database contents onto the ids of the world.
func listDB(w *world, db ethdb.Database, scheme string) (dbView, string) {
	v := dbView{Nodes: [][2]int{}, Hashes: []int{}, Codes: []int{}}
	it := db.NewIterator(nil, nil)
	defer it.Release()
	for it.Next() {
		k, val := it.Key(), it.Value()
		if ok, h := rawdb.IsCodeKey(k); ok {
			id := w.codeID[common.BytesToHash(h)]
			if id == 0 || !bytes.Equal(val, w.codes[id-1]) {
				return v, fmt.Sprintf("database holds a code %x that is not a target code", h)
			}
			v.Codes = append(v.Codes, id)
			continue
		}
		if scheme == rawdb.HashScheme {
			if len(k) != common.HashLength {
				return v, fmt.Sprintf("unexpected key %x", k)
			}
			id := w.hashID[common.BytesToHash(k)]
			if id == 0 || crypto.Keccak256Hash(val) != common.BytesToHash(k) {
				return v, fmt.Sprintf("database holds node %x which is not a node of the target", k)
			}
			v.Hashes = append(v.Hashes, id)
			continue
		}
		var full string
		if ok, p := rawdb.ResolveAccountTrieNodeKey(k); ok {
			full = string(p)
		} else if ok, owner, p := rawdb.ResolveStorageTrieNode(k); ok {
			full = string(hexOf(owner[:])) + string(p)
		} else {
			return v, fmt.Sprintf("unexpected key %x", k)
		}
		loc := w.locID[full]
		hid := w.hashID[crypto.Keccak256Hash(val)]
		if loc == 0 || hid == 0 {
			return v, fmt.Sprintf("database holds a node at path %x that is neither a target node nor a pre-existing one", full)
		}
		v.Nodes = append(v.Nodes, [2]int{loc, hid})
	}
	sort.Slice(v.Nodes, func(i, j int) bool { return v.Nodes[i][0] < v.Nodes[j][0] })
	sort.Ints(v.Hashes)
	sort.Ints(v.Codes)
	return v, ""
}

func writeNode(db ethdb.KeyValueWriter, scheme string, path string, n nodeInfo) {
	if scheme == rawdb.HashScheme {
		rawdb.WriteLegacyTrieNode(db, n.hash, n.blob)
		return
	}
	if len(path) >= 64 {
		var owner common.Hash
		for i := 0; i < 32; i++ {
			owner[i] = path[2*i]<<4 | path[2*i+1]
		}
		rawdb.WriteStorageTrieNode(db, owner, []byte(path[64:]), n.blob)
	} else {
		rawdb.WriteAccountTrieNode(db, []byte(path), n.blob)
	}
}

func errClass(err error) string {
	switch {
	case err == nil:
		return "ok"
	case errors.Is(err, trie.ErrNotRequested):
		return "notrequested"
	case errors.Is(err, trie.ErrAlreadyProcessed):
		return "already"
	}
	return "invalid"
}

// session is one sync of the target into a fresh local database.
type session struct {
	w      *world
	scheme string
	db     ethdb.Database
	sched  *trie.Sync
	leaves int
	lastItems []item
	tr     *tl.Trace
	sum    *tl.Summary
	bad    bool
}

func (s *session) emit(ev tl.M) {
	ev["pending"] = s.sched.Pending()
	ev["memsize"] = int(s.sched.MemSize())
	v, defect := listDB(s.w, s.db, s.scheme)
	if defect != "" {
		s.sum.Violate("sync wrote outside the target: "+defect, tl.M{"event": ev, "scheme": s.scheme})
		s.bad = true
	}
	ev["db"] = v
	s.tr.Emit(ev)
	s.sum.Count(ev["op"].(string))
}

func startSession(w *world, scheme string, c cmd, tr *tl.Trace, sum *tl.Summary) *session {
	s := &session{w: w, scheme: scheme, db: rawdb.NewMemoryDatabase(), tr: tr, sum: sum}
	for _, l := range c.Present {
		writeNode(s.db, scheme, w.locs[l-1], w.target[l-1])
	}
	for _, l := range c.Stale {
		writeNode(s.db, scheme, w.locs[l-1], w.stale[l-1])
	}
	for _, id := range c.Codes {
		rawdb.WriteCode(s.db, crypto.Keccak256Hash(w.codes[id-1]), w.codes[id-1])
	}
	tr.Emit(tl.M{"op": "reset", "present": nzi(c.Present), "stale": nzi(c.Stale), "codes": nzi(c.Codes)})
	s.sched = state.NewStateSync(w.root, s.db, func(keys [][]byte, leaf []byte) error { s.leaves++; return nil }, scheme)
	s.emit(tl.M{"op": "NewSync"})
	return s
}

func nzi(a []int) []int {
	if a == nil {
		return []int{}
	}
	return a
}

// exec performs one command and logs the observable outcome.
func (s *session) exec(c cmd) {
	switch c.Op {
	case "Missing":
		paths, hashes, codes := s.sched.Missing(c.Max)
		items := []item{}
		for i, p := range paths {
			loc := s.w.locID[p]
			if loc == 0 || s.w.target[loc-1].hash != hashes[i] {
				s.sum.Violate(fmt.Sprintf("sync requested node %x at path %x which is not a node of the target", hashes[i], p), tl.M{"scheme": s.scheme})
				s.bad = true
				return
			}
			items = append(items, item{"n", loc})
		}
		for _, h := range codes {
			id := s.w.codeID[h]
			if id == 0 {
				s.sum.Violate(fmt.Sprintf("sync requested code %x which is not referenced by the target", h), tl.M{"scheme": s.scheme})
				s.bad = true
				return
			}
			items = append(items, item{"c", id})
		}
		sort.Slice(items, func(i, j int) bool {
			return items[i].Kind < items[j].Kind || items[i].Kind == items[j].Kind && items[i].ID < items[j].ID
		})
		s.lastItems = items
		s.emit(tl.M{"op": "Missing", "max": c.Max, "items": items})
	case "ProcessNode":
		err := s.sched.ProcessNode(trie.NodeSyncResult{Path: s.w.locs[c.Loc-1], Data: s.w.target[c.Loc-1].blob})
		s.emit(tl.M{"op": "ProcessNode", "loc": c.Loc, "err": errClass(err)})
	case "ProcessBad":
		err := s.sched.ProcessNode(trie.NodeSyncResult{Path: s.w.locs[c.Loc-1], Data: []byte{0xc3, 0x01, 0x02, 0x03}})
		s.emit(tl.M{"op": "ProcessBad", "loc": c.Loc, "err": errClass(err)})
	case "ProcessCode":
		code := s.w.codes[c.Code-1]
		err := s.sched.ProcessCode(trie.CodeSyncResult{Hash: crypto.Keccak256Hash(code), Data: code})
		s.emit(tl.M{"op": "ProcessCode", "code": c.Code, "err": errClass(err)})
	case "Commit":
		batch := s.db.NewBatch()
		if err := s.sched.Commit(batch); err != nil {
			s.sum.Violate("Sync.Commit failed: "+err.Error(), tl.M{"scheme": s.scheme})
			s.bad = true
			return
		}
		if err := batch.Write(); err != nil {
			tl.Fatal("batch write: %v", err)
		}
		s.emit(tl.M{"op": "Commit"})
	default:
		tl.Fatal("unknown command %q", c.Op)
	}
}

// verifyComplete opens the synced state through the database only and compares every account,
// slot and code with the source.
func (s *session) verifyComplete() string {
	ndb := rawNodeDB{s.db, s.scheme}
	at, err := trie.New(trie.StateTrieID(s.w.root), ndb)
	if err != nil {
		return "cannot open the synced state: " + err.Error()
	}
	seen := 0
	it, err := at.NodeIterator(nil)
	if err != nil {
		return "account iterator: " + err.Error()
	}
	for it.Next(true) {
		if !it.Leaf() {
			continue
		}
		k := common.BytesToHash(it.LeafKey())
		src := s.w.content[k]
		if src == nil {
			return fmt.Sprintf("synced state has an account %x the source has not", k)
		}
		seen++
		var a types.StateAccount
		if err := rlp.DecodeBytes(it.LeafBlob(), &a); err != nil {
			return "undecodable account"
		}
		if a.Balance.Uint64() != src.Balance {
			return fmt.Sprintf("account %x differs", k)
		}
		if len(src.Code) > 0 {
			if code := rawdb.ReadCodeWithPrefix(s.db, common.BytesToHash(a.CodeHash)); !bytes.Equal(code, src.Code) {
				return fmt.Sprintf("code of account %x is missing after the sync finished", k)
			}
		}
		slots := 0
		if a.Root != types.EmptyRootHash {
			st, err := trie.New(trie.StorageTrieID(s.w.root, k, a.Root), ndb)
			if err != nil {
				return fmt.Sprintf("storage trie of %x cannot be opened: %v", k, err)
			}
			sit, err := st.NodeIterator(nil)
			if err != nil {
				return "storage iterator: " + err.Error()
			}
			for sit.Next(true) {
				if sit.Leaf() {
					slots++
					if !bytes.Equal(src.Slots[common.BytesToHash(sit.LeafKey())], sit.LeafBlob()) {
						return fmt.Sprintf("slot %x of %x differs", sit.LeafKey(), k)
					}
				}
			}
			if sit.Error() != nil {
				return fmt.Sprintf("storage trie of %x is incomplete after the sync finished: %v", k, sit.Error())
			}
		}
		if slots != len(src.Slots) {
			return fmt.Sprintf("account %x has %d slots after sync, source has %d", k, slots, len(src.Slots))
		}
	}
	if it.Error() != nil {
		return "account trie is incomplete after the sync finished: " + it.Error().Error()
	}
	if seen != len(s.w.content) {
		return fmt.Sprintf("synced state has %d accounts, source has %d", seen, len(s.w.content))
	}
	return ""
}

func runReplay(w *world, scheme, in, tracePath string, sum *tl.Summary) {
	var scheds [][]cmd
	tl.ReadJSON(in, &scheds)
	tr := tl.NewTrace(tracePath)
	defer tr.Close()
	seen := map[string]bool{}
	for si, sc := range scheds {
		if len(sc) == 0 || sc[0].Op != "init" {
			tl.Fatal("schedule %d does not start with init", si)
		}
		s := startSession(w, scheme, sc[0], tr, sum)
		for _, c := range sc[1:] {
			if s.bad {
				break
			}
			s.exec(c)
		}
		if s.bad {
			return
		}
		// the schedule ends when the model has nothing pending and has flushed
		if s.sched.Pending() == 0 {
			if msg := s.verifyComplete(); msg != "" {
				sum.Violate("schedule finished with nothing pending, but "+msg, tl.M{"scheme": scheme, "schedule": sc})
				return
			}
		}
		sum.Traces++
		sum.Evaluations++
		b, _ := json.Marshal(sc)
		if !seen[string(b)] {
			seen[string(b)] = true
			sum.Distinct++
		}
		if si < 2 {
			sum.Sample(tl.M{"scheme": scheme, "schedule": sc})
		}
	}
	sum.Steps = tr.N
	sum.Rule = "TLC-generated schedules (initial local database, Missing batch sizes, delivery order, repeats, undecodable blobs, commit points) executed on state.NewStateSync over a real database; distinct = distinct schedules"
}

// runRecord drives random schedules (V) over the given world.
func runRecord(w *world, scheme, tracePath string, seed int64, n int, sum *tl.Summary) {
	r := tl.Rand(seed)
	tr := tl.NewTrace(tracePath)
	defer tr.Close()
	shapes := map[string]bool{}
	for t := 0; t < n; t++ {
		init := randomInit(w, r, scheme)
		s := startSession(w, scheme, init, tr, sum)
		outstanding := map[item]bool{}
		var everAsked []item
		shape := ""
		for step := 0; step < 400 && !s.bad; step++ {
			if s.sched.Pending() == 0 && s.sched.MemSize() == 0 {
				break
			}
			var c cmd
			switch x := r.Intn(20); {
			case x < 5 || len(outstanding) == 0 && x < 14:
				c = cmd{Op: "Missing", Max: []int{0, 1, 2, 3, 5}[r.Intn(5)]}
			case x < 14:
				// answer an outstanding request (random order)
				var os []item
				for it := range outstanding {
					os = append(os, it)
				}
				sort.Slice(os, func(i, j int) bool { return os[i].Kind < os[j].Kind || os[i].Kind == os[j].Kind && os[i].ID < os[j].ID })
				it := os[r.Intn(len(os))]
				delete(outstanding, it)
				if it.Kind == "n" {
					c = cmd{Op: "ProcessNode", Loc: it.ID}
				} else {
					c = cmd{Op: "ProcessCode", Code: it.ID}
				}
			case x < 16 && len(everAsked) > 0:
				it := everAsked[r.Intn(len(everAsked))] // repeat (or early answer of) something asked before
				if it.Kind == "n" {
					c = cmd{Op: "ProcessNode", Loc: it.ID}
					if r.Intn(3) == 0 {
						c.Op = "ProcessBad"
					} else {
						delete(outstanding, it)
					}
				} else {
					c = cmd{Op: "ProcessCode", Code: it.ID}
					delete(outstanding, it)
				}
			case x < 17:
				// an answer for a target node nobody asked for yet (early or never requested)
				var cand []int
				for i := range w.locs {
					if w.target[i].blob != nil {
						cand = append(cand, i+1)
					}
				}
				c = cmd{Op: "ProcessNode", Loc: cand[r.Intn(len(cand))]}
				delete(outstanding, item{"n", c.Loc})
			default:
				c = cmd{Op: "Commit"}
			}
			if c.Op == "Missing" {
				s.exec(c)
				for _, it := range s.lastItems {
					outstanding[it] = true
					everAsked = append(everAsked, it)
				}
			} else {
				s.exec(c)
			}
			shape += c.Op[:1] + c.Op[len(c.Op)-1:]
		}
		if s.bad {
			return
		}
		if s.sched.Pending() == 0 {
			if s.sched.MemSize() > 0 {
				s.exec(cmd{Op: "Commit"})
			}
			if msg := s.verifyComplete(); msg != "" {
				sum.Violate("sync finished with nothing pending, but "+msg, tl.M{"scheme": scheme, "seed": seed, "trace_index": t})
				return
			}
			sum.Count("completed")
		}
		sum.Traces++
		sum.Evaluations++
		if !shapes[shape] {
			shapes[shape] = true
			sum.Distinct++
		}
	}
	sum.Steps = tr.N
	sum.Rule = "random schedules on state.NewStateSync (random closed pre-populated subsets, outdated nodes, batch sizes, delivery order, repeats, early and undecodable answers, commit points); distinct = distinct call sequences"
}

// randomInit picks a random child-closed subset of the target (plus random outdated nodes in
// the path scheme) as the local database content before the sync.
func randomInit(w *world, r *rand.Rand, scheme string) cmd {
	c := cmd{Op: "init", Present: []int{}, Stale: []int{}, Codes: []int{}}
	if r.Intn(4) == 0 {
		return c // empty local database
	}
	present := map[int]bool{}
	codes := map[int]bool{}
	var addClosed func(l int)
	addClosed = func(l int) {
		if present[l] {
			return
		}
		present[l] = true
		for _, k := range w.kids[l-1] {
			addClosed(k)
		}
		if w.subRoot[l-1] != 0 {
			addClosed(w.subRoot[l-1])
		}
		if w.subCode[l-1] != 0 {
			codes[w.subCode[l-1]] = true
		}
	}
	for i := range w.locs {
		if w.target[i].blob != nil && r.Intn(6) == 0 {
			addClosed(i + 1)
		}
	}
	for i := range w.codes {
		if r.Intn(4) == 0 {
			codes[i+1] = true
		}
	}
	for l := range present {
		c.Present = append(c.Present, l)
	}
	for id := range codes {
		c.Codes = append(c.Codes, id)
	}
	if scheme == rawdb.PathScheme {
		for i := range w.locs {
			if w.stale[i].blob != nil && !present[i+1] && r.Intn(2) == 0 {
				c.Stale = append(c.Stale, i+1)
			}
		}
	}
	sort.Ints(c.Present)
	sort.Ints(c.Codes)
	sort.Ints(c.Stale)
	return c
}

func main() {
	mode := flag.String("mode", "world", "world|replay|record|heal|bulk")
	target := flag.Int("target", 0, "fixed target index, or -k for the k-th random target of the seed")
	scheme := flag.String("scheme", "path", "hash|path")
	worldOut := flag.String("world", "world.json", "world file (TLC constants)")
	in := flag.String("in", "", "schedules json (mode replay)")
	trace := flag.String("trace", "trace.ndjson", "output trace")
	out := flag.String("out", "summary.json", "summary output")
	n := flag.Int("n", 50, "number of random schedules (mode record)")
	slots := flag.Int("slots", 30000, "storage slots of the contract (mode bulk)")
	flag.Parse()
	seed := int64(tl.EnvInt("VERIF_SEED", 1))
	sum := tl.NewSummary("c12", *mode, seed)
	if *scheme != rawdb.HashScheme && *scheme != rawdb.PathScheme {
		tl.Fatal("bad scheme")
	}
	var w *world
	if *target >= 0 {
		w = fixedWorld(*target)
	} else {
		w = randomWorld(tl.Rand(seed*977 + int64(-*target)))
	}
	switch *mode {
	case "world":
		j := w.json()
		b, _ := json.Marshal(j)
		if err := os.WriteFile(*worldOut, b, 0o644); err != nil {
			tl.Fatal("write world: %v", err)
		}
		sum.Extra["locs"] = j.NumLocs
		sum.Extra["codes"] = j.NumCodes
		sum.Evaluations = 1
		sum.Sample(tl.M{"locs": j.NumLocs, "target": j.Target, "kids": j.Kids, "stale": j.Stale})
		sum.Rule = "node forest of a real state as TrieSync.tla constants"
	case "replay":
		runReplay(w, *scheme, *in, *trace, sum)
	case "record":
		runRecord(w, *scheme, *trace, seed, *n, sum)
	case "heal":
		runHeal(w, *scheme, *trace, seed, *n, sum)
	case "bulk":
		runBulk(*scheme, *trace, seed, *slots, sum)
	default:
		tl.Fatal("bad mode")
	}
	sum.Write(*out)
	if len(sum.Violations) > 0 {
		os.Exit(1)
	}
}
