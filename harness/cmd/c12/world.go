package main

// Target construction for C12: a real state (account trie, storage tries, codes) is built with
// the trie package; its nodes, keyed by composite path ("locations"), become the constants of
// TrieSync.tla.  An older variant of the state provides the outdated nodes that may sit in
// the local database before the sync (path scheme).

import (
	"bytes"
	"sort"

	"github.com/ethereum/go-ethereum/common"
	"github.com/ethereum/go-ethereum/core/types"
	"github.com/ethereum/go-ethereum/crypto"
	"github.com/ethereum/go-ethereum/rlp"
	"github.com/ethereum/go-ethereum/trie"
	"github.com/ethereum/go-ethereum/trie/trienode"
	"github.com/ethereum/go-ethereum/triedb/database"
	"github.com/holiman/uint256"
	tl "verif/harness/tracelib"
)

type mapStore struct{ nodes map[common.Hash][]byte }
type mapReader struct{ s *mapStore }

func (r mapReader) Node(owner common.Hash, path []byte, hash common.Hash) ([]byte, error) {
	return r.s.nodes[hash], nil
}
func (s *mapStore) NodeReader(root common.Hash) (database.NodeReader, error) { return mapReader{s}, nil }

type acct struct {
	Balance uint64
	Slots   map[common.Hash][]byte
	Code    []byte
}
type stateContent map[common.Hash]*acct

func hexOf(key []byte) []byte {
	out := make([]byte, 0, 2*len(key))
	for _, b := range key {
		out = append(out, b>>4, b&15)
	}
	return out
}

func key(prefix ...byte) common.Hash {
	var h common.Hash
	for i := range h {
		h[i] = 0x5a
	}
	for i, n := range prefix {
		if i%2 == 0 {
			h[i/2] = n<<4 | h[i/2]&0x0f
		} else {
			h[i/2] = h[i/2]&0xf0 | n
		}
	}
	return h
}

type nodeInfo struct {
	path string // composite path (nibbles as bytes)
	hash common.Hash
	blob []byte
}

// buildState commits the tries of a state from scratch and returns its root and all nodes
// by composite path.
func buildState(c stateContent) (common.Hash, map[string]nodeInfo, map[common.Hash]common.Hash) {
	store := &mapStore{nodes: map[common.Hash][]byte{}}
	nodes := map[string]nodeInfo{}
	roots := map[common.Hash]common.Hash{}
	collect := func(prefix []byte, set *trienode.NodeSet) {
		if set == nil {
			return
		}
		for p, n := range set.Nodes {
			if len(n.Blob) == 0 {
				continue
			}
			full := string(prefix) + p
			nodes[full] = nodeInfo{path: full, hash: n.Hash, blob: n.Blob}
			store.nodes[n.Hash] = n.Blob
		}
	}
	at, _ := trie.New(trie.StateTrieID(types.EmptyRootHash), store)
	keys := make([]common.Hash, 0, len(c))
	for k := range c {
		keys = append(keys, k)
	}
	sort.Slice(keys, func(i, j int) bool { return bytes.Compare(keys[i][:], keys[j][:]) < 0 })
	for _, k := range keys {
		a := c[k]
		sroot := types.EmptyRootHash
		if len(a.Slots) > 0 {
			st, _ := trie.New(trie.StorageTrieID(types.EmptyRootHash, k, types.EmptyRootHash), store)
			for s, v := range a.Slots {
				st.Update(s[:], v)
			}
			r, set := st.Commit(false)
			collect(hexOf(k[:]), set)
			sroot = r
		}
		roots[k] = sroot
		ch := types.EmptyCodeHash
		if len(a.Code) > 0 {
			ch = crypto.Keccak256Hash(a.Code)
		}
		enc, err := rlp.EncodeToBytes(&types.StateAccount{Nonce: 1, Balance: uint256.NewInt(a.Balance), Root: sroot, CodeHash: ch[:]})
		if err != nil {
			tl.Fatal("encode: %v", err)
		}
		at.Update(k[:], enc)
	}
	root, set := at.Commit(false)
	collect(nil, set)
	return root, nodes, roots
}

// world is the target in the vocabulary of TrieSync.tla
type world struct {
	root     common.Hash
	content  stateContent
	locs     []string       // id-1 -> composite path
	locID    map[string]int // path -> id
	target   []nodeInfo     // id-1 -> target node (hash zero: none)
	stale    []nodeInfo     // id-1 -> outdated node (hash zero: none)
	hashID   map[common.Hash]int
	kids     [][]int
	inner    [][]int
	subRoot  []int
	subCode  []int
	leaf     []bool
	codes    [][]byte // id-1 -> code
	codeID   map[common.Hash]int
	rootLoc  int
	acctKeys []common.Hash
}

func newWorldFrom(target, old stateContent) *world {
	w := &world{content: target, locID: map[string]int{}, hashID: map[common.Hash]int{}, codeID: map[common.Hash]int{}}
	root, tnodes, troots := buildState(target)
	w.root = root
	var onodes map[string]nodeInfo
	if old != nil {
		_, onodes, _ = buildState(old)
	}
	paths := map[string]bool{}
	for p := range tnodes {
		paths[p] = true
	}
	for p, n := range onodes {
		if t, ok := tnodes[p]; !ok || t.hash != n.hash {
			paths[p] = true
		}
	}
	for p := range paths {
		w.locs = append(w.locs, p)
	}
	sort.Strings(w.locs)
	hid := func(h common.Hash) int {
		if _, ok := w.hashID[h]; !ok {
			w.hashID[h] = 100 + len(w.hashID) + 1
		}
		return w.hashID[h]
	}
	n := len(w.locs)
	w.target, w.stale = make([]nodeInfo, n), make([]nodeInfo, n)
	w.kids, w.inner = make([][]int, n), make([][]int, n)
	w.subRoot, w.subCode, w.leaf = make([]int, n), make([]int, n), make([]bool, n)
	for i, p := range w.locs {
		w.locID[p] = i + 1
	}
	for i, p := range w.locs {
		if t, ok := tnodes[p]; ok {
			w.target[i] = t
			hid(t.hash)
		}
		if o, ok := onodes[p]; ok && o.hash != w.target[i].hash {
			w.stale[i] = o
			hid(o.hash)
		}
	}
	// parent/child relation of the target nodes: the nearest proper prefix within the same trie
	for i, p := range w.locs {
		if w.target[i].blob == nil {
			continue
		}
		if p == "" {
			w.rootLoc = i + 1
		}
		if len(p) == 64 || p == "" {
			continue // trie roots have no parent node
		}
		lo := 0
		if len(p) > 64 {
			lo = 64
		}
		for l := len(p) - 1; l >= lo; l-- {
			if j, ok := w.locID[p[:l]]; ok && w.target[j-1].blob != nil {
				w.kids[j-1] = append(w.kids[j-1], i+1)
				break
			}
		}
	}
	for i := range w.locs {
		// cross-check with the hashes found inside the blob
		if w.target[i].blob == nil {
			continue
		}
		var refs []common.Hash
		trie.ForGatherChildren(w.target[i].blob, func(h common.Hash) { refs = append(refs, h) })
		if len(refs) != len(w.kids[i]) {
			tl.Fatal("node at %x: %d hash references but %d child locations", w.locs[i], len(refs), len(w.kids[i]))
		}
		for _, k := range w.kids[i] {
			found := false
			for _, h := range refs {
				found = found || h == w.target[k-1].hash
			}
			if !found {
				tl.Fatal("child location %x is not referenced by its parent", w.locs[k-1])
			}
		}
		// a single child further than one nibble away: this is an extension node; the paths in
		// between are the places where a dangling node may sit
		if len(w.kids[i]) == 1 {
			cp := w.locs[w.kids[i][0]-1]
			for l := len(w.locs[i]) + 1; l < len(cp); l++ {
				if j, ok := w.locID[cp[:l]]; ok {
					w.inner[i] = append(w.inner[i], j)
				}
			}
		}
	}
	// account leaves
	for k := range target {
		w.acctKeys = append(w.acctKeys, k)
	}
	sort.Slice(w.acctKeys, func(i, j int) bool { return bytes.Compare(w.acctKeys[i][:], w.acctKeys[j][:]) < 0 })
	for _, k := range w.acctKeys {
		hk := string(hexOf(k[:]))
		holder := 0
		for l := 63; l >= 0; l-- {
			if j, ok := w.locID[hk[:l]]; ok && w.target[j-1].blob != nil {
				holder = j
				break
			}
		}
		if holder == 0 || len(w.kids[holder-1]) != 0 {
			tl.Fatal("no leaf node found for account %x", k)
		}
		w.leaf[holder-1] = true
		if troots[k] != types.EmptyRootHash {
			w.subRoot[holder-1] = w.locID[hk]
			if w.locID[hk] == 0 {
				tl.Fatal("storage root location missing")
			}
		}
		if code := target[k].Code; len(code) > 0 {
			h := crypto.Keccak256Hash(code)
			if _, ok := w.codeID[h]; !ok {
				w.codes = append(w.codes, code)
				w.codeID[h] = len(w.codes)
			}
			w.subCode[holder-1] = w.codeID[h]
		}
	}
	return w
}

type subJSON struct {
	Root int  `json:"root"`
	Code int  `json:"code"`
	Leaf bool `json:"leaf"`
}
type worldJSON struct {
	NumLocs  int       `json:"numlocs"`
	LocPath  [][]int   `json:"locpath"`
	Target   []int     `json:"target"`
	Kids     [][]int   `json:"kids"`
	Inner    [][]int   `json:"inner"`
	Sub      []subJSON `json:"sub"`
	BlobSize []int     `json:"blobsize"`
	Stale    []int     `json:"stale"`
	RootLoc  int       `json:"rootloc"`
	NumCodes int       `json:"numcodes"`
	CodeSize []int     `json:"codesize"`
}

func (w *world) json() worldJSON {
	j := worldJSON{NumLocs: len(w.locs), RootLoc: w.rootLoc, NumCodes: len(w.codes), CodeSize: []int{}}
	for i, p := range w.locs {
		lp := []int{}
		for _, b := range []byte(p) {
			lp = append(lp, int(b))
		}
		j.LocPath = append(j.LocPath, lp)
		t, s := 0, 0
		if w.target[i].blob != nil {
			t = w.hashID[w.target[i].hash]
		}
		if w.stale[i].blob != nil {
			s = w.hashID[w.stale[i].hash]
		}
		j.Target = append(j.Target, t)
		j.Stale = append(j.Stale, s)
		j.Kids = append(j.Kids, append([]int{}, w.kids[i]...))
		j.Inner = append(j.Inner, append([]int{}, w.inner[i]...))
		j.Sub = append(j.Sub, subJSON{w.subRoot[i], w.subCode[i], w.leaf[i]})
		j.BlobSize = append(j.BlobSize, len(w.target[i].blob))
	}
	for _, c := range w.codes {
		j.CodeSize = append(j.CodeSize, len(c))
	}
	return j
}

// ---------------------------------------------------------------- scenarios

func slotVal(b byte) []byte { return []byte{b, 0xaa, 0xbb, 0xcc, 0xdd, 0xee, 0xff, 0x11, 0x22} }

var codeA = bytes.Repeat([]byte{0x60, 0x01}, 10)
var codeB = bytes.Repeat([]byte{0x60, 0x02}, 17)

// fixed small targets (with the older variant that provides outdated nodes)
func fixedWorld(i int) *world {
	a, b, c, d := key(1, 1, 0), key(1, 1, 1), key(7), key(1, 4)
	s1, s2 := key(2), key(9)
	switch i {
	case 0:
		// extension 1 -> branch{a,b}, c elsewhere; a and c share a code; a and b have identical storage
		t := stateContent{
			a: {Balance: 1, Slots: map[common.Hash][]byte{s1: slotVal(1)}, Code: codeA},
			b: {Balance: 2, Slots: map[common.Hash][]byte{s1: slotVal(1)}},
			c: {Balance: 3, Code: codeA},
		}
		// older: d exists too (splits the extension: a branch sits at path 1), a's storage differed
		o := stateContent{
			a: {Balance: 1, Slots: map[common.Hash][]byte{s1: slotVal(7)}, Code: codeA},
			b: {Balance: 2, Slots: map[common.Hash][]byte{s1: slotVal(1)}},
			c: {Balance: 9, Code: codeA},
			d: {Balance: 4},
		}
		return newWorldFrom(t, o)
	case 1:
		// two-level storage trie, two codes
		t := stateContent{
			a: {Balance: 1, Slots: map[common.Hash][]byte{s1: slotVal(1), s2: slotVal(2)}, Code: codeA},
			c: {Balance: 3, Code: codeB},
		}
		o := stateContent{
			a: {Balance: 1, Slots: map[common.Hash][]byte{s1: slotVal(1)}, Code: codeA},
			c: {Balance: 3, Code: codeB},
		}
		return newWorldFrom(t, o)
	case 2:
		// single account (root is a leaf), with storage
		t := stateContent{a: {Balance: 1, Slots: map[common.Hash][]byte{s1: slotVal(1)}, Code: codeA}}
		o := stateContent{a: {Balance: 5}, c: {Balance: 1}}
		return newWorldFrom(t, o)
	case 3:
		// the root is an extension over two nibbles; the older state has a branch at the root and
		// a node inside the extension's key range (a dangling node for the path scheme)
		t := stateContent{
			a: {Balance: 1, Code: codeA},
			b: {Balance: 2, Slots: map[common.Hash][]byte{s1: slotVal(1), s2: slotVal(1)}},
		}
		// (b's storage differed too: outdated nodes at the storage root and at one of its leaves)
		o := stateContent{
			a: {Balance: 1, Code: codeA},
			b: {Balance: 2, Slots: map[common.Hash][]byte{s1: slotVal(1), s2: slotVal(6)}},
			c: {Balance: 3},
		}
		return newWorldFrom(t, o)
	}
	tl.Fatal("no fixed world %d", i)
	return nil
}

// randomWorld draws a larger state and an older variant of it.
func randomWorld(r interface{ Intn(int) int }) *world {
	pool := []common.Hash{key(1, 1, 0), key(1, 1, 1), key(7), key(1, 4), key(7, 3), key(7, 3, 0xf), key(0xc), key(0xc, 0), key(2), key(0xe, 0xe), key(1, 1, 0, 8), key(0xe, 0xe, 1)}
	slots := []common.Hash{key(2), key(9), key(2, 1), key(9, 9), key(0), key(2, 1, 8)}
	codes := [][]byte{codeA, codeB, bytes.Repeat([]byte{0x5b}, 40)}
	t := stateContent{}
	na := 3 + r.Intn(7)
	for len(t) < na {
		k := pool[r.Intn(len(pool))]
		a := &acct{Balance: uint64(1 + r.Intn(1000)), Slots: map[common.Hash][]byte{}}
		for i, ns := 0, r.Intn(5); i < ns; i++ {
			a.Slots[slots[r.Intn(len(slots))]] = slotVal(byte(1 + r.Intn(3)))
		}
		if r.Intn(2) == 0 {
			a.Code = codes[r.Intn(len(codes))]
		}
		t[k] = a
	}
	// older variant: some accounts changed, removed or added
	o := stateContent{}
	tkeys := make([]common.Hash, 0, len(t))
	for k := range t {
		tkeys = append(tkeys, k)
	}
	sort.Slice(tkeys, func(i, j int) bool { return bytes.Compare(tkeys[i][:], tkeys[j][:]) < 0 })
	for _, k := range tkeys {
		a := t[k]
		switch r.Intn(5) {
		case 0:
			continue
		case 1, 2:
			b := &acct{Balance: a.Balance + 1, Slots: map[common.Hash][]byte{}, Code: a.Code}
			skeys := make([]common.Hash, 0, len(a.Slots))
			for s := range a.Slots {
				skeys = append(skeys, s)
			}
			sort.Slice(skeys, func(i, j int) bool { return bytes.Compare(skeys[i][:], skeys[j][:]) < 0 })
			for _, s := range skeys {
				if r.Intn(3) > 0 {
					b.Slots[s] = a.Slots[s]
				}
			}
			b.Slots[slots[r.Intn(len(slots))]] = slotVal(9)
			o[k] = b
		default:
			o[k] = a
		}
	}
	for i := 0; i < 2; i++ {
		k := pool[r.Intn(len(pool))]
		if o[k] == nil {
			o[k] = &acct{Balance: 77, Slots: map[common.Hash][]byte{}}
		}
	}
	return newWorldFrom(t, o)
}
