// c10 binds spec/codec/HexPrefix.tla to trie/encoding.go (property C10, hex-prefix
// encoding is a bijection).
//
//	-mode cases  -in cases.json   every HEX key of the TLC-enumerated domain with the results the
//	                               specification expects, executed on hexToCompact,
//	                               hexToCompactInPlace, compactToHex, hexToKeybytes, keybytesToHex,
//	                               writeHexKey (R)
//	-mode record -trace t.ndjson  seeded random long keys; one event <<fn, in, out>> per call of the
//	                               real functions, validated by HexPrefixTrace.tla (V)
package main

import (
	"flag"
	"fmt"
	"os"
	"reflect"

	"github.com/ethereum/go-ethereum/trie"
	tl "verif/harness/tracelib"
)

type kase struct {
	Hex      []int `json:"hex"`
	Compact  []int `json:"compact"`
	Back     []int `json:"back"`
	Even     bool  `json:"even"`
	Keybytes []int `json:"keybytes"`
	Leaf     bool  `json:"leaf"`
}

func toBytes(x []int) []byte {
	out := make([]byte, len(x))
	for i, v := range x {
		out[i] = byte(v)
	}
	return out
}

func toInts(b []byte) []int {
	out := make([]int, len(b))
	for i, v := range b {
		out[i] = int(v)
	}
	return out
}

func same(b []byte, want []int) bool { return reflect.DeepEqual(toInts(b), append([]int{}, want...)) }

// exact returns a copy whose capacity equals its length: a write past the end panics
// instead of silently landing in spare capacity.
func exact(b []byte) []byte {
	out := make([]byte, len(b), len(b))
	copy(out, b)
	return out
}

func runCases(in string, sum *tl.Summary) {
	var cases []kase
	tl.ReadJSON(in, &cases)
	seen := map[string]bool{}
	bad := func(c kase, fn string, got []byte, want []int) {
		sum.Violate(fmt.Sprintf("%s(%v): implementation gives %v, specification %v", fn, c.Hex, toInts(got), want),
			tl.M{"case": c, "fn": fn, "got": toInts(got), "want": want})
	}
	for _, c := range cases {
		hex := toBytes(c.Hex)
		sum.Evaluations++
		key := fmt.Sprint(c.Hex)
		if !seen[key] {
			seen[key] = true
			sum.Distinct++
		}
		// HEX -> COMPACT
		got := trie.VerifHexToCompact(exact(hex))
		sum.Count("hexToCompact")
		if !same(got, c.Compact) {
			bad(c, "hexToCompact", got, c.Compact)
		}
		// in place (needs room for the flag byte: a non-empty buffer)
		if len(hex) > 0 {
			buf := exact(hex)
			got = trie.VerifHexToCompactInPlace(buf)
			sum.Count("hexToCompactInPlace")
			if !same(got, c.Compact) {
				bad(c, "hexToCompactInPlace", got, c.Compact)
			}
			// a buffer with spare capacity and trailing foreign bytes (the stacktrie reuses key buffers)
			big := append(exact(hex), 0xAA, 0xBB, 0x10)
			got = trie.VerifHexToCompactInPlace(big[:len(hex)])
			if !same(got, c.Compact) {
				bad(c, "hexToCompactInPlace(spare capacity)", got, c.Compact)
			}
			if big[len(hex)] != 0xAA || big[len(hex)+1] != 0xBB || big[len(hex)+2] != 0x10 {
				bad(c, "hexToCompactInPlace(wrote past the key)", big, c.Compact)
			}
		}
		// COMPACT -> HEX on the specification's compact form (independent of the Go encoder)
		back := trie.VerifCompactToHex(toBytes(c.Compact))
		sum.Count("compactToHex")
		if !same(back, c.Hex) || !same(back, c.Back) {
			bad(c, "compactToHex", back, c.Hex)
		}
		if trie.VerifHasTerm(hex) != c.Leaf {
			sum.Violate(fmt.Sprintf("hasTerm(%v) = %v, specification %v", c.Hex, !c.Leaf, c.Leaf), tl.M{"case": c, "fn": "hasTerm"})
		}
		if c.Even {
			kb := trie.VerifHexToKeybytes(exact(hex))
			sum.Count("hexToKeybytes")
			if !same(kb, c.Keybytes) {
				bad(c, "hexToKeybytes", kb, c.Keybytes)
			}
			// KEYBYTES -> HEX always appends the terminator
			want := append([]int{}, c.Hex...)
			if !c.Leaf {
				want = append(want, 16)
			}
			h2 := trie.VerifKeybytesToHex(toBytes(c.Keybytes))
			sum.Count("keybytesToHex")
			if !same(h2, want) {
				bad(c, "keybytesToHex", h2, want)
			}
			if len(c.Keybytes) > 0 {
				dst := make([]byte, 2*len(c.Keybytes))
				h3 := trie.VerifWriteHexKey(dst, toBytes(c.Keybytes))
				sum.Count("writeHexKey")
				if !same(h3, want[:len(want)-1]) {
					bad(c, "writeHexKey", h3, want[:len(want)-1])
				}
			}
		}
		sum.Steps++
		if sum.Evaluations%2500 == 7 {
			sum.Sample(c)
		}
	}
	sum.Rule = "every HEX key printed by TLC for the domain of the MC configuration (all nibble strings up to FullLen over 0..15 and up to SparseLen over {0,1,15}, with and without terminator) executed on all conversion functions; distinct = distinct HEX keys"
}

func runRecord(path string, seed int64, n int, sum *tl.Summary) {
	r := tl.Rand(seed)
	tr := tl.NewTrace(path)
	defer tr.Close()
	shapes := map[string]bool{}
	emit := func(fn string, in, out []byte) {
		tr.Emit(tl.M{"fn": fn, "in": toInts(in), "out": toInts(out)})
		sum.Count(fn)
	}
	for i := 0; i < n; i++ {
		// length classes: 0..8 densely, around 64 (full keys), around 128 (storage paths) and random
		var ln int
		switch r.Intn(6) {
		case 0:
			ln = r.Intn(9)
		case 1:
			ln = 62 + r.Intn(4)
		case 2:
			ln = 126 + r.Intn(4)
		default:
			ln = r.Intn(70)
		}
		hex := make([]byte, ln)
		for j := range hex {
			switch r.Intn(5) {
			case 0:
				hex[j] = 0
			case 1:
				hex[j] = 15
			default:
				hex[j] = byte(r.Intn(16))
			}
		}
		term := r.Intn(2) == 0
		if term {
			hex = append(hex, 16)
		}
		shape := fmt.Sprintf("%d/%v", ln, term)
		if !shapes[shape] {
			shapes[shape] = true
			sum.Distinct++
		}
		c := trie.VerifHexToCompact(exact(hex))
		emit("hexToCompact", hex, c)
		if len(hex) > 0 {
			emit("hexToCompactInPlace", hex, trie.VerifHexToCompactInPlace(exact(hex)))
		}
		emit("compactToHex", c, trie.VerifCompactToHex(exact(c)))
		if ln%2 == 0 {
			kb := trie.VerifHexToKeybytes(exact(hex))
			emit("hexToKeybytes", hex, kb)
			emit("keybytesToHex", kb, trie.VerifKeybytesToHex(exact(kb)))
			if len(kb) > 0 {
				emit("writeHexKey", kb, trie.VerifWriteHexKey(make([]byte, 2*len(kb)+r.Intn(3)), kb))
			}
		}
		// a canonical compact key drawn directly (not an image of the Go encoder)
		cl := 1 + r.Intn(34)
		cc := make([]byte, cl)
		r.Read(cc)
		flag := byte(r.Intn(4))
		if flag&1 == 1 {
			cc[0] = flag<<4 | cc[0]&0x0f
		} else {
			cc[0] = flag << 4
		}
		hx := trie.VerifCompactToHex(exact(cc))
		emit("compactToHex", cc, hx)
		emit("hexToCompact", hx, trie.VerifHexToCompact(exact(hx)))
		sum.Evaluations++
		if i < 2 {
			sum.Sample(tl.M{"hex": toInts(hex), "compact": toInts(c)})
		}
	}
	sum.Traces = 1
	sum.Steps = tr.N
	sum.Rule = "seeded random HEX keys (lengths 0..8, ~64, ~128, random <70; with/without terminator) and random canonical COMPACT keys; every call of the real functions logged as <<fn,in,out>>; distinct = distinct (length, terminator) shapes"
}

func main() {
	mode := flag.String("mode", "cases", "cases|record")
	in := flag.String("in", "", "cases json")
	trace := flag.String("trace", "trace.ndjson", "output trace")
	out := flag.String("out", "summary.json", "summary output")
	n := flag.Int("n", 500, "number of random keys")
	flag.Parse()
	seed := int64(tl.EnvInt("VERIF_SEED", 1))
	sum := tl.NewSummary("c10", *mode, seed)
	switch *mode {
	case "cases":
		sum.Mode = "replay"
		runCases(*in, sum)
	case "record":
		runRecord(*trace, seed, *n, sum)
	default:
		tl.Fatal("bad mode")
	}
	sum.Write(*out)
	if len(sum.Violations) > 0 {
		os.Exit(1)
	}
}
