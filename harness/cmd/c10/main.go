// c10 binds spec/codec/HexPrefix.tla to trie/encoding.go (property C10, hex-prefix
// encoding is a bijection).
//
//	-mode cases  -in cases.json   every HEX key of the TLC-enumerated domain with the results the
//	                               specification expects, executed on hexToCompact,
//	                               hexToCompactInPlace, compactToHex, hexToKeybytes, keybytesToHex,
//	                               writeHexKey (R)
//	-mode record -trace t.ndjson  seeded random long keys; one event <<fn, in, out>> per call of the
//	                               real functions, validated by HexPrefixTrace.tla (V)
package main

import (
	"flag"
	"fmt"
	"os"
	"reflect"

	"github.com/ethereum/go-ethereum/trie"
	tl "verif/harness/tracelib"
)

type kase struct {
	Hex      []int `json:"hex"`
	Compact  []int `json:"compact"`
	Back     []int `json:"back"`
	Even     bool  `json:"even"`
	Keybytes []int `json:"keybytes"`
	Leaf     bool  `json:"leaf"`
}

func toBytes(x []int) []byte {
	out := make([]byte, len(x))
	for i, v := range x {
		out[i] = byte(v)
	}
	return out
}

func toInts(b []byte) []int {
	out := make([]int, len(b))
	for i, v := range b {
		out[i] = int(v)
	}
	return out
}

// call runs one of the pure conversion functions; a panic of the function under test is caught and
// reported by the caller as a violation (totality on all keys is part of the bijection claim).
func call(f func([]byte) []byte, in []byte) (out []byte, panicked any) {
	defer func() {
		if r := recover(); r != nil {
			out, panicked = nil, r
		}
	}()
	return f(in), nil
}

func same(b []byte, want []int) bool { return reflect.DeepEqual(toInts(b), append([]int{}, want...)) }

// exact returns a copy whose capacity equals its length: a write past the end panics
// instead of silently landing in spare capacity.
func exact(b []byte) []byte {
	out := make([]byte, len(b), len(b))
	copy(out, b)
	return out
}

// short renders a key; long keys are abbreviated.
func short(x []int) string {
	if len(x) <= 40 {
		return fmt.Sprint(x)
	}
	return fmt.Sprintf("[len %d: %v ... %v]", len(x), x[:8], x[len(x)-8:])
}

func runCases(in string, sum *tl.Summary) {
	var cases []kase
	tl.ReadJSON(in, &cases)
	seen := map[string]bool{}
	bad := func(c kase, fn string, got []byte, want []int) {
		sum.Violate(fmt.Sprintf("%s(%s): implementation gives %s, specification %s", fn, short(c.Hex), short(toInts(got)), short(want)),
			tl.M{"case": c, "fn": fn, "got": toInts(got), "want": want})
	}
	// run executes fn on in; a panic is a violation
	run := func(c kase, fn string, f func([]byte) []byte, in []byte) ([]byte, bool) {
		out, p := call(f, in)
		if p != nil {
			sum.Violate(fmt.Sprintf("%s(%s) panicked: %v", fn, short(toInts(in)), p), tl.M{"case": c, "fn": fn, "panic": fmt.Sprint(p)})
			return nil, false
		}
		return out, true
	}
	for _, c := range cases {
		hex := toBytes(c.Hex)
		sum.Evaluations++
		key := fmt.Sprint(c.Hex)
		if !seen[key] {
			seen[key] = true
			sum.Distinct++
		}
		// HEX -> COMPACT
		got, ok := run(c, "hexToCompact", trie.VerifHexToCompact, exact(hex))
		sum.Count("hexToCompact")
		if ok && !same(got, c.Compact) {
			bad(c, "hexToCompact", got, c.Compact)
		}
		// in place (needs room for the flag byte: a non-empty buffer)
		if len(hex) > 0 {
			buf := exact(hex)
			got, ok = run(c, "hexToCompactInPlace", trie.VerifHexToCompactInPlace, buf)
			sum.Count("hexToCompactInPlace")
			if ok && !same(got, c.Compact) {
				bad(c, "hexToCompactInPlace", got, c.Compact)
			}
			// a buffer with spare capacity and trailing foreign bytes (the stacktrie reuses key buffers)
			big := append(exact(hex), 0xAA, 0xBB, 0x10)
			got, ok = run(c, "hexToCompactInPlace", trie.VerifHexToCompactInPlace, big[:len(hex)])
			if ok && !same(got, c.Compact) {
				bad(c, "hexToCompactInPlace(spare capacity)", got, c.Compact)
			}
			if big[len(hex)] != 0xAA || big[len(hex)+1] != 0xBB || big[len(hex)+2] != 0x10 {
				bad(c, "hexToCompactInPlace(wrote past the key)", big, c.Compact)
			}
		}
		// COMPACT -> HEX on the specification's compact form (independent of the Go encoder)
		back, ok := run(c, "compactToHex", trie.VerifCompactToHex, toBytes(c.Compact))
		sum.Count("compactToHex")
		if ok && (!same(back, c.Hex) || !same(back, c.Back)) {
			bad(c, "compactToHex", back, c.Hex)
		}
		if trie.VerifHasTerm(hex) != c.Leaf {
			sum.Violate(fmt.Sprintf("hasTerm(%v) = %v, specification %v", c.Hex, !c.Leaf, c.Leaf), tl.M{"case": c, "fn": "hasTerm"})
		}
		if c.Even {
			kb, ok := run(c, "hexToKeybytes", trie.VerifHexToKeybytes, exact(hex))
			sum.Count("hexToKeybytes")
			if ok && !same(kb, c.Keybytes) {
				bad(c, "hexToKeybytes", kb, c.Keybytes)
			}
			// KEYBYTES -> HEX always appends the terminator
			want := append([]int{}, c.Hex...)
			if !c.Leaf {
				want = append(want, 16)
			}
			h2, ok := run(c, "keybytesToHex", trie.VerifKeybytesToHex, toBytes(c.Keybytes))
			sum.Count("keybytesToHex")
			if ok && !same(h2, want) {
				bad(c, "keybytesToHex", h2, want)
			}
			if len(c.Keybytes) > 0 {
				dst := make([]byte, 2*len(c.Keybytes))
				h3, ok := run(c, "writeHexKey", func(k []byte) []byte { return trie.VerifWriteHexKey(dst, k) }, toBytes(c.Keybytes))
				sum.Count("writeHexKey")
				if ok && !same(h3, want[:len(want)-1]) {
					bad(c, "writeHexKey", h3, want[:len(want)-1])
				}
			}
		}
		sum.Steps++
		if sum.Evaluations%2500 == 7 {
			sum.Sample(c)
		}
	}
	sum.Rule = "every HEX key printed by TLC for the domain of the MC configuration (all nibble strings up to FullLen over 0..15 and up to SparseLen over {0,1,15}, with and without terminator) executed on all conversion functions; distinct = distinct HEX keys"
}

// pickLen draws a key length in nibbles: short keys densely, the usual 64/128, and the lengths at
// which 8-bit and 9-bit counters of an implementation would wrap (compact keys of 127..129 and
// 255..257 bytes, byte keys of 126..130 and 254..258 bytes), up to 1030 nibbles.
func pickLen(r interface{ Intn(int) int }) int {
	switch r.Intn(10) {
	case 0:
		return r.Intn(9)
	case 1:
		return 62 + r.Intn(4)
	case 2:
		return 126 + r.Intn(4)
	case 3, 4:
		return 250 + r.Intn(12) // 250..261
	case 5:
		return 506 + r.Intn(12) // 506..517
	case 6:
		return 1020 + r.Intn(10)
	case 7:
		return r.Intn(700)
	default:
		return r.Intn(70)
	}
}

func runRecord(path string, seed int64, n int, sum *tl.Summary) {
	r := tl.Rand(seed)
	tr := tl.NewTrace(path)
	defer tr.Close()
	shapes := map[string]bool{}
	// do runs fn on a private copy of in, logs <<fn, in, out>> and returns the buffer the function returned
	// (not a copy: the chains below keep working on returned buffers)
	do := func(fn string, f func([]byte) []byte, in []byte) []byte {
		arg := exact(in)
		out, p := call(f, arg)
		if p != nil {
			sum.Violate(fmt.Sprintf("%s(%s) panicked: %v", fn, short(toInts(in)), p), tl.M{"fn": fn, "in": toInts(in), "panic": fmt.Sprint(p)})
			return nil
		}
		tr.Emit(tl.M{"fn": fn, "in": toInts(in), "out": toInts(out)})
		sum.Count(fn)
		return out
	}
	inPlace := func(buf []byte) []byte { // on the buffer itself
		in := exact(buf)
		out, p := call(trie.VerifHexToCompactInPlace, buf)
		if p != nil {
			sum.Violate(fmt.Sprintf("hexToCompactInPlace(%s) panicked: %v", short(toInts(in)), p), tl.M{"fn": "hexToCompactInPlace", "in": toInts(in)})
			return nil
		}
		tr.Emit(tl.M{"fn": "hexToCompactInPlace", "in": toInts(in), "out": toInts(out)})
		sum.Count("hexToCompactInPlace")
		return out
	}
	for i := 0; i < n; i++ {
		ln := pickLen(r)
		hex := make([]byte, ln)
		for j := range hex {
			switch r.Intn(5) {
			case 0:
				hex[j] = 0
			case 1:
				hex[j] = 15
			default:
				hex[j] = byte(r.Intn(16))
			}
		}
		term := r.Intn(2) == 0
		if term {
			hex = append(hex, 16)
		}
		shape := fmt.Sprintf("%d/%v", ln, term)
		if !shapes[shape] {
			shapes[shape] = true
			sum.Distinct++
		}
		c := do("hexToCompact", trie.VerifHexToCompact, hex)
		if c == nil {
			continue
		}
		cin := exact(c) // the compact key as a value
		if len(hex) > 0 {
			inPlace(exact(hex))
		}
		// chain 1: decode, encode the RETURNED slice in place, decode the same compact key again
		back := do("compactToHex", trie.VerifCompactToHex, cin)
		if len(back) > 0 {
			inPlace(back)
		}
		do("compactToHex", trie.VerifCompactToHex, cin)
		// chain 2: encode, scribble over the returned buffer, encode the same key again
		for k := range c {
			c[k] ^= 0xa5
		}
		do("hexToCompact", trie.VerifHexToCompact, hex)
		if ln%2 == 0 {
			kb := do("hexToKeybytes", trie.VerifHexToKeybytes, hex)
			if kb != nil {
				kin := exact(kb)
				h2 := do("keybytesToHex", trie.VerifKeybytesToHex, kin)
				for k := range h2 {
					h2[k] = 0x77
				}
				do("keybytesToHex", trie.VerifKeybytesToHex, kin)
				if len(kin) > 0 {
					dst := make([]byte, 2*len(kin)+r.Intn(3))
					do("writeHexKey", func(k []byte) []byte { return trie.VerifWriteHexKey(dst, k) }, kin)
				}
			}
		}
		// a canonical compact key drawn directly (not an image of the Go encoder)
		cl := 1 + r.Intn(34)
		switch r.Intn(4) {
		case 0:
			cl = 126 + r.Intn(6) // 126..131 bytes
		case 1:
			cl = 254 + r.Intn(6) // 254..259 bytes
		}
		cc := make([]byte, cl)
		r.Read(cc)
		flag := byte(r.Intn(4))
		if flag&1 == 1 {
			cc[0] = flag<<4 | cc[0]&0x0f
		} else {
			cc[0] = flag << 4
		}
		if hx := do("compactToHex", trie.VerifCompactToHex, cc); hx != nil {
			do("hexToCompact", trie.VerifHexToCompact, hx)
		}
		sum.Evaluations++
		if i < 2 {
			sum.Sample(tl.M{"hex": short(toInts(hex)), "compact": short(toInts(cin))})
		}
	}
	sum.Traces = 1
	sum.Steps = tr.N
	sum.Rule = "seeded random HEX keys (lengths 0..8, ~64, ~128, 250..261, 506..517, 1020..1029, random <700; with/without terminator) and random canonical COMPACT keys (1..34, 126..131, 254..259 bytes); call chains on returned buffers (decode, encode the result in place, decode again; encode, overwrite the result, encode again); every call logged as <<fn,in,out>>; a panic is a violation; distinct = distinct (length, terminator) shapes"
}

// ---------------------------------------------------------------- buffer machine (R)

type mstep struct {
	Op  string  `json:"op"`
	I   int     `json:"i"`
	Mem [][]int `json:"mem"`
}

// runMem replays the behaviours of HexPrefixMem.tla on real Go slices: conversions return whatever
// slice the real function returns (kept, not copied), InPlace/Scribble/Push act on the kept slices,
// and after every step ALL buffers are compared with the specification.
func runMem(in string, sum *tl.Summary) {
	var bs [][]mstep
	tl.ReadJSON(in, &bs)
	seen := map[string]bool{}
	for bi, b := range bs {
		var bufs [][]byte
		ops := []string{}
		for si, st := range b {
			i := st.I - 1
			var p any
			switch st.Op {
			case "New":
				bufs = append(bufs, exact(toBytes(st.Mem[0])))
			case "hexToCompact":
				var out []byte
				out, p = call(trie.VerifHexToCompact, bufs[i])
				bufs = append(bufs, out)
			case "compactToHex":
				var out []byte
				out, p = call(trie.VerifCompactToHex, bufs[i])
				bufs = append(bufs, out)
			case "hexToCompactInPlace":
				bufs[i], p = call(trie.VerifHexToCompactInPlace, bufs[i])
			case "Scribble":
				for k := range bufs[i] {
					if bufs[i][k] == 1 {
						bufs[i][k] = 15
					} else {
						bufs[i][k] = 1
					}
				}
			case "Push":
				m := st.Mem[i]
				bufs[i] = append(bufs[i], byte(m[len(m)-1]))
			default:
				tl.Fatal("unknown op %q", st.Op)
			}
			ops = append(ops, fmt.Sprintf("%s(%d)", st.Op, st.I))
			sum.Steps++
			sum.Count(st.Op)
			if p != nil {
				sum.Violate(fmt.Sprintf("after %v: %s panicked: %v", ops, st.Op, p), tl.M{"behaviour": b[:si+1]})
				break
			}
			got := make([][]int, len(bufs))
			for k := range bufs {
				got[k] = toInts(bufs[k])
			}
			if !reflect.DeepEqual(norm(got), norm(st.Mem)) {
				sum.Violate(fmt.Sprintf("after %v (first buffer %v): the buffers are %v, specification %v", ops, b[0].Mem[0], got, st.Mem),
					tl.M{"behaviour": b[:si+1], "got": got})
				break
			}
		}
		sum.Evaluations++
		key := fmt.Sprint(ops, b[0].Mem)
		if !seen[key] {
			seen[key] = true
			sum.Distinct++
		}
		if bi%500 == 3 {
			sum.Sample(tl.M{"first": b[0].Mem[0], "ops": ops})
		}
		if len(sum.Violations) >= 20 {
			break
		}
	}
	sum.Rule = "every behaviour of the buffer machine HexPrefixMem (conversions returning buffers, in-place encoding, overwriting and appending to returned buffers; bounded depth) executed on real slices without copying results; all buffers compared after every step; distinct = distinct behaviours"
}

func norm(x [][]int) [][]int {
	out := make([][]int, len(x))
	for i := range x {
		out[i] = append([]int{}, x[i]...)
	}
	return out
}

func main() {
	mode := flag.String("mode", "cases", "cases|mem|record")
	in := flag.String("in", "", "cases json")
	trace := flag.String("trace", "trace.ndjson", "output trace")
	out := flag.String("out", "summary.json", "summary output")
	n := flag.Int("n", 500, "number of random keys")
	flag.Parse()
	seed := int64(tl.EnvInt("VERIF_SEED", 1))
	sum := tl.NewSummary("c10", *mode, seed)
	switch *mode {
	case "cases":
		sum.Mode = "replay"
		runCases(*in, sum)
	case "mem":
		sum.Mode = "replay"
		runMem(*in, sum)
	case "record":
		runRecord(*trace, seed, *n, sum)
	default:
		tl.Fatal("bad mode")
	}
	sum.Write(*out)
	if len(sum.Violations) > 0 {
		os.Exit(1)
	}
}
