package main

import tl "verif/harness/tracelib"

func runShapes(in string, sum *tl.Summary) { tl.Fatal("shapes mode not implemented yet") }
