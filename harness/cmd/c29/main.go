// c29 binds spec/evm/Frames.tla to the real EVM + StateDB (property C29: static and reverted
// frames have no lasting effects).
//
//	-mode record -trace t.ndjson   V: wrapper contracts (CALL/STATICCALL/DELEGATECALL/CALLCODE/
//	                               CREATE/CREATE2 around random callees that write state, revert,
//	                               fail, run out of gas) under every rule set; on every OnEnter /
//	                               OnExit (and every OnOpcode inside a static context) the tracer
//	                               projects the real StateDB over a small universe and logs it;
//	                               FramesTrace.tla validates the frame discipline
package main

import (
	"flag"
	"fmt"
	"math/big"
	"os"
	"sort"

	"github.com/ethereum/go-ethereum/common"
	"github.com/ethereum/go-ethereum/core/state"
	"github.com/ethereum/go-ethereum/core/tracing"
	"github.com/ethereum/go-ethereum/core/types"
	"github.com/ethereum/go-ethereum/core/vm"
	"github.com/ethereum/go-ethereum/core/vm/runtime"
	"github.com/holiman/uint256"

	ek "verif/harness/evmkit"
	tl "verif/harness/tracelib"
)

const nSlots = 4

// universe is the ordered set of accounts the projection covers (1-based indexes in the spec).
type universe struct {
	addrs []common.Address
	idx   map[common.Address]int
}

func newUniverse() *universe { return &universe{idx: map[common.Address]int{}} }
func (u *universe) add(a common.Address) {
	if _, ok := u.idx[a]; !ok {
		u.addrs = append(u.addrs, a)
		u.idx[a] = len(u.addrs) // 1-based
	}
}

// observer projects the real StateDB.
type observer struct {
	db    *state.StateDB
	u     *universe
	codes map[common.Hash]int // code hash -> small id (0 = no code)
	vals  map[common.Hash]int // big storage values -> negative ids
}

func (o *observer) val(h common.Hash) int64 {
	b := h.Big()
	if b.IsInt64() && b.Int64() < ek.Big {
		return b.Int64()
	}
	id, ok := o.vals[h]
	if !ok {
		id = -(len(o.vals) + 1)
		o.vals[h] = id
	}
	return int64(id)
}

func (o *observer) obs() tl.M {
	n := len(o.u.addrs)
	bal, nonce, code, sd := make([]int64, n), make([]int64, n), make([]int, n), make([]int, n)
	st, ts := make([][]int64, n), make([][]int64, n)
	wa, ws := make([]bool, n), make([][]bool, n)
	for i, a := range o.u.addrs {
		bal[i] = ek.Clip(o.db.GetBalance(a).Uint64())
		if !o.db.GetBalance(a).IsUint64() {
			bal[i] = ek.Big
		}
		nonce[i] = ek.Clip(o.db.GetNonce(a))
		if c := o.db.GetCode(a); len(c) > 0 {
			h := o.db.GetCodeHash(a)
			id, ok := o.codes[h]
			if !ok {
				id = len(o.codes) + 1
				o.codes[h] = id
			}
			code[i] = id
		}
		if o.db.HasSelfDestructed(a) {
			sd[i] = 1
		}
		st[i], ts[i], ws[i] = make([]int64, nSlots), make([]int64, nSlots), make([]bool, nSlots)
		for s := 0; s < nSlots; s++ {
			k := common.BigToHash(big.NewInt(int64(s)))
			st[i][s] = o.val(o.db.GetState(a, k))
			ts[i][s] = o.val(o.db.GetTransientState(a, k))
			_, ws[i][s] = o.db.SlotInAccessList(a, k)
		}
		wa[i] = o.db.AddressInAccessList(a)
	}
	return tl.M{"bal": bal, "nonce": nonce, "code": code, "sd": sd, "st": st, "ts": ts,
		"logs": len(o.db.Logs()), "refund": ek.Clip(o.db.GetRefund()), "wa": wa, "ws": ws}
}

func kindOf(typ byte) string {
	switch vm.OpCode(typ) {
	case vm.STATICCALL:
		return "static"
	case vm.CREATE, vm.CREATE2:
		return "create"
	}
	return "call" // CALL, CALLCODE, DELEGATECALL and the SELFDESTRUCT notification
}

type recorder struct {
	tr        *tl.Trace
	o         *observer
	collect   bool // dry run: only collect the addresses that appear
	static    []bool
	events    int
	maxEvents int
	trunc     bool
	frames    int
	failed    int
	staticFr  int
	kinds     map[string]int
	maxDepth  int
}

func (r *recorder) emit(ev tl.M) {
	if r.trunc || r.collect {
		return
	}
	if r.maxEvents > 0 && r.events >= r.maxEvents {
		r.trunc = true
		return
	}
	r.events++
	r.tr.Emit(ev)
}

func (r *recorder) inStatic() bool { return len(r.static) > 0 && r.static[len(r.static)-1] }

func (r *recorder) hooks() *tracing.Hooks {
	return &tracing.Hooks{
		OnEnter: func(depth int, typ byte, from, to common.Address, input []byte, gas uint64, value *big.Int) {
			if r.collect {
				r.o.u.add(from)
				r.o.u.add(to)
				return
			}
			k := kindOf(typ)
			r.static = append(r.static, k == "static" || r.inStatic())
			r.frames++
			if r.inStatic() {
				r.staticFr++
			}
			r.kinds[vm.OpCode(typ).String()]++
			if depth > r.maxDepth {
				r.maxDepth = depth
			}
			creator, created := 0, 0
			if k == "create" {
				creator, created = r.o.u.idx[from], r.o.u.idx[to]
			}
			r.emit(tl.M{"op": "enter", "d": depth, "kind": k, "creator": creator, "created": created, "obs": r.o.obs()})
		},
		OnExit: func(depth int, output []byte, gasUsed uint64, err error, reverted bool) {
			if r.collect {
				return
			}
			if len(r.static) > 0 {
				r.static = r.static[:len(r.static)-1]
			}
			if reverted {
				r.failed++
			}
			r.emit(tl.M{"op": "exit", "d": depth, "err": ek.ErrClass(err), "rev": reverted, "obs": r.o.obs()})
		},
		OnOpcode: func(pc uint64, op byte, gas, cost uint64, scope tracing.OpContext, rData []byte, depth int, err error) {
			if r.collect || !r.inStatic() {
				return
			}
			r.emit(tl.M{"op": "step", "d": depth, "obs": r.o.obs()})
		},
	}
}

func newState(p *ek.Program) *state.StateDB {
	db, err := state.New(types.EmptyRootHash, state.NewDatabaseForTesting())
	if err != nil {
		tl.Fatal("state.New: %v", err)
	}
	db.SetBalance(ek.Origin, uint256.NewInt(1_000_000), tracing.BalanceChangeUnspecified)
	hs := make([]common.Address, 0, len(p.Helpers))
	for a := range p.Helpers {
		hs = append(hs, a)
	}
	sort.Slice(hs, func(i, j int) bool { return hs[i].Cmp(hs[j]) < 0 })
	for _, a := range hs {
		db.CreateAccount(a)
		db.SetCode(a, p.Helpers[a], tracing.CodeChangeUnspecified)
		db.SetBalance(a, uint256.NewInt(1000), tracing.BalanceChangeUnspecified)
		db.SetState(a, common.BigToHash(big.NewInt(1)), common.BigToHash(big.NewInt(5))) // a slot that can be cleared
	}
	return db
}

// execute runs the program once with the given hooks; panics are reported as infrastructure
// problems of this driver (C27 is the property about panics).
func execute(f ek.Fork, p *ek.Program, gas uint64, hooks *tracing.Hooks, bind func(db *state.StateDB)) error {
	db := newState(p)
	if !p.Create {
		db.CreateAccount(ek.Main)
		db.SetCode(ek.Main, p.Code, tracing.CodeChangeUnspecified)
		db.SetBalance(ek.Main, uint256.NewInt(1000), tracing.BalanceChangeUnspecified)
		db.SetState(ek.Main, common.BigToHash(big.NewInt(1)), common.BigToHash(big.NewInt(5)))
	}
	// make the pre-state "committed" so that original-value dependent logic sees it
	db.Finalise(f.Config.Rules(big.NewInt(1), f.Merge, 1))
	bind(db)
	cfg := &runtime.Config{
		ChainConfig: f.Config, Origin: ek.Origin, Coinbase: common.HexToAddress("0xc0ffee"),
		BlockNumber: big.NewInt(1), Time: 1, GasLimit: gas, Value: new(big.Int).SetUint64(p.Value),
		Difficulty: big.NewInt(1), State: db, EVMConfig: vm.Config{Tracer: hooks},
	}
	var err error
	if p.Create {
		_, _, _, err = runtime.Create(p.Code, cfg)
	} else {
		_, _, err = runtime.Call(ek.Main, p.Input, cfg)
	}
	return err
}

func runRecord(path string, seed int64, n, maxEvents int, sum *tl.Summary) {
	r := tl.Rand(seed)
	tr := tl.NewTrace(path)
	defer tr.Close()
	forks := ek.Forks()
	kinds := map[string]int{}
	totalFrames, failedFrames, staticFrames, truncated, maxDepth := 0, 0, 0, 0, 0
	shapes := map[string]bool{}
	for i := 0; i < n; i++ {
		p := ek.GenFramesProgram(r)
		gas := uint64(60000 + r.Intn(600000))
		nf := 2 + r.Intn(2)
		for k := 0; k < nf; k++ {
			f := forks[(i*5+k*6+int(seed))%len(forks)]
			// pass 1: collect the accounts that appear (callers, callees, created contracts)
			u := newUniverse()
			for _, a := range []common.Address{ek.Origin, ek.Main, ek.HelperA, ek.HelperB, ek.HelperC, ek.NoSuch} {
				u.add(a)
			}
			obsv := &observer{u: u, codes: map[common.Hash]int{}, vals: map[common.Hash]int{}}
			rec := &recorder{tr: tr, o: obsv, collect: true, kinds: kinds}
			execute(f, p, gas, rec.hooks(), func(db *state.StateDB) { obsv.db = db })
			if len(u.addrs) > 14 {
				u.addrs = u.addrs[:14] // keep the projection small; frames on other accounts are still checked through it
				for a, ix := range u.idx {
					if ix > 14 {
						delete(u.idx, a)
					}
				}
			}
			// pass 2: the same execution (deterministic), recorded with the fixed universe
			rec = &recorder{tr: tr, o: obsv, maxEvents: maxEvents, kinds: kinds}
			tr.Emit(tl.M{"op": "reset", "fork": f.Idx})
			err := execute(f, p, gas, rec.hooks(), func(db *state.StateDB) { obsv.db = db })
			totalFrames += rec.frames
			failedFrames += rec.failed
			staticFrames += rec.staticFr
			if rec.trunc {
				truncated++
			}
			if rec.maxDepth > maxDepth {
				maxDepth = rec.maxDepth
			}
			sum.Traces++
			sum.Evaluations++
			key := fmt.Sprintf("%d/%d/%d/%d/%s", f.Idx, rec.frames, rec.failed, rec.staticFr, ek.ErrClass(err))
			if !shapes[key] && rec.frames > 1 {
				shapes[key] = true
				sum.Distinct++
			}
			if sum.Traces%41 == 1 {
				sum.Sample(tl.M{"fork": f.Name, "code": common.Bytes2Hex(p.Code), "gas": gas, "frames": rec.frames,
					"failed_frames": rec.failed, "static_frames": rec.staticFr, "err": ek.ErrClass(err)})
			}
		}
	}
	// directed matrix: frame kind x effect of the inner frame x its ending x (outer frame stops / reverts),
	// each under a seeded rule set on which the scenario's instructions exist
	directed := 0
	for ki, kind := range ek.FrameKinds {
		for ei, e := range ek.FrameEffects {
			for gi, ending := range ek.FrameEndings {
				for oi, outerFails := range []bool{false, true} {
					lo := ek.MinFork(kind, e, ending)
					if outerFails && lo < ek.Byzantium {
						lo = ek.Byzantium
					}
					f := forks[lo+(int(seed)*7+ki*5+ei*3+gi*2+oi)%(len(forks)-lo)]
					p := ek.DirectedFrames(kind, e, ending, outerFails)
					u := newUniverse()
					for _, a := range []common.Address{ek.Origin, ek.Main, ek.HelperA, ek.HelperB, ek.HelperC, ek.NoSuch} {
						u.add(a)
					}
					obsv := &observer{u: u, codes: map[common.Hash]int{}, vals: map[common.Hash]int{}}
					rec := &recorder{tr: tr, o: obsv, collect: true, kinds: kinds}
					execute(f, p, 400000, rec.hooks(), func(db *state.StateDB) { obsv.db = db })
					rec = &recorder{tr: tr, o: obsv, maxEvents: maxEvents, kinds: kinds}
					tr.Emit(tl.M{"op": "reset", "fork": f.Idx})
					execute(f, p, 400000, rec.hooks(), func(db *state.StateDB) { obsv.db = db })
					totalFrames += rec.frames
					failedFrames += rec.failed
					staticFrames += rec.staticFr
					sum.Traces++
					sum.Evaluations++
					sum.Distinct++
					directed++
				}
			}
		}
	}
	sum.Extra["directed_scenarios"] = directed
	sum.Steps = tr.N
	for k, v := range kinds {
		sum.Counts["frame:"+k] = v
	}
	sum.Extra["frames"] = totalFrames
	sum.Extra["failed_frames"] = failedFrames
	sum.Extra["frames_in_static_context"] = staticFrames
	sum.Extra["truncated_executions"] = truncated
	sum.Extra["max_depth"] = maxDepth
	sum.Rule = "seeded wrapper programs x rule sets; distinct = distinct (rule set, #frames, #failed frames, #static frames, result class) with more than one frame"
}

func main() {
	mode := flag.String("mode", "record", "record")
	trace := flag.String("trace", "trace.ndjson", "output trace (mode record)")
	out := flag.String("out", "summary.json", "summary output")
	n := flag.Int("n", 40, "number of generated programs")
	maxEvents := flag.Int("maxevents", 300, "logged events per execution (0 = all)")
	flag.Parse()
	seed := int64(tl.EnvInt("VERIF_SEED", 1))
	sum := tl.NewSummary("c29", *mode, seed)
	switch *mode {
	case "record":
		runRecord(*trace, seed, *n, *maxEvents, sum)
	default:
		tl.Fatal("bad mode")
	}
	sum.Write(*out)
	if len(sum.Violations) > 0 {
		os.Exit(1)
	}
}
