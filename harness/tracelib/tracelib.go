// Package tracelib is the shared plumbing of the conformance drivers: ndjson trace
// emission (one JSON object per spec action), the driver summary consumed by
// bin/check, and seeded randomness.
package tracelib

import (
	"bufio"
	"encoding/json"
	"fmt"
	"math/rand"
	"os"
	"strconv"
)

// Trace writes newline-delimited JSON events.
type Trace struct {
	f *os.File
	w *bufio.Writer
	N int
}

func NewTrace(path string) *Trace {
	f, err := os.Create(path)
	if err != nil {
		Fatal("create trace: %v", err)
	}
	return &Trace{f: f, w: bufio.NewWriterSize(f, 1<<20)}
}

// Emit writes one event. ev must marshal to a JSON object.
func (t *Trace) Emit(ev any) {
	b, err := json.Marshal(ev)
	if err != nil {
		Fatal("marshal event: %v", err)
	}
	t.w.Write(b)
	t.w.WriteByte('\n')
	t.N++
}

func (t *Trace) Close() {
	t.w.Flush()
	t.f.Close()
}

// M is a convenience alias for ad-hoc JSON objects.
type M = map[string]any

// Violation describes one divergence between the implementation and the
// specification, found by the driver itself (replay mode).
type Violation struct {
	Desc   string `json:"desc"`
	Replay any    `json:"replay"`
}

// Summary is what a driver reports to bin/check (written as JSON to -out).
type Summary struct {
	Driver      string         `json:"driver"`
	Mode        string         `json:"mode"`
	Seed        int64          `json:"seed"`
	Evaluations int            `json:"evaluations"` // behaviours replayed / calls recorded
	Distinct    int            `json:"distinct"`    // distinct non-trivial cases (driver-defined rule)
	Rule        string         `json:"rule,omitempty"`
	Steps       int            `json:"steps"` // total steps / events
	Traces      int            `json:"traces"`
	Counts      map[string]int `json:"counts,omitempty"` // per-action counts
	Samples     []any          `json:"samples,omitempty"`
	Violations  []Violation    `json:"violations"`
	Notes       []string       `json:"notes,omitempty"`
	Extra       map[string]any `json:"extra,omitempty"`
}

func NewSummary(driver, mode string, seed int64) *Summary {
	return &Summary{Driver: driver, Mode: mode, Seed: seed, Counts: map[string]int{}, Violations: []Violation{}, Extra: map[string]any{}}
}

func (s *Summary) Count(k string) { s.Counts[k]++ }

func (s *Summary) Sample(v any) {
	if len(s.Samples) < 5 {
		s.Samples = append(s.Samples, v)
	}
}

// Violate records a divergence; at most 20 are kept.
func (s *Summary) Violate(desc string, replay any) {
	if len(s.Violations) < 20 {
		s.Violations = append(s.Violations, Violation{Desc: desc, Replay: replay})
	}
}

func (s *Summary) Write(path string) {
	b, err := json.MarshalIndent(s, "", " ")
	if err != nil {
		Fatal("marshal summary: %v", err)
	}
	if err := os.WriteFile(path, b, 0o644); err != nil {
		Fatal("write summary: %v", err)
	}
}

// Fatal reports an infrastructure problem (never a property verdict): exit 2.
func Fatal(format string, a ...any) {
	fmt.Fprintf(os.Stderr, "INFRA: "+format+"\n", a...)
	os.Exit(2)
}

// Rand returns a deterministic PRNG for the seed.
func Rand(seed int64) *rand.Rand { return rand.New(rand.NewSource(seed)) }

// EnvInt reads an integer from the environment.
func EnvInt(name string, def int) int {
	if v := os.Getenv(name); v != "" {
		if n, err := strconv.Atoi(v); err == nil {
			return n
		}
	}
	return def
}

// ReadJSON loads a JSON file into v.
func ReadJSON(path string, v any) {
	b, err := os.ReadFile(path)
	if err != nil {
		Fatal("read %s: %v", path, err)
	}
	if err := json.Unmarshal(b, v); err != nil {
		Fatal("parse %s: %v", path, err)
	}
}

// ReadNDJSON loads newline-delimited JSON objects.
func ReadNDJSON(path string) []map[string]any {
	f, err := os.Open(path)
	if err != nil {
		Fatal("open %s: %v", path, err)
	}
	defer f.Close()
	var out []map[string]any
	sc := bufio.NewScanner(f)
	sc.Buffer(make([]byte, 1<<20), 1<<28)
	for sc.Scan() {
		if len(sc.Bytes()) == 0 {
			continue
		}
		var m map[string]any
		if err := json.Unmarshal(sc.Bytes(), &m); err != nil {
			Fatal("parse line of %s: %v", path, err)
		}
		out = append(out, m)
	}
	return out
}
