package blockkit

import (
	"fmt"
	"math/big"
	"math/rand"

	"github.com/ethereum/go-ethereum/common"
	"github.com/ethereum/go-ethereum/core"
	"github.com/ethereum/go-ethereum/core/rawdb"
	"github.com/ethereum/go-ethereum/core/types"
	"github.com/ethereum/go-ethereum/core/vm"
	"github.com/ethereum/go-ethereum/ethdb"
)

// NewBlockChain opens a fresh in-memory chain on the kit's genesis.
func (k *Kit) NewBlockChain(mod func(*core.BlockChainConfig)) (*core.BlockChain, ethdb.Database, error) {
	db := rawdb.NewMemoryDatabase()
	cfg := core.DefaultConfig().WithArchive(true)
	cfg.SnapshotLimit = 0
	if mod != nil {
		mod(cfg)
	}
	bc, err := core.NewBlockChain(db, k.Gspec, k.Engine(), cfg)
	return bc, db, err
}

// Chain is the generator-side ("oracle") chain: blocks are produced one at a time with
// core.GenerateChain on top of a live archive BlockChain (hash scheme) that imports every
// generated block sequentially, so BLOCKHASH and multi-block state are available.
type Chain struct {
	K        *Kit
	DB       ethdb.Database
	BC       *core.BlockChain
	Blocks   []*types.Block
	Receipts []types.Receipts
}

// NewChain creates the oracle chain. Its importer runs the sequential processor.
func (k *Kit) NewChain() (*Chain, error) {
	bc, db, err := k.NewBlockChain(func(c *core.BlockChainConfig) {
		c.VmConfig = vm.Config{DisableParallelExecution: true}
	})
	if err != nil {
		return nil, err
	}
	return &Chain{K: k, DB: db, BC: bc}, nil
}

func (c *Chain) Close() { c.BC.Stop() }

// Head returns the current head block of the oracle chain.
func (c *Chain) Head() *types.Block {
	h := c.BC.CurrentBlock()
	return c.BC.GetBlock(h.Hash(), h.Number.Uint64())
}

// Extend generates one block on the head with gen and imports it into the oracle chain.
// A panic inside the chain maker (consensus-invalid transaction: a generator bug) is
// returned as an error.
func (c *Chain) Extend(gen func(b *core.BlockGen)) (blk *types.Block, rcpts types.Receipts, err error) {
	defer func() {
		if r := recover(); r != nil {
			err = fmt.Errorf("chain maker panicked: %v", r)
		}
	}()
	blocks, receipts := core.GenerateChain(c.K.Config, c.Head(), c.K.Engine(), c.DB, 1, func(_ int, b *core.BlockGen) { gen(b) })
	if _, err := c.BC.InsertChain(blocks); err != nil {
		return nil, nil, fmt.Errorf("oracle chain rejected generated block %d: %w", blocks[0].NumberU64(), err)
	}
	c.Blocks = append(c.Blocks, blocks[0])
	c.Receipts = append(c.Receipts, receipts[0])
	return blocks[0], receipts[0], nil
}

// BlockOpts steers ExtendRandom.
type BlockOpts struct {
	MaxTxs      int
	Withdrawals bool
}

// ExtendRandom appends one block of ntx seeded random interacting transactions.
// It returns the block, its receipts and the kinds of the included transactions.
func (c *Chain) ExtendRandom(r *rand.Rand, ntx int, opts BlockOpts) (*types.Block, types.Receipts, []string, error) {
	specs := make([]TxSpec, ntx)
	for i := range specs {
		specs[i] = c.K.RandTx(r)
	}
	coinbase := c.K.anyAddr(r)
	var beacon common.Hash
	r.Read(beacon[:])
	nwd := 0
	if opts.Withdrawals {
		nwd = r.Intn(3)
	}
	wds := make([]*types.Withdrawal, nwd)
	for i := range wds {
		wds[i] = &types.Withdrawal{Validator: uint64(r.Intn(100)), Address: c.K.anyAddr(r), Amount: uint64(r.Intn(3)) * 1_000}
	}
	return c.ExtendSpecs(specs, coinbase, &beacon, wds)
}

// ExtendSpecs appends one block holding the given intents in order.
func (c *Chain) ExtendSpecs(specs []TxSpec, coinbase common.Address, beaconRoot *common.Hash, wds []*types.Withdrawal) (*types.Block, types.Receipts, []string, error) {
	var kinds []string
	blk, rc, err := c.Extend(func(b *core.BlockGen) {
		b.SetCoinbase(coinbase)
		if beaconRoot != nil {
			b.SetParentBeaconRoot(*beaconRoot)
		}
		for _, sp := range specs {
			from := c.K.Addrs[sp.From]
			var an uint64
			if sp.AuthKey >= 0 {
				an = b.TxNonce(c.K.Addrs[sp.AuthKey])
			}
			tx := c.K.Sign(sp, b.TxNonce(from), b.BaseFee(), an)
			b.AddTxWithChain(c.BC, tx)
			kinds = append(kinds, sp.Kind)
		}
		for _, w := range wds {
			b.AddWithdrawal(w)
		}
	})
	return blk, rc, kinds, err
}

// Replica opens a fresh chain on the same genesis and imports the first n generated blocks
// with the sequential processor, so that block n (0-based) can be tested on top of it.
func (c *Chain) Replica(n int, mod func(*core.BlockChainConfig)) (*core.BlockChain, ethdb.Database, error) {
	bc, db, err := c.K.NewBlockChain(mod)
	if err != nil {
		return nil, nil, err
	}
	if n > 0 {
		pre := make(types.Blocks, n)
		for i := range pre {
			pre[i] = StripBAL(c.Blocks[i])
		}
		if _, err := bc.InsertChain(pre); err != nil {
			bc.Stop()
			return nil, nil, fmt.Errorf("replica import: %w", err)
		}
	}
	return bc, db, nil
}

// StripBAL returns the block without an attached access list (header unchanged), which
// forces the importer onto the sequential path.
func StripBAL(b *types.Block) *types.Block {
	if b.AccessList() == nil {
		return b
	}
	return types.NewBlockWithHeader(b.Header()).WithBody(*b.Body())
}

// Big is shorthand.
func Big(v int64) *big.Int { return big.NewInt(v) }
