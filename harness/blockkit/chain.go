package blockkit

import (
	"fmt"
	"github.com/ethereum/go-ethereum/crypto"
	"github.com/ethereum/go-ethereum/params"
	"math/big"
	"math/rand"

	"github.com/ethereum/go-ethereum/common"
	"github.com/ethereum/go-ethereum/core"
	"github.com/ethereum/go-ethereum/core/rawdb"
	"github.com/ethereum/go-ethereum/core/types"
	"github.com/ethereum/go-ethereum/core/vm"
	"github.com/ethereum/go-ethereum/ethdb"
)

// NewBlockChain opens a fresh in-memory chain on the kit's genesis.
func (k *Kit) NewBlockChain(mod func(*core.BlockChainConfig)) (*core.BlockChain, ethdb.Database, error) {
	db := rawdb.NewMemoryDatabase()
	cfg := core.DefaultConfig().WithArchive(true)
	cfg.SnapshotLimit = 0
	if mod != nil {
		mod(cfg)
	}
	bc, err := core.NewBlockChain(db, k.Gspec, k.Engine(), cfg)
	return bc, db, err
}

// Chain is the generator-side ("oracle") chain: blocks are produced one at a time with
// core.GenerateChain on top of a live archive BlockChain (hash scheme) that imports every
// generated block sequentially, so BLOCKHASH and multi-block state are available.
type Chain struct {
	K        *Kit
	DB       ethdb.Database
	BC       *core.BlockChain
	Blocks   []*types.Block
	Receipts []types.Receipts
}

// NewChain creates the oracle chain. Its importer runs the sequential processor.
func (k *Kit) NewChain() (*Chain, error) {
	bc, db, err := k.NewBlockChain(func(c *core.BlockChainConfig) {
		c.VmConfig = vm.Config{DisableParallelExecution: true}
	})
	if err != nil {
		return nil, err
	}
	return &Chain{K: k, DB: db, BC: bc}, nil
}

func (c *Chain) Close() { c.BC.Stop() }

// Head returns the current head block of the oracle chain.
func (c *Chain) Head() *types.Block {
	h := c.BC.CurrentBlock()
	return c.BC.GetBlock(h.Hash(), h.Number.Uint64())
}

// Extend generates one block on the head with gen and imports it into the oracle chain.
// A panic inside the chain maker (consensus-invalid transaction: a generator bug) is
// returned as an error.
func (c *Chain) Extend(gen func(b *core.BlockGen)) (blk *types.Block, rcpts types.Receipts, err error) {
	defer func() {
		if r := recover(); r != nil {
			err = fmt.Errorf("chain maker panicked: %v", r)
		}
	}()
	blocks, receipts := core.GenerateChain(c.K.Config, c.Head(), c.K.Engine(), c.DB, 1, func(_ int, b *core.BlockGen) { gen(b) })
	if _, err := c.BC.InsertChain(blocks); err != nil {
		return nil, nil, fmt.Errorf("oracle chain rejected generated block %d: %w", blocks[0].NumberU64(), err)
	}
	c.Blocks = append(c.Blocks, blocks[0])
	c.Receipts = append(c.Receipts, receipts[0])
	return blocks[0], receipts[0], nil
}

// BlockOpts steers ExtendRandom.
type BlockOpts struct {
	MaxTxs      int
	Withdrawals bool
}

// ExtendRandom appends one block of ntx seeded random interacting transactions.
// It returns the block, its receipts and the kinds of the included transactions.
func (c *Chain) ExtendRandom(r *rand.Rand, ntx int, opts BlockOpts) (*types.Block, types.Receipts, []string, error) {
	specs := make([]TxSpec, ntx)
	for i := range specs {
		specs[i] = c.K.RandTx(r)
	}
	coinbase := c.K.anyAddr(r)
	var beacon common.Hash
	r.Read(beacon[:])
	nwd := 0
	if opts.Withdrawals {
		nwd = r.Intn(3)
	}
	wds := make([]*types.Withdrawal, nwd)
	for i := range wds {
		wds[i] = &types.Withdrawal{Validator: uint64(r.Intn(100)), Address: c.K.anyAddr(r), Amount: uint64(r.Intn(3)) * 1_000}
	}
	return c.ExtendSpecs(specs, coinbase, &beacon, wds)
}

// ExtendSpecs appends one block holding the given intents in order.
func (c *Chain) ExtendSpecs(specs []TxSpec, coinbase common.Address, beaconRoot *common.Hash, wds []*types.Withdrawal) (*types.Block, types.Receipts, []string, error) {
	var kinds []string
	blk, rc, err := c.Extend(func(b *core.BlockGen) {
		b.SetCoinbase(coinbase)
		if beaconRoot != nil {
			b.SetParentBeaconRoot(*beaconRoot)
		}
		for _, sp := range specs {
			from := c.K.Addrs[sp.From]
			var an uint64
			if sp.AuthKey >= 0 {
				an = b.TxNonce(c.K.Addrs[sp.AuthKey])
			}
			tx := c.K.Sign(sp, b.TxNonce(from), b.BaseFee(), an)
			b.AddTxWithChain(c.BC, tx)
			kinds = append(kinds, sp.Kind)
		}
		for _, w := range wds {
			b.AddWithdrawal(w)
		}
	})
	return blk, rc, kinds, err
}

// Replica opens a fresh chain on the same genesis and imports the first n generated blocks
// with the sequential processor, so that block n (0-based) can be tested on top of it.
func (c *Chain) Replica(n int, mod func(*core.BlockChainConfig)) (*core.BlockChain, ethdb.Database, error) {
	bc, db, err := c.K.NewBlockChain(mod)
	if err != nil {
		return nil, nil, err
	}
	if n > 0 {
		pre := make(types.Blocks, n)
		for i := range pre {
			pre[i] = StripBAL(c.Blocks[i])
		}
		if _, err := bc.InsertChain(pre); err != nil {
			bc.Stop()
			return nil, nil, fmt.Errorf("replica import: %w", err)
		}
	}
	return bc, db, nil
}

// StripBAL returns the block without an attached access list (header unchanged), which
// forces the importer onto the sequential path.
func StripBAL(b *types.Block) *types.Block {
	if b.AccessList() == nil {
		return b
	}
	return types.NewBlockWithHeader(b.Header()).WithBody(*b.Body())
}

// Big is shorthand.
func Big(v int64) *big.Int { return big.NewInt(v) }

// Script is a hand-written block that pins down an interaction pattern which random generation
// hits only rarely (code touched by size only, accounts created and probed in one block, ...).
type Script struct {
	Name  string
	Specs []TxSpec
}

// Scripts returns the scripted blocks for a FRESH chain of this kit (block 1, 2, ... in this order):
// the addresses of created contracts are derived from the creators' nonces at genesis.
func (k *Kit) Scripts() []Script {
	var (
		facNonce = uint64(1) // Factory is allocated with nonce 1
		keyNonce = map[int]uint64{}
		zero     = new(big.Int)
		mk       = func(kind string, from int, to *common.Address, val int64, data []byte) TxSpec {
			keyNonce[from]++
			return TxSpec{Kind: "script-" + kind, From: from, To: to, Value: big.NewInt(val), Gas: 3_000_000, Data: data, Tip: 2, AuthKey: -1}
		}
		ptr       = func(a common.Address) *common.Address { return &a }
		nextChild = func() common.Address { a := crypto.CreateAddress(k.C.Factory, facNonce); facNonce++; return a }
	)
	_ = zero
	var out []Script
	// S1: create an account with EMPTY code and no balance (only its nonce makes it exist), then probe it,
	//     call it and send value to it from later transactions of the same block
	{
		child := nextChild()
		out = append(out, Script{"create-empty-then-probe", []TxSpec{
			mk("factory", 0, ptr(k.C.Factory), 0, InitEmpty),
			mk("prober", 1, ptr(k.C.Prober), 0, addrWord(child)),
			mk("caller", 2, ptr(k.C.Caller), 5, cat(addrWord(child))),
			mk("transfer", 0, ptr(child), 1000, nil),
			mk("prober", 1, ptr(k.C.Prober), 0, addrWord(child)),
		}})
	}
	// S2: create a counter with constructor storage, then call, delegate to and probe it
	{
		child := nextChild()
		out = append(out, Script{"create-then-use", []TxSpec{
			mk("factory", 0, ptr(k.C.Factory), 11, InitCounterWithStorage),
			mk("caller", 1, ptr(k.C.Caller), 0, cat(addrWord(child))),
			mk("delegator", 2, ptr(k.C.Delegator), 0, cat(addrWord(child))),
			mk("prober", 0, ptr(k.C.Prober), 0, addrWord(child)),
			mk("counter", 1, ptr(child), 0, nil),
		}})
	}
	// S3: code touched through EXTCODESIZE / EXTCODEHASH only; balance probes of untouched and fresh accounts
	{
		fresh := common.BytesToAddress([]byte{0xf1, 0x01})
		out = append(out, Script{"size-only-code-access", []TxSpec{
			mk("prober", 0, ptr(k.C.Prober), 0, addrWord(k.C.Burner)),
			mk("prober", 1, ptr(k.C.Prober), 0, addrWord(k.C.BlockHash2)),
			mk("prober", 2, ptr(k.C.Prober), 0, addrWord(fresh)),
			mk("transfer", 0, ptr(fresh), 7, nil),
			mk("prober", 1, ptr(k.C.Prober), 0, addrWord(fresh)),
		}})
	}
	// S4: CREATE2 of a contract that self-destructs in its constructor, twice with the same salt, and a probe
	{
		init := InitEphemeral
		salt := common.Hash{}
		child := crypto.CreateAddress2(k.C.Factory2, salt, crypto.Keccak256(init))
		out = append(out, Script{"create2-ephemeral-twice", []TxSpec{
			mk("factory2", 0, ptr(k.C.Factory2), 3, cat(word(0), init)),
			mk("prober", 1, ptr(k.C.Prober), 0, addrWord(child)),
			mk("factory2", 2, ptr(k.C.Factory2), 0, cat(word(0), init)),
			mk("factory2", 0, ptr(k.C.Factory2), 0, cat(word(0), InitReturning(CodeStore))),
			mk("factory2", 1, ptr(k.C.Factory2), 0, cat(word(0), InitReturning(CodeStore))), // address collision
		}})
	}
	// S5: one slot written by several transactions incl. back to zero and back to the original value
	out = append(out, Script{"multi-write-slot", []TxSpec{
		mk("store", 0, ptr(k.C.Store), 0, cat(word(2), word(9))),
		mk("store", 1, ptr(k.C.Store), 0, cat(word(2), word(0))),
		mk("store", 2, ptr(k.C.Store), 0, cat(word(2), word(7))), // original value again
		mk("copier", 0, ptr(k.C.Copier), 0, cat(word(2), word(0))),
		mk("store", 1, ptr(k.C.Store), 0, cat(word(5), word(0))), // no-op store of an empty slot
		mk("kv", 2, ptr(k.C.KV), 0, KVCall(3, 1, 2)),
		mk("kv", 0, ptr(k.C.KV), 0, KVCall(2, 2, 3)),
	}})
	// S6: selfdestruct of a pre-existing contract towards a fresh beneficiary, then probes and a refill
	{
		fresh := common.BytesToAddress([]byte{0xf1, 0x02})
		out = append(out, Script{"selfdestruct-beneficiary", []TxSpec{
			mk("destruct", 0, ptr(k.C.Destructor), 3, addrWord(fresh)),
			mk("prober", 1, ptr(k.C.Prober), 0, addrWord(fresh)),
			mk("prober", 2, ptr(k.C.Prober), 0, addrWord(k.C.Destructor)),
			mk("transfer", 0, ptr(k.C.Destructor), 9, nil),
			mk("destruct", 1, ptr(k.C.Destructor), 0, addrWord(k.C.Destructor)), // beneficiary = self
		}})
	}
	// S7: contract-creation transaction, its address used later in the block
	{
		child := crypto.CreateAddress(k.Addrs[3], keyNonce[3]+k.Gspec.Alloc[k.Addrs[3]].Nonce)
		s := Script{Name: "deploy-then-use"}
		s.Specs = append(s.Specs, mk("deploy", 3, nil, 13, InitCounterWithStorage))
		s.Specs = append(s.Specs, mk("counter", 0, ptr(child), 0, nil), mk("prober", 1, ptr(k.C.Prober), 0, addrWord(child)),
			mk("blockhash", 2, ptr(k.C.BlockHash2), 0, word(3)), mk("blockhash", 0, ptr(k.C.BlockHash), 0, word(2)))
		out = append(out, s)
	}
	// S9: clearing a storage leaf whose only sibling under the parent branch is an untouched BRANCH node
	//     (the collapse must resolve a hashed branch sibling; it must be in the witness)
	{
		sh := ShapeSlots()
		out = append(out, Script{"clear-leaf-next-to-branch", []TxSpec{
			mk("store", 0, ptr(k.C.Shape1), 0, cat(word(sh.L1), word(0))),
			mk("store", 1, ptr(k.C.Shape2), 0, cat(word(sh.L2), word(0))),
			mk("transfer", 2, ptr(k.Addrs[3]), 5, nil),
		}})
	}
	if k.AtLeast("prague") {
		// S8: delegation set, used and cleared inside one block
		storeA, nul := k.C.Store, common.Address{}
		set := mk("setcode", 4, ptr(k.Addrs[5]), 0, cat(word(1), word(5)))
		set.AuthKey, set.AuthTo = 5, &storeA
		use := mk("call-delegated", 0, ptr(k.Addrs[5]), 0, cat(word(3), word(4)))
		clr := mk("setcode-clear", 4, ptr(k.Addrs[5]), 0, nil)
		clr.AuthKey, clr.AuthTo = 5, &nul
		out = append(out, Script{"setcode-use-clear", []TxSpec{set, use, mk("prober", 1, ptr(k.C.Prober), 0, addrWord(k.Addrs[5])), clr,
			mk("withdrawal-request", 2, ptr(params.WithdrawalQueueAddress), 1, make([]byte, 56))}})
	}
	return out
}

// ExtendScript appends one scripted block.
func (c *Chain) ExtendScript(s Script) (*types.Block, types.Receipts, []string, error) {
	beacon := common.BytesToHash([]byte(s.Name))
	return c.ExtendSpecs(s.Specs, common.Address{0xc0, 0x1b}, &beacon, []*types.Withdrawal{{Validator: 1, Address: common.Address{0xf1, 0x03}, Amount: 5}})
}
