// Package blockkit is the shared chain fixture of the block-level conformance drivers
// (C33 parallel execution, C34 stateless execution, C36 block building): a dev genesis
// with every fork up to the requested one active at genesis, funded keys, a small library
// of pre-deployed contracts and a seeded generator of interacting transactions.
package blockkit

import (
	"crypto/ecdsa"
	"fmt"
	"math/big"
	"math/rand"

	"github.com/ethereum/go-ethereum/common"
	"github.com/ethereum/go-ethereum/consensus"
	"github.com/ethereum/go-ethereum/consensus/beacon"
	"github.com/ethereum/go-ethereum/consensus/ethash"
	"github.com/ethereum/go-ethereum/core"
	"github.com/ethereum/go-ethereum/core/types"
	"github.com/ethereum/go-ethereum/core/vm"
	"github.com/ethereum/go-ethereum/crypto"
	"github.com/ethereum/go-ethereum/params"
	"github.com/holiman/uint256"
)

// Forks understood by New, oldest first.
var Forks = []string{"cancun", "prague", "osaka", "amsterdam"}

func forkRank(f string) int {
	for i, x := range Forks {
		if x == f {
			return i
		}
	}
	panic("blockkit: unknown fork " + f)
}

// Contracts holds the addresses of the pre-deployed contract library.
type Contracts struct {
	Counter    common.Address // slot0++ ; LOG0(new value)
	Store      common.Address // calldata slot|value : SSTORE(slot, value)
	Copier     common.Address // calldata src|dst    : SSTORE(dst, SLOAD(src)+1) ; LOG1(topic = value)
	KV         common.Address // calldata op|a|b     : 0 Set(a,b) 1 Inc(a) 2 Copy(a->b) 3 CondSet(if s[a]==0 then s[b]=1) 4 Read(a)
	Caller     common.Address // calldata target|payload : CALL(target, callvalue, payload); slot1 = success+1
	Delegator  common.Address // calldata target|payload : DELEGATECALL(target, payload); slot1 = success+1
	Destructor common.Address // calldata beneficiary : SELFDESTRUCT(beneficiary)
	Reverter   common.Address // calldata slot : SSTORE(slot,1) ; REVERT
	Factory    common.Address // calldata initcode : slot0 = CREATE(callvalue, initcode)
	Factory2   common.Address // calldata salt|initcode : slot0 = CREATE2(callvalue, initcode, salt)
	Prober     common.Address // calldata addr : slot0=BALANCE slot1=EXTCODESIZE slot2=EXTCODEHASH
	BlockHash  common.Address // calldata depth : slot0 = BLOCKHASH(NUMBER-depth)
	Looper     common.Address // SSTORE(9,7) then loops until out of gas
	Burner     common.Address // loops until out of gas without touching state
	Shape1     common.Address // Store code; storage trie = root branch { leaf L , branch {2 leaves} }  (see ShapeSlots)
	Shape2     common.Address // Store code; storage trie = root branch { branch { leaf L , branch {2 leaves} } , leaf }
	BlockHash2 common.Address // calldata depth : slot0 = BLOCKHASH(NUMBER-depth) | 1  (gas independent of the hash value)
}

// Kit is one chain fixture.
type Kit struct {
	Fork   string
	Config *params.ChainConfig
	Gspec  *core.Genesis
	Keys   []*ecdsa.PrivateKey
	Addrs  []common.Address
	C      Contracts
	Signer types.Signer
	// Senders bounds the key indices RandTx signs with (0 = all keys).
	Senders int
}

func (k *Kit) Engine() consensus.Engine { return beacon.New(ethash.NewFaker()) }

// AtLeast reports whether the kit's fork is at or after f.
func (k *Kit) AtLeast(f string) bool { return forkRank(k.Fork) >= forkRank(f) }

func u64(v uint64) *uint64 { return &v }

// ConfigFor returns a chain config with every fork up to and including fork active at genesis.
func ConfigFor(fork string) *params.ChainConfig {
	cfg := *params.MergedTestChainConfig
	cfg.ChainID = big.NewInt(1337)
	bs := *cfg.BlobScheduleConfig
	cfg.BlobScheduleConfig = &bs
	r := forkRank(fork)
	cfg.PragueTime, cfg.OsakaTime, cfg.AmsterdamTime = nil, nil, nil
	if r >= 1 {
		cfg.PragueTime = u64(0)
	}
	if r >= 2 {
		cfg.OsakaTime = u64(0)
	}
	if r >= 3 {
		cfg.AmsterdamTime = u64(0)
	}
	return &cfg
}

func ops(o ...any) []byte {
	var out []byte
	for _, x := range o {
		switch v := x.(type) {
		case vm.OpCode:
			out = append(out, byte(v))
		case int:
			out = append(out, byte(v))
		case byte:
			out = append(out, v)
		case []byte:
			out = append(out, v...)
		default:
			panic(fmt.Sprintf("ops: %T", x))
		}
	}
	return out
}

// Runtime code of the library contracts.
var (
	CodeCounter = ops(vm.PUSH0, vm.SLOAD, vm.PUSH1, 1, vm.ADD, vm.DUP1, vm.PUSH0, vm.SSTORE,
		vm.PUSH0, vm.MSTORE, vm.PUSH1, 0x20, vm.PUSH0, vm.LOG0, vm.STOP)
	CodeStore  = ops(vm.PUSH1, 0x20, vm.CALLDATALOAD, vm.PUSH0, vm.CALLDATALOAD, vm.SSTORE, vm.STOP)
	CodeCopier = ops(vm.PUSH0, vm.CALLDATALOAD, vm.SLOAD, vm.PUSH1, 1, vm.ADD, vm.DUP1, vm.PUSH1, 0x20, vm.CALLDATALOAD,
		vm.SSTORE, vm.PUSH0, vm.PUSH0, vm.LOG1, vm.STOP)
	CodeCaller = ops(vm.PUSH1, 0x20, vm.CALLDATASIZE, vm.SUB, vm.DUP1, vm.PUSH1, 0x20, vm.PUSH0, vm.CALLDATACOPY,
		vm.PUSH0, vm.PUSH0, vm.DUP3, vm.PUSH0, vm.CALLVALUE, vm.PUSH0, vm.CALLDATALOAD, vm.GAS, vm.CALL,
		vm.PUSH1, 1, vm.ADD, vm.PUSH1, 1, vm.SSTORE, vm.STOP)
	CodeDelegator = ops(vm.PUSH1, 0x20, vm.CALLDATASIZE, vm.SUB, vm.DUP1, vm.PUSH1, 0x20, vm.PUSH0, vm.CALLDATACOPY,
		vm.PUSH0, vm.PUSH0, vm.DUP3, vm.PUSH0, vm.PUSH0, vm.CALLDATALOAD, vm.GAS, vm.DELEGATECALL,
		vm.PUSH1, 1, vm.ADD, vm.PUSH1, 1, vm.SSTORE, vm.STOP)
	CodeDestructor = ops(vm.PUSH0, vm.CALLDATALOAD, vm.SELFDESTRUCT)
	CodeReverter   = ops(vm.PUSH1, 1, vm.PUSH0, vm.CALLDATALOAD, vm.SSTORE, vm.PUSH0, vm.PUSH0, vm.REVERT)
	CodeFactory    = ops(vm.CALLDATASIZE, vm.PUSH0, vm.PUSH0, vm.CALLDATACOPY, vm.CALLDATASIZE, vm.PUSH0, vm.CALLVALUE, vm.CREATE,
		vm.PUSH0, vm.SSTORE, vm.STOP)
	CodeFactory2 = ops(vm.PUSH1, 0x20, vm.CALLDATASIZE, vm.SUB, vm.DUP1, vm.PUSH1, 0x20, vm.PUSH0, vm.CALLDATACOPY,
		vm.PUSH0, vm.CALLDATALOAD, vm.SWAP1, vm.PUSH0, vm.CALLVALUE, vm.CREATE2, vm.PUSH0, vm.SSTORE, vm.STOP)
	CodeProber = ops(vm.PUSH0, vm.CALLDATALOAD, vm.DUP1, vm.BALANCE, vm.PUSH0, vm.SSTORE,
		vm.DUP1, vm.EXTCODESIZE, vm.PUSH1, 1, vm.SSTORE, vm.EXTCODEHASH, vm.PUSH1, 2, vm.SSTORE, vm.STOP)
	CodeBlockHash  = ops(vm.PUSH0, vm.CALLDATALOAD, vm.NUMBER, vm.SUB, vm.BLOCKHASH, vm.PUSH0, vm.SSTORE, vm.STOP)
	CodeLooper     = ops(vm.PUSH1, 7, vm.PUSH1, 9, vm.SSTORE, vm.JUMPDEST, vm.PUSH1, 5, vm.JUMP)
	CodeBurner     = ops(vm.JUMPDEST, vm.PUSH0, vm.JUMP)
	CodeBlockHash2 = ops(vm.PUSH0, vm.CALLDATALOAD, vm.NUMBER, vm.SUB, vm.BLOCKHASH, vm.PUSH1, 1, vm.OR, vm.PUSH0, vm.SSTORE, vm.STOP)
	CodeKV         = buildKV()
)

// buildKV assembles the key-value contract used to realise the abstract transactions of
// ParallelExec.tla: calldata = op(32) | a(32) | b(32).
func buildKV() []byte {
	// dispatch table built with fixed-size blocks; every handler ends in STOP.
	// layout: header computes op and jumps to 0x20 + op*0x20
	var code []byte
	// header: PUSH0 CALLDATALOAD PUSH1 5 SHL PUSH1 0x20 ADD JUMP  (op*32 + 32)
	code = append(code, ops(vm.PUSH0, vm.CALLDATALOAD, vm.PUSH1, 5, vm.SHL, vm.PUSH1, 0x20, vm.ADD, vm.JUMP)...)
	pad := func(b []byte, n int) []byte {
		if len(b) > n {
			panic("kv handler too long")
		}
		for len(b) < n {
			b = append(b, byte(vm.STOP))
		}
		return b
	}
	code = pad(code, 0x20)
	a := ops(vm.PUSH1, 0x20, vm.CALLDATALOAD)
	b := ops(vm.PUSH1, 0x40, vm.CALLDATALOAD)
	// 0: Set(a,b): SSTORE(a, b)
	h0 := ops(vm.JUMPDEST, b, a, vm.SSTORE, vm.STOP)
	// 1: Inc(a): SSTORE(a, SLOAD(a)+1)
	h1 := ops(vm.JUMPDEST, a, vm.SLOAD, vm.PUSH1, 1, vm.ADD, a, vm.SSTORE, vm.STOP)
	// 2: Copy(a->b): SSTORE(b, SLOAD(a))
	h2 := ops(vm.JUMPDEST, a, vm.SLOAD, b, vm.SSTORE, vm.STOP)
	// 3: CondSet: if SLOAD(a)==0 { SSTORE(b,1) }
	//    JUMPDEST a SLOAD PUSH1 <stop> JUMPI PUSH1 1 b SSTORE STOP ; <stop>: JUMPDEST STOP
	h3 := ops(vm.JUMPDEST, a, vm.SLOAD, vm.PUSH1, 0, vm.JUMPI, vm.PUSH1, 1, b, vm.SSTORE, vm.STOP)
	h3[6] = byte(0x20 + 3*0x20 + len(h3))
	h3 = append(h3, ops(vm.JUMPDEST, vm.STOP)...)
	// 4: Read(a): SLOAD(a) POP
	h4 := ops(vm.JUMPDEST, a, vm.SLOAD, vm.POP, vm.STOP)
	for _, h := range [][]byte{h0, h1, h2, h3, h4} {
		code = append(code, pad(h, 0x20)...)
	}
	return code
}

// Initcodes for the factory transactions.
func InitReturning(runtime []byte) []byte {
	// PUSH2 len DUP1 PUSH1 <off> PUSH0 CODECOPY PUSH0 RETURN <runtime>
	n := len(runtime)
	pre := ops(vm.PUSH2, byte(n>>8), byte(n), vm.DUP1, vm.PUSH1, 0, vm.PUSH0, vm.CODECOPY, vm.PUSH0, vm.RETURN)
	pre[5] = byte(len(pre))
	return append(pre, runtime...)
}

var (
	// constructor writes slot 1 and deploys a counter
	InitCounterWithStorage = append(ops(vm.PUSH1, 42, vm.PUSH1, 1, vm.SSTORE), shiftInit(InitReturning(CodeCounter), 5)...)
	// constructor writes storage and self-destructs to the caller (created and destroyed in one tx)
	InitEphemeral = ops(vm.PUSH1, 1, vm.PUSH0, vm.SSTORE, vm.CALLER, vm.SELFDESTRUCT)
	InitReverting = ops(vm.PUSH1, 1, vm.PUSH0, vm.SSTORE, vm.PUSH0, vm.PUSH0, vm.REVERT)
	InitEmpty     = ops(vm.STOP)
)

// shiftInit relocates an InitReturning blob that is placed after a prefix of n bytes.
func shiftInit(init []byte, n int) []byte {
	out := append([]byte{}, init...)
	out[5] += byte(n)
	return out
}

func ctrAddr(i int) common.Address {
	return common.BytesToAddress([]byte{0xc0, 0xde, 0x00, byte(i)})
}

// New builds the fixture. extra is merged over the default allocation.
func New(fork string, nkeys int, extra types.GenesisAlloc) *Kit {
	k := &Kit{Fork: fork, Config: ConfigFor(fork)}
	k.Signer = types.LatestSigner(k.Config)
	bal := new(big.Int).Exp(big.NewInt(10), big.NewInt(24), nil)
	alloc := types.GenesisAlloc{}
	for i := 0; i < nkeys; i++ {
		key, err := crypto.ToECDSA(crypto.Keccak256([]byte(fmt.Sprintf("blockkit-key-%d", i))))
		if err != nil {
			panic(err)
		}
		k.Keys = append(k.Keys, key)
		a := crypto.PubkeyToAddress(key.PublicKey)
		k.Addrs = append(k.Addrs, a)
		alloc[a] = types.Account{Balance: bal}
	}
	k.C = Contracts{Counter: ctrAddr(1), Store: ctrAddr(2), Copier: ctrAddr(3), KV: ctrAddr(4), Caller: ctrAddr(5),
		Delegator: ctrAddr(6), Destructor: ctrAddr(7), Reverter: ctrAddr(8), Factory: ctrAddr(9), Factory2: ctrAddr(10),
		Prober: ctrAddr(11), BlockHash: ctrAddr(12), Looper: ctrAddr(13), Burner: ctrAddr(14), BlockHash2: ctrAddr(15), Shape1: ctrAddr(16), Shape2: ctrAddr(17)}
	one := big.NewInt(1)
	st := func(kv ...int64) map[common.Hash]common.Hash {
		m := map[common.Hash]common.Hash{}
		for i := 0; i+1 < len(kv); i += 2 {
			m[common.BigToHash(big.NewInt(kv[i]))] = common.BigToHash(big.NewInt(kv[i+1]))
		}
		return m
	}
	alloc[k.C.Counter] = types.Account{Code: CodeCounter, Nonce: 1, Balance: one, Storage: st(0, 5)}
	alloc[k.C.Store] = types.Account{Code: CodeStore, Nonce: 1, Balance: one, Storage: st(1, 1, 2, 7)}
	alloc[k.C.Copier] = types.Account{Code: CodeCopier, Nonce: 1, Balance: one, Storage: st(0, 3, 2, 9)}
	alloc[k.C.KV] = types.Account{Code: CodeKV, Nonce: 1, Balance: one}
	alloc[k.C.Caller] = types.Account{Code: CodeCaller, Nonce: 1, Balance: big.NewInt(1000)}
	alloc[k.C.Delegator] = types.Account{Code: CodeDelegator, Nonce: 1, Balance: one, Storage: st(0, 1)}
	alloc[k.C.Destructor] = types.Account{Code: CodeDestructor, Nonce: 1, Balance: big.NewInt(5000), Storage: st(0, 1)}
	alloc[k.C.Reverter] = types.Account{Code: CodeReverter, Nonce: 1, Balance: one}
	alloc[k.C.Factory] = types.Account{Code: CodeFactory, Nonce: 1, Balance: one}
	alloc[k.C.Factory2] = types.Account{Code: CodeFactory2, Nonce: 1, Balance: one}
	alloc[k.C.Prober] = types.Account{Code: CodeProber, Nonce: 1, Balance: one}
	alloc[k.C.BlockHash] = types.Account{Code: CodeBlockHash, Nonce: 1, Balance: one}
	alloc[k.C.Looper] = types.Account{Code: CodeLooper, Nonce: 1, Balance: one}
	alloc[k.C.Burner] = types.Account{Code: CodeBurner, Nonce: 1, Balance: one}
	sh := ShapeSlots()
	alloc[k.C.Shape1] = types.Account{Code: CodeStore, Nonce: 1, Balance: one, Storage: st(int64(sh.L1), 11, int64(sh.B1a), 12, int64(sh.B1b), 13)}
	alloc[k.C.Shape2] = types.Account{Code: CodeStore, Nonce: 1, Balance: one, Storage: st(int64(sh.L2), 21, int64(sh.B2a), 22, int64(sh.B2b), 23, int64(sh.X2), 24)}
	alloc[k.C.BlockHash2] = types.Account{Code: CodeBlockHash2, Nonce: 1, Balance: one, Storage: st(0, 1)}
	// system contracts
	alloc[params.BeaconRootsAddress] = types.Account{Nonce: 1, Code: params.BeaconRootsCode, Balance: common.Big0}
	if k.AtLeast("prague") {
		alloc[params.HistoryStorageAddress] = types.Account{Nonce: 1, Code: params.HistoryStorageCode, Balance: common.Big0}
		alloc[params.WithdrawalQueueAddress] = types.Account{Nonce: 1, Code: params.WithdrawalQueueCode, Balance: common.Big0}
		alloc[params.ConsolidationQueueAddress] = types.Account{Nonce: 1, Code: params.ConsolidationQueueCode, Balance: common.Big0}
	}
	if k.AtLeast("amsterdam") {
		alloc[params.BuilderDepositAddress] = types.Account{Nonce: 1, Code: params.BuilderDepositCode, Balance: common.Big0}
		alloc[params.BuilderExitAddress] = types.Account{Nonce: 1, Code: params.BuilderExitCode, Balance: common.Big0}
	}
	for a, acc := range extra {
		alloc[a] = acc
	}
	k.Gspec = &core.Genesis{Config: k.Config, Alloc: alloc, GasLimit: 60_000_000, BaseFee: big.NewInt(params.InitialBaseFee),
		Difficulty: common.Big0, Timestamp: 1_700_000_000}
	return k
}

// ---------------------------------------------------------------------------------------
// transaction generator

// TxSpec is an unsigned transaction intent: the nonce and fees are bound at signing time.
type TxSpec struct {
	Kind     string
	From     int // key index
	To       *common.Address
	Value    *big.Int
	Gas      uint64
	Data     []byte
	Tip      int64 // gwei
	Legacy   bool
	Access   types.AccessList
	AuthKey  int             // set-code authority key index (-1: none)
	AuthTo   *common.Address // delegation target
	AuthSelf bool            // authority == sender (auth nonce = tx nonce+1)
}

func word(v uint64) []byte { return common.BigToHash(new(big.Int).SetUint64(v)).Bytes() }
func addrWord(a common.Address) []byte {
	return common.BytesToHash(a.Bytes()).Bytes()
}
func cat(bs ...[]byte) []byte {
	var out []byte
	for _, b := range bs {
		out = append(out, b...)
	}
	return out
}

// KVCall encodes a call to the KV contract.
func KVCall(op, a, b uint64) []byte { return cat(word(op), word(a), word(b)) }

func (k *Kit) targets() []common.Address {
	return []common.Address{k.C.Counter, k.C.Store, k.C.Copier, k.C.KV, k.C.Destructor, k.C.Reverter, k.C.Prober, k.C.Looper}
}

// payloadFor returns calldata suitable for calling target directly.
func (k *Kit) payloadFor(r *rand.Rand, target common.Address) []byte {
	slots := []uint64{0, 1, 2, 3}
	vals := []uint64{0, 0, 1, 2, 7}
	s := func() uint64 { return slots[r.Intn(len(slots))] }
	switch target {
	case k.C.Store:
		return cat(word(s()), word(vals[r.Intn(len(vals))]))
	case k.C.Copier:
		return cat(word(s()), word(s()))
	case k.C.KV:
		return KVCall(uint64(r.Intn(5)), s(), []uint64{s(), vals[r.Intn(len(vals))]}[r.Intn(2)])
	case k.C.Destructor:
		return addrWord(k.anyAddr(r))
	case k.C.Reverter:
		return word(s())
	case k.C.Prober:
		if r.Intn(3) > 0 {
			// a library contract that is most likely not executed in the same block: its code is touched
			// through EXTCODESIZE / EXTCODEHASH only
			lib := []common.Address{k.C.Burner, k.C.BlockHash2, k.C.Looper, k.C.Factory2, k.C.Delegator, k.C.Reverter, k.C.BlockHash, k.C.Copier}
			return addrWord(lib[r.Intn(len(lib))])
		}
		return addrWord(k.anyAddr(r))
	}
	return nil
}

// anyAddr picks an address that is interesting to touch: EOAs, contracts, fresh ones,
// precompiles, system contracts, created-contract addresses.
func (k *Kit) anyAddr(r *rand.Rand) common.Address {
	switch r.Intn(8) {
	case 0, 1:
		return k.Addrs[r.Intn(len(k.Addrs))]
	case 2:
		return common.BytesToAddress([]byte{0xf0, byte(r.Intn(4))}) // fresh, shared across txs
	case 3:
		return common.BytesToAddress([]byte{byte(1 + r.Intn(9))}) // precompile
	case 4:
		return crypto.CreateAddress(k.C.Factory, uint64(1+r.Intn(3))) // maybe created in this chain
	case 5:
		return params.BeaconRootsAddress
	default:
		t := k.targets()
		return t[r.Intn(len(t))]
	}
}

// RandTx draws one transaction intent.
func (k *Kit) RandTx(r *rand.Rand) TxSpec {
	ns := len(k.Keys)
	if k.Senders > 0 && k.Senders < ns {
		ns = k.Senders
	}
	sp := TxSpec{From: r.Intn(ns), Value: new(big.Int), Gas: 3_000_000, Tip: int64(1 + r.Intn(5)), AuthKey: -1}
	sp.Legacy = r.Intn(5) == 0
	to := func(a common.Address) { sp.To = &a }
	switch c := r.Intn(100); {
	case c < 12:
		sp.Kind = "transfer"
		to(k.anyAddr(r))
		sp.Value = big.NewInt(int64(r.Intn(3)) * 1000)
	case c < 22:
		sp.Kind = "counter"
		to(k.C.Counter)
	case c < 32:
		sp.Kind = "store"
		to(k.C.Store)
		sp.Data = k.payloadFor(r, k.C.Store)
	case c < 40:
		sp.Kind = "copier"
		to(k.C.Copier)
		sp.Data = k.payloadFor(r, k.C.Copier)
	case c < 50:
		sp.Kind = "kv"
		to(k.C.KV)
		sp.Data = k.payloadFor(r, k.C.KV)
	case c < 58:
		sp.Kind = "caller"
		to(k.C.Caller)
		t := k.targets()[r.Intn(len(k.targets()))]
		sp.Data = cat(addrWord(t), k.payloadFor(r, t))
		if t == k.C.Looper {
			sp.Gas = 200_000
		}
		sp.Value = big.NewInt(int64(r.Intn(2)) * 7)
	case c < 64:
		sp.Kind = "delegator"
		to(k.C.Delegator)
		ts := []common.Address{k.C.Counter, k.C.Store, k.C.Copier, k.C.KV, k.C.Destructor, k.C.Reverter}
		t := ts[r.Intn(len(ts))]
		sp.Data = cat(addrWord(t), k.payloadFor(r, t))
	case c < 68:
		sp.Kind = "destruct"
		to(k.C.Destructor)
		sp.Data = k.payloadFor(r, k.C.Destructor)
		sp.Value = big.NewInt(int64(r.Intn(2)) * 3)
	case c < 72:
		sp.Kind = "revert"
		to(k.C.Reverter)
		sp.Data = k.payloadFor(r, k.C.Reverter)
	case c < 77:
		sp.Kind = "factory"
		to(k.C.Factory)
		sp.Data = k.randInit(r)
		sp.Value = big.NewInt(int64(r.Intn(2)) * 11)
	case c < 80:
		sp.Kind = "factory2"
		to(k.C.Factory2)
		sp.Data = cat(word(uint64(r.Intn(2))), k.randInit(r))
	case c < 87:
		sp.Kind = "prober"
		to(k.C.Prober)
		sp.Data = k.payloadFor(r, k.C.Prober)
	case c < 90:
		sp.Kind = "blockhash"
		to([]common.Address{k.C.BlockHash, k.C.BlockHash2}[r.Intn(2)])
		sp.Data = word(uint64(1 + r.Intn(4)))
	case c < 92:
		sp.Kind = "looper"
		to(k.C.Looper)
		sp.Gas = 150_000
	case c < 95:
		sp.Kind = "deploy"
		sp.Data = k.randInit(r)
		sp.Value = big.NewInt(int64(r.Intn(2)) * 13)
	case c < 97:
		sp.Kind = "accesslist"
		to(k.C.Copier)
		sp.Data = k.payloadFor(r, k.C.Copier)
		sp.Legacy = false
		sp.Access = types.AccessList{{Address: k.C.Copier, StorageKeys: []common.Hash{common.BigToHash(big.NewInt(int64(r.Intn(4))))}},
			{Address: k.anyAddr(r)}}
	default:
		if k.AtLeast("prague") && r.Intn(2) == 0 {
			sp.Kind = "setcode"
			sp.Legacy = false
			sp.AuthKey = r.Intn(ns)
			sp.AuthSelf = sp.AuthKey == sp.From
			ts := []common.Address{k.C.Counter, k.C.Store, k.C.KV, {}}
			t := ts[r.Intn(len(ts))]
			sp.AuthTo = &t
			to(k.Addrs[sp.AuthKey])
			if t != (common.Address{}) {
				sp.Data = k.payloadFor(r, t)
			}
		} else if k.AtLeast("prague") {
			sp.Kind = "withdrawal-request"
			to(params.WithdrawalQueueAddress)
			sp.Value = big.NewInt(1 + int64(r.Intn(2)))
			sp.Data = make([]byte, 56)
			r.Read(sp.Data)
		} else {
			sp.Kind = "transfer"
			to(k.anyAddr(r))
			sp.Value = big.NewInt(1)
		}
	}
	return sp
}

func (k *Kit) randInit(r *rand.Rand) []byte {
	switch r.Intn(6) {
	case 0:
		return InitReturning(CodeCounter)
	case 1:
		return InitCounterWithStorage
	case 2:
		return InitEphemeral
	case 3:
		return InitReverting
	case 4:
		return InitEmpty
	default:
		return InitReturning(CodeStore)
	}
}

// Sign binds nonce and fees and signs the intent. authNonce is the current nonce of the
// set-code authority (ignored unless the spec carries an authorization).
func (k *Kit) Sign(sp TxSpec, nonce uint64, baseFee *big.Int, authNonce uint64) *types.Transaction {
	tip := new(big.Int).Mul(big.NewInt(sp.Tip), big.NewInt(params.GWei))
	feeCap := new(big.Int).Add(new(big.Int).Mul(baseFee, big.NewInt(2)), tip)
	key := k.Keys[sp.From]
	var txd types.TxData
	switch {
	case sp.AuthKey >= 0:
		an := authNonce
		if sp.AuthSelf {
			an = nonce + 1
		}
		auth, err := types.SignSetCode(k.Keys[sp.AuthKey], types.SetCodeAuthorization{
			ChainID: *uint256.MustFromBig(k.Config.ChainID), Address: *sp.AuthTo, Nonce: an})
		if err != nil {
			panic(err)
		}
		txd = &types.SetCodeTx{ChainID: uint256.MustFromBig(k.Config.ChainID), Nonce: nonce, GasTipCap: uint256.MustFromBig(tip),
			GasFeeCap: uint256.MustFromBig(feeCap), Gas: sp.Gas, To: *sp.To, Value: uint256.MustFromBig(sp.Value), Data: sp.Data,
			AccessList: sp.Access, AuthList: []types.SetCodeAuthorization{auth}}
	case sp.Legacy:
		txd = &types.LegacyTx{Nonce: nonce, GasPrice: new(big.Int).Add(baseFee, tip), Gas: sp.Gas, To: sp.To, Value: sp.Value, Data: sp.Data}
	default:
		txd = &types.DynamicFeeTx{ChainID: k.Config.ChainID, Nonce: nonce, GasTipCap: tip, GasFeeCap: feeCap, Gas: sp.Gas,
			To: sp.To, Value: sp.Value, Data: sp.Data, AccessList: sp.Access}
	}
	return types.MustSignNewTx(key, k.Signer, txd)
}

// Shape holds storage slot numbers whose hashed keys force a particular storage-trie shape.
//
//	Shape1: root = branch with exactly two children: nibble x -> leaf L1, nibble y -> BRANCH {B1a, B1b}
//	Shape2: root = branch {p -> branch { q1 -> leaf L2, q2 -> BRANCH {B2a, B2b} }, p2 -> leaf X2}
//
// Clearing L1 (L2) leaves the parent branch with ONE child which is an otherwise untouched, hashed BRANCH
// node: the collapse has to resolve that sibling, and the witness has to contain it.
type Shape struct{ L1, B1a, B1b, L2, B2a, B2b, X2 uint64 }

var shapeCache *Shape

func nib(s uint64, i int) byte {
	h := crypto.Keccak256(common.BigToHash(new(big.Int).SetUint64(s)).Bytes())
	if i%2 == 0 {
		return h[i/2] >> 4
	}
	return h[i/2] & 0x0f
}

// ShapeSlots searches small slot numbers with the required hashed-key prefixes.
func ShapeSlots() Shape {
	if shapeCache != nil {
		return *shapeCache
	}
	var sh Shape
	const lim = 200000
	find := func(from uint64, ok func(s uint64) bool) uint64 {
		for s := from; s < lim; s++ {
			if ok(s) {
				return s
			}
		}
		panic("blockkit: no slot with the required hashed prefix")
	}
	// Shape1
	sh.L1 = 1
	sh.B1a = find(2, func(s uint64) bool { return nib(s, 0) != nib(sh.L1, 0) })
	sh.B1b = find(sh.B1a+1, func(s uint64) bool { return nib(s, 0) == nib(sh.B1a, 0) && nib(s, 1) != nib(sh.B1a, 1) })
	// Shape2
	sh.L2 = 1
	p := nib(sh.L2, 0)
	sh.B2a = find(2, func(s uint64) bool { return nib(s, 0) == p && nib(s, 1) != nib(sh.L2, 1) })
	sh.B2b = find(sh.B2a+1, func(s uint64) bool {
		return nib(s, 0) == p && nib(s, 1) == nib(sh.B2a, 1) && nib(s, 2) != nib(sh.B2a, 2)
	})
	sh.X2 = find(2, func(s uint64) bool { return nib(s, 0) != p })
	shapeCache = &sh
	return sh
}
