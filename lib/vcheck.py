"""Shared machinery of the /verif checks.

One check = one python module checks/<ID>.py exposing META (manifest entry) and
run(ctx).  A check is always the same pipeline (DESIGN.md section 2.1):

  MC  ctx.tlc(...)        TLC explores the TLA+ module (design-level decision)
  R   ctx.edges()/mbt()   TLC-produced transitions/behaviours are replayed on the Go code
  V   ctx.validate(...)   traces recorded from the Go code are checked against <M>Trace.tla
  evidence + verdict      ctx.finish()

Verdict policy: exit 1 / VIOLATION only for a divergence produced by the real code
(driver-reported replay divergence or a rejected recorded trace).  Anything else that
goes wrong (TLC error on the model alone, timeout, build failure) is exit 2.
"""
import json, os, re, shutil, subprocess, sys, tempfile, time, hashlib

VERIF = os.path.dirname(os.path.dirname(os.path.abspath(__file__)))
REPO = os.environ.get("VERIF_REPO", "/repo")
SPEC = os.path.join(VERIF, "spec")
HARNESS = os.path.join(VERIF, "harness")
BUILD = os.path.join(VERIF, ".build")
OUTDIR = os.environ.get("VERIF_OUT", VERIF)   # evidence/ and replays/ live here (redirected for scratch-tree runs)
DEFAULT_WORKERS = os.environ.get("VERIF_TLC_WORKERS", "8")
TLA_JAR = "/opt/veriftools/tla/tla2tools.jar"
TLA_DEPS = "/opt/veriftools/tla/CommunityModules-deps.jar"


class InfraError(Exception):
    pass


class TLCResult:
    def __init__(self):
        self.ok = False            # finished, no error
        self.generated = 0
        self.distinct = 0
        self.depth = 0
        self.error = None          # short text of the first TLC error
        self.violated = None       # name of violated invariant/property, if any
        self.timeout = False
        self.stdout = ""
        self.wall = 0.0
        self.zero_cov = []         # actions with zero coverage (when coverage requested)
        self.lines = {}            # tag -> list of decoded JSON payloads printed by the spec

    def summary(self):
        return {"ok": self.ok, "generated": self.generated, "distinct": self.distinct,
                "depth": self.depth, "error": self.error, "violated": self.violated,
                "wall_s": round(self.wall, 2)}


def _go_env():
    env = dict(os.environ)
    env["GOFLAGS"] = "-mod=mod"
    env["GOPROXY"] = "off"
    env.pop("GOSUMDB", None)        # must not be "off" with the default go (toolchain switch)
    env.pop("GOTOOLCHAIN", None)    # auto: resolves the cached go1.24.0
    return env


def spec_dirs():
    out = []
    for root, dirs, files in os.walk(SPEC):
        if any(f.endswith(".tla") for f in files):
            out.append(root)
    return out


_PRINT_RE = re.compile(r'^<<"([A-Z][A-Z0-9_]*)", (".*")>>$')


def parse_tlc_output(text, res, want_tags=()):
    for line in text.splitlines():
        m = re.search(r"(\d+) states generated, (\d+) distinct states found", line)
        if m:
            res.generated = int(m.group(1)); res.distinct = int(m.group(2))
        m = re.search(r"The depth of the complete state graph search is (\d+)", line)
        if m:
            res.depth = int(m.group(1))
        m = re.search(r"Error: Invariant (\S+) is violated", line)
        if m and not res.violated:
            res.violated = m.group(1)
        m = re.search(r"Error: (Action property|Temporal properties|Assumption).*", line)
        if m and not res.violated and "violated" in line:
            res.violated = line.strip()
        if line.startswith("Error:") and res.error is None:
            res.error = line.strip()
        if "Model checking completed. No error has been found." in line:
            res.ok = True
        if "Finished computing initial states" in line and False:
            pass
        if want_tags and line.startswith('<<"'):
            m = _PRINT_RE.match(line.strip())
            if m and m.group(1) in want_tags:
                try:
                    payload = json.loads(json.loads(m.group(2)))
                except Exception:
                    # TLA string escapes are JSON compatible; anything else is an infra problem
                    raise InfraError("cannot parse TLC print line: " + line[:200])
                res.lines.setdefault(m.group(1), []).append(payload)
    # coverage: lines like  "<Charge line 40, col 1 to line 52, col 30 of module X>: 0:0"
    for m in re.finditer(r"^<(\w+) line \d+, col \d+ to line \d+, col \d+ of module (\w+)>: (\d+):(\d+)", text, re.M):
        if int(m.group(3)) == 0 and int(m.group(4)) == 0:
            res.zero_cov.append(m.group(1))
    if res.error and res.ok:
        res.ok = False


class Ctx:
    def __init__(self, pid, tier="quick", seed=None, replay=None):
        self.pid = pid
        self.tier = tier
        self.seed = int(seed if seed is not None else os.environ.get("VERIF_SEED", "1"))
        self.replay = replay
        self.t0 = time.time()
        self.scratch = tempfile.mkdtemp(prefix="verif-%s-" % pid, dir=os.environ.get("TMPDIR"))
        self.violations = []       # (desc, replay_path)
        self.known = []            # KNOWN-FINDING lines
        self.cov = {"states": 0, "transitions": 0, "traces_validated_against_impl": 0,
                    "samples": [], "evaluations": 0, "distinct_nontrivial": 0,
                    "events_validated": 0, "behaviours_replayed": 0, "tlc_runs": [], "drivers": []}
        self.assumptions = []
        self.level = "model_checking"
        self.notes = []
        os.makedirs(os.path.join(OUTDIR, "evidence"), exist_ok=True)
        os.makedirs(os.path.join(OUTDIR, "replays"), exist_ok=True)
        os.makedirs(BUILD, exist_ok=True)
        self._known_findings = load_known_findings().get(pid, [])

    @property
    def thorough(self):
        return self.tier == "thorough"

    def pick(self, quick, thorough):
        return thorough if self.thorough else quick

    def log(self, *a):
        print("[%s %6.1fs]" % (self.pid, time.time() - self.t0), *a, flush=True)

    # ---------------------------------------------------------------- Go drivers
    def build(self, cmd, tags="verif", race=False, cgo=None, out=None):
        """Build harness/cmd/<cmd> against /repo's working tree with the hook tag on."""
        suffix = ""
        modargs = []
        if os.path.abspath(REPO) != "/repo":
            # checks normally build against /repo; VERIF_REPO=<scratch worktree> redirects the
            # replace directive through an alternate go.mod (used for seeded-mutation runs)
            suffix = "-" + hashlib.sha1(REPO.encode()).hexdigest()[:8]
            mf = os.path.join(BUILD, "go%s.mod" % suffix)
            src = open(os.path.join(HARNESS, "go.mod")).read().replace("=> /repo", "=> " + os.path.abspath(REPO))
            open(mf, "w").write(src)
            shutil.copy(os.path.join(HARNESS, "go.sum"), mf[:-4] + ".sum")
            modargs = ["-modfile=" + mf]
        out = out or os.path.join(BUILD, cmd + suffix + ("-race" if race else "") + ("" if cgo is None else "-cgo%d" % cgo))
        args = ["go", "build"] + modargs + ["-tags", tags, "-o", out]
        if race:
            args.append("-race")
        args.append("./cmd/" + cmd)
        env = _go_env()
        if cgo is not None:
            env["CGO_ENABLED"] = str(cgo)
        t = time.time()
        p = subprocess.run(args, cwd=HARNESS, env=env, stdout=subprocess.PIPE, stderr=subprocess.STDOUT, text=True)
        if p.returncode != 0:
            raise InfraError("go build %s failed:\n%s" % (cmd, p.stdout[-4000:]))
        self.log("built %s in %.1fs" % (cmd, time.time() - t))
        return out

    def drive(self, binary, args, timeout=600, env=None, name=None, allow_fail=False):
        """Run a driver; it must write its Summary JSON to the path given after -out."""
        out = os.path.join(self.scratch, "summary-%d.json" % len(self.cov["drivers"]))
        e = dict(os.environ)
        e["VERIF_SEED"] = str(self.seed)
        e["VERIF_TIER"] = self.tier
        e["VERIF_REPO"] = os.path.abspath(REPO)
        if env:
            e.update(env)
        t = time.time()
        try:
            p = subprocess.run([binary] + [str(a) for a in args] + ["-out", out], stdout=subprocess.PIPE,
                               stderr=subprocess.STDOUT, text=True, timeout=timeout, env=e, cwd=self.scratch)
        except subprocess.TimeoutExpired:
            raise InfraError("driver %s timed out after %ds" % (binary, timeout))
        if not os.path.exists(out):
            if allow_fail:
                return None, p
            if re.search(r"^(panic:|fatal error:)", p.stdout, re.M):
                # the code under test crashed the driver: a real-code behaviour, reported as such
                self.violation("implementation panicked under driver %s" % (name or os.path.basename(binary)),
                               {"kind": "panic", "driver": name or os.path.basename(binary), "args": [str(a) for a in args],
                                "seed": self.seed, "tier": self.tier, "output_tail": p.stdout[-3000:]})
                return {"violations": [], "traces": 0, "evaluations": 0}, p
            raise InfraError("driver %s produced no summary (rc=%d):\n%s" % (binary, p.returncode, p.stdout[-4000:]))
        s = json.load(open(out))
        s["wall_s"] = round(time.time() - t, 2)
        if p.returncode not in (0,) and not s.get("violations"):
            raise InfraError("driver %s rc=%d without violations:\n%s" % (binary, p.returncode, p.stdout[-4000:]))
        self.absorb(s, name or os.path.basename(binary))
        return s, p

    def absorb(self, s, name):
        """Fold a driver summary into coverage and collect its violations."""
        self.cov["drivers"].append({"name": name, "mode": s.get("mode"), "evaluations": s.get("evaluations", 0),
                                    "distinct": s.get("distinct", 0), "steps": s.get("steps", 0),
                                    "traces": s.get("traces", 0), "counts": s.get("counts", {}),
                                    "rule": s.get("rule", ""), "wall_s": s.get("wall_s"),
                                    "notes": s.get("notes", []), "extra": s.get("extra", {})})
        self.cov["evaluations"] += int(s.get("evaluations", 0))
        self.cov["distinct_nontrivial"] += int(s.get("distinct", 0))
        if s.get("mode") in ("replay", "edges"):
            self.cov["behaviours_replayed"] += int(s.get("evaluations", 0))
        for smp in s.get("samples", [])[:3]:
            if len(self.cov["samples"]) < 8:
                self.cov["samples"].append(smp)
        for i, v in enumerate(s.get("violations", [])):
            self.violation(v.get("desc", "divergence"), {"kind": "behaviour", "driver": name, "seed": self.seed,
                                                         "tier": self.tier, "desc": v.get("desc"), "replay": v.get("replay")})

    # ---------------------------------------------------------------- TLC
    def tlc(self, module, cfg=None, workers=DEFAULT_WORKERS, timeout=600, simulate=None, depth=None, env=None,
            coverage=False, tags=(), heap="6g", deadlock=True, name=None, record=True, extra=(), dfid=None):
        """Run TLC on spec/<module>.tla (path relative to spec/, without extension)."""
        path = os.path.join(SPEC, module + ".tla")
        if not os.path.exists(path):
            raise InfraError("no such spec " + path)
        cfg = os.path.join(SPEC, cfg) if cfg else os.path.join(SPEC, module + ".cfg")
        if not cfg.endswith(".cfg"):
            cfg += ".cfg"
        meta = tempfile.mkdtemp(prefix="tlc-", dir=self.scratch)
        lib = os.pathsep.join(spec_dirs())
        cmd = ["java", "-XX:+UseParallelGC", "-Xmx" + heap, "-Xss64m", "-DTLA-Library=" + lib,
               "-cp", TLA_JAR + ":" + TLA_DEPS, "tlc2.TLC", "-metadir", meta, "-noGenerateSpecTE",
               "-config", cfg, "-workers", str(workers)]
        if not deadlock:
            cmd.append("-deadlock")      # TLC: -deadlock means "do NOT check for deadlock"
        if coverage:
            cmd += ["-coverage", "1"]
        if simulate:
            cmd += ["-simulate", simulate]
            if depth:
                cmd += ["-depth", str(depth)]
            cmd += ["-seed", str(self.seed)]
        if dfid:
            cmd += ["-dfid", str(dfid)]
        cmd += list(extra)
        cmd.append(path)
        e = dict(os.environ)
        e.pop("JAVA_TOOL_OPTIONS", None)
        if env:
            e.update({k: str(v) for k, v in env.items()})
        res = TLCResult()
        t = time.time()
        try:
            p = subprocess.run(cmd, stdout=subprocess.PIPE, stderr=subprocess.STDOUT, text=True, timeout=timeout,
                               env=e, cwd=meta)
            res.stdout = p.stdout
        except subprocess.TimeoutExpired as ex:
            res.timeout = True
            res.stdout = (ex.stdout or b"").decode("utf8", "replace") if isinstance(ex.stdout, (bytes, bytearray)) else (ex.stdout or "")
        res.wall = time.time() - t
        parse_tlc_output(res.stdout, res, want_tags=tags)
        if simulate and not res.error and not res.timeout:
            res.ok = True
        shutil.rmtree(meta, ignore_errors=True)
        if record:
            self.cov["tlc_runs"].append(dict(res.summary(), module=module, cfg=os.path.basename(cfg),
                                             name=name or module, mode="simulate" if simulate else "bfs",
                                             zero_coverage=res.zero_cov))
        return res

    def model_check(self, module, cfg=None, **kw):
        """MC step: exhaustive TLC run whose invariants must hold on the model.  A violation
        on the model alone is not a verdict about the code: exit 2."""
        res = self.tlc(module, cfg, **kw)
        if res.timeout:
            raise InfraError("TLC timeout on %s" % module)
        if not res.ok:
            raise InfraError("TLC on %s (%s): %s\n%s" % (module, cfg, res.error or "did not complete", res.stdout[-3000:]))
        self.cov["states"] += res.distinct
        self.cov["transitions"] += res.generated
        self.log("MC %s: %d generated / %d distinct, depth %d, %.1fs" % (kw.get("name") or module, res.generated, res.distinct, res.depth, res.wall))
        return res

    def validate(self, module, trace_path, cfg=None, timeout=600, ntraces=1, env=None, heap="6g", name=None,
                 total=None, silent_steps=False, dfs=False):
        """V step: check that the recorded ndjson trace is a behaviour of <module> (a *Trace spec,
        reading IOEnv.TRACE).  Returns (accepted, consumed, total)."""
        if total is None:
            with open(trace_path) as f:
                total = sum(1 for l in f if l.strip())
        e = {"TRACE": trace_path}
        if env:
            e.update(env)
        extra = []
        if dfs:
            e["JAVA_TOOL_OPTIONS"] = "-Dtlc2.tool.queue.IStateQueue=StateDeque"
        res = self.tlc(module, cfg, workers=1, timeout=timeout, env=e, deadlock=False, heap=heap, name=name or module,
                       record=False, tags=("HWM",))
        if res.timeout:
            raise InfraError("trace validation timeout (%s)" % module)
        if silent_steps:
            hw = res.lines.get("HWM", [])
            consumed = max([int(x) for x in hw], default=0)
        else:
            consumed = max(res.depth - 1, 0)
        if res.error and not res.violated and "POSTCONDITION" not in (res.error or "") and "Postcondition" not in res.stdout:
            # evaluation errors inside the trace spec are infrastructure problems, not verdicts
            if "Invariant" not in res.error and "violated" not in res.error:
                raise InfraError("TLC error validating trace with %s: %s\n%s" % (module, res.error, res.stdout[-3000:]))
        accepted = (consumed == total) and res.violated is None and (res.ok or "ostcondition" in res.stdout) and not (res.violated)
        if consumed == total and res.violated is None and not res.ok and "ostcondition" in res.stdout:
            accepted = False
        self.cov["tlc_runs"].append(dict(res.summary(), module=module, name=name or module, mode="trace",
                                         events=total, consumed=consumed, accepted=accepted))
        if accepted:
            self.cov["traces_validated_against_impl"] += ntraces
            self.cov["events_validated"] += total
        self.log("V %s: %s, consumed %d/%d events, %.1fs" % (module, "accepted" if accepted else "REJECTED", consumed, total, res.wall))
        return accepted, consumed, total, res

    def reject_trace(self, module, trace_path, consumed, res, desc=None, cfg=None):
        """Turn a rejected recorded trace into a violation with a self-contained replay file."""
        lines = [l for l in open(trace_path).read().splitlines() if l.strip()]
        lo = max(0, consumed - 5)
        rep = {"kind": "trace", "module": module, "cfg": cfg, "seed": self.seed, "tier": self.tier,
               "consumed": consumed, "total": len(lines),
               "violated": res.violated, "tlc_error": res.error,
               "last_accepted_events": [json.loads(x) for x in lines[lo:consumed]],
               "rejected_event": json.loads(lines[consumed]) if consumed < len(lines) else None}
        # keep the whole trace next to the replay file when it is small enough
        h = hashlib.sha1(("\n".join(lines[:consumed + 1])).encode()).hexdigest()[:10]
        tpath = os.path.join(OUTDIR, "replays", "%s-%s-%s.ndjson" % (self.pid, self.seed, h))
        with open(tpath, "w") as f:
            f.write("\n".join(lines[:consumed + 1]) + "\n")
        rep["trace_file"] = tpath
        d = desc or ("trace rejected by %s at event %d%s" % (module, consumed + 1,
                                                             (" (invariant %s)" % res.violated) if res.violated else ""))
        self.violation(d, rep)

    def apalache(self, module, init, inv, length, timeout=600, name=None):
        """Optional unbounded obligation with Apalache (symbolic, SMT).  Returns True (holds), False (counter-example
        on the MODEL: reported as a note, exit code unaffected unless the caller raises) or None (could not run /
        timed out: a note, never a verdict)."""
        path = os.path.join(SPEC, module + ".tla")
        work = tempfile.mkdtemp(prefix="apa-", dir=self.scratch)
        shutil.copy(path, work)
        for d in [os.path.dirname(path)]:   # EXTENDS of sibling modules
            for f in os.listdir(d):
                if f.endswith(".tla") and not os.path.exists(os.path.join(work, f)):
                    shutil.copy(os.path.join(d, f), work)
        cmd = ["apalache-mc", "check", "--init=" + init, "--inv=" + inv, "--length=%d" % length,
               "--out-dir=" + os.path.join(work, "out"), os.path.basename(path)]
        t = time.time()
        try:
            p = subprocess.run(cmd, cwd=work, stdout=subprocess.PIPE, stderr=subprocess.STDOUT, text=True, timeout=timeout)
            out = p.stdout
        except (subprocess.TimeoutExpired, FileNotFoundError) as ex:
            out = "TIMEOUT/UNAVAILABLE: %s" % ex
        res = True if "The outcome is: NoError" in out else (False if "The outcome is: Error" in out else None)
        ob = {"tool": "apalache", "module": module, "init": init, "inv": inv, "length": length, "holds": res,
              "wall_s": round(time.time() - t, 1), "name": name or "%s:%s=>%s" % (module, init, inv)}
        self.cov.setdefault("unbounded_obligations", []).append(ob)
        self.log("Apalache %s: %s (%.0fs)" % (ob["name"], {True: "holds", False: "COUNTER-EXAMPLE", None: "not decided"}[res], ob["wall_s"]))
        shutil.rmtree(work, ignore_errors=True)
        return res

    # ---------------------------------------------------------------- verdicts
    def known_finding(self, fid, detail=""):
        """A check that has recognised the exact fingerprint of a recorded genuine defect calls this with the
        finding id.  Returns True and schedules the KNOWN-FINDING line iff known_findings.json lists it as open;
        otherwise returns False and the caller must report a violation (fixed entries suppress nothing)."""
        for kf in self._known_findings:
            if kf.get("id") == fid and kf.get("status", "open") == "open":
                line = "KNOWN-FINDING: property=%s %s" % (self.pid, kf.get("what", fid))
                if line not in self.known:
                    self.known.append(line)
                return True
        return False

    def violation(self, desc, replay_obj):
        fp = fingerprint(replay_obj)
        for kf in self._known_findings:
            if kf.get("status", "open") == "open" and kf_matches(kf, desc, replay_obj):
                line = "KNOWN-FINDING: property=%s %s" % (self.pid, kf.get("what", kf.get("id", "")))
                if line not in self.known:
                    self.known.append(line)
                return
        if len(self.violations) >= 5:
            return
        path = os.path.join(OUTDIR, "replays", "%s-%s-%s.json" % (self.pid, self.seed, fp))
        with open(path, "w") as f:
            json.dump(dict(replay_obj, property=self.pid, desc=desc), f, indent=1, default=str)
        self.violations.append((desc, path))

    def finish(self, rule=None, assumptions=None, explanation=None, exhaustive=None):
        wall = time.time() - self.t0
        cov = self.cov
        if rule:
            cov["rule"] = rule
        if explanation:
            cov["explanation"] = explanation
        if exhaustive is not None:
            cov["exhaustive"] = exhaustive
        if not cov["samples"]:
            cov["samples"] = ["(no sample recorded)"]
        ev = {"property_id": self.pid, "tier": self.tier, "seed": self.seed, "level": self.level,
              "coverage": cov, "assumptions": (assumptions or []) + self.assumptions, "wall_s": round(wall, 2),
              "violations": len(self.violations), "known_findings": self.known, "notes": self.notes}
        with open(os.path.join(OUTDIR, "evidence", self.pid + ".json"), "w") as f:
            json.dump(ev, f, indent=1, default=str)
        shutil.rmtree(self.scratch, ignore_errors=True)
        for k in self.known:
            print(k)
        for desc, path in self.violations:
            print("VIOLATION property=%s replay=%s" % (self.pid, path))
            print("  " + desc)
        self.log("done: %d violation(s), states=%d transitions=%d traces=%d events=%d behaviours=%d" % (
            len(self.violations), cov["states"], cov["transitions"], cov["traces_validated_against_impl"],
            cov["events_validated"], cov["behaviours_replayed"]))
        return 1 if self.violations else 0


def fingerprint(obj):
    return hashlib.sha1(json.dumps(obj, sort_keys=True, default=str).encode()).hexdigest()[:10]


def load_known_findings():
    p = os.path.join(VERIF, "known_findings.json")
    if not os.path.exists(p):
        return {}
    out = {}
    for kf in json.load(open(p)).get("findings", []):
        out.setdefault(kf["property"], []).append(kf)
    return out


def kf_matches(kf, desc, replay_obj):
    """A known finding matches a violation iff every regex in kf['match'] (field -> regex over the
    JSON text of that field of the replay object, or 'desc') matches."""
    m = kf.get("match") or {}
    if not m:
        return False
    for field, rx in m.items():
        text = desc if field == "desc" else json.dumps(replay_obj.get(field), sort_keys=True, default=str)
        if not re.search(rx, text or ""):
            return False
    return True


def parse_edges(res, tag="EDGE"):
    return res.lines.get(tag, [])


def write_json(path, obj):
    with open(path, "w") as f:
        json.dump(obj, f)


def write_ndjson(path, objs):
    with open(path, "w") as f:
        for o in objs:
            f.write(json.dumps(o) + "\n")
