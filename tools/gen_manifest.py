#!/usr/bin/env python3
"""Regenerates MANIFEST.json from the META dict of every checks/C??.py plus tools/not_applicable.json
and tools/hooks.json.  Run after adding or changing a check."""
import importlib.util, json, os, glob, sys
HERE = os.path.dirname(os.path.dirname(os.path.abspath(__file__)))
sys.path.insert(0, os.path.join(HERE, "lib"))
checks = []
_nt = os.path.join(HERE, "tools", "no_thorough.json")
no_thorough = json.load(open(_nt)) if os.path.exists(_nt) else {}
for path in sorted(glob.glob(os.path.join(HERE, "checks", "C*.py"))):
    pid = os.path.basename(path)[:-3]
    spec = importlib.util.spec_from_file_location("m_" + pid, path)
    mod = importlib.util.module_from_spec(spec); spec.loader.exec_module(mod)
    m = mod.META
    if m.get("disabled"):
        continue
    checks.append({
        "property_id": pid,
        "quick_cmd": "bin/check %s --tier quick" % pid,
        "thorough_cmd": "bin/check %s --tier thorough" % pid,
        "evidence_file": "/verif/evidence/%s.json" % pid,
        "replay_cmd_template": "bin/check %s --replay {path}" % pid,
        "engine": m.get("engine", "tla-mbt"),
        "level_claimed": {"category": m.get("level", "model_checking"), "text": m["text"],
                          "design_ref": m.get("design_ref", "")},
        "level_note": m["note"],
        "technique": m["technique"],
    })
    if pid in no_thorough:
        del checks[-1]["thorough_cmd"]
        checks[-1]["level_note"] += " [thorough tier not registered: " + no_thorough[pid] + "]"
na = json.load(open(os.path.join(HERE, "tools", "not_applicable.json")))
claimed = {c["property_id"] for c in checks}
allp = [json.loads(l)["id"] for l in open(os.path.join(HERE, "properties.jsonl"))]
na_ids = {n["property_id"] for n in na}
for pid in allp:
    if pid not in claimed and pid not in na_ids:
        na.append({"property_id": pid, "reason": "no check built yet for this property (planned in DESIGN.md section 3); not claimed"})
na = [n for n in na if n["property_id"] not in claimed]
hooks = json.load(open(os.path.join(HERE, "tools", "hooks.json")))
import subprocess
try:
    log = subprocess.run(["git", "-C", "/repo", "log", "--format=%H %s"], stdout=subprocess.PIPE, text=True).stdout
    hooks["source_commits"] = [l.split()[0] for l in log.splitlines() if l.split(" ", 1)[1].startswith("verif-hook")][::-1]
except Exception:
    pass
man = {
    "version": 1,
    "setup_cmd": "bin/setup",
    "hooks": hooks,
    "engines": [{"name": "tla-mbt", "path": "/verif/lib/vcheck.py", "serves_properties": sorted(claimed),
                 "kind_free_text": "explicit TLA+ specifications under spec/, TLC model checking, replay of TLC transitions/behaviours on the Go implementation and TLC validation of traces recorded from the Go implementation (harness/cmd/*)"}],
    "checks": checks,
    "not_applicable": sorted(na, key=lambda n: n["property_id"]),
    "notes": "Every check: bin/check <ID> [--tier quick|thorough]; seeds via VERIF_SEED. See DESIGN.md.",
}
json.dump(man, open(os.path.join(HERE, "MANIFEST.json"), "w"), indent=1)
print("MANIFEST.json: %d checks, %d not_applicable" % (len(checks), len(na)))
