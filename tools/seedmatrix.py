#!/usr/bin/env python3
"""tools/seedmatrix.py [ID-n ...]: runs the registered quick check of each seeded change (seeded/<ID>-<n>/patch.diff)
through tools/mutrun (scratch worktree, never /repo) and records the outcome in seeded/results.json.
Without arguments: every seeded change that has no recorded result for the current check file hash."""
import hashlib, json, os, subprocess, sys, time, glob
HERE = os.path.dirname(os.path.dirname(os.path.abspath(__file__)))
resp = os.path.join(HERE, "seeded", "results.json")
res = json.load(open(resp)) if os.path.exists(resp) else {}
def chash(pid):
    p = os.path.join(HERE, "checks", pid + ".py")
    return hashlib.sha1(open(p, "rb").read()).hexdigest()[:10] if os.path.exists(p) else None
todo = sys.argv[1:] or sorted(os.path.basename(d) for d in glob.glob(os.path.join(HERE, "seeded", "C*-*")))
for s in todo:
    pid = s.split("-")[0]
    h = chash(pid)
    if h is None:
        print(s, "no check yet"); continue
    if not sys.argv[1:] and res.get(s, {}).get("check_hash") == h and res[s].get("rc") == 1:
        continue
    t = time.time()
    p = subprocess.run([os.path.join(HERE, "tools", "mutrun"), os.path.join(HERE, "seeded", s, "patch.diff"), pid],
                       stdout=subprocess.PIPE, stderr=subprocess.STDOUT, text=True)
    viol = [l for l in p.stdout.splitlines() if l.startswith("VIOLATION")]
    res[s] = {"property": pid, "rc": p.returncode, "detected": p.returncode == 1 and bool(viol), "check_hash": h,
              "wall_s": round(time.time() - t), "first_violation_line": (viol[0] if viol else ""),
              "detail": [l for l in p.stdout.splitlines() if l.startswith("  ")][:1], "when": time.strftime("%Y-%m-%d %H:%M")}
    print(s, "rc=%d" % p.returncode, "DETECTED" if res[s]["detected"] else "MISSED/ERR", flush=True)
    cur = json.load(open(resp)) if os.path.exists(resp) else {}   # other seedmatrix runs may have written meanwhile
    cur[s] = res[s]; res = cur
    json.dump(res, open(resp + ".tmp", "w"), indent=1, sort_keys=True); os.replace(resp + ".tmp", resp)
