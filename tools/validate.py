#!/usr/bin/env python3-vt
"""Validates MANIFEST.json and every evidence/*.json against the schemas (tooling venv python)."""
import json, jsonschema, glob, sys, os
HERE = os.path.dirname(os.path.dirname(os.path.abspath(__file__)))
bad = 0
jsonschema.validate(json.load(open(HERE + "/MANIFEST.json")), json.load(open("/root/.vp/MANIFEST.schema.json")))
es = json.load(open("/root/.vp/EVIDENCE.schema.json"))
for p in sorted(glob.glob(HERE + "/evidence/*.json")):
    try:
        jsonschema.validate(json.load(open(p)), es)
    except Exception as e:
        bad += 1; print("INVALID", p, str(e)[:300])
print("manifest ok; evidence files invalid:", bad)
sys.exit(1 if bad else 0)
