#!/usr/bin/env python3
"""tools/sweep.py [--seeds 2,3,1] [--jobs 3] [--only C01,C02] [--tier quick]
Runs every check for each seed (seed 1 last, so the committed evidence is the VERIF_SEED=1 quick run), a few checks
in parallel, and writes tools/sweep_result.json: rc, wall, VIOLATION/KNOWN-FINDING lines per (check, seed)."""
import argparse, glob, json, os, subprocess, sys, time
from concurrent.futures import ThreadPoolExecutor
HERE = os.path.dirname(os.path.dirname(os.path.abspath(__file__)))
ap = argparse.ArgumentParser(); ap.add_argument("--seeds", default="2,3,1"); ap.add_argument("--jobs", type=int, default=3)
ap.add_argument("--only", default=""); ap.add_argument("--tier", default="quick"); a = ap.parse_args()
ids = a.only.split(",") if a.only else sorted(os.path.basename(p)[:-3] for p in glob.glob(HERE + "/checks/C*.py"))
out = os.path.join(HERE, "tools", "sweep_result.json")
res = json.load(open(out)) if os.path.exists(out) else {}
def run(pid):
    for seed in a.seeds.split(","):
        t = time.time()
        env = dict(os.environ, VERIF_SEED=seed, VERIF_TLC_WORKERS="6")
        p = subprocess.run([HERE + "/bin/check", pid, "--tier", a.tier], stdout=subprocess.PIPE, stderr=subprocess.STDOUT, text=True, env=env, cwd=HERE)
        lines = [l for l in p.stdout.splitlines() if l.startswith(("VIOLATION", "KNOWN-FINDING", "INFRA"))]
        res.setdefault(pid, {})[seed] = {"rc": p.returncode, "wall_s": round(time.time() - t), "lines": lines[:6], "tail": p.stdout.splitlines()[-2:] if p.returncode else []}
        print(pid, "seed", seed, "rc", p.returncode, "%ds" % (time.time() - t), " | ".join(lines[:2]), flush=True)
        json.dump(res, open(out, "w"), indent=1, sort_keys=True)
with ThreadPoolExecutor(a.jobs) as ex:
    list(ex.map(run, ids))
bad = {k: {s: v["rc"] for s, v in d.items() if v["rc"] != 0} for k, d in res.items()}
print("NON-ZERO:", {k: v for k, v in bad.items() if v})
