#!/usr/bin/env python3
"""Regenerates the machine-written parts of DESIGN.md (between <!-- BEGIN:x --> / <!-- END:x --> markers):
 asbuilt  : one row per claimed property from checks/*.py META + latest evidence
 seeded   : seeded changes (seeded/*/meta.json) x detection result (seeded/results.json)
 hooks    : hook commits in /repo"""
import glob, importlib.util, json, os, re, subprocess, sys
HERE = os.path.dirname(os.path.dirname(os.path.abspath(__file__)))
sys.path.insert(0, os.path.join(HERE, "lib"))
def load(path):
    spec = importlib.util.spec_from_file_location("m", path); mod = importlib.util.module_from_spec(spec); spec.loader.exec_module(mod); return mod
rows = ["| id | deciding method (from the check's META) | last quick run: states / transitions / behaviours replayed / traces (events) validated | wall s |", "|---|---|---|---|"]
for p in sorted(glob.glob(HERE + "/checks/C*.py")):
    pid = os.path.basename(p)[:-3]; m = load(p).META
    ev = {}
    try: ev = json.load(open(HERE + "/evidence/%s.json" % pid))
    except Exception: pass
    c = ev.get("coverage", {})
    rows.append("| %s | %s | %s / %s / %s / %s (%s) | %s |" % (pid, m["technique"].replace("|", "/"), c.get("states", "-"), c.get("transitions", "-"),
                c.get("behaviours_replayed", "-"), c.get("traces_validated_against_impl", "-"), c.get("events_validated", "-"), ev.get("wall_s", "-")))
asbuilt = "\n".join(rows)
res = json.load(open(HERE + "/seeded/results.json")) if os.path.exists(HERE + "/seeded/results.json") else {}
rows = ["| seeded change | property | what it changes / what it needs to manifest | check result |", "|---|---|---|---|"]
for d in sorted(glob.glob(HERE + "/seeded/C*-*")):
    s = os.path.basename(d); meta = {}
    try: meta = json.load(open(d + "/meta.json"))
    except Exception: pass
    r = res.get(s)
    out = "not run yet" if not r else ("**detected** (exit 1): " + (r.get("detail") or [""])[0].strip()[:160] if r["detected"] else "MISSED (exit %s)" % r["rc"])
    summ = (str(meta.get("summary", "")) + " — needs: " + str(meta.get("needs", ""))).replace("\n", " ").replace("|", "/")
    rows.append("| %s | %s | %s | %s |" % (s, s.split("-")[0], summ[:420], out.replace("|", "/")))
seeded = "\n".join(rows)
log = subprocess.run(["git", "-C", "/repo", "log", "--format=%h %s", "d59c62d248..HEAD"], stdout=subprocess.PIPE, text=True).stdout
hooks = "\n".join("* `%s`" % l for l in log.splitlines()[::-1])
kf = json.load(open(HERE + "/known_findings.json"))["findings"]
rows = ["| finding | property | status | what fails (specific input / call site / history) |", "|---|---|---|---|"]
for f in kf:
    st = f.get("status", "open")
    txt = f.get("fixed", f.get("what", "")) if st == "fixed" else f.get("what", "")
    rows.append("| %s | %s | %s | %s |" % (f["id"], f["property"], st, txt.replace("|", "/")))
findings = "\n".join(rows)
dp = HERE + "/DESIGN.md"; s = open(dp).read()
for tag, body in (("asbuilt", asbuilt), ("seeded", seeded), ("hooks", hooks), ("findings", findings)):
    s = re.sub(r"(<!-- BEGIN:%s -->).*?(<!-- END:%s -->)" % (tag, tag), lambda m: m.group(1) + "\n" + body + "\n" + m.group(2), s, flags=re.S)
open(dp, "w").write(s)
print("DESIGN.md tables regenerated")
