#!/usr/bin/env python3
"""tools/seed_prompt.py <ID>: creates /tmp/seed/<ID> (scratch worktree of /repo) and prints the prompt for a
fresh mutation-author agent.  The prompt contains only the property record, nothing from /verif."""
import json, subprocess, sys, os
pid = sys.argv[1]
prop = [json.loads(l) for l in open("/verif/properties.jsonl") if json.loads(l)["id"] == pid][0]
wt = "/tmp/seed/" + pid
if not os.path.exists(wt):
    subprocess.run(["git", "-C", "/repo", "worktree", "add", "--detach", wt, "HEAD"], check=True, stdout=subprocess.DEVNULL, stderr=subprocess.DEVNULL)
rec = {k: prop[k] for k in ("id", "title", "statement", "quantifier", "why_tests_cant", "anchors")}
print(f"""You are given a scratch git worktree of go-ethereum (geth) at {wt} (a pinned commit; it builds and tests offline; there is NO network). Work ONLY inside that directory; never read or modify /repo or /verif. Use the default `go` with `export GOFLAGS=-mod=mod GOPROXY=off` (do not set GOTOOLCHAIN or GOSUMDB).

Here is a semantic property of go-ethereum that is supposed to hold:

{json.dumps(rec, indent=1)}

TASK: write a change to go-ethereum (in the worktree) that BREAKS this property while
 (a) still compiling: `go build ./...` of the affected packages and `go vet` of them pass, and
 (b) still passing the EXISTING tests: `go test -count=1` of every package you touch and of the main packages that use the changed code must pass WITH your change (run them and record the result; if an existing test fails, your change is not acceptable — refine it).
The change must be realistic — the kind of bug a maintainer could introduce during a refactor, an optimisation or a feature addition — small (a few lines), and it must need something SPECIFIC to manifest: a particular interleaving, a crash or fault at a particular point, a multi-step sequence of operations, an unusual or boundary input, a rarely used configuration, or two cooperating sites that each look fine alone. NOT something ordinary use would expose at once, and not a change that simply disables the feature.

Also write a DEMONSTRATION: a new Go test file (or small program) that FAILS with your change and PASSES without it. Verify both directions yourself (e.g. `git diff -- <changed files> > patch.diff; git stash` / `git apply patch.diff`).

Deliver under {wt}/SEED/1/ (and, if you can find a second, semantically different way to break the property through another mechanism, {wt}/SEED/2/):
  patch.diff  — `git diff` of the change ONLY (not the demonstration), applying cleanly with `git apply` on the pinned HEAD;
  the demonstration file(s) plus demo.sh with the exact commands to run it from the worktree root (demo.sh copies the test file into place and runs go test);
  meta.json   — {{"property": "{pid}", "summary": what the change does, "needs": what specific condition it needs to manifest, "files": [...], "ran": [commands you ran with pass/fail results: build, vet, existing tests with the change, demo with the change (fails), demo without (passes)]}}.
Leave the worktree itself clean at the end (`git checkout -- . && git clean -fd -e SEED` — everything lives in SEED/). Finish with a 5-line summary.""")
