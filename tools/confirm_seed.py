#!/usr/bin/env python3
"""tools/confirm_seed.py <ID> <n> [--tests pkg,pkg]: independently confirms a seeded change delivered in
/tmp/seed/<ID>/SEED/<n>/ : in a fresh scratch worktree of /repo (a) patch applies, (b) touched packages build
and vet, (c) their existing tests pass WITH the patch, (d) demo fails with the patch, (e) demo passes without.
On success copies the deliverables to /verif/seeded/<ID>-<n>/ and writes meta.json there."""
import json, os, re, shutil, subprocess, sys, tempfile, time
pid, n = sys.argv[1], sys.argv[2]
extra = []
if "--tests" in sys.argv:
    extra = sys.argv[sys.argv.index("--tests") + 1].split(",")
src = "/tmp/seed/%s/SEED/%s" % (pid, n)
env = dict(os.environ, GOFLAGS="-mod=mod", GOPROXY="off")
env.pop("GOTOOLCHAIN", None); env.pop("GOSUMDB", None)
wt = tempfile.mkdtemp(prefix="confirm-", dir="/tmp")
ran = []
def sh(cmd, ok=None, timeout=7200):
    t = time.time()
    p = subprocess.run(cmd, shell=True, cwd=wt, env=env, stdout=subprocess.PIPE, stderr=subprocess.STDOUT, text=True, timeout=timeout)
    ran.append({"cmd": cmd, "rc": p.returncode, "wall_s": round(time.time() - t, 1), "tail": p.stdout[-600:]})
    print("[%s] rc=%d %.0fs" % (cmd[:100], p.returncode, time.time() - t), flush=True)
    return p
try:
    subprocess.run(["git", "-C", "/repo", "worktree", "add", "--detach", wt, "HEAD"], check=True, stdout=subprocess.DEVNULL, stderr=subprocess.DEVNULL)
    patch = os.path.join(src, "patch.diff")
    files = re.findall(r"^\+\+\+ b/(\S+)", open(patch).read(), re.M)
    pkgs = sorted({"./" + os.path.dirname(f) for f in files if f.endswith(".go")})
    shutil.copytree(src, os.path.join(wt, "SEED", n))
    verdict = {}
    # (e) demo without the patch passes
    p = sh("sh SEED/%s/demo.sh" % n); verdict["demo_without_passes"] = p.returncode == 0
    sh("git clean -fdq -e SEED")   # a demo.sh that leaves its test file in place must not count as an "existing" test
    p = sh("git apply SEED/%s/patch.diff" % n); verdict["applies"] = p.returncode == 0
    p = sh("go build -p 4 " + " ".join(pkgs)); verdict["builds"] = p.returncode == 0
    p = sh("go vet " + " ".join(pkgs)); verdict["vets"] = p.returncode == 0
    # timing-sensitive tests of some packages flake under machine load (also on the pristine tree): up to 3 attempts
    for attempt in range(3):
        p = sh("go test -p 2 -count=1 -timeout 60m " + " ".join(pkgs + ["./" + e for e in extra]))
        if p.returncode == 0:
            break
    verdict["existing_tests_pass"] = p.returncode == 0
    p = sh("sh SEED/%s/demo.sh" % n); verdict["demo_with_fails"] = p.returncode != 0
    okall = all(verdict.values())
    print("VERDICT", pid, n, "CONFIRMED" if okall else "REJECTED", verdict)
    if okall:
        dst = "/verif/seeded/%s-%s" % (pid, n)
        shutil.rmtree(dst, ignore_errors=True)
        shutil.copytree(src, dst)
        meta = json.load(open(os.path.join(src, "meta.json"))) if os.path.exists(os.path.join(src, "meta.json")) else {}
        meta["property"] = pid
        meta["confirmed_by_coordinator"] = {"verdict": verdict, "ran": ran, "packages": pkgs + extra}
        json.dump(meta, open(os.path.join(dst, "meta.json"), "w"), indent=1)
finally:
    subprocess.run(["git", "-C", "/repo", "worktree", "remove", "--force", wt], stdout=subprocess.DEVNULL, stderr=subprocess.DEVNULL)
    shutil.rmtree(wt, ignore_errors=True)
