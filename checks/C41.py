"""C41 - Transaction pool keeps only consistent, executable pending sets."""
import os, json
from vcheck import write_json, InfraError

META = {
    "property_id": "C41",
    "level": "model_checking",
    "technique": "TLA+ spec of the legacy pool (LegacyPool.tla: add/validate/enqueue/promote/demote/truncate, two-heap priced list, reset with reinjection) model-checked with TLC; TLC-generated behaviours and seeded random operation sequences executed on the real legacypool.LegacyPool, every step validated against LegacyPoolTrace.tla with all invariants",
    "text": "TLC explores all Add/Reset/SetGasTip sequences over a small transaction universe, block tree and tiny pool limits and checks the C41 invariants (pending gapless from the state nonce, affordable, pending/queue disjoint, lookup = union, price-heap and slot accounting, virtual nonces, limits after each maintenance cycle, replacement needs the price bump) on the model; behaviours sampled by TLC and seeded random sequences (3 accounts, forks up to depth 3, balance/nonce/delegation changes, tip changes, tiny random limits) are executed on a real LegacyPool over a harness chain backed by real StateDBs; after every operation the full white-box projection (Content/Stats/Pending/Nonce + export: priced heaps, stale counter, lookup, slots, list cost totals, nonce indexes, heartbeat order, reservations) is logged and TLC checks that each step is a step of the specification with exactly that successor state and that every invariant holds in the real pool's states.",
    "note": "Trusts TLC, the projection in harness/cmd/c41 and the read-only export file legacypool/verif_export_pool.go. Heap pop order among equal-priced entries, Go map iteration orders and heartbeat times are nondeterministic in the spec (any order accepted). 'Affordable' is what the pool enforces: every pooled transaction is individually payable (cumulative overdraft is only an admission rule, modelled in Add). Not modelled: SetCode transactions/authority tracking, lifetime eviction, journal/locals, block gas limit changes, concurrent (non-sync) Add. KNOWN FINDING C41-gap-after-reorg (spec/pool/NOTES.md): the real pool leaves nonce gaps in a pending list after a Reset whose reinjection fails for a middle nonce; the strict invariant is checked with exactly those accounts excused (ghost variable gapped in LegacyPool.tla); every occurrence is counted by the driver and goes through ctx.known_finding (open entry in known_findings.json), and the model's witnesses are replayed on the real pool in every run.",
    "design_ref": "3.6 C41",
}

T = 3600


def pending(ctx, tally, summary):
    """Collect the occurrences of open known findings a driver run observed (Summary.Extra["pending"])."""
    for fid, v in (summary.get("extra", {}).get("pending") or {}).items():
        t = tally.setdefault(fid, {"count": 0, "sample": v.get("sample")})
        t["count"] += v.get("count", 0)


def settle(ctx, tally):
    """Every observed fingerprint must be an OPEN entry of known_findings.json, else it is a violation."""
    for fid, t in sorted(tally.items()):
        if t["count"] > 0 and not ctx.known_finding(fid):
            ctx.violation("%s observed %d time(s) on the real pool and not listed as an open known finding" % (fid, t["count"]),
                          {"kind": "finding", "finding": fid, "count": t["count"], "sample": t["sample"], "seed": ctx.seed, "tier": ctx.tier})
        ctx.notes.append("known finding %s: fingerprint observed %d time(s) in this run" % (fid, t["count"]))


def behaviours(res, tag):
    return res.lines.get(tag, [])


def run(ctx):
    drv = ctx.build("c41")
    # MC: exhaustive exploration, all invariants and action properties
    r = ctx.model_check("pool/MCLegacyPool", "pool/MCLegacyPool" if not ctx.thorough else "pool/MCLegacyPoolThorough",
                        timeout=T, workers=ctx.pick(4, 8), name="MCLegacyPool", coverage=ctx.thorough)
    if ctx.thorough and r.zero_cov:
        ctx.notes.append("actions with zero coverage in MC: %s" % sorted(set(r.zero_cov)))
    tally = {}
    # KNOWN-FINDING C41-gap-after-reorg (open in known_findings.json): the model's witnesses of the strict gapless
    # property failing are replayed on the real pool; the drivers count every Reset that leaves a gapped pending list.
    g = ctx.model_check("pool/MCLegacyPool", "pool/MCLegacyPoolGap", tags=("GAP",), timeout=T, workers=4, name="MCLegacyPoolGap")
    wit = behaviours(g, "GAP")[:8]
    traces = []
    # fixed step, independent of VERIF_SEED: the kept history of the open finding is replayed on the real pool
    hp = os.path.join(os.path.dirname(os.path.dirname(os.path.abspath(__file__))), "spec", "pool", "findings", "C41-gap-after-reorg.behaviours.json")
    if os.path.exists(hp):
        ht = os.path.join(ctx.scratch, "history.ndjson")
        s, _ = ctx.drive(drv, ["-mode", "witness", "-in", hp, "-trace", ht], name="c41-history", timeout=T, env={"VERIF_SEED": "1"})
        pending(ctx, tally, s)
        traces.append((ht, s["traces"]))
    if wit:
        wp, wt = os.path.join(ctx.scratch, "gap.json"), os.path.join(ctx.scratch, "gap.ndjson")
        write_json(wp, wit)
        s, _ = ctx.drive(drv, ["-mode", "witness", "-in", wp, "-trace", wt], name="c41-witness", timeout=T)
        ctx.notes.append("C41-gap-after-reorg: %d/%d model witnesses reproduce a gapped pending list on the real pool"
                         % (s.get("extra", {}).get("reproduced_on_real_pool", 0), len(wit)))
        pending(ctx, tally, s)
        traces.append((wt, s["traces"]))
    # R: behaviours sampled by TLC from the model, executed on the real pool
    sim = ctx.tlc("pool/MCLegacyPool", "pool/MCLegacyPoolSim", simulate="num=%d" % ctx.pick(15, 120), depth=16,
                  tags=("MBT",), workers=4, timeout=T, name="MCLegacyPoolSim")
    if sim.timeout or not sim.ok:
        raise InfraError("TLC simulation failed: %s\n%s" % (sim.error, sim.stdout[-2000:]))
    bs = behaviours(sim, "MBT")
    cap = ctx.pick(150, 1500)      # the simulator prints every successor at the last depth: thin out evenly
    if len(bs) > cap:
        bs = [bs[i * len(bs) // cap] for i in range(cap)]
    if not bs:
        raise InfraError("no behaviours emitted by the simulation")
    bp, bt = os.path.join(ctx.scratch, "beh.json"), os.path.join(ctx.scratch, "beh.ndjson")
    write_json(bp, bs)
    s, _ = ctx.drive(drv, ["-mode", "replay", "-in", bp, "-trace", bt], name="c41-replay", timeout=T)
    pending(ctx, tally, s)
    traces.append((bt, s["traces"]))
    # V: seeded random operation sequences on the real pool
    rt = os.path.join(ctx.scratch, "rec.ndjson")
    s, _ = ctx.drive(drv, ["-mode", "record", "-trace", rt, "-n", ctx.pick(25, 400), "-steps", 60], name="c41-record", timeout=T)
    pending(ctx, tally, s)
    traces.append((rt, s["traces"]))
    settle(ctx, tally)
    for tp, n in traces:
        ok, consumed, total, res = ctx.validate("pool/LegacyPoolTrace", tp, ntraces=n, timeout=T)
        if not ok:
            ctx.reject_trace("pool/LegacyPoolTrace", tp, consumed, res)
    return ctx.finish(rule="MC: all operation sequences over the bounded universe of MCLegacyPool.cfg; R: TLC-sampled behaviours replayed; V: seeded random sequences; every real step validated by TLC against the spec with all invariants",
                      assumptions=["values < 2^31 (TLC integers)", "operations observed at quiescence (Add with sync=true, Reset synchronous)",
                                   "heap ties, map iteration order and heartbeat order are nondeterministic in the spec",
                                   "known finding C41-gap-after-reorg excused via ghost variable gapped (see note)"])
