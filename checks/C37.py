"""C37 - Gas estimates are sufficient."""
import os

META = {
    "property_id": "C37",
    "level": "model_checking",
    "technique": "TLA+ spec of the estimation algorithm over an unknown success predicate (Estimator.tla) model-checked with TLC; probe sequences of the real gasestimator.Estimate (hook) validated step by step against EstimatorTrace.tla; returned limits re-executed at r and r-1",
    "text": "TLC runs the documented algorithm (caps, plain-transfer shortcut, probe at the cap, optimistic probe, clamped bisection, ErrorRatio stop) against every hidden program of a bounded family (all monotone thresholds; thresholds with one island/hole for gas-dependent programs), every used/peak pair and every cap, and checks termination, sufficiency, minimality (ErrorRatio=0, monotone), the ratio bound and the cap bound. The real Estimate is run on generated contract worlds (calls, nested calls, creates, transfers; Cancun/Prague/Osaka; random caller gas, balances, fee caps, gas caps, ErrorRatio); every trial execution is observed through a guarded hook in gasestimator.run and TLC checks that each probe and the answer are exactly what the specification's algorithm does next; the driver independently re-executes the call at the estimate (must succeed), one below (must fail when monotone and exact), and the estimate must not exceed the cap computed by the specification from funds, gas cap and the EIP-7825 transaction cap.",
    "note": "Trusts TLC, the hook line in gasestimator.run, the driver's own re-execution (core.ApplyMessage on a state copy), the generator's monotonicity mark (self-checked on sampled limits, reported as a note), ErrorRatio restricted to 2^-k (exact in float64 and in TLC integers), gas limits <= 30M.",
    "design_ref": "3.5 C37",
}


def run(ctx):
    drv = ctx.build("c37")
    th = ctx.thorough
    for cfg in ("MCEstimator", "MCEstimatorRatio", "MCEstimatorHoles"):
        ctx.model_check("evm/MCEstimator", "evm/" + cfg + ("Thorough" if th else ""), workers=4,
                        timeout=7200, name=cfg, coverage=th and cfg == "MCEstimator")
    # V: generated worlds / programs / requests
    tp = os.path.join(ctx.scratch, "trace.ndjson")
    s, _ = ctx.drive(drv, ["-mode", "record", "-trace", tp, "-n", ctx.pick(400, 6000)], name="c37-record", timeout=3600)
    ok, consumed, total, r = ctx.validate("evm/EstimatorTrace", tp, ntraces=s["traces"], timeout=7200)
    if not ok:
        ctx.reject_trace("evm/EstimatorTrace", tp, consumed, r)
    for n in s.get("notes") or []:
        ctx.notes.append(n)
    # V: boundary requests (plain transfers under a gas cap / funds below 21000 gas - finding C37-F1, fixed -,
    # caller gas < 21000, caps at the requirement, Osaka cap)
    ep = os.path.join(ctx.scratch, "edge.ndjson")
    s, _ = ctx.drive(drv, ["-mode", "edge", "-trace", ep, "-n", ctx.pick(150, 1500)], name="c37-edge", timeout=3600)
    ok, consumed, total, r = ctx.validate("evm/EstimatorTrace", ep, ntraces=s["traces"], timeout=7200)
    if not ok:
        ctx.reject_trace("evm/EstimatorTrace", ep, consumed, r)
    return ctx.finish(rule="MC: every hidden program/used/peak/cap of the scaled universe; V: one trace per Estimate run, every probe + result + re-execution validated",
                      assumptions=["gas limits <= 30M and balances < 2^31 (TLC integers)", "ErrorRatio in {0} u {2^-k}",
                                   "generator's monotone mark (no GAS opcode, callee failures propagate)",
                                   ])
