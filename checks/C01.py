"""C01 - RLP decoding accepts exactly the canonical encodings."""
import os, json
from vcheck import write_json, InfraError

META = {
    "property_id": "C01",
    "level": "model_checking",
    "technique": "TLA+ RLP spec (Yellow Paper app. B + typed decoding rules) model-checked with TLC over all boundary-alphabet byte strings; every enumerated string replayed on rlp.DecodeBytes/Stream/Split*; recorded random encode/decode calls validated against RLPTrace.tla",
    "text": "RLP.tla defines Enc/Dec, header canonicality and typed views (uints, big/uint256, bool, byte slices/arrays, strings, slices, arrays, structs incl. nil-tagged pointers, raw values, interface{}). TLC checks on every byte string over the boundary alphabet {00,01,37,38,7f,80,81,82,b7..bf,c0..c2,f7..f9,ff} (plus 55/56/255/256-byte fill blocks) that whatever a view accepts re-encodes to the input, that re-decoding is stable, and that Split/SplitString/SplitList/SplitUint64/CountValues agree with the decoder; it prints the verdict of 25 typed views, 11 typed Stream read methods, the stream walk, the raw helpers and the list iterator for every string and the driver executes all of them on package rlp (accept/reject, reason class, value, boundaries, re-encoding). Random typed values, their encodings, byte mutations and single non-minimal-header re-encodings are recorded from the real code and each call is checked by TLC against the same operators.",
    "note": "Trusts TLC, the type-directed abstraction of Go values to item trees in harness/cmd/c01/rlpbind (integers as minimal big-endian bytes), the mapping of rlp errors to four coarse classes. Struct tags optional/tail and custom DecodeRLP methods are outside the property. RawValue is modelled as the code documents it (outer header checked, content not interpreted).",
    "design_ref": "3.1 C01",
}


def run(ctx):
    drv = ctx.build("c01")
    # MC + R plan in one exhaustive run per partition of the first byte: laws on the model and one CASE line per
    # enumerated string (the thorough tier is split into four runs to bound the size of the printed plan)
    cfgs = ctx.pick(["codec/MCRLP"], ["codec/MCRLPThorough%d" % i for i in (1, 2, 3, 4)])
    for k, cfg in enumerate(cfgs):
        res = ctx.model_check("codec/MCRLP", cfg, tags=("CASE", "VIEWS"), timeout=ctx.pick(1800, 14400), name=os.path.basename(cfg),
                              workers=ctx.pick(4, 8))
        views = res.lines.get("VIEWS", [])
        cases = res.lines.get("CASE", [])
        if len(views) != 1 or not cases:
            raise InfraError("MCRLP printed %d VIEWS / %d CASE lines" % (len(views), len(cases)))
        cp = os.path.join(ctx.scratch, "cases%d.json" % k)
        write_json(cp, {"views": views[0], "cases": cases})
        res.lines.clear(); res.stdout = ""; del cases
        ctx.drive(drv, ["-mode", "cases", "-in", cp], name="c01-cases-%d" % k, timeout=7200)
        os.remove(cp)
    # MC: encode/decode round trip over all bounded item trees
    ctx.model_check("codec/MCRLPItems", ctx.pick("codec/MCRLPItems", "codec/MCRLPItemsThorough"), timeout=ctx.pick(1800, 7200),
                    name="MCRLPItems", workers=ctx.pick(4, 8))
    if ctx.thorough:
        ctx.model_check("codec/MCRLPItems", "codec/MCRLPItemsDeep", timeout=7200, name="MCRLPItemsDeep", workers=8)
    # V: recorded calls on random values and mutated encodings
    tp = os.path.join(ctx.scratch, "trace.ndjson")
    s, _ = ctx.drive(drv, ["-mode", "record", "-trace", tp, "-n", ctx.pick(150, 3000)], name="c01-record", timeout=3600)
    ok, consumed, total, r = ctx.validate("codec/RLPTrace", tp, ntraces=s["evaluations"], timeout=ctx.pick(1800, 7200))
    if not ok:
        ctx.reject_trace("codec/RLPTrace", tp, consumed, r)
    return ctx.finish(rule="MC/R: all strings over the 19-byte boundary alphabet up to length %s (+fill blocks); V: random typed values, encodings, mutations" % ctx.pick("3", "4"),
                      assumptions=["inputs <= a few hundred bytes (length fields up to 3 bytes evaluated; longer length fields are 'short' by construction)",
                                   "optional/tail struct tags and custom Decoder implementations not modelled"])
