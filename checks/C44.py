"""C44 - RLPx delivers authenticated messages intact and in order; tampering anywhere stops delivery with an error."""
import os, json
from vcheck import write_json, InfraError

META = {
    "property_id": "C44",
    "level": "model_checking",
    "technique": "TLA+ spec of the RLPx handshake and framing with chained MAC/CTR state and an active adversary (RLPx.tla) model-checked with TLC; every adversary scenario TLC enumerates (position class of the modified byte in auth/ack/frame, invalid curve points from malicious peers) executed on real rlpx.Conn pairs through a re-chunking, bit-flipping proxy",
    "text": "RLPx.tla models auth/ack packets (size prefix, ECIES ephemeral key, IV, ciphertext, MAC), per-direction frame streams with the sender's and receiver's running MAC hash, AES-CTR position and frame alignment, and what readFrame does to that state when a header MAC or frame MAC check fails. TLC checks on all interleavings of writes, reads and modifications that delivered messages are a prefix of the written ones, that nothing is delivered after a modification (no resynchronisation), that the modification is reported, and that a session exists only after an unmodified handshake with the true keys. Each complete run is emitted as a test case and executed on real rlpx.Conn endpoints: the proxy flips a seeded bit inside the TLC-chosen position class and re-chunks the stream (byte-wise, block-boundary, random), message codes and payload sizes are drawn from boundary classes around the 16-byte padding, 2^16 and the 24-bit frame limit, with snappy on and off; untampered bursts of a frame larger than 256 KiB followed at once by small messages are delivered as one write or cut a few bytes behind the frame boundary.",
    "note": "Trusts TLC, the proxy's frame-offset arithmetic in harness/cmd/c44 (checked against the wire size Conn.Write returns), abstract ECIES/MAC (a modified region never verifies). A modified handshake packet is followed by a connection cut so that no timeout is needed. p2p/transport.go's message framing above rlpx (rlp.Encode of the payload) is not driven.",
    "design_ref": "3.7 C44",
}

def run(ctx):
    drv = ctx.build("c44")
    cfgs = ctx.pick(["net/MCRLPx"], ["net/MCRLPx", "net/MCRLPxThorough"])
    cases = {}
    for cfg in cfgs:
        res = ctx.model_check("net/MCRLPx", cfg, tags=("CASE",), timeout=7200, workers=4, name=os.path.basename(cfg), deadlock=False)
        for c in res.lines.get("CASE", []):
            cases[json.dumps(c, sort_keys=True)] = c
    if not cases:
        raise InfraError("TLC emitted no cases")
    cl = [cases[k] for k in sorted(cases)]
    cp = os.path.join(ctx.scratch, "cases.json")
    write_json(cp, cl)
    ctx.log("%d distinct cases from TLC" % len(cl))
    args = ["-mode", "cases", "-in", cp, "-reps", ctx.pick(3, 5)]
    if ctx.thorough:
        args.append("-big")
    s, _ = ctx.drive(drv, args, name="c44-cases", timeout=7200)
    ctx.cov["behaviours_replayed"] += int(s.get("evaluations", 0))
    ctx.cov["traces_validated_against_impl"] += int(s.get("evaluations", 0))
    # V: random sessions (0..5 messages per direction, any number of modified frames) validated action by action
    tp = os.path.join(ctx.scratch, "fuzz.ndjson")
    fargs = ["-mode", "fuzz", "-trace", tp, "-n", ctx.pick(400, 4000)] + (["-big"] if ctx.thorough else [])
    s2, _ = ctx.drive(drv, fargs, name="c44-fuzz", timeout=7200)
    ok = True
    if os.path.exists(tp) and os.path.getsize(tp) > 0:      # otherwise the driver died (reported as a violation by ctx.drive)
        ok, consumed, total, r = ctx.validate("net/RLPxTrace", tp, ntraces=s2["traces"], timeout=7200)
    if not ok:
        ctx.reject_trace("net/RLPxTrace", tp, consumed, r,
                         desc="session on real rlpx.Conn endpoints is not a behaviour of RLPx.tla at event %d (%s)" % (consumed + 1, r.violated or "result of the call differs"))
    return ctx.finish(rule="MC: all interleavings of <=2 (thorough 3) messages per direction, reads, and <=2 modifications over 5 handshake and 6 frame position classes plus invalid curve points; R: every complete run executed several times with seeded sizes/codes/compression/chunking; V: random longer sessions with several modifications",
                      assumptions=["one bit flipped per modification", "ECIES and the frame MACs are treated as unforgeable in the specification",
                                   "connection cut after a modified handshake packet"])
