"""C43 - Block building orders transactions by nonce and price."""
import os
from vcheck import write_json, parse_edges, InfraError

META = {
    "property_id": "C43",
    "level": "model_checking",
    "technique": "TLA+ spec (pool/TxOrder.tla: abstract per-account head indices + the container/heap array maintained by heap.Init/Fix/Pop as the code calls them, ghost yield history) model-checked with TLC over all bounded snapshots and all Shift/Pop sequences; every behaviour of a complete TLC state graph and TLC-sampled behaviours of a larger domain replayed on txorder.TransactionsByPriceAndNonce; recorded runs on random 50-account snapshots validated by TxOrderTrace.tla",
    "text": "TLC explores every snapshot of the bounded domain (3 accounts x <=2 transactions over fee kinds below/at/above the base fee with tip-bound and cap-bound effective tips, base fee none/2/3, non-monotone arrival times; plus 5-account heaps; every initial heap arrangement) and every Shift/Pop choice sequence, checking that the head of each account is exactly the successor of what was yielded from it (nonce order, nothing after an unincludable transaction, nothing after Pop), that the heap holds exactly the live heads, is heap-ordered and its root is the head with the highest effective tip (earlier arrival on ties), that every step yields that best head and touches only its account, and that an exhausted iterator without Pop has yielded exactly the includable prefix of every account. For every snapshot of a complete state graph all maximal Shift/Pop paths are executed on fresh real iterators comparing Peek (account, nonce index, effective fee, emptiness) after construction and after every step; TLC -simulate behaviours over 5 accounts x <=3 transactions are replayed the same way; runs of the real iterator on random 50-account snapshots are validated step by step by TLC with all invariants evaluated.",
    "note": "Every replay runs with the fee values as given, scaled by 2^100 and by 2^222 (order and effective tips scale; the implementation computes far beyond 64 bits), recorded runs scale by 1, 2^70 or 2^200. Arrival times are pairwise distinct (equal fee and equal time leaves the order unspecified); fee values < 2^31; the map iteration order of the constructor is covered in the model by all permutations, in the real runs by Go's randomised map order. Trusts the (account, index) identity carried in LazyTransaction.Hash by the driver.",
    "design_ref": "3.6 C43",
}


def run(ctx):
    drv = ctx.build("c43")
    T = ctx.pick(1800, 7200)
    # MC: all snapshots, all choice sequences, all heap arrangements
    ctx.model_check("pool/MCTxOrder", "pool/MCTxOrder" if not ctx.thorough else "pool/MCTxOrderThorough",
                    timeout=T, workers=4, coverage=ctx.thorough, name="MCTxOrder")
    ctx.model_check("pool/MCTxOrder", "pool/MCTxOrderHeap" if not ctx.thorough else "pool/MCTxOrderHeapThorough", timeout=T, workers=4, name="MCTxOrderHeap")
    # R (exhaustive): complete graph of a smaller domain, every path replayed
    res = ctx.model_check("pool/MCTxOrder", "pool/MCTxOrderEdges" if not ctx.thorough else "pool/MCTxOrderEdgesThorough", tags=("EDGE",), timeout=T, workers=4, name="MCTxOrderEdges")
    edges = parse_edges(res)
    if not edges:
        raise InfraError("no edges emitted")
    ep = os.path.join(ctx.scratch, "edges.json")
    write_json(ep, edges)
    ctx.drive(drv, ["-mode", "paths", "-in", ep], name="c43-paths", timeout=T)
    # R (sampled): behaviours of a larger domain
    res = ctx.tlc("pool/MCTxOrder", "pool/MCTxOrderSim", simulate="num=%d" % ctx.pick(150, 3000), depth=40, workers=2,
                  tags=("MBT",), timeout=T, deadlock=False, name="MCTxOrderSim")
    if res.timeout or res.error:
        raise InfraError("TLC simulate: %s\n%s" % (res.error or "timeout", res.stdout[-2000:]))
    mbt = res.lines.get("MBT", [])
    if len(mbt) < 50:
        raise InfraError("TLC simulate printed only %d behaviours" % len(mbt))
    mp = os.path.join(ctx.scratch, "mbt.json")
    write_json(mp, mbt)
    ctx.drive(drv, ["-mode", "mbt", "-in", mp], name="c43-mbt", timeout=T)
    # V: random large snapshots
    tp = os.path.join(ctx.scratch, "trace.ndjson")
    s, _ = ctx.drive(drv, ["-mode", "record", "-trace", tp, "-n", ctx.pick(40, 600), "-na", 50, "-maxtx", 5], name="c43-record", timeout=T)
    ok, consumed, total, r = ctx.validate("pool/TxOrderTrace", tp, ntraces=s["traces"], timeout=T)
    if not ok:
        ctx.reject_trace("pool/TxOrderTrace", tp, consumed, r)
    # V: a snapshot with 300 accounts (heap indices and counters beyond 8 bits)
    tp2 = os.path.join(ctx.scratch, "trace-big.ndjson")
    s2, _ = ctx.drive(drv, ["-mode", "record", "-trace", tp2, "-n", ctx.pick(1, 4), "-na", 300, "-maxtx", 2], name="c43-record-big", timeout=T)
    ok, consumed, total, r = ctx.validate("pool/TxOrderTrace", tp2, cfg="pool/TxOrderTraceBig", ntraces=s2["traces"], timeout=T, name="TxOrderTraceBig")
    if not ok:
        ctx.reject_trace("pool/TxOrderTrace", tp2, consumed, r, cfg="pool/TxOrderTraceBig")
    return ctx.finish(rule="MC: all bounded snapshots x all Shift/Pop sequences x all initial heap orders; R: all paths of a complete graph + sampled behaviours; V: random 50-account snapshots",
                      assumptions=["arrival times pairwise distinct", "fee values are small integers times a power of two"])
