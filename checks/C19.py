"""C19 - History index behaves as a sorted set of state ids (white-box block/restart layout)."""
import os, json
from vcheck import write_json, InfraError

META = {
    "property_id": "C19",
    "level": "model_checking",
    "technique": "TLA+ spec of the index layout (HistIndex.tla: blocks, restart sections, descriptors, bitmaps, writer/deleter/pruner actions, lookup procedure) model-checked with TLC; TLC-generated behaviours and seeded boundary-seeking lives executed on the real indexWriter/indexDeleter/indexReader/iterators/pruneEntry and validated event by event by HistIndexTrace.tla with the real layout constants (byte-exact block encoding)",
    "text": "TLC explores all interleavings of open(limit)/append/rotate/finish/pop/reopen-previous-block/prune over bounded ids with a shrunk block capacity and restart length and checks: stored elements = the sorted set (ghost), lookups = least stored id above the query for every query and filter, iteration = stored ids in order, descriptor bitmaps never exclude a matching element, block bytes survive the write/read round trip, pruning removes only ids below the tail. The same specification, instantiated with the code's constants (256 elements per restart section, 4096 byte blocks), then validates traces recorded from the real objects: after every call the logged descriptor list (id,max,entries,bitmap bits), lastID, data length and restart offsets of the live block, the stored metadata, stored block bytes and every lookup/iteration result must equal what the specification computes.",
    "note": "Trusts TLC and the projection in harness/cmd/c19 (accessors in triedb/pathdb/verif_export_read.go). State ids are below 2^31 (TLC integers; uvarints of 1-5 bytes). Deleter sessions are opened with a limit that is a stored id or at least the maximum (as the indexer does); the writer is fed ascending ids (see spec/state/NOTES.md O1/O2 for what happens outside). Corrupted blocks: accept/reject of parseIndexBlock is compared with the specification, traversal of accepted damaged blocks must not panic.",
    "design_ref": "3.3 C19",
}


def mbt_plans(ctx, cfg, num, name):
    res = ctx.tlc("state/MCHistIndex", cfg, simulate="num=%d" % num, depth=21, tags=("MBT",), workers=2,
                  timeout=3600, name=name)
    if res.timeout or res.error:
        raise InfraError("TLC simulation %s failed: %s\n%s" % (name, res.error, res.stdout[-2000:]))
    seen, plans = set(), []
    for p in res.lines.get("MBT", []):
        key = json.dumps(p["acts"][:-1])      # TLC prints one line per successor of the last state
        if key in seen:
            continue
        seen.add(key)
        plans.append(p)
    if not plans:
        raise InfraError("no behaviours emitted by " + name)
    return plans


def run(ctx):
    drv = ctx.build("c19")
    T = 3600
    # MC: exhaustive exploration of the layout state machine (shrunk constants)
    if os.environ.get("VERIF_DEV_SKIP_MC") != "1":      # development knob (mutation runs): MC does not depend on the Go code
        ctx.model_check("state/MCHistIndex", "state/MCHistIndexThorough" if ctx.thorough else "state/MCHistIndex",
                        timeout=T, workers=4, name="MCHistIndex", coverage=ctx.thorough)
        ctx.model_check("state/MCHistIndex", "state/MCHistIndexExt" if ctx.thorough else "state/MCHistIndexExtQuick",
                        timeout=T, workers=4, name="MCHistIndexExt")
    # R: TLC-generated behaviours executed on the real objects, judged by the trace specification
    for bm, cfg in ((0, "state/MCHistIndexSim"), (34, "state/MCHistIndexExtSim")):
        plans = mbt_plans(ctx, cfg, ctx.pick(25, 400), "MBT-bitmap%d" % bm)
        pp = os.path.join(ctx.scratch, "plans%d.json" % bm)
        write_json(pp, plans)
        tp = os.path.join(ctx.scratch, "plan%d.ndjson" % bm)
        s, _ = ctx.drive(drv, ["-mode", "plan", "-in", pp, "-trace", tp, "-bitmap", bm], name="c19-plan-%d" % bm, timeout=T)
        ok, consumed, total, r = ctx.validate("state/HistIndexTrace", tp, cfg="state/HistIndexTrace%d" % bm,
                                              ntraces=s["traces"], timeout=T, name="HistIndexTrace-plan-%d" % bm)
        if not ok:
            ctx.reject_trace("state/HistIndexTrace", tp, consumed, r, cfg="HistIndexTrace%d" % bm)
    # V: seeded lives that steer to the real section/block boundaries
    for bm in (0, 2, 34):
        tp = os.path.join(ctx.scratch, "rec%d.ndjson" % bm)
        s, _ = ctx.drive(drv, ["-mode", "record", "-trace", tp, "-bitmap", bm, "-n", ctx.pick(2, 8), "-steps", ctx.pick(3 if bm == 0 else 4, 10)],
                         name="c19-record-%d" % bm, timeout=T)
        ok, consumed, total, r = ctx.validate("state/HistIndexTrace", tp, cfg="state/HistIndexTrace%d" % bm,
                                              ntraces=s["traces"], timeout=T, name="HistIndexTrace-rec-%d" % bm)
        if not ok:
            ctx.reject_trace("state/HistIndexTrace", tp, consumed, r, cfg="HistIndexTrace%d" % bm)
    return ctx.finish(rule="MC: all op interleavings over <=7 ids, block capacity 4 elements, restart length 2, block ids <= MaxBlk; "
                           "R: sampled TLC behaviours on the real code; V: seeded lives crossing the real 256-element and 4096-byte boundaries",
                      assumptions=["state ids < 2^31 (TLC integer range)",
                                   "deleter limit is a stored id or >= max (indexer usage); writer appends ascend (NOTES O1/O2)",
                                   "pruner runs only while no writer/deleter session is open (pause protocol)"])
