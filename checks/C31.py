"""C31 - Two-dimensional gas accounting conserves gas."""
import os, json
from vcheck import parse_edges, write_json, InfraError

META = {
    "property_id": "C31",
    "level": "model_checking",
    "technique": "TLA+ specs (GasBudget.tla, Settlement.tla) model-checked with TLC; every TLC transition replayed on vm.GasBudget; recorded Go traces validated against GasBudgetTrace.tla",
    "text": "TLC explores every sequence of budget operations over bounded values on GasBudget.tla (conservation, non-negativity, charge<=>affordable, reservoir returned on revert/halt as invariants); every transition of the reachable graph is executed on the real vm.GasBudget and compared field by field; seeded random operation sequences on the real struct are recorded and TLC checks each trace is a behaviour of the specification with all invariants evaluated at every step. Settlement.tla (refund cap, calldata floor, legacy and two-dimensional block pool) is model-checked and every transaction applied by the real core.ApplyMessage/GasPool in random blocks under London/Prague/Amsterdam rules is validated as an Included/Rejected step of it.",
    "note": "Trusts TLC, the ndjson projection in harness/cmd/c31 (five struct fields per frame), and that uint64 values below 2^31 are representative (TLC integers).",
    "design_ref": "3.5 C31",
}

def run(ctx):
    drv = ctx.build("c31")
    # MC: exhaustive exploration of the design
    ctx.model_check("evm/MCGasBudget", "evm/MCGasBudget" if not ctx.thorough else "evm/MCGasBudgetThorough",
                    timeout=ctx.pick(300, 1500), name="MCGasBudget")
    # R: every edge of a (smaller) complete graph executed on the real struct
    res = ctx.model_check("evm/MCGasBudget", "evm/MCGasBudgetEdges", tags=("EDGE",), timeout=300, name="MCGasBudgetEdges")
    edges = parse_edges(res)
    if not edges:
        raise Exception("no edges emitted")
    ep = os.path.join(ctx.scratch, "edges.json")
    write_json(ep, edges)
    ctx.drive(drv, ["-mode", "edges", "-in", ep], name="c31-edges")
    # V: recorded executions of the real code validated by the trace specification
    tp = os.path.join(ctx.scratch, "trace.ndjson")
    s, _ = ctx.drive(drv, ["-mode", "record", "-trace", tp, "-n", ctx.pick(100, 3000), "-steps", ctx.pick(60, 100)], name="c31-record")
    ok, consumed, total, r = ctx.validate("evm/GasBudgetTrace", tp, ntraces=s["traces"], timeout=ctx.pick(300, 1500))
    if not ok:
        ctx.reject_trace("evm/GasBudgetTrace", tp, consumed, r)
    # Unbounded integers: the conservation invariant is inductive (Apalache, SMT).  Model-level only;
    # a failure to run is a note, a counter-example means the model is wrong (exit 2).
    for init, inv, ln in ([("Init", "IndInv", 0), ("IndInit", "IndInv", 1)] + ([("IndInit", "Reservoir", 0)] if ctx.thorough else [])):
        if ctx.apalache("evm/GasBudgetInd", init, inv, ln, timeout=ctx.pick(900, 1800)) is False:
            raise InfraError("Apalache counter-example for %s => %s on GasBudgetInd (model error)" % (init, inv))
    # ---- second half: transaction settlement and the block gas pool
    drv2 = ctx.build("c31s")
    ctx.model_check("evm/Settlement", "evm/MCSettlement" if not ctx.thorough else "evm/MCSettlementThorough",
                    timeout=ctx.pick(300, 1500), name="MCSettlement")
    tp2 = os.path.join(ctx.scratch, "settle.ndjson")
    s2, _ = ctx.drive(drv2, ["-trace", tp2, "-blocks", ctx.pick(150, 4000)], name="c31s-record")
    ok, consumed, total, r = ctx.validate("evm/SettlementTrace", tp2, ntraces=s2["traces"], timeout=ctx.pick(300, 1500))
    if not ok:
        ctx.reject_trace("evm/SettlementTrace", tp2, consumed, r)
    return ctx.finish(rule="MC: all operation sequences over values 0..MaxGas and depth<=MaxDepth; R: all graph edges; V: random sequences",
                      assumptions=["values < 2^31 (TLC integer range)", "Exit+Absorb observed as one step"])
