"""C40 - Log queries return exactly the matching canonical logs."""
import os
from vcheck import write_json, InfraError

META = {
    "property_id": "C40",
    "level": "model_checking",
    "technique": "TLA+ spec of the range-query search session over the asynchronous log index (LogIndex.tla: chain extend/reorg, indexer retarget/render/unindex, matcher valid range, multi-step query) model-checked with TLC; TLC-generated schedules and seeded random chains/filters/reorgs executed on the real core/filtermaps index with tiny maps and eth/filters.Filter.Logs, every query outcome validated against the specification's Scan/Match by LogIndexTrace.tla",
    "text": "TLC explores every interleaving of chain growth, reorgs, indexer progress (revert to the common ancestor, head/tail indexing, tail unindexing) and the steps of a range query (sync, indexed search, re-sync and trim to the valid range, unindexed scan, chain view refresh and reorg trim) on small chains and checks that a completed query returns exactly Scan(final view, filter, range) in chain order without duplicates. The real index runs with tiny parameters (16 log values per map, 4 maps per epoch) so a handful of blocks crosses map and epoch boundaries; the driver builds random chains (up to 5 logs per block, 3 addresses, 3 topics), reorgs up to depth 4, history limits (tail unindexing), suspends the indexer at arbitrary progress, issues random filters (wildcards, alternatives, 0..3 topic positions) over random ranges (incl. latest, inverted, beyond head) and changes the chain inside queries (chain operations executed within the session's CurrentView calls). Each outcome is logged with the chain the session ended with and TLC checks it against the specification's direct scan (ExactResult, ChainOrderNoDup) and range/error resolution.",
    "note": "Trusts TLC, the harness chain/backend in harness/cmd/c40 (it serves headers, bodies, receipts and logs of synthetic blocks to both the index and the filter) and the export file filtermaps/verif_export.go (tiny Params constructor, progress accessor). The real indexer is asynchronous: its progress at query time is whatever it reached (logged, not prescribed); a suspended indexer is resumed by a watchdog when a query waits for a matcher sync. Not covered: block-hash filters, pending/safe/finalized tags, history pruning cutoff, checkpoint initialisation, database reopen, log subscription feeds.",
    "design_ref": "3.6 C40",
}

T = 3600


def schedules(behaviours):
    """Turn model behaviours into driver schedules: chain ops at quiescence, queries with the chain ops
    that happened between their steps attached to the CurrentView call they precede."""
    out = []
    for b in behaviours:
        acts = [{"op": "init", "history": 0}]
        cur, calls, flip = None, 0, 0
        for e in b:
            if e["op"] == "chain":
                op = {"keep": e["keep"], "blocks": [e["block"]]}
                if cur is None:
                    flip += 1
                    acts.append({"op": "chain", "chain": op, "idle": flip % 3 != 0})
                else:
                    cur["sched"].setdefault(str(calls), []).append(op)
            elif e["op"] == "qstart":
                cur, calls = {"op": "query", "filter": {"addrs": sorted(e["filter"]["addrs"]), "topics": [sorted(t) for t in e["filter"]["topics"]]},
                              "first": e["first"], "last": e["last"], "sched": {}}, 1
                acts.append(cur)
                if e["done"]:
                    cur = None
            elif e["op"] == "qupdate" and cur is not None:
                calls += 1
                if e["done"]:
                    cur = None
            elif e["op"] == "qend":
                cur = None
        out.append(acts)
    return out


def run(ctx):
    drv = ctx.build("c40")
    r = ctx.model_check("chain/MCLogIndex", "chain/MCLogIndex" if not ctx.thorough else "chain/MCLogIndexThorough",
                        timeout=T, workers=ctx.pick(4, 8), name="MCLogIndex", coverage=ctx.thorough)
    if ctx.thorough and r.zero_cov:
        ctx.notes.append("actions with zero coverage in MC: %s" % sorted(set(r.zero_cov)))
    traces = []
    # R: schedules sampled by TLC from the model
    sim = ctx.tlc("chain/MCLogIndex", "chain/MCLogIndexSim", simulate="num=%d" % ctx.pick(10, 100), depth=26,
                  tags=("MBT",), workers=4, timeout=T, name="MCLogIndexSim")
    if sim.timeout or not sim.ok:
        raise InfraError("TLC simulation failed: %s\n%s" % (sim.error, sim.stdout[-2000:]))
    bs = sim.lines.get("MBT", [])
    cap = ctx.pick(150, 1500)
    if len(bs) > cap:
        bs = [bs[i * len(bs) // cap] for i in range(cap)]
    if not bs:
        raise InfraError("no behaviours emitted by the simulation")
    bp, bt = os.path.join(ctx.scratch, "beh.json"), os.path.join(ctx.scratch, "beh.ndjson")
    write_json(bp, schedules(bs))
    s, _ = ctx.drive(drv, ["-mode", "replay", "-in", bp, "-trace", bt], name="c40-replay", timeout=T)
    traces.append((bt, s["traces"]))
    # V: seeded random chains, filters, reorgs
    rt = os.path.join(ctx.scratch, "rec.ndjson")
    s, _ = ctx.drive(drv, ["-mode", "record", "-trace", rt, "-n", ctx.pick(60, 800), "-steps", 40], name="c40-record", timeout=T)
    traces.append((rt, s["traces"]))
    for tp, n in traces:
        ok, consumed, total, res = ctx.validate("chain/LogIndexTrace", tp, ntraces=n, timeout=T)
        if not ok:
            ctx.reject_trace("chain/LogIndexTrace", tp, consumed, res)
    return ctx.finish(rule="MC: all interleavings of chain changes, indexer progress and query steps on chains of <= 3 blocks; R: TLC-sampled schedules; V: seeded random chains/filters/reorgs; every query outcome validated by TLC against Scan(final view, filter, range)",
                      assumptions=["the harness backend serves consistent headers/receipts/logs for its synthetic blocks",
                                   "indexer progress at query time is observed, not prescribed"])
