"""C11 - Trie generation from flat state reproduces the canonical trie."""
import os
from vcheck import write_json, InfraError

META = {
    "property_id": "C11",
    "level": "model_checking",
    "technique": "TLA+ spec of partitioned trie generation (TrieGen.tla on top of MPT.tla) model-checked with TLC over all flat-state layouts of a small key universe and over partition interleavings/flush points; every layout TLC enumerated is materialised with rawdb snapshot writers and generated with triedb.GenerateTrie in both schemes; random large flat states validated against TrieGenTrace.tla",
    "text": "TrieGen.tla models generatePartition as the merge-join of the account and storage tables (hold, the three dangling-storage cases, stale-root rewrite, batch, flush) per first-nibble partition and assembleRoot with its 0 / 1 (branch fold, short-node fold with orphan deletion) / >=2 cases on the structural trie of MPT.tla. TLC checks for every layout (each key: absent / fresh / stale account x owned slots, including dangling owners before, between and after accounts and in empty partitions): root = canonical root of the corrected state, flat state corrected and nothing else touched, node store = exactly the canonical node set, counters exact, mismatch reported iff another root is expected; a second configuration lets partitions interleave and flush anywhere. Each enumerated layout is executed on the real generator (path and hash scheme, GOMAXPROCS 1..16): counters, flat state, trie-node key space (paths) must equal the specification's, the store must open at the canonical root and read back the corrected state, a different expected root must fail. Random flat states up to 12k accounts (batch flushes; the large ones and every fourth on a pebble store, where the reopen-after-flush of the iterators is real) are generated and their outcome validated by TLC.",
    "note": "Trusts TLC, MPT.tla's Canon as the definition of the canonical trie, package trie's ordinary Trie (used by the driver to compute the reference root/node hashes of the corrected state, independent of the partitioned generator), and the key mapping of harness/triekit. Stack-trie node emission is abstracted to 'emits Canon of the keys fed'. Cancellation is not modelled.",
    "design_ref": "3.2 C11",
}


def run(ctx):
    drv = ctx.build("c11")
    # MC + FN/R: all layouts; TLC prints one case per layout
    res = ctx.model_check("trie/MCTrieGen", "trie/MCTrieGenCases" if not ctx.thorough else "trie/MCTrieGenCasesThorough",
                          tags=("CASE",), timeout=7200, name="MCTrieGen(all layouts)", workers=ctx.pick(4, 8))
    cases = res.lines.get("CASE", [])
    if not cases:
        raise InfraError("no cases emitted")
    # partitions interleaving freely, batch written anywhere
    ctx.model_check("trie/MCTrieGen", "trie/MCTrieGenSched", timeout=7200, name="MCTrieGen(interleavings)", workers=ctx.pick(4, 8),
                    coverage=ctx.thorough)
    # slot hashes sharing 62 nibbles: storage tries with embedded nodes
    res2 = ctx.model_check("trie/MCTrieGen", "trie/MCTrieGenCasesEmb", tags=("CASE",), timeout=7200,
                           name="MCTrieGen(embedded storage nodes)", workers=ctx.pick(4, 8))
    cases += res2.lines.get("CASE", [])
    cp = os.path.join(ctx.scratch, "cases.json")
    write_json(cp, cases)
    for scheme in ("path", "hash"):
        ctx.drive(drv, ["-mode", "cases", "-in", cp, "-scheme", scheme], name="c11-cases[%s]" % scheme, timeout=7200)
    # V: random large flat states
    for scheme in ("path", "hash"):
        tp = os.path.join(ctx.scratch, "gen-%s.ndjson" % scheme)
        s, _ = ctx.drive(drv, ["-mode", "record", "-scheme", scheme, "-trace", tp, "-n", ctx.pick(40, 400), "-big", ctx.pick(1, 6)],
                         name="c11-record[%s]" % scheme, timeout=7200)
        if s.get("violations"):
            continue
        ok, consumed, total, r = ctx.validate("trie/TrieGenTrace", tp, ntraces=s["traces"], timeout=7200, name="TrieGenTrace[%s]" % scheme)
        if not ok:
            ctx.reject_trace("trie/TrieGenTrace", tp, consumed, r)
    return ctx.finish(rule="MC: all layouts over 4 (quick) / 5 (thorough) account keys in 3 partitions x {absent, fresh, stale} x {0,1,2 slots}, sequential partitions; interleavings + flush points over 3 keys; R: every layout on triedb.GenerateTrie, both schemes; V: random flat states",
                      assumptions=["database holds no trie nodes before generation", "no cancellation", "stack trie emits the canonical sub-trie of the keys fed (C06/C07)"])
