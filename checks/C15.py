"""C15 - Block access lists record exactly the net state changes."""
import os, random
from vcheck import write_json, InfraError

META = {
    "property_id": "C15",
    "level": "model_checking",
    "technique": "TLA+ spec of EIP-7928 lists over the reference account model (BAL.tla: list = difference between the world at transaction start and after Finalise, plus never-reverted access sets) with a TLC-checked model of the journal stash mechanism (MCBAL.tla); TLC behaviours replayed on state.StateDB under Amsterdam rules comparing the list returned by every Finalise and the merged block list; recorded random blocks validated by StateDBTrace.tla (CheckBAL) including the encoding object",
    "text": "TLC explores every Amsterdam-rule operation sequence with nested snapshots/reverts over a small universe and checks that the mechanism the code uses (stash the pre-transaction balance/nonce/code at the first write, drop the stash when a revert removes the last journal entry of that kind, dirty storage = slots differing from the committed value, record only for normally finalised accounts) records exactly the net difference between transaction start and end (invariant MechanismIsNetDiff), that every change lies in an accessed account/slot and that merged block lists are functional per index. Binding: behaviours sampled by TLC are replayed on real StateDBs and at every Finalise the returned ConstructionBlockAccessList (projected per account: balance/nonce/code change, written slots with values, read slots) must equal the model's expected list, the Merge of the lists must equal the model's merged list; seeded random blocks (reverted frames, change-and-restore of balances, storage and code, self-destructs, reads inside reverted frames) are recorded and TLC validates every call, every returned list and at the end of each block the encoding object (sorted by address/slot/index, strictly increasing, duplicate free, reads and writes disjoint, indexes within the block). The driver additionally requires Validate to accept, RLP encode/decode to round-trip byte for byte, Hash to equal keccak(rlp) and be independent of construction order, the size and index bounds to be exact, and ten kinds of corruption (swaps, duplicates, empty entries, read/write overlap) to be rejected by Validate; finally TLC enumerates all small abstract encoding lists (sorted, unsorted, duplicated in every dimension, indexes beyond the block) with the verdict of the specification's ordering predicate and Validate must accept exactly those (function binding).",
    "note": "Trusts TLC and the projections in harness/statekit (ProjectTxBAL/ProjectBlockBAL). Observables are read from a Copy() of the StateDB so that the projection adds no reads. Histories are EVM-feasible (StateDB.tla F1-F5); RLP itself is specified in spec/codec/RLP.tla (C01), here the real encoder is used for the round trip. ValidateSize is checked at the exact limit only.",
    "design_ref": "3.3 C15",
}


def run(ctx):
    drv = ctx.build("c15")
    rnd = random.Random(ctx.seed)

    # MC: the stash mechanism records exactly the net difference (and the other BAL invariants)
    ctx.model_check("state/MCBAL", "state/MCBAL" if not ctx.thorough else "state/MCBALThorough",
                    timeout=ctx.pick(1800, 7200), name="MCBAL", workers=4)

    # R: behaviours sampled by TLC replayed on the real StateDB
    res = ctx.tlc("state/MCBAL", "state/MCBALSim", simulate="num=%d" % ctx.pick(8, 80), depth=32, tags=("MBT",),
                  timeout=ctx.pick(1800, 3600), name="MCBALSim", workers=4)
    if not res.ok:
        raise InfraError("TLC simulation failed: %s\n%s" % (res.error, res.stdout[-2000:]))
    bs = res.lines.get("MBT", [])
    if not bs:
        raise InfraError("no behaviours emitted by the simulation")
    rnd.shuffle(bs)
    bs = bs[:ctx.pick(500, 8000)]
    bp = os.path.join(ctx.scratch, "mbt.json")
    write_json(bp, bs)
    ctx.drive(drv, ["-mode", "mbt", "-in", bp], name="c15-mbt", timeout=ctx.pick(1800, 7200))

    # FN: Validate accepts exactly the lists the ordering rule of the specification accepts
    res = ctx.model_check("state/MCBALCases", "state/MCBALCases" if not ctx.thorough else "state/MCBALCasesThorough",
                          tags=("CASE",), timeout=ctx.pick(1800, 7200), name="MCBALCases", workers=4)
    cases = res.lines.get("CASE", [])
    if not cases:
        raise InfraError("no cases emitted")
    cp = os.path.join(ctx.scratch, "cases.json")
    write_json(cp, cases)
    del cases, res
    ctx.drive(drv, ["-mode", "cases", "-in", cp], name="c15-cases", timeout=ctx.pick(1800, 7200))

    # V: recorded Amsterdam blocks validated by the trace specification with the BAL observer
    tp = os.path.join(ctx.scratch, "trace.ndjson")
    s, _ = ctx.drive(drv, ["-mode", "record", "-trace", tp, "-n", ctx.pick(40, 240), "-steps", ctx.pick(100, 200),
                           "-na", 3, "-ns", 2], name="c15-record", timeout=ctx.pick(1800, 7200))
    ok, consumed, total, r = ctx.validate("state/StateDBTrace", tp, cfg="state/StateDBTraceBAL", ntraces=s["traces"],
                                          timeout=ctx.pick(1800, 7200))
    if not ok:
        ctx.reject_trace("state/StateDBTrace", tp, consumed, r, cfg="state/StateDBTraceBAL")
    return ctx.finish(
        rule="MC: all Amsterdam operation sequences of one transaction over 1 address x 1 slot with two nested snapshots (mechanism = net difference); R: simulated behaviours over 2 addresses x 2 slots, 4 transactions per block; V: random blocks over 3 addresses x 2 slots",
        assumptions=["values < 2^31 (TLC integer range)",
                     "histories restricted to EVM-feasible ones (StateDB.tla F1-F5)",
                     "block access index of transaction n is n+1 (0 = pre-execution system calls, not exercised)"])
