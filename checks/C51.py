"""C51 - Contract ABI encoding round-trips and follows the ABI specification."""
import os
from vcheck import write_json, InfraError

META = {
    "property_id": "C51",
    "level": "model_checking",
    "technique": "byte-level TLA+ transcription of the Solidity ABI encoding (ABI.tla: Enc, pointer-following Dec, verdict); TLC checks round-trip/canonical-form laws on nested types and mutated encodings and prints every case for replay on abi.Arguments Pack/Unpack; recorded random Pack/Unpack calls validated by ABITrace.tla",
    "text": "ABI.tla defines the head/tail layout (offsets relative to the enclosing tuple/array, length prefixes, left/right padding, sign extension) and the decoder any implementation must realise on arbitrary bytes: reject exactly when a needed byte is outside the input or a leaf is out of range, accept canonical encodings (plus trailing bytes) with exactly their value, and - if it is lenient about dirty padding or odd offsets - accept only the pointer-following value. TLC explores all types of nesting depth <= 2 (<= 3 components) over the base types with three sample values each, every single-word replacement from a 14-value alphabet at every position of their encodings, truncations/extensions, and all short word strings for ten argument lists; it checks Dec(Enc(v)) = v, canonical re-encoding and truncation laws on the model and prints every case. The driver builds the real abi.Type by abi.NewType and Go values by reflection, demands Pack = specification bytes, Unpack verdict/value = specification, no panic (recovered and reported), and that whatever Unpack accepts re-encodes and decodes to the same value. Random types of depth <= 4 with random values and mutated encodings are recorded and validated event by event.",
    "note": "fixed-point and function types are outside; values of uintN/intN are assumed in range when packing; two defects found by this check are fixed in /repo (C51-F1 offset of T[k] with dynamic T truncated to 64 bits, C51-F2 no range check for integer widths other than 8/16/32/64/256; see spec/codec/NOTES.md) and their reverse patches are kept as mutations. Trusts TLC and the value conversion by reflection in harness/cmd/c51.",
    "design_ref": "3.1 C51",
}


def run(ctx):
    drv = ctx.build("c51")
    res = ctx.model_check("codec/MCABI", "codec/MCABI" if ctx.thorough else "codec/MCABIQuick", tags=("CASE",),
                          timeout=7200, workers=ctx.pick(4, 8), name="MCABI(laws + cases)")
    cases = res.lines.get("CASE", [])
    if len(cases) < 5000:
        raise InfraError("TLC emitted only %d cases" % len(cases))
    cp = os.path.join(ctx.scratch, "cases.json")
    write_json(cp, cases)
    ctx.drive(drv, ["-mode", "cases", "-in", cp], timeout=3600, name="c51-cases")
    tp = os.path.join(ctx.scratch, "trace.ndjson")
    s2, _ = ctx.drive(drv, ["-mode", "record", "-trace", tp, "-n", ctx.pick(120, 2500)], timeout=3600, name="c51-record")
    ok, consumed, total, r = ctx.validate("codec/ABITrace", tp, ntraces=1, timeout=7200)
    if not ok:
        ctx.reject_trace("codec/ABITrace", tp, consumed, r)
    return ctx.finish(
        rule="MC: laws on every case; R: every case (types x sample values, single-word mutations, cuts, word strings) on abi.Arguments; V: random nested types/values and mutated encodings, one event per Pack/Unpack",
        assumptions=["numbers in offset/length positions are exact below 2^24 and 'huge' above (inputs are far smaller)",
                     "values handed to Pack are in the range of their type",
                     ])
