"""C18 - Historical state reads return the value at that state (pathdb state-history index + HistoricReader)."""
import os

META = {
    "property_id": "C18",
    "level": "model_checking",
    "technique": "TLA+ spec of the state-history index and historic reads (PathDBIndex.tla on top of PathDBHist.tla) model-checked with TLC; seeded random histories with pruning, rollbacks, other forks and late-enabled indexing executed on a real pathdb.Database; every step's projected state, index content and every HistoricStateReader read validated by TLC against PathDBIndexTrace.tla",
    "text": "TLC explores all interleavings of updates, commits, rollbacks to every root, clean reopen with indexing switched on early or late, and the completion of the initial indexing run, for every history limit, and checks that the index is exactly the set of retained histories touching each key, that every root the reader serves is a canonical retained state whose every key reads as its value in that state (first later history touching the key, else the disk layer), and that exactly the non-canonical / pruned / unknown roots are refused. The same specification judges the real code: each real step logs the database projection of C17 plus index metadata, initialisation flag and indexed ids per key; each read event logs served/refused and the value of every key (account blob compared with the canonical account of that state, incl. storage root); TLC accepts only traces in which every event is the specification's action with that outcome.",
    "note": "Trusts TLC, the projection in harness/cmd/c17/pdb, the accessors in triedb/pathdb/verif_export_hist.go. Partially indexed states are produced with a blocking gate hook in indexIniter.index (one added line, tag verif). Two situations are pending as candidate defects (spec/state/NOTES.md, TODO-KNOWN-FINDING in PathDBIndexTrace.tla and harness/cmd/c18): C18-KF1 flattening after a rollback to state id 0 fails in indexSingle; C18-KF2 a rollback while the initial indexing run has not completed fails in indexIniter.run. Traces end at those events and the trace spec accepts exactly those situations.",
    "design_ref": "3.3 C18",
}


def run(ctx):
    drv = ctx.build("c18")
    ctx.model_check("state/PathDBIndex", "state/MCPathDBIndex" if not ctx.thorough else "state/MCPathDBIndexThorough",
                    timeout=ctx.pick(3600, 10800), name="MCPathDBIndex", workers=ctx.pick(4, 8), coverage=ctx.thorough)
    t1 = os.path.join(ctx.scratch, "random.ndjson")
    s, _ = ctx.drive(drv, ["-mode", "random", "-trace", t1, "-n", ctx.pick(16, 300), "-steps", ctx.pick(60, 150)],
                     name="c18-random", timeout=ctx.pick(3600, 7200))
    # partially indexed states: background indexer held by a gate (blocking verif hook)
    t2 = os.path.join(ctx.scratch, "gate.ndjson")
    g, _ = ctx.drive(drv, ["-mode", "gate", "-trace", t2, "-n", ctx.pick(6, 80)], name="c18-gate", timeout=ctx.pick(3600, 7200))
    kf = s.get("counts", {}).get("KF1:index-metadata-deleted", 0)
    if kf:
        ctx.notes.append("pending candidate defect C18-KF1 (flatten after rollback to state id 0 fails in indexSingle) reproduced %d time(s); traces end at that event" % kf)
    kf2 = g.get("counts", {}).get("KF2:shorten-while-initialising", 0) + s.get("counts", {}).get("KF2:shorten-while-initialising", 0)
    if kf2:
        ctx.notes.append("pending candidate defect C18-KF2 (rollback while the initial indexing run has not completed fails in indexIniter.run) reproduced %d time(s); traces end at that event" % kf2)
    tp = os.path.join(ctx.scratch, "trace.ndjson")
    with open(tp, "w") as f:
        for p in (t1, t2):
            f.write(open(p).read())
    ok, consumed, total, r = ctx.validate("state/PathDBIndexTrace", tp, ntraces=s["traces"] + g["traces"], timeout=ctx.pick(3600, 7200))
    if not ok:
        ctx.reject_trace("state/PathDBIndexTrace", tp, consumed, r)
    return ctx.finish(rule="MC: all behaviours over worlds of 1 account x 1 slot, ids<=MaxId, history limits, indexing on from start or switched on at a reopen; V: random histories with reads at known roots",
                      assumptions=["hashes injective (root = state content)", "index content observed only while the background indexer is idle",
                                   "indexing is never switched off again once enabled", "no unclean restart (C20)"])
