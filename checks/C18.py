"""C18 - Historical state reads return the value at that state (pathdb state-history index + HistoricReader)."""
import os

META = {
    "property_id": "C18",
    "level": "model_checking",
    "technique": "TLA+ spec of the state-history index and historic reads (PathDBIndex.tla on top of PathDBHist.tla) model-checked with TLC; seeded random histories with pruning, rollbacks, other forks and late-enabled indexing executed on a real pathdb.Database; every step's projected state, index content and every HistoricStateReader read validated by TLC against PathDBIndexTrace.tla",
    "text": "TLC explores all interleavings of updates, commits, rollbacks to every root, clean reopen with indexing switched on early or late, and the completion of the initial indexing run, for every history limit, and checks that the index is exactly the set of retained histories touching each key, that every root the reader serves is a canonical retained state whose every key reads as its value in that state (first later history touching the key, else the disk layer), and that exactly the non-canonical / pruned / unknown roots are refused. The same specification judges the real code: each real step logs the database projection of C17 plus index metadata, initialisation flag and indexed ids per key; each read event logs served/refused and the value of every key (account blob compared with the canonical account of that state, incl. storage root); TLC accepts only traces in which every event is the specification's action with that outcome.",
    "note": "Trusts TLC, the projection in harness/cmd/c17/pdb, the accessors in triedb/pathdb/verif_export_hist.go. The harness waits for the initial indexing run after every open (partially indexed states are observed as refusals only). One situation is pending as candidate defect C18-KF1 (see spec/state/NOTES.md): flattening after a rollback to state id 0 fails in the indexer; traces end there and the trace spec accepts exactly that event (TODO-KNOWN-FINDING).",
    "design_ref": "3.3 C18",
}


def run(ctx):
    drv = ctx.build("c18")
    ctx.model_check("state/PathDBIndex", "state/MCPathDBIndex" if not ctx.thorough else "state/MCPathDBIndexThorough",
                    timeout=ctx.pick(3600, 10800), name="MCPathDBIndex", workers=ctx.pick(4, 8), coverage=ctx.thorough)
    tp = os.path.join(ctx.scratch, "trace.ndjson")
    s, _ = ctx.drive(drv, ["-mode", "random", "-trace", tp, "-n", ctx.pick(16, 300), "-steps", ctx.pick(60, 150)],
                     name="c18-random", timeout=ctx.pick(3600, 7200))
    kf = s.get("counts", {}).get("KF1:index-metadata-deleted", 0)
    if kf:
        ctx.notes.append("pending candidate defect C18-KF1 (flatten after rollback to state id 0 fails in indexSingle) reproduced %d time(s); traces end at that event" % kf)
    ok, consumed, total, r = ctx.validate("state/PathDBIndexTrace", tp, ntraces=s["traces"], timeout=ctx.pick(3600, 7200))
    if not ok:
        ctx.reject_trace("state/PathDBIndexTrace", tp, consumed, r)
    return ctx.finish(rule="MC: all behaviours over worlds of 1 account x 1 slot, ids<=MaxId, history limits, indexing on from start or switched on at a reopen; V: random histories with reads at known roots",
                      assumptions=["hashes injective (root = state content)", "initial indexing observed only after completion",
                                   "indexing is never switched off again once enabled", "no unclean restart (C20)"])
