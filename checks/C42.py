"""C42 - Blob pool stays consistent across operations and restarts."""
import os
from vcheck import write_json, InfraError

META = {
    "property_id": "C42",
    "level": "model_checking",
    "technique": "TLA+ spec of the blob pool (BlobPool.tla: add/replace with eviction, reset with reorg walk, reinjection from and offload into the limbo, finality, tip filter, Init on a directory after clean close and after an abrupt stop) model-checked with TLC; TLC-generated behaviours and seeded random operation sequences executed on the real blobpool.BlobPool on disk, every step validated against BlobPoolTrace.tla with all invariants",
    "text": "TLC explores all Add/Reset/SetGasTip/Reopen/Crash sequences over a small transaction universe, block tree and capacity and checks the C42 invariants on the model (nonce-contiguous from the state nonce, total cost affordable, index = store, limbo retains included transactions until finality, capacity after Add/Init, reopening reproduces the contents). Behaviours sampled by TLC and seeded random sequences (3 accounts, replacements at the price-bump boundary, forks, foreign inclusions, balance changes, finality, fee changes, clean restarts, abrupt stops = copy of the live directory reopened) run on a real BlobPool with real billy stores; after every operation the full white-box projection (index metas with eviction thresholds, spent, stored, lookup, eviction heap array, limbo index/groups, contents of both stores, reservations, Stats/Nonce/Pending/Has) is logged and TLC checks that each step is a step of the specification with exactly that successor state, that the implementation's bookkeeping agrees with it (incl. the heap property of the eviction heap under the specification's priorities) and that every invariant holds.",
    "note": "Trusts TLC, the projection in harness/cmd/c42 and the read-only export blobpool/verif_export_pool.go. Fee-jump floats are produced by the implementation's own functions and treated as opaque attributes (x10^6); fee menus keep priorities away from rounding boundaries. Store ids are opaque (billy compacts on open). KZG validity and the tx->cell conversion of Add are bypassed (ValidateTxBasics + AddPooledTx with precomputed cells; C05 out of scope). Not modelled: gapped reorder buffer (state nonces kept below 9 so its allowance is 0), delegation limit, announcements, legacy sidecar conversion, multi-blob transactions. Crash = copy of the directory between operations (billy writes through on Put and never journals deletes), not a torn write inside a Put. KNOWN FINDINGS (open in known_findings.json, spec/pool/NOTES.md; every occurrence is counted by the driver and goes through ctx.known_finding): C42-recheck-gap-after-overlap (recheck keeps a list starting above the state nonce when a stale lower transaction was present; accounts excused via ghost misaligned), C42-limbo-stale-block (limbo keeps the old block number of a transaction included on both branches; excused via ghost stale), C42-add-panic-after-overflow (nil dereference in addLocked after the eviction loop dropped two transactions of the sender; the harness recovers from exactly this panic). The model's witnesses of the first two are replayed on the real pool in every run.",
    "design_ref": "3.6 C42",
}

T = 3600


def pending(ctx, tally, summary):
    """Collect the occurrences of open known findings a driver run observed (Summary.Extra["pending"])."""
    for fid, v in (summary.get("extra", {}).get("pending") or {}).items():
        t = tally.setdefault(fid, {"count": 0, "sample": v.get("sample")})
        t["count"] += v.get("count", 0)


def settle(ctx, tally):
    """Every observed fingerprint must be an OPEN entry of known_findings.json, else it is a violation."""
    for fid, t in sorted(tally.items()):
        if t["count"] > 0 and not ctx.known_finding(fid):
            ctx.violation("%s observed %d time(s) on the real pool and not listed as an open known finding" % (fid, t["count"]),
                          {"kind": "finding", "finding": fid, "count": t["count"], "sample": t["sample"], "seed": ctx.seed, "tier": ctx.tier})
        ctx.notes.append("known finding %s: fingerprint observed %d time(s) in this run" % (fid, t["count"]))


def run(ctx):
    drv = ctx.build("c42")
    for cfg in (("pool/MCBlobPool", "pool/MCBlobPoolCrash") if not ctx.thorough else ("pool/MCBlobPoolThorough", "pool/MCBlobPoolCrashThorough")):
        r = ctx.model_check("pool/MCBlobPool", cfg, timeout=T, workers=ctx.pick(4, 8), name=os.path.basename(cfg), coverage=ctx.thorough)
        if ctx.thorough and r.zero_cov:
            ctx.notes.append("actions with zero coverage in %s: %s" % (cfg, sorted(set(r.zero_cov))))
    traces = []
    tally = {}
    # fixed first step, independent of VERIF_SEED: the kept histories of the open findings are replayed on the real
    # pool; each fingerprint the drivers observe goes through ctx.known_finding (a history that no longer reproduces
    # yields no line and is not a violation)
    fdir = os.path.join(os.path.dirname(os.path.dirname(os.path.abspath(__file__))), "spec", "pool", "findings")
    for fid, mode in (("C42-recheck-gap-after-overlap", ["-mode", "witness", "-kind", "gap"]),
                      ("C42-limbo-stale-block", ["-mode", "witness", "-kind", "limbo"]),
                      ("C42-add-panic-after-overflow", ["-mode", "replay"])):
        hp = os.path.join(fdir, fid + ".behaviours.json")
        if os.path.exists(hp):
            ht = os.path.join(ctx.scratch, fid + ".ndjson")
            s, _ = ctx.drive(drv, mode + ["-in", hp, "-dir", os.path.join(ctx.scratch, "data-" + fid), "-trace", ht],
                             name="c42-history-" + fid, timeout=T, env={"VERIF_SEED": "1"})
            pending(ctx, tally, s)
            traces.append((ht, s["traces"]))
    # KNOWN-FINDINGS C42-recheck-gap-after-overlap / C42-limbo-stale-block (open in known_findings.json): the model's
    # witnesses of the strict properties failing are replayed on the real pool; the drivers count every fingerprint.
    for kind, cfg, tag in (("gap", "pool/MCBlobPoolGap", "NGAP"), ("limbo", "pool/MCBlobPoolLimbo", "LIMBO")):
        g = ctx.model_check("pool/MCBlobPool", cfg, tags=(tag,), timeout=T, workers=4, name=os.path.basename(cfg))
        wit = sorted(g.lines.get(tag, []), key=len)[:6]
        if wit:
            wp, wt = os.path.join(ctx.scratch, kind + ".json"), os.path.join(ctx.scratch, kind + ".ndjson")
            write_json(wp, wit)
            s, _ = ctx.drive(drv, ["-mode", "witness", "-kind", kind, "-in", wp, "-dir", os.path.join(ctx.scratch, "data-" + kind), "-trace", wt],
                             name="c42-witness-" + kind, timeout=T)
            pending(ctx, tally, s)
            ctx.notes.append("%s: %d/%d model witnesses reproduce on the real pool" % (
                {"gap": "C42-recheck-gap-after-overlap", "limbo": "C42-limbo-stale-block"}[kind],
                s.get("extra", {}).get("reproduced_on_real_pool", 0), len(wit)))
            traces.append((wt, s["traces"]))
    # R: behaviours sampled by TLC from the model, executed on the real pool
    sim = ctx.tlc("pool/MCBlobPool", "pool/MCBlobPoolSim", simulate="num=%d" % ctx.pick(3, 30), depth=14,
                  tags=("MBT",), workers=4, timeout=T, name="MCBlobPoolSim")
    if sim.timeout or not sim.ok:
        raise InfraError("TLC simulation failed: %s\n%s" % (sim.error, sim.stdout[-2000:]))
    bs = sim.lines.get("MBT", [])
    cap = ctx.pick(40, 400)      # the simulator prints every successor at the last depth: thin out evenly
    if len(bs) > cap:
        bs = [bs[i * len(bs) // cap] for i in range(cap)]
    if not bs:
        raise InfraError("no behaviours emitted by the simulation")
    bp, bt = os.path.join(ctx.scratch, "beh.json"), os.path.join(ctx.scratch, "beh.ndjson")
    write_json(bp, bs)
    s, _ = ctx.drive(drv, ["-mode", "replay", "-in", bp, "-dir", os.path.join(ctx.scratch, "data-r"), "-trace", bt], name="c42-replay", timeout=T)
    traces.append((bt, s["traces"]))
    pending(ctx, tally, s)
    # V: seeded random operation sequences on the real pool
    rt = os.path.join(ctx.scratch, "rec.ndjson")
    s, _ = ctx.drive(drv, ["-mode", "record", "-dir", os.path.join(ctx.scratch, "data-v"), "-trace", rt, "-n", ctx.pick(12, 150), "-steps", 50],
                     name="c42-record", timeout=T)
    traces.append((rt, s["traces"]))
    pending(ctx, tally, s)
    settle(ctx, tally)
    for tp, n in traces:
        ok, consumed, total, res = ctx.validate("pool/BlobPoolTrace", tp, ntraces=n, timeout=T)
        if not ok:
            ctx.reject_trace("pool/BlobPoolTrace", tp, consumed, res)
    return ctx.finish(rule="MC: all operation sequences over the bounded universes of MCBlobPool.cfg / MCBlobPoolCrash.cfg; R: TLC-sampled behaviours replayed; V: seeded random sequences; every real step validated by TLC against the spec with all invariants",
                      assumptions=["values < 2^31 (TLC integers)", "fee jumps taken from the implementation, rounded to 10^-6",
                                   "store ids opaque; heap ties, map iteration order nondeterministic in the spec",
                                   "crash = directory copy between operations"])
