"""C13 - Account state behaves like the reference account model."""
import os, random
from vcheck import write_json, InfraError

META = {
    "property_id": "C13",
    "level": "model_checking",
    "technique": "TLA+ reference account model (StateDB.tla: world as a function, snapshots as a stack of full copies, Finalise per rule set) model-checked with TLC; TLC graph edges and simulated behaviours replayed on state.StateDB with all observables compared after every step and roots checked against a StackTrie built from the model world; recorded random histories validated by StateDBTrace.tla",
    "text": "TLC exhaustively explores every sequence of StateDB operations (balance, nonce, code, storage, create, contract creation, self-destruct, nested snapshot/revert, Finalise) over a small universe under the four rule sets (pre/post EIP-158, EIP-6780, Amsterdam) and checks the model's own laws (revert restores exactly, Finalise deletes exactly by rule and clears the scratch data). The model is bound to the code three ways: every transition of a TLC state graph is covered by paths replayed on fresh real StateDBs; behaviours sampled by TLC -simulate over a larger universe (transient storage, access list, refund, logs, several transactions) are replayed; long seeded random histories on real StateDBs (hash and path scheme, with and without snapshot tree, warm and cold projection) are recorded with the full projected state per call and TLC checks each one is a behaviour of the specification. In all three every getter for every address and slot is compared after every call, and at IntermediateRoot the real root (and every storage root) must equal the root a StackTrie computes from the model's accounts and storage.",
    "note": "Trusts TLC, trie.StackTrie/rlp/keccak (reference root), and the projection in harness/statekit. Histories are restricted to what the EVM can produce under EIP-6780 rule sets (feasibility guards F1-F5 in StateDB.tla: monotone nonces, code cleared only on accounts with nonce>=1, SSTORE only in contracts, SELFDESTRUCT only on same-transaction contracts, CreateAccount only on absent addresses); Values < 2^31. Verkle/UBT mode and witness collection are out of scope.",
    "design_ref": "3.3 C13",
}

RULES = ["pre158", "eip158", "cancun", "amsterdam"]
LEANOPS = '{"BeginTx", "AddBalance", "SubBalance", "SetNonce", "SetState", "SelfDestruct", "CreateAccount", "EvmCreate", "Snapshot", "Revert", "Finalise"}'
STOREOPS = '{"BeginTx", "SetState", "Finalise", "IntermediateRoot"}'
STOREOPS_T = '{"BeginTx", "SetState", "Snapshot", "Revert", "Finalise", "IntermediateRoot"}'
RESUROPS = '{"BeginTx", "SetState", "SelfDestruct", "AddBalance", "Finalise", "IntermediateRoot"}'
TOUCHOPS = '{"BeginTx", "AddBalance", "SubBalance", "SetState", "CreateAccount", "EvmCreate", "Snapshot", "Revert", "Finalise"}'
ALLOPS = '{"BeginTx", "AddBalance", "SubBalance", "SetBalance", "SetNonce", "SetCode", "SetState", "SelfDestruct", "CreateAccount", "EvmCreate", "Snapshot", "Revert", "Finalise"}'


def edges_cfg(ctx, rules, bases, ripemd, name, ops=None, maxsnap=1, maxtx=1, maxval=1):
    """MC config whose every transition is printed (full states, so that paths can be rebuilt)."""
    p = os.path.join(ctx.scratch, name + ".cfg")
    with open(p, "w") as f:
        f.write("""SPECIFICATION MCSpec
CONSTANTS NA = 1
          NS = 1
          Ripemd = %d
          MaxVal = %d
          MaxBal = 1
          MaxNonce = 1
          MaxCode = 1
          MaxSnap = %d
          MaxTx = %d
          MaxLogs = 0
          MaxRefund = 0
          Ops = %s
          RuleNames = {%s}
          BaseKinds = {%s}
          KeepHist = FALSE
          HistLen = 0
          TxEvery = 1
INVARIANTS InvType InvRevert InvFinalise InvFeasible
ACTION_CONSTRAINT Edge
VIEW View
CHECK_DEADLOCK FALSE
""" % (ripemd, maxval, maxsnap, maxtx, ops or ALLOPS, ", ".join('"%s"' % r for r in rules), ", ".join(str(b) for b in bases)))
    return p


def run(ctx):
    drv = ctx.build("c13")
    rnd = random.Random(ctx.seed)

    # MC: exhaustive exploration of the reference model (all four rule sets)
    ctx.model_check("state/MCStateDB", ctx.pick("state/MCStateDB", "state/MCStateDBThorough"), timeout=ctx.pick(1800, 7200),
                    name="MCStateDB", workers=ctx.pick(4, 8))
    # transient storage, EIP-2929 access list, refund counter and logs under nested snapshots and across transactions
    ctx.model_check("state/MCStateDB", ctx.pick("state/MCStateDBAuxQuick", "state/MCStateDBAux"), timeout=ctx.pick(1800, 3600),
                    name="MCStateDBAux", workers=4)
    if ctx.thorough:
        r = ctx.model_check("state/MCStateDB", "state/MCStateDB2", timeout=5400, name="MCStateDB2", coverage=True, workers=4)
        if r.zero_cov:
            ctx.notes.append("MCStateDB2 actions without coverage: %s" % r.zero_cov)

    # R (exhaustive): every edge of a TLC state graph covered by paths replayed on real StateDBs
    # plan = (rule sets, base account kinds, Ripemd, ops, snapshot depth, max paths replayed)
    if ctx.thorough:
        plans = [([r], [0, 2, 3], 0, None, 1, 0) for r in ("cancun", "amsterdam")]
        for r in ("pre158", "eip158"):      # unguarded rule sets: much larger graphs, split in two
            plans += [([r], [0, 1, 3], 0, LEANOPS, 1, 0), ([r], [3], 0, None, 1, 0)]
    else:
        # one rule set per seed, its graph replayed completely: the guarded rule sets with all operations, the
        # unguarded ones (much larger graphs) without SetBalance/SetCode but with an empty base account
        r = RULES[ctx.seed % 4]
        plans = [([r], [0, 1, 3], 0, LEANOPS, 1, 0) if r in ("pre158", "eip158") else ([r], [0, 2, 3], 0, None, 1, 0)]
    # EIP-161 touch semantics incl. the zero-value touch of 0x03 that survives reverts: small graph (operations
    # that may or may not touch, nested snapshots, empty base account, EIP-158 rule sets), replayed completely
    plans.append((RULES[1:] if ctx.thorough else ["eip158", RULES[2 + ctx.seed % 2]], [0, 1, 2], 1, TOUCHOPS, ctx.pick(1, 2), 0))
    # storage across the transactions of a block: one slot cycling through three values over four transactions
    # that end with Finalise only (writes stay pending) or with IntermediateRoot (writes are flushed into the
    # tries), in every mixture - the model keeps the storage as of the last flush (S.fl), so every mixture is a
    # distinct node of the graph and every edge out of it is replayed
    plans.append((RULES if ctx.thorough else [RULES[ctx.seed % 4], RULES[(ctx.seed + 1) % 4]], [0, 3], 0,
                  STOREOPS_T if ctx.thorough else STOREOPS, ctx.pick(0, 1), 0, 4, 2))
    # destruct and resurrection across transactions (pre-Cancun rule sets): an account with storage is destructed
    # in one transaction and written / funded again in a later one; its old storage must be gone whether or not
    # the tries were flushed in between
    plans.append((["pre158", "eip158"] if ctx.thorough else [RULES[ctx.seed % 2]], [3], 0, RESUROPS, 0, 0, 3, 1))
    for i, plan in enumerate(plans):
        rules, bases, ripemd, ops, maxsnap, maxpaths = plan[:6]
        maxtx, maxval = (plan[6], plan[7]) if len(plan) > 6 else (1, 1)
        cfg = edges_cfg(ctx, rules, bases, ripemd, "edges%d" % i, ops, maxsnap, maxtx, maxval)
        res = ctx.model_check("state/MCStateDB", cfg, tags=("EDGE",), timeout=ctx.pick(1800, 3600),
                              name="MCStateDBEdges[%s,ripemd=%d]" % (",".join(rules), ripemd), workers=4)
        edges = res.lines.get("EDGE", [])
        if not edges:
            raise InfraError("no edges emitted")
        ep = os.path.join(ctx.scratch, "edges%d.json" % i)
        write_json(ep, edges)
        del edges, res
        ctx.drive(drv, ["-mode", "paths", "-in", ep, "-ripemd", ripemd, "-maxpaths", maxpaths],
                  name="c13-paths[%d:%s]" % (i, ",".join(rules)), timeout=ctx.pick(1800, 7200))
        os.remove(ep)

    # R (sampled): behaviours of a larger universe sampled by TLC -simulate
    res = ctx.tlc("state/MCStateDB", "state/MCStateDBSim", simulate="num=%d" % ctx.pick(6, 60), depth=30, tags=("MBT",),
                  timeout=ctx.pick(1800, 3600), name="MCStateDBSim", workers=4)
    if not res.ok:
        raise InfraError("TLC simulation failed: %s\n%s" % (res.error, res.stdout[-2000:]))
    bs = res.lines.get("MBT", [])
    if not bs:
        raise InfraError("no behaviours emitted by the simulation")
    rnd.shuffle(bs)
    bs = bs[:ctx.pick(500, 8000)]
    bp = os.path.join(ctx.scratch, "mbt.json")
    write_json(bp, bs)
    ctx.drive(drv, ["-mode", "mbt", "-in", bp, "-ripemd", 2], name="c13-mbt", timeout=ctx.pick(1800, 7200))

    # finding C13-F1 (fixed by /repo 986a824788, known_findings.json: fixed): the deterministic reproduction stays in the
    # check as a plain behaviour - a regression is a VIOLATION reported by the driver
    ctx.drive(drv, ["-mode", "probe"], name="c13-setcode-revert", timeout=1800)

    # V: recorded executions of the real code validated by the trace specification
    tp = os.path.join(ctx.scratch, "trace.ndjson")
    s, _ = ctx.drive(drv, ["-mode", "record", "-trace", tp, "-n", ctx.pick(32, 240), "-steps", ctx.pick(100, 200),
                           "-na", 3, "-ns", 2, "-ripemd", 3], name="c13-record", timeout=ctx.pick(1800, 7200))
    ok, consumed, total, r = ctx.validate("state/StateDBTrace", tp, ntraces=s["traces"], timeout=ctx.pick(1800, 7200))
    if not ok:
        ctx.reject_trace("state/StateDBTrace", tp, consumed, r)
    return ctx.finish(
        rule="MC: all operation sequences of one transaction over 1 address x 1 slot x values 0..1 with one nested snapshot, 4 rule sets x 4 base accounts (thorough: also 2 addresses); R: all edges of the per-rule-set graphs by paths + simulated behaviours over 2 addresses x 2 slots, 4 transactions; V: random histories over 3 addresses (one is 0x03) x 2 slots",
        assumptions=["values < 2^31 (TLC integer range)",
                     "histories under EIP-6780 rule sets restricted to EVM-feasible ones (StateDB.tla F1-F5)",
                                          "reference root computed with trie.StackTrie over the model world"])
