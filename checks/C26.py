"""C26 - State transitions conform to the execution specification (on the MiniEVM fragment)."""
import os
from vcheck import write_json

META = {
    "property_id": "C26",
    "level": "model_checking",
    "technique": "executable TLA+ small-step semantics with gas (MiniEVM.tla, written from the Yellow Paper/EIPs) model-checked by TLC on enumerated programs; TLC-computed results replayed on core.ApplyMessage; opcode-granularity traces of the real EVM validated step by step against MiniEVMTrace.tla",
    "text": "MiniEVM.tla gives exact semantics and gas to an EVM fragment (arithmetic/compare/bitwise, stack, memory, storage with EIP-2200/2929/3529, transient storage, jumps, LOG, CALL/CALLCODE/DELEGATECALL/STATICCALL with 63/64 rule and stipend, CREATE/CREATE2 with deposit and EIP-3541/3860, RETURN/REVERT, SELFDESTRUCT per EIP-6780) and to the transaction envelope (validity, intrinsic gas, access-list warming, EIP-7623 floor, EIP-7825 cap, refund cap, tip/burn, EIP-4844 blob fee, EIP-7702 authorisation lists and delegated code) for Cancun, Prague and Osaka. TLC enumerates short programs and checks the semantics' own sanity (gas never created, failed frames restore state, total function) and emits every (world, tx, result) as a case that the driver executes with core.ApplyMessage and compares (status, gas used, balances, nonces, storage). Generated contract worlds (nested calls of all kinds, creates, self-destructs, reverts, out-of-gas at arbitrary points, invalid transactions, access lists) are executed by the real EVM under core/tracing hooks and TLC checks every instruction: pc, opcode, gas, stack, memory size before it, the cost charged, whether it faults, every frame entry/exit (gas forwarded, gas returned, outcome) and the receipt and post-state.",
    "note": "The execution-specs reference implementation (EELS) is not installed: MiniEVM.tla stands in for it on its fragment, so this is agreement with an independently written executable specification, not EELS conformance. Values >= 2^30 are tokens (identity only); results the specification cannot compute (hashes, big arithmetic, created addresses, precompile outputs, memory written by *COPY) are taken from the trace and only constrained. Transactions executing opcodes outside the fragment (BLOCKHASH, BLOBHASH, EXTCODECOPY) are left out; blob data/KZG, withdrawals and system-call requests are not covered; the t8ntool package is internal: the tool is driven as an `evm t8n` subprocess (thorough tier) and compared with core.ApplyMessage.",
    "design_ref": "3.5 C26",
}


def build_evm_tool(ctx):
    """go build <repo>/cmd/evm (the tree under test) into .build/."""
    import subprocess, hashlib, vcheck
    repo = os.path.abspath(vcheck.REPO)
    suffix = "" if repo == "/repo" else "-" + hashlib.sha1(vcheck.REPO.encode()).hexdigest()[:8]
    out = os.path.join(vcheck.BUILD, "evm-tool" + suffix)
    p = subprocess.run(["go", "build", "-p", "4", "-o", out, "./cmd/evm"], cwd=repo, env=vcheck._go_env(),
                       stdout=subprocess.PIPE, stderr=subprocess.STDOUT, text=True)
    if p.returncode != 0:
        raise vcheck.InfraError("go build cmd/evm failed:\n" + p.stdout[-3000:])
    ctx.log("built evm tool")
    return out


def run(ctx):
    drv = ctx.build("c26")
    # MC + R: TLC runs the specification machine on every enumerated program / pre-state /
    # transaction, checks the sanity invariants on every state and prints each finished case
    fams = ["sstore", "seq2", "call", "tx", "auth", "blob", "floor", "create"] + (["seq"] if ctx.thorough else [])
    for fam in fams:
        res = ctx.model_check("evm/MCMiniEVM", "evm/MCMiniEVM-" + fam, workers=4, tags=("CASE",), timeout=7200, name="MCMiniEVM-" + fam)
        cases = res.lines.get("CASE", [])
        if not cases:
            raise Exception("no cases emitted for family " + fam)
        cp = os.path.join(ctx.scratch, "cases-%s.json" % fam)
        write_json(cp, cases)
        ctx.drive(drv, ["-mode", "replay", "-in", cp], name="c26-replay-" + fam, timeout=3600)
    # V: recorded executions of the real EVM validated instruction by instruction
    chunks = ctx.pick(1, 5)
    for c in range(chunks):
        tp = os.path.join(ctx.scratch, "trace%d.ndjson" % c)
        s, _ = ctx.drive(drv, ["-mode", "record", "-trace", tp, "-n", ctx.pick(500, 1500)], name="c26-record-%d" % c,
                         env={"VERIF_SEED": str(ctx.seed * 100 + c)}, timeout=3600)
        ok, consumed, total, r = ctx.validate("evm/MiniEVMTrace", tp, ntraces=s["traces"], timeout=7200)
        if not ok:
            ctx.reject_trace("evm/MiniEVMTrace", tp, consumed, r)
            break
    # t8n: the transition tool (the property's observation point) against the direct execution,
    # whose trace is validated like the ones above
    if ctx.thorough or os.environ.get("VERIF_C26_T8N"):
        evm_bin = build_evm_tool(ctx)
        tp = os.path.join(ctx.scratch, "trace-t8n.ndjson")
        s, _ = ctx.drive(drv, ["-mode", "t8n", "-evm", evm_bin, "-trace", tp, "-n", ctx.pick(60, 400)], name="c26-t8n", timeout=7200)
        ok, consumed, total, r = ctx.validate("evm/MiniEVMTrace", tp, ntraces=s["traces"], timeout=7200)
        if not ok:
            ctx.reject_trace("evm/MiniEVMTrace", tp, consumed, r)
    return ctx.finish(rule="MC+R: every case of the families sstore/seq/call/tx/auth/blob/floor/create computed by TLC and replayed; V: every generated transaction = one trace (tx, enter/opc/exit events, txend with post-state)",
                      assumptions=["word values < 2^30 exact, larger values as identity tokens", "gas limits <= 4.2M",
                                   "no blob data / KZG, withdrawals, system calls"])
