"""C50 - Event feeds deliver every value exactly once to active subscribers, under all schedules."""
import os, json
from vcheck import write_json, InfraError

META = {
    "property_id": "C50",
    "level": "model_checking",
    "technique": "TLA+ spec of event.Feed (Feed.tla) model-checked with TLC over all interleavings; concurrent call/return histories of the real Feed/FeedOf validated against FeedTrace.tla (linearizability-style search over silent internal steps); TLC-chosen blocking schedules forced on the real feed under testing/synctest",
    "text": "Feed.tla models feed.go step by step (inbox, sendCases with active prefix, sendLock, removeSub handshake; every operation split into call, internal critical sections, return). TLC checks exactly-once delivery to subscriptions active for the whole send, the returned count, a single send order on all channels and no delivery after Unsubscribe returned on all interleavings of 2 senders x 2-3 channels with racing unsubscribe. Binding: goroutine stress runs on the real event.Feed and event.FeedOf[int] (also built with -race) log call/return events with a global sequence number and TLC searches an explanation by the spec's internal steps; schedules at blocking-point granularity enumerated by TLC are forced deterministically on the real code and compared state by state.",
    "note": "Trusts TLC, the sequence-number logging in harness/cmd/c50 (call logged before, return logged after the real call), Go channel semantics as modelled by Room/Deliver, and testing/synctest's quiescence detection (go1.24 GOEXPERIMENT=synctest). Bounds: model 2 senders x <=3 channels; histories up to 3 senders x 4 channels.",
    "design_ref": "3.7 C50",
}

CAPS = "0,1,2,0"

def sched_graph(res, ns, nc, capmod):
    """Fold the EDGE/STATE lines of MCFeedSched into the id-based graph the driver reads."""
    ids = {}
    states = []
    for st in res.lines.get("STATE", []):
        k = json.dumps(st["key"], sort_keys=True)
        if k not in ids:
            ids[k] = len(states)
            states.append({"obs": st["obs"], "quiet": st["quiet"]})
    edges = []
    init = None
    for e in res.lines.get("EDGE", []):
        f, t = ids.get(json.dumps(e["from"], sort_keys=True)), ids.get(json.dumps(e["to"], sort_keys=True))
        if f is None or t is None:
            raise InfraError("edge refers to a state that was not printed")
        edges.append([f, t, e["act"]["op"], e["act"]["p"]])
    for i, st in enumerate(states):
        o = st["obs"]
        if o["inbox"] == 0 and o["cases"] == 0 and all(x["count"] == 0 and not x["busy"] for x in o["sender"]) \
                and all(c["sub"] == "idle" and not c["waiting"] for c in o["chan"]):
            init = i
            break
    if init is None or not edges:
        raise InfraError("schedule graph incomplete")
    return {"ns": ns, "nc": nc, "caps": [(c % capmod) for c in range(nc)], "init": init, "states": states, "edges": edges}

def run(ctx):
    os.environ["GOEXPERIMENT"] = "synctest"
    try:
        drv = ctx.build("c50")
        drv_race = ctx.build("c50", race=True) if ctx.thorough or os.environ.get("C50_RACE") else None
    finally:
        os.environ.pop("GOEXPERIMENT", None)
    # MC: all interleavings of the step-level model
    ctx.model_check("net/MCFeed", "net/MCFeedReduced", timeout=3600, workers=4, name="MCFeedReduced", deadlock=False)
    # two owners calling Unsubscribe on the same subscription (sync.Once) racing a blocked Send
    ctx.model_check("net/MCFeed", "net/MCFeedTwoUnsub", timeout=3600, workers=4, name="MCFeedTwoUnsub", deadlock=False)
    if ctx.thorough:
        ctx.model_check("net/MCFeed", "net/MCFeed", timeout=7200, workers=4, name="MCFeed(unreduced)", deadlock=False)
        ctx.model_check("net/MCFeed", "net/MCFeedThorough", timeout=7200, workers=6, name="MCFeedThorough", deadlock=False)
        # liveness: Unsubscribe always returns under fair scheduling of the internal steps
        ctx.model_check("net/MCFeed", "net/MCFeedLive", timeout=7200, workers=4, name="MCFeedLive(UnsubReturns)", deadlock=False)
    # R: schedules at blocking-point granularity, forced on the real feed under synctest
    for cfg, ns, nc, capmod in ctx.pick([("net/MCFeedSched", 2, 2, 2)], [("net/MCFeedSched", 2, 2, 2), ("net/MCFeedSchedThorough", 3, 2, 2)]):
        res = ctx.model_check("net/MCFeedSched", cfg, tags=("EDGE", "STATE"), timeout=3600, workers=4, name=os.path.basename(cfg), deadlock=False)
        gp = os.path.join(ctx.scratch, os.path.basename(cfg) + ".json")
        write_json(gp, sched_graph(res, ns, nc, capmod))
        for kind in ("feed", "feedof"):
            sr, _ = ctx.drive(drv, ["-mode", "replay", "-kind", kind, "-in", gp], name="c50-replay-%s-%s" % (kind, os.path.basename(cfg)), timeout=3600)
            # every executed schedule is a behaviour of the specification checked step by step against the real feed
            ctx.cov["traces_validated_against_impl"] += int(sr.get("evaluations", 0))
    # V: concurrent histories of the real code explained by the spec
    for kind in ("feed", "feedof"):
        for (d, tag) in ((drv, ""), (drv_race, "-race")):
            if d is None:
                continue
            tp = os.path.join(ctx.scratch, "trace-%s%s.ndjson" % (kind, tag))
            s, _ = ctx.drive(d, ["-mode", "record", "-kind", kind, "-trace", tp, "-runs", ctx.pick(150, 1500), "-caps", CAPS],
                             name="c50-record-%s%s" % (kind, tag))
            if not os.path.exists(tp) or os.path.getsize(tp) == 0:      # the driver died (reported as a violation by ctx.drive)
                continue
            ok, consumed, total, r = ctx.validate("net/FeedTrace", tp, ntraces=s["traces"], timeout=7200, cfg="net/FeedTraceDFS", dfs=True,
                                                  silent_steps=True, name="FeedTrace-%s%s" % (kind, tag))
            if not ok:
                ctx.reject_trace("net/FeedTrace", tp, consumed, r,
                                 desc="history of real event.%s has no explanation by Feed.tla after event %d" % ("FeedOf" if kind == "feedof" else "Feed", consumed))
    if ctx.thorough:
        # cross-check of the reductions used by FeedTrace: a short history validated breadth-first with the
        # reduced and with the unreduced silent-step relation must be accepted by both
        tp = os.path.join(ctx.scratch, "trace-small.ndjson")
        s, _ = ctx.drive(drv, ["-mode", "record", "-kind", "feed", "-trace", tp, "-runs", 12, "-caps", CAPS], name="c50-record-small")
        for cfg in ("net/FeedTrace", "net/FeedTraceFull"):
            ok, consumed, total, r = ctx.validate("net/FeedTrace", tp, cfg=cfg, ntraces=0, timeout=7200, silent_steps=True, name=os.path.basename(cfg) + "(bfs)")
            if not ok:
                ctx.reject_trace("net/FeedTrace", tp, consumed, r, cfg=cfg, desc="history of real event.Feed has no explanation by Feed.tla (%s) after event %d" % (cfg, consumed))
    return ctx.finish(rule="MC: all interleavings of call/internal/return steps, 2 senders x 2-3 channels (caps 0/1), 1 send each, unsubscribe racing; V: stress histories of 3 senders x 4 channels (caps 0,1,2,0)",
                      assumptions=["one subscription per channel at a time", "at most two concurrent Unsubscribe callers per subscription",
                                   "the forced double-Unsubscribe schedule holds the feed's unexported inbox mutex via reflect/unsafe", "values are unique per send (sender*1000+k)",
                                   "Go channel semantics as modelled by Room/Deliver/RecvEnd"])
