"""C39 - The blockchain restarts consistently after a crash."""
import os, json
from vcheck import write_json, InfraError

META = {
    "property_id": "C39",
    "level": "model_checking",
    "technique": "TLA+ spec of crash and restart of core.BlockChain (ChainCrash.tla over Chain.tla) model-checked with TLC; TLC behaviours (chain shape, commit points, snapshot layer, freezer progress, crash points, both schemes) replayed on a real BlockChain over pebble+freezer with stopWithoutSaving, then re-import compared with a never-crashed node",
    "text": "ChainCrash.tla adds to Chain.tla what a crash distinguishes: trie commit points (hash scheme) / disk layer (path scheme), the persistent flat-state layer, chain-freezer progress, and CrashReopen = stopWithoutSaving + NewBlockChain (loadLastState, rewindHead past the snapshot layer, ancient-store truncation). TLC checks over all main/side chain lengths, commit points, freeze thresholds, crash points (up to two crashes) and both schemes with snapshots on/off that after reopening the head state is available, the header head is at or beyond the block head, the number index is consistent, nothing at or below the last persisted state is lost, the ancient store matches the heads, and importing the rest of the main line yields the never-crashed state. TLC-sampled behaviours over longer chains are executed on the real code (pebble + freezer on disk, crash exactly as core/blockchain_repair_test.go) with the projected state compared after every call, followed by re-import of the main line and comparison of head root and account data with a control node.",
    "note": "Trusts TLC and the projection in harness/cmd/c39. Crash points are call boundaries (import batch, trie commit, snapshot flatten, freezer cycle); torn key-value batches and torn freezer files are not generated (C24/C20 territory). Snap-sync pivots are not modelled. Runs reopen in child processes because log.Crit exits. Index entries of an abandoned branch after a repair (C38-F1) are pending, see NOTES.md.",
    "design_ref": "3.6 C39",
}


def dedupe(lines):
    seen, out = set(), []
    for b in lines:
        k = json.dumps(b, sort_keys=True)
        if k not in seen:
            seen.add(k)
            out.append(b)
    return out


def run(ctx):
    drv = ctx.build("c39")
    ctx.model_check("chain/MCChainCrash", "chain/MCChainCrash" if not ctx.thorough else "chain/MCChainCrashThorough",
                    timeout=ctx.pick(3000, 10800), workers=4, name="MCChainCrash", coverage=ctx.thorough)
    res = ctx.tlc("chain/MCChainCrash", "chain/MCChainCrashSim" if not ctx.thorough else "chain/MCChainCrashSimThorough",
                  simulate="num=%d" % ctx.pick(25, 300), depth=ctx.pick(10, 12), tags=("MBT",), workers=4,
                  timeout=ctx.pick(3000, 7200), name="MCChainCrashSim")
    if res.error or res.timeout:
        raise InfraError("TLC simulation failed: %s\n%s" % (res.error, res.stdout[-2000:]))
    beh = dedupe(res.lines.get("MBT", []))
    if len(beh) < 30:
        raise InfraError("too few behaviours emitted: %d" % len(beh))
    bp = os.path.join(ctx.scratch, "behaviours.json")
    write_json(bp, beh)
    ctx.cov["traces_validated_against_impl"] += 0
    s, _ = ctx.drive(drv, ["-mode", "replay", "-in", bp, "-chunk", 40], name="c39-replay", timeout=ctx.pick(3600, 14400))
    # every replayed behaviour is a crash/restart history of the real code accepted by the specification step by step
    if not s.get("violations"):
        ctx.cov["traces_validated_against_impl"] += int(s.get("evaluations", 0))
    return ctx.finish(rule="MC: all scenarios of the bound (main line <= MaxC, side chain <= MaxS, any order of import/commit/flatten/freeze/crash, <= 2 crashes); R: TLC-sampled behaviours on longer chains, each followed by re-import and comparison with a never-crashed node",
                      assumptions=["crash points are call boundaries; no torn batches / torn freezer files",
                                   "no snap-sync pivot; ethash faker; pebble + freezer on local disk",
                                   "C38-F1 pending: strict index invariants are checked until a head is written without reorg below a higher head header"])
