"""C39 - The blockchain restarts consistently after a crash."""
import os, json
from vcheck import write_json, InfraError

META = {
    "property_id": "C39",
    "level": "model_checking",
    "technique": "TLA+ spec of crash and restart of core.BlockChain (ChainCrash.tla over Chain.tla) model-checked with TLC; TLC behaviours (chain shape, commit points, snapshot layer, freezer progress, crash points, both schemes) replayed on a real BlockChain over pebble+freezer with stopWithoutSaving, then re-import compared with a never-crashed node",
    "text": "ChainCrash.tla adds to Chain.tla what a crash distinguishes: trie commit points (hash scheme) / disk layer (path scheme), the persistent flat-state layer, chain-freezer progress, and CrashReopen = stopWithoutSaving + NewBlockChain (loadLastState, rewindHead past the snapshot layer, ancient-store truncation). TLC checks over all main/side chain lengths, commit points, freeze thresholds, crash points (up to two crashes) and both schemes with snapshots on/off that after reopening the head state is available, the header head is at or beyond the block head, the number index is consistent, nothing at or below the last persisted state is lost, the ancient store matches the heads, and importing the rest of the main line yields the never-crashed state. TLC-sampled behaviours over longer chains are executed on the real code (pebble + freezer on disk, crash exactly as core/blockchain_repair_test.go) with the projected state compared after every call, followed by re-import of the main line and comparison of head root and account data with a control node.",
    "note": "Trusts TLC and the projection in harness/cmd/c39. Crash points: call boundaries in the freezer scenarios (import batch, trie commit, snapshot flatten, freezer cycle) and every key-value write boundary inside a call on random trees (memory store, crash images judged by the Rec* invariants of ChainTrace.tla); torn key-value batches and torn freezer files are not generated (C24/C20 territory). Snap-sync pivots are not modelled. Runs reopen in child processes because log.Crit exits. Open findings C38-F1 (index entries of an abandoned branch after a repair) and C39-F4 (crash inside reorg) are reported through ctx.known_finding, see NOTES.md.",
    "design_ref": "3.6 C39",
}


def dedupe(lines):
    seen, out = set(), []
    for b in lines:
        k = json.dumps(b, sort_keys=True)
        if k not in seen:
            seen.add(k)
            out.append(b)
    return out


def run(ctx):
    drv = ctx.build("c39")
    ctx.model_check("chain/MCChainCrash", "chain/MCChainCrash" if not ctx.thorough else "chain/MCChainCrashThorough",
                    timeout=ctx.pick(3600, 21600), workers=4, name="MCChainCrash", coverage=ctx.thorough)
    res = ctx.tlc("chain/MCChainCrash", "chain/MCChainCrashSim" if not ctx.thorough else "chain/MCChainCrashSimThorough",
                  simulate="num=%d" % ctx.pick(25, 300), depth=ctx.pick(10, 12), tags=("MBT",), workers=4,
                  timeout=ctx.pick(3600, 21600), name="MCChainCrashSim")
    if res.error or res.timeout:
        raise InfraError("TLC simulation failed: %s\n%s" % (res.error, res.stdout[-2000:]))
    beh = dedupe(res.lines.get("MBT", []))
    if len(beh) < 30:
        raise InfraError("too few behaviours emitted: %d" % len(beh))
    bp = os.path.join(ctx.scratch, "behaviours.json")
    write_json(bp, beh)
    ctx.cov["traces_validated_against_impl"] += 0
    s, _ = ctx.drive(drv, ["-mode", "replay", "-in", bp, "-chunk", 40], name="c39-replay", timeout=ctx.pick(3600, 21600))
    # every replayed behaviour is a crash/restart history of the real code accepted by the specification step by step
    if not s.get("violations"):
        ctx.cov["traces_validated_against_impl"] += int(s.get("evaluations", 0))
    # XF/V: crash inside a call.  On random trees / call sequences (driver of C38, memory key-value store) the
    # store is copied after every write of randomly chosen calls; every copy is reopened with NewBlockChain and the
    # recovered state is judged by the Rec* invariants of ChainTrace.tla (head state, head order, stored data closed,
    # number index, no loss, lookups, re-import reaches the head of the node that did not crash, clean Stop).
    drv38 = ctx.build("c38")
    tp = os.path.join(ctx.scratch, "crashin.ndjson")
    s2, _ = ctx.drive(drv38, ["-mode", "record", "-trace", tp, "-n", ctx.pick(150, 1500), "-steps", 12, "-blocks", 7, "-ntx", 3, "-crashin", 3],
                      name="c38-crashin", timeout=ctx.pick(3600, 21600))
    ok, consumed, total, r = ctx.validate("chain/ChainTrace", tp, cfg="chain/ChainTraceRec", ntraces=s2["traces"], timeout=ctx.pick(3600, 21600),
                                          name="ChainTraceRec")
    if not ok:
        ctx.reject_trace("chain/ChainTrace", tp, consumed, r, cfg="chain/ChainTraceRec")
    # open finding C39-F4 (known_findings.json): kept replays of crashes inside reorg / SetCanonical
    fp = os.path.join(ctx.scratch, "C39-F4.ndjson")
    fs, _ = ctx.drive(drv38, ["-mode", "scenario", "-in", os.path.join(os.path.dirname(os.path.dirname(os.path.abspath(__file__))), "spec", "chain", "findings", "C39-F4.json"),
                              "-trace", fp], name="c38-C39-F4", timeout=1800)
    ok, consumed, total, r = ctx.validate("chain/ChainTrace", fp, cfg="chain/ChainTraceRec", ntraces=fs["traces"], timeout=1800, name="ChainTraceRec-C39-F4")
    if not ok:
        ctx.reject_trace("chain/ChainTrace", fp, consumed, r, cfg="chain/ChainTraceRec", desc="C39-F4 replay is no longer a behaviour of Chain.tla")
    else:
        ok2, c2, t2, r2 = ctx.validate("chain/ChainTrace", fp, cfg="chain/ChainTraceRecStrict", ntraces=0, timeout=1800, name="ChainTraceRecStrict-C39-F4")
        viol = r2.violated or ""
        if ok2:
            ctx.notes.append("C39-F4: no longer reproduces (strict Rec* invariants hold on the kept replay)")
        elif any(e in viol for e in ("RecCanonHasHeads", "RecCanonLinked", "RecCanonEndsAtHead", "RecStopsStrict", "RecHealsStrict", "RecLookupSound")) \
                and ctx.known_finding("C39-F4", viol):
            ctx.notes.append("C39-F4 reproduced on the real code (%s)" % viol.strip()[:60])
        else:
            ctx.reject_trace("chain/ChainTrace", fp, c2, r2, cfg="chain/ChainTraceRecStrict", desc="C39-F4 replay: strict specification rejects the real trace (%s) and the finding is not listed as open" % viol)
    return ctx.finish(rule="MC: all scenarios of the bound (main line <= MaxC, side chain <= MaxS, any order of import/commit/flatten/freeze/crash, <= 2 crashes); R: TLC-sampled behaviours on longer chains, each followed by re-import and comparison with a never-crashed node",
                      assumptions=["freezer scenarios: crash points are call boundaries; crash inside a call: every key-value write boundary of the call (memory store, no freezer); no torn batches / torn freezer files",
                                   "open finding C39-F4: index claims on crash images are made for calls that do not reorganise or rewind",
                                   "no snap-sync pivot; ethash faker; pebble + freezer on local disk",
                                   "open finding C38-F1: strict index invariants are checked until a head is written without reorg below a higher head header (ghost gh.f1)"])
