"""C24 - Freezer tables survive crashes without corruption."""
import json, os
from vcheck import InfraError

META = {
    "property_id": "C24",
    "level": "model_checking",
    "technique": "TLA+ spec of the freezer at file-system-call granularity with durable/volatile file contents (Freezer.tla) model-checked with TLC over all crash points; real rawdb.Freezer histories with fsync positions from a hook, enumerated crash images reopened in child processes, all validated against FreezerTrace.tla",
    "text": "Freezer.tla compiles every public call (append batches with file rolls, sync, head/tail truncation, reset) and the whole open/repair procedure (checkIndex, repairIndex, the index/data slip loop, cross-table alignment) into the sequence of write/truncate/fsync/rename/unlink calls of freezer_table.go, executes it one call at a time on files with a durable and a volatile content, and lets a crash keep per file any length between the two (written or zero-filled, metadata old or new). TLC checks on bounded histories, for every crash point including crashes during repair, that reopening succeeds, all tables share one range, every readable item is the one appended at that position and everything covered by a completed sync and not truncated since is present. Binding: seeded histories run on a real freezer (64-byte data files, one compressed and one raw table, two tail-group layouts); the rawdb fsync hook gives the durable content of every file; at every fsync (just before it takes effect) and at every call end crash images are materialised and reopened by the real NewFreezer in a child process; FreezerTrace.tla follows the observed fsyncs through the spec's programs (an unexpected or a missing fsync rejects), compares real durable/current file lengths with the model's, recomputes crash+repair for every image and demands the same observable result (Ancients, Tail, every item) and the three clauses of C24.",
    "note": "File-system model as stated by the property: per-file prefix durability, zero-filled extensions, metadata file old-or-new (torn metadata writes are not modelled), create/unlink/rename durable at once. Histories are single-writer; appended blobs are 6..30 bytes and never exceed the file size limit. TruncateTail is only exercised up to the head covered by the last completed sync: above it the code can leave virtualTail > items after a crash and then refuses to open (EOF) - reproduced by a directed history on every run and reported as PENDING-FINDING C24-F1 (spec/store/NOTES.md). Trusts TLC, the hook positions and the projection in harness/cmd/c24.",
    "design_ref": "3.4 C24",
}

T = 7200


def rejects(res):
    """REJECT diagnostics printed by FreezerTrace!TImageBad (what the specification computes for the rejected image)."""
    out = []
    for line in res.stdout.splitlines():
        line = line.strip()
        if line.startswith('<<"REJECT", ') and line.endswith('>>'):
            try:
                out.append(json.loads(json.loads(line[len('<<"REJECT", '):-2])))
            except Exception:
                pass
    return out


def run(ctx):
    drv = ctx.build("c24")
    # MC: every crash point of bounded histories, one and two tables
    ctx.model_check("store/MCFreezer", "store/MCFreezer1", timeout=T, name="MCFreezer-1table", workers=4)
    if ctx.thorough:
        ctx.model_check("store/MCFreezer", "store/MCFreezer2", timeout=T, name="MCFreezer-2tables", workers=6, coverage=True)
        ctx.model_check("store/MCFreezer", "store/MCFreezer1T", timeout=T, name="MCFreezer-1table-deeper", workers=6)
    else:
        ctx.model_check("store/MCFreezer", "store/MCFreezer2Q", timeout=T, name="MCFreezer-2tables", workers=4)
    # XF + V: real histories, crash images, validated by the trace specification
    for cfg, tcfg in (("g2", "store/FreezerTraceG2"), ("mixed", "store/FreezerTraceMixed")):
        tp = os.path.join(ctx.scratch, "trace-%s.ndjson" % cfg)
        args = ["-mode", "xf", "-cfg", cfg, "-trace", tp, "-dir", os.path.join(ctx.scratch, "fz-" + cfg),
                "-n", ctx.pick(3, 14), "-steps", ctx.pick(9, 14), "-images", ctx.pick(5, 14)]
        if ctx.thorough:
            args.append("-every-length")
        s, _ = ctx.drive(drv, args, name="c24-xf-" + cfg, timeout=T)
        ok, consumed, total, r = ctx.validate("store/FreezerTrace", tp, cfg=tcfg, ntraces=s["traces"], timeout=T,
                                              name="FreezerTrace-" + cfg)
        if not ok:
            why = rejects(r)
            ctx.reject_trace("store/FreezerTrace", tp, consumed, r, cfg=tcfg,
                             desc="[%s] freezer trace rejected at event %d%s" % (cfg, consumed + 1,
                                  (": specification computes " + json.dumps(why[0])[:600]) if why else ""))
    # TODO-KNOWN-FINDING (C24-F1, spec/store/NOTES.md): TruncateTail above the flushed head followed by a crash
    # (or just a kill) leaves virtualTail > items; NewFreezer then fails with EOF.  The histories above keep the
    # tail below the synced head; this directed history reproduces the finding and is reported as pending.
    tp = os.path.join(ctx.scratch, "trace-f1.ndjson")
    ctx.drive(drv, ["-mode", "xf", "-cfg", "g2", "-script", "a2,t1", "-images", 10, "-n", 1, "-trace", tp,
                    "-dir", os.path.join(ctx.scratch, "fz-f1")], name="c24-finding-F1", timeout=T)
    ok, consumed, total, r = ctx.validate("store/FreezerTrace", tp, cfg="store/FreezerTraceG2", ntraces=0, timeout=T,
                                          name="FreezerTrace-finding-F1")
    why = rejects(r)
    if ok:
        ctx.notes.append("C24-F1 not reproduced: the directed history a2,t1 was accepted")
        ctx.log("C24-F1 not reproduced")
    else:
        ex = (why[0].get("explain") if why else None) or {}
        hid, its = ex.get("table_hidden", {}), ex.get("table_items", {})
        if ex.get("lens_ok") and any(hid.get(t, 0) > its.get(t, 0) for t in hid):
            line = "PENDING-FINDING: property=C24 C24-F1 TruncateTail above the flushed head + crash leaves virtualTail > items; reopening fails (directed history a2,t1, image at event %d)" % (consumed + 1)
            print(line)
            ctx.notes.append(line)
        else:
            ctx.reject_trace("store/FreezerTrace", tp, consumed, r, cfg="store/FreezerTraceG2",
                             desc="directed history a2,t1 rejected for another reason than C24-F1: " + json.dumps(why[:1])[:600])
    return ctx.finish(rule="MC: all histories within the cfg bounds with a crash at any file-system call (also inside repair); XF: seeded histories x crash points x sampled per-file cuts on the real freezer",
                      assumptions=["per-file prefix durability with zero-filled extensions; metadata file old or new",
                                   "create/unlink/rename/directory operations durable at once",
                                   "single writer; item blobs smaller than the data-file size limit",
                                   "TruncateTail only up to the synced head (C24-F1 pending above it)"])
