"""C24 - Freezer tables survive crashes without corruption."""
import json, os
from vcheck import InfraError

META = {
    "property_id": "C24",
    "level": "model_checking",
    "technique": "TLA+ spec of the freezer at file-system-call granularity with durable/volatile file contents (Freezer.tla) model-checked with TLC over all crash points; real rawdb.Freezer histories with fsync positions from a hook, enumerated crash images reopened in child processes, all validated against FreezerTrace.tla",
    "text": "Freezer.tla compiles every public call (append batches with file rolls, sync, head/tail truncation, reset) and the whole open/repair procedure (checkIndex, repairIndex, the index/data slip loop, cross-table alignment) into the sequence of write/truncate/fsync/rename/unlink calls of freezer_table.go, executes it one call at a time on files with a durable and a volatile content, and lets a crash keep per file any length between the two (written or zero-filled, metadata old or new). TLC checks on bounded histories, for every crash point including crashes during repair, that reopening succeeds, all tables share one range, every readable item is the one appended at that position and everything covered by a completed sync and not truncated since is present. Binding: seeded histories run on a real freezer (64-byte data files, one compressed and one raw table, two tail-group layouts); the rawdb fsync hook gives the durable content of every file; at every fsync (just before it takes effect) and at every call end crash images are materialised and reopened by the real NewFreezer in a child process; FreezerTrace.tla follows the observed fsyncs through the spec's programs (an unexpected or a missing fsync rejects), compares real durable/current file lengths with the model's, recomputes crash+repair for every image and demands the same observable result (Ancients, Tail, every item) and the three clauses of C24.",
    "note": "File-system model as stated by the property: per-file prefix durability, zero-filled extensions, metadata file old-or-new, or - when its encoding grew - the new bytes at the old length, create/unlink/rename durable at once. Histories are single-writer; appended blobs are 6..30 bytes and never exceed the file size limit. Three ways the pinned code refuses to reopen after a crash are modelled as what the code does (Freezer!KnownF1: virtualTail above the surviving head after an unsynced TruncateTail; KnownF2: a non-prunable table emptied beside a non-empty one is fast-forwarded and repair panics; KnownF3: torn metadata rewrite); an image that fails to open is accepted only if the specification computes exactly such a failure for it, and is reported through known_findings C24-F1/F2/F3 (spec/store/NOTES.md); directed histories reproduce both on every run. Trusts TLC, the hook positions and the projection in harness/cmd/c24.",
    "design_ref": "3.4 C24",
}

T = 7200


def printed(res, tag):
    """JSON payloads the trace specification printed with PrintT(<<tag, ToJson(..)>>)."""
    out = []
    pre = '<<"%s", ' % tag
    for line in res.stdout.splitlines():
        line = line.strip()
        if line.startswith(pre) and line.endswith('>>'):
            try:
                out.append(json.loads(json.loads(line[len(pre):-2])))
            except Exception:
                pass
    return out


def rejects(res):
    """diagnostics of FreezerTrace!TImageBad: what the specification computes for the rejected image"""
    return printed(res, "REJECT")


FINDINGS = {
    # exact fingerprints: FreezerTrace!KnownFailure / Freezer!KnownF1, KnownF2, KnownF3; tolerated via ctx.known_finding only
    "C24-F1": "TruncateTail above the flushed head + crash leaves virtualTail > items: NewFreezer fails (EOF)",
    "C24-F2": "a non-prunable table left with 0 items beside a non-empty one (first SyncAncient or TruncateHead(0) interrupted): NewFreezer panics on its non-zero tail",
    "C24-F3": "metadata rewrite whose RLP encoding grows by a byte, crash keeps the new bytes at the old length: undecodable metadata, NewFreezer fails",
}


def pending(ctx, res, seen):
    for p in printed(res, "PENDING"):
        f = p.get("finding")
        seen[f] = seen.get(f, 0) + 1


def run(ctx):
    drv = ctx.build("c24")
    # MC: every crash point of bounded histories (also crashes during repair), one and two tables
    ctx.model_check("store/MCFreezer", "store/MCFreezer1", timeout=T, name="MCFreezer-1table", workers=4)
    ctx.model_check("store/MCFreezer", "store/MCFreezer2Q", timeout=T, name="MCFreezer-2tables", workers=4)
    if ctx.thorough:
        ctx.model_check("store/MCFreezer", "store/MCFreezerMixed", timeout=T, name="MCFreezer-2tables-mixed-groups", workers=6, coverage=True)
        ctx.model_check("store/MCFreezer", "store/MCFreezer1T", timeout=T, name="MCFreezer-1table-deeper", workers=6)
        # (store/MCFreezer2.cfg, two tables x three items, 54.7M states / ~11 min on an idle machine, held in the final
        #  sweep; it is left out of the tier to keep it within ~25 minutes)
    # R: call histories sampled by TLC from the model (simulation mode) drive the real freezer first
    sim = ctx.tlc("store/MCFreezer", "store/MCFreezerSim", simulate="num=%d" % ctx.pick(1, 6), depth=400, workers=2,
                  timeout=T, tags=("MBT",), deadlock=False, name="MCFreezer-simulate")
    if sim.error or sim.timeout:
        raise InfraError("TLC simulation failed: %s" % (sim.error or "timeout"))
    hists = []
    for h in sim.lines.get("MBT", []):
        if h not in hists:
            hists.append(h)
    if not hists:
        raise InfraError("TLC simulation printed no behaviour")
    hp = os.path.join(ctx.scratch, "tlc-histories.json")
    with open(hp, "w") as f:
        json.dump(hists, f)
    ctx.cov["behaviours_replayed"] += len(hists) * (2 if ctx.thorough else 1)
    # XF + V: real histories, crash images, validated by the trace specification
    seen = {}
    cfgs = [("g2", "store/FreezerTraceG2"), ("mixed", "store/FreezerTraceMixed")]
    if ctx.thorough:
        cfgs.append(("g3", "store/FreezerTraceG3"))      # three tables, two tail groups, one table not prunable
    for cfg, tcfg in cfgs:
        tp = os.path.join(ctx.scratch, "trace-%s.ndjson" % cfg)
        args = ["-mode", "xf", "-cfg", cfg, "-unsynced-tail", "-trace", tp, "-dir", os.path.join(ctx.scratch, "fz-" + cfg),
                "-n", ctx.pick(2, 6), "-steps", ctx.pick(9, 14), "-images", ctx.pick(5, 8)]
        if ctx.thorough:
            args.append("-every-length")
        if cfg == "g2" or (ctx.thorough and cfg == "mixed"):
            args += ["-scripts", hp]                      # the TLC-sampled histories (quick: on one configuration)
        s, _ = ctx.drive(drv, args, name="c24-xf-" + cfg, timeout=T)
        ok, consumed, total, r = ctx.validate("store/FreezerTrace", tp, cfg=tcfg, ntraces=s["traces"], timeout=T,
                                              name="FreezerTrace-" + cfg)
        pending(ctx, r, seen)
        if not ok:
            why = rejects(r)
            ctx.reject_trace("store/FreezerTrace", tp, consumed, r, cfg=tcfg,
                             desc="[%s] freezer trace rejected at event %d%s" % (cfg, consumed + 1,
                                  (": specification computes " + json.dumps(why[0])[:600]) if why else ""))
    # directed histories that reproduce the three pending findings on every run (accepted only through the
    # KnownFailure disjunct of the trace specification; anything else about them is still checked)
    for name, cfg, tcfg, script in (("F1", "g2", "store/FreezerTraceG2", "a2,t1"),
                                    ("F2", "np2", "store/FreezerTraceNP2", "a3,s,h0"),   # both tables not prunable: independent of map order
                                    ("F3", "g2", "store/FreezerTraceG2", "a4,a4,a4,a4,a4,a4,s")):
        tp = os.path.join(ctx.scratch, "trace-%s.ndjson" % name)
        ctx.drive(drv, ["-mode", "xf", "-cfg", cfg, "-script", script, "-images", ctx.pick(4, 12), "-n", 1, "-trace", tp,
                        "-dir", os.path.join(ctx.scratch, "fz-" + name)], name="c24-finding-" + name, timeout=T)
        ok, consumed, total, r = ctx.validate("store/FreezerTrace", tp, cfg=tcfg, ntraces=1, timeout=T,
                                              name="FreezerTrace-finding-" + name)
        before = dict(seen)
        pending(ctx, r, seen)
        if not ok:
            why = rejects(r)
            ctx.reject_trace("store/FreezerTrace", tp, consumed, r, cfg=tcfg,
                             desc="directed history %s rejected at event %d%s" % (script, consumed + 1,
                                  (": specification computes " + json.dumps(why[0])[:600]) if why else ""))
        elif seen.get("C24-" + name, 0) == before.get("C24-" + name, 0):
            ctx.notes.append("C24-%s not reproduced by the directed history %s" % (name, script))
    for f in sorted(seen):
        detail = "%d crash images of this run do not reopen in exactly this way" % seen[f]
        ctx.notes.append("%s %s: %s" % (f, FINDINGS.get(f, ""), detail))
        # tolerated only while known_findings.json lists the finding as open
        if not ctx.known_finding(f, detail):
            ctx.violation("%s %s (%s) - not listed as an open known finding" % (f, FINDINGS.get(f, ""), detail),
                          {"kind": "finding", "finding": f, "images": seen[f], "seed": ctx.seed, "tier": ctx.tier,
                           "replay": "c24 -mode xf with the directed histories of checks/C24.py; see spec/store/NOTES.md"})
    return ctx.finish(rule="MC: all histories within the cfg bounds with a crash at any file-system call (also inside repair); XF: seeded histories x crash points x sampled per-file cuts on the real freezer",
                      assumptions=["per-file prefix durability with zero-filled extensions; metadata file old, new, or new bytes at the old length",
                                   "create/unlink/rename/directory operations durable at once",
                                   "single writer; item blobs smaller than the data-file size limit",
                                   "three known reopen failures (C24-F1, C24-F2, C24-F3) are accepted only when the specification computes exactly that failure for the image; reported as pending findings"])
