"""C14 - State commit and reopen preserve the state."""
import os, random
from vcheck import write_json, InfraError

META = {
    "property_id": "C14",
    "level": "model_checking",
    "technique": "TLA+ spec of commit / reopen / copy over the reference account model (StateCommit.tla: disk = set of committed worlds, two StateDB twins, root = content) with a TLC-checked model of the commit difference mechanism (destructs, mutations, pending storage); TLC behaviours replayed on two real state.StateDB twins over one real database in a configuration matrix, all readers compared at every commit; recorded random multi-block histories validated by StateCommitTrace.tla",
    "text": "TLC checks on the model that an actor never changes the other twin (TwinIndependence), that Copy is exact, that Commit writes exactly the finalised world and the state reopened on it reads it (CommitPreserves), and that the difference StateDB.commit hands to the database (account deletions with storage wipe for accounts destructed in the block, updates of the mutated survivors, only the slots written during the block) applied to the parent world reproduces the committed world at every transaction boundary (DiffReproducesWorld), for blocks with several transactions incl. destruct-and-recreate in one block under all rule sets. Binding: behaviours sampled by TLC and seeded random multi-block histories run on two real StateDB twins over one real database, rotating {hash, path} scheme x {snapshot tree on, off} x {trie prefetcher on, off}; after every call every observable of BOTH twins is compared with the model (independence in both directions, copies taken mid-block and mid-transaction); at every Commit the returned root must equal the IntermediateRoot of a copy taken just before and the StackTrie root of the model world, and the committed root is read through the account and storage tries, the flat reader (path database state reader or snapshot tree), the code database and the account/storage iterators, all of which must return exactly the model world; Open reopens any committed root; Persist journals/commits the node database, closes and reopens it on the same key-value store and re-reads the state.",
    "note": "Trusts TLC, trie.StackTrie/rlp/keccak (reference root) and the projection/reader code in harness/statekit. In-memory key-value store (disk backends are C23's subject). Snapshot ids taken before a Copy are not used on the copy (documented limitation of StateDB.Copy). Histories are EVM-feasible under EIP-6780 rule sets (StateDB.tla F1-F5). Verkle/UBT and witness collection out of scope.",
    "design_ref": "3.3 C14",
}


def run(ctx):
    drv = ctx.build("c14")
    rnd = random.Random(ctx.seed)

    # MC: commit mechanism (single actor, blocks of two transactions) and twin independence
    ctx.model_check("state/MCStateCommit", "state/MCStateCommit" if not ctx.thorough else "state/MCStateCommitThorough",
                    timeout=ctx.pick(1800, 7200), name="MCStateCommit", workers=4)
    ctx.model_check("state/MCStateCommit", "state/MCStateCommitTwins", timeout=ctx.pick(1800, 7200),
                    name="MCStateCommitTwins", workers=4)

    # R: behaviours sampled by TLC replayed on two real twins
    res = ctx.tlc("state/MCStateCommit", "state/MCStateCommitSim", simulate="num=%d" % ctx.pick(20, 100), depth=40,
                  tags=("MBT",), timeout=ctx.pick(1800, 3600), name="MCStateCommitSim", workers=4)
    if not res.ok:
        raise InfraError("TLC simulation failed: %s\n%s" % (res.error, res.stdout[-2000:]))
    bs = res.lines.get("MBT", [])
    if not bs:
        raise InfraError("no behaviours emitted by the simulation")
    rnd.shuffle(bs)
    bs = bs[:ctx.pick(400, 6000)]
    bp = os.path.join(ctx.scratch, "mbt.json")
    write_json(bp, bs)
    ctx.drive(drv, ["-mode", "mbt", "-in", bp], name="c14-mbt", timeout=ctx.pick(1800, 7200))

    # V: recorded multi-block histories of two twins validated by the trace specification
    tp = os.path.join(ctx.scratch, "trace.ndjson")
    s, _ = ctx.drive(drv, ["-mode", "record", "-trace", tp, "-n", ctx.pick(32, 200), "-steps", ctx.pick(120, 200),
                           "-na", 3, "-ns", 2], name="c14-record", timeout=ctx.pick(1800, 7200))
    ok, consumed, total, r = ctx.validate("state/StateCommitTrace", tp, ntraces=s["traces"], timeout=ctx.pick(1800, 7200))
    if not ok:
        ctx.reject_trace("state/StateCommitTrace", tp, consumed, r)
    return ctx.finish(
        rule="MC: one actor, 1 address x 1 slot, blocks of <= 2 transactions, commit + reopen (mechanism = world); two actors with Copy and one nested snapshot; R: simulated behaviours over 2 addresses x 2 slots with Commit/Open/Copy/Persist; V: random histories over 3 addresses x 2 slots, 8 storage configurations",
        assumptions=["values < 2^31 (TLC integer range)",
                     "histories under EIP-6780 rule sets restricted to EVM-feasible ones (StateDB.tla F1-F5)",
                     "in-memory key-value store",
                     "snapshot ids of the original are not applied to a copy"])
