"""C38 - The canonical chain index stays consistent under reorgs, head changes and restarts."""
import os, json
from vcheck import write_json, InfraError

META = {
    "property_id": "C38",
    "level": "model_checking",
    "technique": "TLA+ spec of core.BlockChain's canonical-chain bookkeeping (Chain.tla) model-checked with TLC; TLC behaviours replayed on a real core.BlockChain (hash and path scheme); recorded random histories validated against ChainTrace.tla with all invariants",
    "text": "Chain.tla models InsertChain (known-block trimming, side-chain import on a pruned ancestor, processing), InsertBlockWithoutSetHead, SetCanonical, reorg, writeHeadBlock, SetHead/rewindHead and a clean restart over a block tree with competing branches and shared transactions. TLC checks on all trees of the bound and all call orders that the number index is a parent-linked chain containing the heads, the head state is available, the head header is at or above the head block, transaction/receipt lookups (database and GetCanonicalTransaction cache) resolve exactly to canonical blocks, and that removed/added log events describe the switch. TLC-sampled behaviours are executed on a real BlockChain built from core.GenerateChain forks and the projected database/chain state and the four event feeds are compared after every call; seeded random histories with restarts are recorded from the real chain and TLC checks each is a behaviour of the specification with the invariants evaluated after every real call.",
    "note": "Trusts TLC and the projection in harness/cmd/c38. Memory database, ethash faker, no snapshots in hash scheme, tx indexer limit 0 on a database already marked indexed (the indexer's first run is scheduled by a racy select and cannot be awaited). Three open findings (known_findings.json C38-F1..F3, NOTES.md) are reproduced on the real code from kept replays on every run and reported through ctx.known_finding; in the specification the corresponding strict invariants are conditioned on the ghost fingerprints of exactly those behaviours (gh.f1, gh.kb, gh.rx), everything else is strict.",
    "design_ref": "3.6 C38",
}

FINDINGS = [  # open entries of known_findings.json; the kept replays must still reproduce exactly these violations
    ("C38-F1", "chain/findings/C38-F1.json", ("CanonLinked", "CanonEndsAtHead", "LookupSound", "LookupComplete", "CacheCoherent"),
     "number index / lookup cache keep entries of the abandoned branch when a head is written without reorg while the head header is above the head block"),
    ("C38-F2", "chain/findings/C38-F2.json", ("AddedLogsComplete",),
     "logs of a stored block re-adopted through writeKnownBlock are never announced"),
    ("C38-F3", "chain/findings/C38-F3.json", ("AddedLogsNoDup", "RemovedLogsExact"),
     "re-import of a canonical block whose state was pruned rewinds the head and re-announces its logs"),
]


def dedupe(lines):
    seen, out = set(), []
    for b in lines:
        k = json.dumps(b, sort_keys=True)
        if k not in seen:
            seen.add(k)
            out.append(b)
    return out


def run(ctx):
    drv = ctx.build("c38")
    # MC: exhaustive exploration of the (as implemented) design; strict invariants outside the pending fingerprints
    ctx.model_check("chain/MCChain", "chain/MCChain" if not ctx.thorough else "chain/MCChainThorough",
                    timeout=ctx.pick(3600, 21600), workers=4, name="MCChain", coverage=ctx.thorough)
    # R: TLC-sampled behaviours over larger trees replayed on a real BlockChain
    res = ctx.tlc("chain/MCChain", "chain/MCChainSim" if not ctx.thorough else "chain/MCChainSimThorough",
                  simulate="num=%d" % ctx.pick(40, 400), depth=ctx.pick(9, 11), tags=("MBT",), workers=4,
                  timeout=ctx.pick(3600, 21600), name="MCChainSim")
    if res.error or res.timeout:
        raise InfraError("TLC simulation failed: %s\n%s" % (res.error, res.stdout[-2000:]))
    beh = dedupe(res.lines.get("MBT", []))
    if len(beh) < 50:
        raise InfraError("too few behaviours emitted: %d" % len(beh))
    bp = os.path.join(ctx.scratch, "behaviours.json")
    write_json(bp, beh)
    ctx.drive(drv, ["-mode", "replay", "-in", bp], name="c38-replay", timeout=ctx.pick(3600, 21600))
    # V: recorded random histories validated by the trace specification
    tp = os.path.join(ctx.scratch, "trace.ndjson")
    s, _ = ctx.drive(drv, ["-mode", "record", "-trace", tp, "-n", ctx.pick(300, 3000), "-steps", 14, "-blocks", 7, "-ntx", 3],
                     name="c38-record", timeout=ctx.pick(3600, 21600))
    ok, consumed, total, r = ctx.validate("chain/ChainTrace", tp, ntraces=s["traces"], timeout=ctx.pick(3600, 21600))
    if not ok:
        ctx.reject_trace("chain/ChainTrace", tp, consumed, r)
    # Pending candidate findings: the kept replays are executed on the real code; the trace must be a behaviour of
    # the as-implemented specification and must violate the strict property.
    for fid, path, expect, what in FINDINGS:
        fp = os.path.join(ctx.scratch, fid + ".ndjson")
        fs, _ = ctx.drive(drv, ["-mode", "scenario", "-in", os.path.join(os.path.dirname(os.path.dirname(os.path.abspath(__file__))), "spec", path),
                                "-trace", fp], name="c38-" + fid, timeout=1800)
        ok, consumed, total, r = ctx.validate("chain/ChainTrace", fp, ntraces=fs["traces"], timeout=1800, name="ChainTrace-" + fid)
        if not ok:
            ctx.reject_trace("chain/ChainTrace", fp, consumed, r, desc="%s replay is no longer a behaviour of Chain.tla" % fid)
            continue
        ok2, c2, t2, r2 = ctx.validate("chain/ChainTrace", fp, cfg="chain/ChainTraceStrict", ntraces=0, timeout=1800, name="ChainTraceStrict-" + fid)
        viol = (r2.violated or "")
        if ok2:
            ctx.notes.append("%s: no longer reproduces (strict invariants hold on the kept replay)" % fid)
        elif any(e in viol for e in expect) and ctx.known_finding(fid, what):
            # recognised fingerprint of an open entry of known_findings.json: KNOWN-FINDING line, no violation
            ctx.notes.append("%s reproduced on the real code (%s)" % (fid, viol.strip()[:80]))
        else:
            ctx.reject_trace("chain/ChainTrace", fp, c2, r2, cfg="chain/ChainTraceStrict",
                             desc="%s replay: strict specification rejects the real trace (%s) and the finding is not listed as open" % (fid, viol))
    return ctx.finish(rule="MC: all call orders over all trees of the bound, both schemes; R: TLC-sampled behaviours on larger trees; V: random trees and histories with restarts",
                      assumptions=["memory database, ethash faker, snapshots off (hash scheme)",
                                   "tx indexer limit 0 on a database already marked as indexed",
                                   "strict invariants CanonLinked/CanonEndsAtHead/Lookup*/CacheCoherent and the exact events claim are checked outside the ghost fingerprints of the open findings C38-F1..F3 (NOTES.md)"])
