"""C46 - The discovery node table maintains Kademlia bucket and IP-diversity invariants."""
import os

META = {
    "property_id": "C46",
    "level": "model_checking",
    "technique": "TLA+ spec of the node table (Kademlia.tla) model-checked with TLC on small constants; handler calls recorded from the real p2p/discover.Table (real constants) validated against KademliaTrace.tla with the invariants evaluated after every real step",
    "text": "Kademlia.tla transcribes handleAddNode, bumpInBucket, addReplacement, addIP/removeIP, deleteInBucket (replacement promotion), revalidation responses, handleTrackRequest and findnodeByID. TLC checks on a small instance (bucket size 2, 1 replacement, limits 1/2) for all interleavings: bucket capacities, distinct ids, right log-distance bucket, no local node, per-bucket and table /24 limits over entries and replacements, address counters equal to a recount, and that the code-shaped closest-node computation equals the XOR-sorted nearest set. The real Table (constants 16/10, limits 2/10, 17 buckets) is driven handler by handler through an export file; every call is logged with the complete table state (entries with liveness bookkeeping, replacements, per-bucket and table address counters) and TLC checks each recorded step is the specification's step (random replacement choice existentially quantified) and evaluates all invariants on every real state; findnodeByID results are compared with the specification's sorted nearest set.",
    "note": "Table main loop, timers and the network transport are bypassed (handlers called directly; revalidation requests are started by the driver for arbitrary entries, an over-approximation of tableRevalidation.run); ids use the null identity scheme with bits spread over 19 positions of the 256-bit id; IPv4 only; time stamps (addedToTable/addedToBucket) not modelled.",
    "design_ref": "3.7 C46",
}

T = 3600

def run(ctx):
    drv = ctx.build("c46")
    ctx.model_check("net/MCKademlia", "net/MCKademlia", timeout=T, name="MCKademlia-add-track", workers=4, coverage=ctx.thorough)
    ctx.model_check("net/MCKademlia", "net/MCKademliaReval", timeout=T, name="MCKademlia-reval", workers=4, coverage=ctx.thorough)
    if ctx.thorough:
        ctx.model_check("net/MCKademlia", "net/MCKademliaThorough", timeout=2 * T, name="MCKademlia-thorough", workers=4)
        ctx.model_check("net/MCKademlia", "net/MCKademliaRevalThorough", timeout=2 * T, name="MCKademlia-reval-thorough", workers=4)
    tp = os.path.join(ctx.scratch, "trace.ndjson")
    s, _ = ctx.drive(drv, ["-mode", "record", "-trace", tp, "-n", ctx.pick(8, 60), "-steps", ctx.pick(700, 1000)], name="c46-record", timeout=T)
    ok, consumed, total, r = ctx.validate("net/KademliaTrace", tp, ntraces=s["traces"], timeout=2 * T)
    if not ok:
        ctx.reject_trace("net/KademliaTrace", tp, consumed, r)
    return ctx.finish(rule="MC: all interleavings of add/delete/revalidate/track over 3-5 ids with several records each, B=2 R=1 limits 1/2; V: random handler sequences on the real table with real constants",
                      assumptions=["handlers driven directly (no loop/timers/network)", "null identity scheme ids, IPv4 addresses",
                                   "revalidation may be started for any entry not already in flight"])
