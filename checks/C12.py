"""C12 - Trie synchronisation completes with exactly the target nodes."""
import os, json
from vcheck import write_json, InfraError

META = {
    "property_id": "C12",
    "level": "model_checking",
    "technique": "TLA+ spec of the trie sync scheduler (TrieSync.tla) model-checked with TLC over targets with storage tries, shared codes and identical subtries, for all closed pre-populated databases, delivery orders, batch sizes, repeats and commit points; TLC-generated schedules executed on state.NewStateSync over real databases in both schemes; every call validated against TrieSyncTrace.tla",
    "text": "TrieSync.tla models NewSync/AddSubTrie/AddCodeEntry/Missing/ProcessNode/ProcessCode/Commit as the code does them (requests per path, existence looked up in the database only, by hash or by path+hash with deletion of a different node and of dangling nodes inside extension keys, dependency counters, bottom-up batch). TLC checks on a built-in target and on targets built from real states: only target nodes/codes are requested and written, the database and the pending batch stay child-closed (no node before its children), dependency counters are exact, the per-depth in-flight counter (maxFetchesPerDepth throttle, small bound in the model) is bounded and equals the requests handed out and not completed, MemSize equals the batch contents, and nothing pending implies the whole target is stored; termination is checked as a liveness property. Schedules sampled by TLC (initial database, batch sizes, order, repeats, early and undecodable answers, commits) are executed on the real scheduler; each call's error class, Missing set, Pending(), MemSize() and database listing must be a step of the specification, and a finished sync is re-read through the database and compared with the source state. A bulk run (one contract with 35 000 slots, honest batched delivery, both schemes) exercises the real throttle: when Missing returns nothing, nothing may be pending and the database must equal the source. The hash cross-reference of responses (HealFilter.tla) is model-checked for all short requests/responses and validated on heal-only runs of the real snap/1 syncer fed with corrupted, extra and reordered blobs: verdict per response as specified, final database complete and free of foreign blobs.",
    "note": "Trusts TLC and the id mapping of harness/cmd/c12. The local database before the sync is assumed child-closed with respect to the target (what the sync itself maintains). A delivery whose hash differs from the requested hash is filtered in eth/protocols/snap (OnTrieNodes/onHealByteCodes) before trie.Sync sees it (trie.Sync itself only rejects undecodable blobs): that clause is specified in HealFilter.tla and bound by heal-only runs of snap.NewV1Syncer against a tampering harness peer (requests there carry one node each, so gaps/reordering are covered by the model only).",
    "design_ref": "3.2 C12",
}


def tla(x):
    if isinstance(x, bool):
        return "TRUE" if x else "FALSE"
    if isinstance(x, list):
        return "<<" + ", ".join(tla(y) for y in x) + ">>"
    if isinstance(x, dict):
        return "[" + ", ".join("%s |-> %s" % (k, tla(v)) for k, v in x.items()) + "]"
    if isinstance(x, str):
        return '"%s"' % x
    return str(x)


def world_module(ctx, name, base, world_path, scheme):
    w = json.load(open(world_path))
    inner = "<<" + ", ".join("{" + ", ".join(str(e) for e in es) + "}" for es in w["inner"]) + ">>"
    body = ["---- MODULE %s ----" % name, "EXTENDS " + base,
            'WScheme == "%s"' % scheme,
            "WNumLocs == %d" % w["numlocs"],
            "WLocPath == " + tla(w["locpath"]),
            "WTarget == " + tla(w["target"]),
            "WKids == " + tla(w["kids"]),
            "WInner == " + inner,
            "WSub == " + tla(w["sub"]),
            "WBlobSize == " + tla(w["blobsize"]),
            "WStale == " + tla(w["stale"]),
            "WRootLoc == %d" % w["rootloc"],
            "WNumCodes == %d" % w["numcodes"],
            "WCodeSize == " + tla(w["codesize"]),
            "===="]
    path = os.path.join(ctx.scratch, name + ".tla")
    open(path, "w").write("\n".join(body) + "\n")
    return path[:-4], w


def validate(ctx, mod_name, wp, scheme, tp, ntraces, tag):
    mod, _ = world_module(ctx, mod_name, "TrieSyncTrace", wp, scheme)
    ok, consumed, total, r = ctx.validate(mod, tp, cfg="trie/TrieSyncTrace", ntraces=ntraces, timeout=3600, name="TrieSyncTrace[%s]" % tag)
    if not ok:
        ctx.reject_trace("trie/TrieSyncTrace", tp, consumed, r, cfg="trie/TrieSyncTrace")


def run(ctx):
    drv = ctx.build("c12")
    # MC: built-in target, all schedules; termination as a liveness property
    ctx.model_check("trie/MCTrieSync", "trie/MCTrieSync" if not ctx.thorough else "trie/MCTrieSyncThorough",
                    timeout=7200, name="MCTrieSync", workers=ctx.pick(4, 8), coverage=ctx.thorough)
    ctx.model_check("trie/MCTrieSyncLive", "trie/MCTrieSyncLive", timeout=7200, name="MCTrieSyncLive", workers=ctx.pick(4, 8))

    # R: targets from real states: exhaustive MC of the target, then TLC-sampled schedules on the real scheduler
    # target 3 (extension root with an outdated node inside its key range, identical sub-tries at two
    # places) always in the path scheme; one more target per seed in the hash scheme; all x both in thorough
    if ctx.thorough:
        plan = [(t, sc) for t in (0, 1, 2, 3) for sc in ("path", "hash")]
    else:
        plan = [(3, "path"), ((0, 1, 2)[ctx.seed % 3], "hash")]
    for t, scheme in plan:
        wp = os.path.join(ctx.scratch, "world%d.json" % t)
        if not os.path.exists(wp):
            ctx.drive(drv, ["-mode", "world", "-target", t, "-world", wp], name="c12-world%d" % t)
        if True:
            mod, w = world_module(ctx, "MCTrieSyncW%d%s" % (t, scheme), "MCTrieSyncBase", wp, scheme)
            ctx.model_check(mod, "trie/MCTrieSyncWorld", timeout=7200, name="MCTrieSync[target %d, %s]" % (t, scheme), workers=ctx.pick(4, 8))
            res = ctx.tlc(mod, "trie/MCTrieSyncSim", simulate="num=%d" % ctx.pick(40, 200), depth=45, tags=("MBT",), timeout=3600,
                          workers=4, name="MCTrieSyncSim[target %d, %s]" % (t, scheme))
            if res.timeout or not res.ok:
                raise InfraError("TLC simulation failed: %s\n%s" % (res.error, res.stdout[-2000:]))
            scheds = res.lines.get("MBT", [])
            if not scheds:
                raise InfraError("no schedules emitted")
            sp = os.path.join(ctx.scratch, "sched-%d-%s.json" % (t, scheme))
            write_json(sp, scheds)
            tp = os.path.join(ctx.scratch, "replay-%d-%s.ndjson" % (t, scheme))
            s, _ = ctx.drive(drv, ["-mode", "replay", "-target", t, "-scheme", scheme, "-in", sp, "-trace", tp],
                             name="c12-replay[target %d, %s]" % (t, scheme), timeout=3600)
            if not s.get("violations"):
                validate(ctx, "TrieSyncTraceW%d%s" % (t, scheme), wp, scheme, tp, s["traces"], "target %d, %s" % (t, scheme))

    # V: random schedules on larger random states, both schemes
    for i, scheme in enumerate(["path", "hash"]):
        for j in range(ctx.pick(1, 4)):
            tgt = -(1 + j)
            wp = os.path.join(ctx.scratch, "rworld%d%s.json" % (j, scheme))
            ctx.drive(drv, ["-mode", "world", "-target", tgt, "-world", wp], name="c12-rworld")
            tp = os.path.join(ctx.scratch, "record-%d-%s.ndjson" % (j, scheme))
            s, _ = ctx.drive(drv, ["-mode", "record", "-target", tgt, "-scheme", scheme, "-trace", tp, "-n", ctx.pick(25, 150)],
                             name="c12-record[%s]" % scheme, timeout=3600)
            if not s.get("violations"):
                validate(ctx, "TrieSyncTraceR%d%s" % (j, scheme), wp, scheme, tp, s["traces"], "random %d, %s" % (j, scheme))
    # bulk: one contract with ~35 000 slots through state.NewStateSync, honest batched delivery; the per-depth
    # in-flight throttle (maxFetchesPerDepth) is active at this size.  A sync that stops with requests
    # pending while Missing returns nothing is a violation of the termination clause (decided by the driver
    # and by BulkSyncTrace.tla on the summarised trace).
    for scheme in ("path", "hash"):
        tp = os.path.join(ctx.scratch, "bulk-%s.ndjson" % scheme)
        s, _ = ctx.drive(drv, ["-mode", "bulk", "-scheme", scheme, "-slots", ctx.pick(35000, 120000), "-trace", tp],
                         name="c12-bulk[%s]" % scheme, timeout=7200)
        if not s.get("violations"):
            ok, consumed, total, r = ctx.validate("trie/BulkSyncTrace", tp, ntraces=1, timeout=3600, name="BulkSyncTrace[%s]" % scheme)
            if not ok:
                ctx.reject_trace("trie/BulkSyncTrace", tp, consumed, r)

    # the hash filter in front of the scheduler: guarantees of HealFilter.tla for all short requests/responses,
    # and heal-only runs of the real snap/1 syncer against a tampering peer (corrupted / extra / reordered blobs)
    ctx.model_check("trie/MCHealFilter", "trie/MCHealFilter", timeout=3600, name="MCHealFilter", workers=2)
    for i, scheme in enumerate(["path", "hash"]):
        tgt = -(7 + i) if not ctx.thorough else -(7 + i)
        tp = os.path.join(ctx.scratch, "heal-%s.ndjson" % scheme)
        s, _ = ctx.drive(drv, ["-mode", "heal", "-target", tgt, "-scheme", scheme, "-trace", tp, "-n", ctx.pick(8, 60)],
                         name="c12-heal[%s]" % scheme, timeout=7200)
        if not s.get("violations"):
            ok, consumed, total, r = ctx.validate("trie/HealTrace", tp, ntraces=s["traces"], timeout=3600, name="HealTrace[%s]" % scheme)
            if not ok:
                ctx.reject_trace("trie/HealTrace", tp, consumed, r)
    return ctx.finish(rule="MC: all schedules over the built-in target and over targets of real states (all child-closed initial databases, batch sizes, delivery orders, repeats, commit points); R: TLC-sampled schedules on state.NewStateSync; V: random schedules on random larger states; both schemes",
                      assumptions=["local database child-closed w.r.t. the target before the sync",
                                   "deliveries reaching trie.Sync carry the blob of the requested hash (hash filter lives in eth/protocols/snap)",
                                   "request priority order of code requests left open"])
