"""C52 - Keystore files decrypt only with the right passphrase."""
import os
from vcheck import write_json, parse_edges, InfraError

META = {
    "property_id": "C52",
    "level": "exploration",
    "technique": "TLA+ spec (codec/Keystore.tla: the Web3-secret-storage decrypt pipeline stage by stage over uninterpreted KDF/cipher/MAC, and the keystore directory machine) explored exhaustively with TLC; every row of the decision table replayed on keystore.EncryptKey/DecryptKey, every edge of the directory machine on a real keystore.KeyStore; random key/passphrase/corruption rounds validated by KeystoreTrace.tla",
    "text": "TLC runs the decrypt pipeline (version, id, cipher, hex fields, KDF parameters, MAC, AES-CTR) on every combination of key, encryption passphrase, tried passphrase (same, one-bit different, empty, unicode) and alteration of one field of the key file, and checks: the untouched file opens with its passphrase to the same key, id and derived address; any other passphrase is rejected whatever was altered; the address always comes from the decrypted key; everything the MAC or the KDF input covers is detected, the iv is not (the definition's MAC does not cover it: a different key comes out), address and id are not bound. Each row is realised on the real code with light scrypt and fresh keys. The keystore directory machine (create, change passphrase, export, import, delete; wrong passphrases and duplicate imports fail and change nothing) is explored exhaustively for 2 keys x 2 passphrases and every edge executed on a real KeyStore, after which every stored file must open with exactly the passphrase the specification says. This is a decision-table exploration with uninterpreted cryptography, not a proof about scrypt/AES/Keccak: level exploration.",
    "note": "scrypt/AES/Keccak are uninterpreted (injective) functions (true KDFs are not injective on passphrases that differ only by trailing NUL bytes or, beyond 64 bytes, from their own SHA-256: HMAC key padding - such pairs are not tried); light scrypt parameters (N=2,P=1). Not covered: files with missing JSON members or non-integer KDF parameters (DecryptKey panics on a missing kdfparams.salt/n/r/p/dklen - outside the property, recorded in NOTES.md), dklen other than 32, version-1 and pbkdf2 files, presale wallets, the account cache/file watcher timing.",
    "design_ref": "3.1 C52",
}


def run(ctx):
    drv = ctx.build("c52")
    T = ctx.pick(1800, 3600)
    res = ctx.model_check("codec/MCKeystore", "codec/MCKeystore", tags=("CASE",), timeout=T, workers=4, coverage=ctx.thorough, name="MCKeystore")
    rows = res.lines.get("CASE", [])
    if len(rows) < 100:
        raise InfraError("TLC printed only %d rows" % len(rows))
    rp = os.path.join(ctx.scratch, "rows.json")
    write_json(rp, rows)
    ctx.drive(drv, ["-mode", "rows", "-in", rp, "-reps", ctx.pick(2, 20)], name="c52-rows", timeout=T)
    res = ctx.model_check("codec/MCKeystore", "codec/MCKeystoreDir" if not ctx.thorough else "codec/MCKeystoreDirThorough",
                          tags=("EDGE",), timeout=T, workers=4, name="MCKeystoreDir")
    edges = parse_edges(res)
    if not edges:
        raise InfraError("no edges emitted")
    ep = os.path.join(ctx.scratch, "edges.json")
    write_json(ep, edges)
    ctx.drive(drv, ["-mode", "dir", "-in", ep], name="c52-dir", timeout=T)
    tp = os.path.join(ctx.scratch, "trace.ndjson")
    s, _ = ctx.drive(drv, ["-mode", "record", "-trace", tp, "-n", ctx.pick(1500, 20000)], name="c52-record", timeout=T)
    ok, consumed, total, r = ctx.validate("codec/KeystoreTrace", tp, ntraces=s["evaluations"], timeout=T)
    if not ok:
        ctx.reject_trace("codec/KeystoreTrace", tp, consumed, r)
    return ctx.finish(rule="all rows of the decision table; all edges of the 2-key x 2-passphrase directory machine; random corruption rounds",
                      assumptions=["KDF, cipher and MAC uninterpreted and injective", "light scrypt parameters"],
                      exhaustive=False)
