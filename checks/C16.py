"""C16 - Layered state reads in triedb/pathdb return exactly the requested state."""
import os, json
from vcheck import write_json, InfraError

META = {
    "property_id": "C16",
    "level": "model_checking",
    "technique": "TLA+ spec of the pathdb layer tree (PathDB.tla: diff layer objects, disk layer generations, write buffer, frozen buffer with background flush, key-value store, lookup index, descendants, cap split into persist steps, two-step readers) model-checked with TLC; TLC-generated behaviours replayed on a real pathdb.Database driven through StateDB commits with white-box projection comparison, all-roots x all-keys reads through StateReader and NodeReader after every step, and reader/flush goroutines parked at gates in the TLC-chosen order",
    "text": "TLC explores all interleavings of Update (forks, repeated roots, cycles, orphans), cap/Commit (split into one step per diskLayer.commit, with buffer-full and async-flush variants), background flush completion and a reader whose lookup step and layer-read step are separated, and checks: every available root reads as exactly its state through the lookup fast path and the layer walk; a finished read returned the requested state's value or the stale error, and the stale error only when the reader's entry layer had left the tree; lookup lists = live diff layers that changed the key in ancestor order; descendants = transitive closure; disk layer content and id alignment. Behaviours sampled from the same model are executed on a real database (real tries and roots through state.StateDB.Commit; cap via the layer tree's own cap; reader parked by a gate between lookupAccount and layer.account while the scheduled cap/flush steps run; flush goroutine parked at buffer.flush start) and after every step the layer tree, buffers, persistent state, lookup index and descendants are compared with the model and every key is read at every available root; dropped roots must be refused.",
    "note": "Trusts TLC, the projection in harness/cmd/c16 and the accessors/gates in triedb/pathdb/verif_export_read.go, verif_hook.go. Model keys: accounts (balance) and storage slots of one contract; trie-node reads are whole-key trie lookups over the NodeReader of the entry layer. Reads that run concurrently INSIDE one cap call are explored in the model only (cap is executed as one call on the real database). The specification describes the design in which all children of a flattened layer are re-parented under their locks (RelinkSiblings = TRUE; the code before fix 13160d1914 is the FALSE variant, finding C16-F1 in spec/state/NOTES.md).",
    "design_ref": "3.3 C16",
}


def behaviours(ctx, cfg, num, depth, name):
    res = ctx.tlc("state/MCPathDB", cfg, simulate="num=%d" % num, depth=depth + 1, tags=("MBT",), workers=2,
                  timeout=3600, name=name)
    if res.timeout or res.error:
        raise InfraError("TLC simulation %s failed: %s\n%s" % (name, res.error, res.stdout[-2000:]))
    seen, out = set(), []
    for b in res.lines.get("MBT", []):
        key = json.dumps([s["act"] for s in b["steps"][:-1]], sort_keys=True)
        if key in seen:
            continue
        seen.add(key)
        # TLC prints a behaviour once per successor of its last state, before action constraints are
        # applied to that last step: drop it (all remaining steps obey the scheduling constraints)
        b["steps"] = b["steps"][:-1]
        out.append(b)
    if not out:
        raise InfraError("no behaviours emitted by " + name)
    return out


def _wk(w):
    return ",".join("%s=%d" % (k, w[k]) for k in sorted(w))


def schedule_class(b):
    """Class of a scripted reader schedule: (key kind, what the cap did to the reader's entry layer, outcome)."""
    steps = b["steps"]
    tips = [i for i, s in enumerate(steps) if s["act"]["op"] == "ReadTip"]
    opens = [s for s in steps if s["act"]["op"] == "OpenReader"]
    if not tips or not opens or steps[-1]["act"]["op"] != "ReadVal":
        return None
    tip = tips[-1]
    rd = _wk(opens[-1]["act"]["r"])
    k = steps[tip]["act"]["k"]
    caps = [i for i, s in enumerate(steps) if s["act"]["op"] == "CapBegin" and i > tip]
    if not caps:
        return ("any", "nocap", "value")
    pre, post = steps[caps[0] - 1]["st"], steps[-1]["st"]
    par = {_wk(l["root"]): _wk(l["parent"]) for l in pre["layers"]}
    x, anc = _wk(steps[caps[0]]["act"]["r"]), set()
    while x in par:
        anc.add(x)
        x = par[x]
    live = {_wk(l["root"]) for l in post["layers"]}
    if rd == _wk(pre["disk"]["root"]):
        c = "disk-entry"
    elif rd in live:
        c = "kept"
    elif rd in anc:
        c = "flattened"          # (a) the reader's own state went into the new base
    else:
        c = "dropped-fork"       # (b) the reader sits on a fork the cap drops
    return ("slot" if k.startswith("s") else "account", c, "stale" if steps[-1]["act"]["res"] == -1 else "value")


NEEDED = [(kind, c, "stale") for kind in ("account", "slot") for c in ("flattened", "dropped-fork")]


def reader_schedules(ctx, num):
    """Scripted schedules lookup -> one cap -> layer read (MCPathDBScen): accounts and slots, the cap
    flattening the reader's own state / dropping the reader's fork, must all occur (else more are drawn)."""
    seen, out, classes = set(), [], {}
    for rnd in range(4):
        res = ctx.tlc("state/MCPathDB", "state/MCPathDBScen", simulate="num=%d" % num, depth=16, tags=("MBT",), workers=2,
                      timeout=3600, name="MBT-PathDB-schedules-%d" % rnd, extra=("-aril", str(rnd)))
        if res.timeout or res.error:
            raise InfraError("TLC simulation of reader schedules failed: %s\n%s" % (res.error, res.stdout[-2000:]))
        for b in res.lines.get("MBT", []):
            key = json.dumps([s["act"] for s in b["steps"]], sort_keys=True)
            cl = schedule_class(b)
            if key in seen or cl is None:
                continue
            seen.add(key)
            if cl[1] == "nocap" and classes.get(cl, 0) >= 20:
                continue
            classes[cl] = classes.get(cl, 0) + 1
            out.append(b)
        if all(classes.get(c, 0) >= 3 for c in NEEDED):
            break
    else:
        raise InfraError("reader schedules do not cover %s: %s" % (NEEDED, classes))
    ctx.notes.append("reader schedules by class: " + ", ".join("%s/%s/%s=%d" % (k + (v,)) for k, v in sorted(classes.items())))
    return out


def run(ctx):
    drv = ctx.build("c16")
    T = 3600
    if os.environ.get("VERIF_DEV_SKIP_MC") != "1":      # development knob (mutation runs): MC does not depend on the Go code
        if ctx.thorough:
            ctx.model_check("state/MCPathDB", "state/MCPathDB", timeout=3 * T, workers=6, name="MCPathDB")
            ctx.model_check("state/MCPathDB", "state/MCPathDBThorough2", timeout=3 * T, workers=6, name="MCPathDB-3values")
        else:
            ctx.model_check("state/MCPathDB", "state/MCPathDBQuickSync", timeout=T, workers=4, name="MCPathDB-noreader")
            ctx.model_check("state/MCPathDB", "state/MCPathDBQuick", timeout=2 * T, workers=4, name="MCPathDB-reader")
    # R: behaviours with reader and flush schedules
    bs = behaviours(ctx, "state/MCPathDBSim", ctx.pick(20, 500), 16, "MBT-PathDB")
    bs += behaviours(ctx, "state/MCPathDBSimRd", ctx.pick(15, 500), 14, "MBT-PathDB-readers")
    # R: scripted reader schedules: the gate between lookupAccount/lookupStorage and layer.account/storage
    # with one cap in between, for accounts and slots, entry layer flattened / on a dropped fork / kept
    bs += reader_schedules(ctx, ctx.pick(150, 1500))
    bp = os.path.join(ctx.scratch, "behaviours.json")
    write_json(bp, bs)
    ctx.drive(drv, ["-mode", "replay", "-in", bp], name="c16-replay", timeout=T)
    # V: natural runs (the database caps by itself, buffers fill by byte size) validated by PathDBTrace.tla
    tp = os.path.join(ctx.scratch, "natural.ndjson")
    sr, _ = ctx.drive(drv, ["-mode", "record", "-trace", tp, "-n", ctx.pick(5, 25), "-steps", ctx.pick(20, 60)], name="c16-record", timeout=T)
    ok, consumed, total, r = ctx.validate("state/PathDBTrace", tp, cfg="state/PathDBTrace", ntraces=sr["traces"], timeout=T,
                                          silent_steps=True, name="PathDBTrace")
    if not ok:
        ctx.reject_trace("state/PathDBTrace", tp, consumed, r, cfg="PathDBTrace")
    # regression scenario of the fixed defect C16-F1: fork exactly at the cap depth, default limits, Update only
    ctx.drive(drv, ["-mode", "regress"], name="c16-fork-at-cap-depth", timeout=T)
    return ctx.finish(rule="MC: all interleavings with <= MaxObjs diff layers ever created, 2 keys, 1 reader; R: sampled behaviours (3 keys, values 0..2, <= 6 layers, depth 16) on the real database; V: natural self-capping runs (5 keys, maxDiffLayers 1..128) validated by PathDBTrace",
                      assumptions=["cap is one call on the real database (reads inside a cap are model-only)"])
