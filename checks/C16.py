"""C16 - Layered state reads in triedb/pathdb return exactly the requested state."""
import os, json
from vcheck import write_json, InfraError

META = {
    "property_id": "C16",
    "level": "model_checking",
    "technique": "TLA+ spec of the pathdb layer tree (PathDB.tla: diff layer objects, disk layer generations, write buffer, frozen buffer with background flush, key-value store, lookup index, descendants, cap split into persist steps, two-step readers) model-checked with TLC; TLC-generated behaviours replayed on a real pathdb.Database driven through StateDB commits with white-box projection comparison, all-roots x all-keys reads through StateReader and NodeReader after every step, and reader/flush goroutines parked at gates in the TLC-chosen order",
    "text": "TLC explores all interleavings of Update (forks, repeated roots, cycles, orphans), cap/Commit (split into one step per diskLayer.commit, with buffer-full and async-flush variants), background flush completion and a reader whose lookup step and layer-read step are separated, and checks: every available root reads as exactly its state through the lookup fast path and the layer walk; a finished read returned the requested state's value or the stale error, and the stale error only when the reader's entry layer had left the tree; lookup lists = live diff layers that changed the key in ancestor order; descendants = transitive closure; disk layer content and id alignment. Behaviours sampled from the same model are executed on a real database (real tries and roots through state.StateDB.Commit; cap via the layer tree's own cap; reader parked by a gate between lookupAccount and layer.account while the scheduled cap/flush steps run; flush goroutine parked at buffer.flush start) and after every step the layer tree, buffers, persistent state, lookup index and descendants are compared with the model and every key is read at every available root; dropped roots must be refused.",
    "note": "Trusts TLC, the projection in harness/cmd/c16 and the accessors/gates in triedb/pathdb/verif_export_read.go, verif_hook.go. Model keys: accounts (balance) and storage slots of one contract; trie-node reads are whole-key trie lookups over the NodeReader of the entry layer. Reads that run concurrently INSIDE one cap call are explored in the model only (cap is executed as one call on the real database). The specification describes the intended design (all children of a flattened layer are re-parented); the code's deviation is finding F1 (spec/state/NOTES.md), counted as pending, not as violation.",
    "design_ref": "3.3 C16",
}


def behaviours(ctx, cfg, num, depth, name):
    res = ctx.tlc("state/MCPathDB", cfg, simulate="num=%d" % num, depth=depth + 1, tags=("MBT",), workers=2,
                  timeout=3600, name=name)
    if res.timeout or res.error:
        raise InfraError("TLC simulation %s failed: %s\n%s" % (name, res.error, res.stdout[-2000:]))
    seen, out = set(), []
    for b in res.lines.get("MBT", []):
        key = json.dumps([s["act"] for s in b["steps"][:-1]], sort_keys=True)
        if key in seen:
            continue
        seen.add(key)
        # TLC prints a behaviour once per successor of its last state, before action constraints are
        # applied to that last step: drop it (all remaining steps obey the scheduling constraints)
        b["steps"] = b["steps"][:-1]
        out.append(b)
    if not out:
        raise InfraError("no behaviours emitted by " + name)
    return out


def run(ctx):
    drv = ctx.build("c16")
    T = 3600
    if os.environ.get("VERIF_DEV_SKIP_MC") != "1":      # development knob (mutation runs): MC does not depend on the Go code
        if ctx.thorough:
            ctx.model_check("state/MCPathDB", "state/MCPathDB", timeout=3 * T, workers=6, name="MCPathDB")
            ctx.model_check("state/MCPathDB", "state/MCPathDBThorough3", timeout=3 * T, workers=6, name="MCPathDB-3keys")
        else:
            ctx.model_check("state/MCPathDB", "state/MCPathDBQuickSync", timeout=T, workers=4, name="MCPathDB-noreader")
            ctx.model_check("state/MCPathDB", "state/MCPathDBQuick", timeout=2 * T, workers=4, name="MCPathDB-reader")
    # R: behaviours with reader and flush schedules
    bs = behaviours(ctx, "state/MCPathDBSim", ctx.pick(40, 500), 16, "MBT-PathDB")
    bs += behaviours(ctx, "state/MCPathDBSimRd", ctx.pick(40, 500), 14, "MBT-PathDB-readers")
    bp = os.path.join(ctx.scratch, "behaviours.json")
    write_json(bp, bs)
    strict = {"C16_STRICT": "1"} if os.environ.get("C16_STRICT") == "1" else None
    s, _ = ctx.drive(drv, ["-mode", "replay", "-in", bp], name="c16-replay", timeout=T, env=strict)
    pend = dict((s.get("extra") or {}).get("pending_findings") or {})
    # deterministic reproduction of finding F1 through the public API (kept as pending finding)
    s2, _ = ctx.drive(drv, ["-mode", "finding"], name="c16-finding-F1", timeout=T, env=strict)
    for k, v in ((s2.get("extra") or {}).get("pending_findings") or {}).items():
        pend[k] = pend.get(k, 0) + v
    for k, v in sorted(pend.items()):
        # TODO-KNOWN-FINDING F1: pending coordinator decision (fix: commit or known_findings.json)
        line = "KNOWN-FINDING: property=C16 (pending) %s [x%d]" % (k, v)
        ctx.known.append(line)
    return ctx.finish(rule="MC: all interleavings with <= MaxObjs diff layers ever created, 2 keys, 1 reader; R: sampled behaviours (3 keys, values 0..2, <= 6 layers, depth 16) on the real database",
                      assumptions=["cap is one call on the real database (reads inside a cap are model-only)",
                                   "finding F1 (sibling of the capped path keeps a stale parent chain) is treated as pending"])
