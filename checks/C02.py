"""C02 - Transaction envelopes are canonical and hashes are stable."""
import os, json
from vcheck import write_json, InfraError

META = {
    "property_id": "C02",
    "level": "model_checking",
    "technique": "TLA+ envelope spec (TxEnvelope.tla on RLP.tla: EIP-2718/155/2930/1559/4844/7702 + blob wrapper) model-checked with TLC over all single-edit mutations of one envelope per type; every mutated envelope replayed on types.Transaction; recorded random transactions and mutations validated against TxEnvelopeTrace.tla",
    "text": "TxEnvelope.tla gives the field schemas of the five transaction types, the binary and the RLP-list-element forms, the blob sidecar wrapper v0/v1, Marshal, the hash preimage (envelope without sidecar) and Size. TLC checks on every single-byte substitution/insertion/deletion of eight base envelopes that an accepted input re-marshals to itself in both forms, that both forms describe the same transaction and that the hash preimage is sidecar-free and itself decodable; each case is then executed on UnmarshalBinary and DecodeRLP and the code must agree on verdict, reason class, every field (through the public accessors), sidecar, MarshalBinary/EncodeRLP bytes, Hash = keccak(spec preimage) with and without sidecar and caches, Size, and survive a JSON round trip. Random signed transactions of every type (with v0/v1 sidecars, one real 128 kB blob) and byte mutations are recorded and validated event by event.",
    "note": "Trusts TLC, keccak (crypto.Keccak256 as reference), the accessor-based abstraction of a transaction in harness/cmd/c02. JSON is decided as a round trip only; UnmarshalJSON refusing values that violate validity rules (signature ranges, empty blob-hash / authorization lists) is counted, not judged.",
    "design_ref": "3.1 C02",
}


def run(ctx):
    drv = ctx.build("c02")
    # MC on the model with small real blobs in the sidecar (BlobLen = 2)
    ctx.model_check("codec/MCTxEnvelope", "codec/MCTxEnvelopeBlobs", timeout=ctx.pick(1800, 7200), name="MCTxEnvelopeBlobs",
                    workers=ctx.pick(4, 8))
    # MC + R plan: laws on every mutated envelope, one CASE line each
    res = ctx.model_check("codec/MCTxEnvelope", ctx.pick("codec/MCTxEnvelope", "codec/MCTxEnvelopeThorough"), tags=("CASE",),
                          timeout=ctx.pick(1800, 7200), name="MCTxEnvelope", workers=ctx.pick(4, 8))
    cases = res.lines.get("CASE", [])
    if not cases:
        raise InfraError("MCTxEnvelope printed no CASE lines")
    cp = os.path.join(ctx.scratch, "cases.json")
    write_json(cp, cases)
    ctx.drive(drv, ["-mode", "cases", "-in", cp], name="c02-cases", timeout=3600)
    # V: random signed transactions, encodings, mutations
    tp = os.path.join(ctx.scratch, "trace.ndjson")
    s, _ = ctx.drive(drv, ["-mode", "record", "-trace", tp, "-n", ctx.pick(40, 1500), "-blobs", ctx.pick(1, 6)], name="c02-record", timeout=3600)
    ok, consumed, total, r = ctx.validate("codec/TxEnvelopeTrace", tp, ntraces=s["evaluations"], timeout=ctx.pick(1800, 7200))
    if not ok:
        ctx.reject_trace("codec/TxEnvelopeTrace", tp, consumed, r)
    return ctx.finish(rule="MC/R: all single-byte substitutions (edit alphabet), insertions and deletions at every position of 8 base envelopes; V: random signed transactions + byte mutations",
                      assumptions=["blob contents are opaque 131072-byte strings (KZG not interpreted)",
                                   "JSON decided as round trip on values UnmarshalJSON admits"])
