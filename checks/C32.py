"""C32 - Ether is conserved by block execution."""
import os, re

META = {
    "property_id": "C32",
    "level": "model_checking",
    "technique": "TLA+ ledger spec (Ledger.tla: one action per balance-change reason, escrow for pre-paid gas, in-flight ether, frame snapshots, burn and mint accounts) model-checked with TLC; every OnBalanceChange/OnEnter/OnExit/tx/block event of random blocks executed by core.StateProcessor.Process validated against LedgerTrace.tla, with per-transaction audits of the real balances and full state-dump totals around every block",
    "text": "Ledger.tla keeps every account's balance, the burned and minted totals, the gas money in escrow and the ether in flight inside a transfer, with one action per reason for which block execution changes a balance (gas purchase, gas return, tip, transfer, self-destruct sweep and burn, withdrawal, block reward) and exact restoration on frame revert; invariant: accounts + burned + escrow + in flight - minted = genesis supply; transaction postconditions: the sender pays exactly gasUsed*price + blob fee (+ value through the top frame), the fee recipient receives exactly gasUsed*tip, base fee and blob fee are burned. TLC checks conservation on all interleavings of a small model. The driver generates random chains (value-moving contracts, creations with endowment, self-destructs, failing/reverting transactions, legacy/access-list/dynamic-fee/blob transactions, withdrawals, proof-of-work block, uncle and nephew rewards) under every rule set Frontier..Bogota, replays every block through StateProcessor.Process with a tracer and TLC validates every event; every balance change must start from the ledger's balance for that account (previous values come from the real state), real balances are audited after every transaction and the sum over a full dump of the state is compared before and after every block.",
    "note": "Trusts TLC, the balance hooks of the hooked StateDB and the event projection in harness/cmd/c32. Amounts are kept below 2^31 wei (tiny balances and prices); block rewards are carried as whole units of 1/32 ether in a second ledger dimension. Proof-of-work chains include uncles (distances 1 and 2). The DAO fork and EIP-7702 transactions are not generated.",
    "design_ref": "3.5 C32",
}

def why(res):
    return sorted(set(re.findall(r'<<"WHY", "([A-Za-z0-9_]+)", \d+>>', res.stdout or "")))

def run(ctx):
    drv = ctx.build("c32")
    ctx.model_check("evm/MCLedger", "evm/MCLedger" if not ctx.thorough else "evm/MCLedgerThorough",
                    timeout=ctx.pick(2400, 7200), name="MCLedger", workers=4, coverage=ctx.thorough)
    tp = os.path.join(ctx.scratch, "trace.ndjson")
    s, _ = ctx.drive(drv, ["-trace", tp, "-chains", ctx.pick(17, 120), "-blocks", ctx.pick(3, 4), "-txs", ctx.pick(8, 12)],
                     name="c32-record", timeout=3600)
    ok, consumed, total, r = ctx.validate("evm/LedgerTrace", tp, ntraces=s["traces"], timeout=ctx.pick(2400, 10000))
    if not ok:
        rules = why(r)
        ctx.reject_trace("evm/LedgerTrace", tp, consumed, r,
                         desc="ledger event rejected by LedgerTrace at event %d%s%s" % (
                             consumed + 1, (" (invariant %s)" % r.violated) if r.violated else "",
                             (": broken rule " + ",".join(rules)) if rules else ""))
    return ctx.finish(rule="MC: all interleavings of the ledger actions over 3 accounts and tiny amounts; V: random chains x every rule set, every balance change, frame and transaction event, audits after every transaction, dump totals around every block",
                      assumptions=["amounts < 2^31 wei; rewards in whole units of 1/32 ether", "no DAO fork, no EIP-7702 transactions"])
