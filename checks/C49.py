"""C49 - JSON-RPC answers every call exactly once (batches, notifications, timeouts, size limits, subscriptions)."""
import os, json, re
from vcheck import write_json, InfraError

META = {
    "property_id": "C49",
    "level": "model_checking",
    "technique": "TLA+ spec of rpc/handler.go message handling (RPC.tla) model-checked with TLC over all messages of a bounded grammar and all timer/return interleavings; TLC-enumerated schedules forced on a real rpc.Server (pipe and HTTP) under testing/synctest with harness methods as gates and a fake clock for the timeout; raw output bytes parsed and compared",
    "text": "RPC.tla models handleBatch/handleNonBatchCall step by step (batchCallBuffer calls/resp/wrote, pushResponse, size limit, timeout timer, timer.Stop, single write, Notifier buffer/activate). TLC checks exactly one response per call id, none for notifications, one batch reply per batch, error fill-in on timeout/size overflow and notifications only after the subscription response for every message of the grammar (single/batch up to 3 entries mixing calls, notifications, invalid entries, unsolicited responses, duplicate ids) and every interleaving. Binding: every (quiescent state, environment step) of the schedule graph is executed on the real server: the service's methods are harness code blocking on gates, the timeout fires by advancing synctest's fake clock at the TLC-chosen moment, the bytes written to net.Pipe / the HTTP response are parsed and compared with the model output.",
    "note": "Trusts TLC, testing/synctest (go1.24 GOEXPERIMENT=synctest), the output parser of harness/cmd/c49 (coarse error class by code). The model is the behaviour the property demands (AsCoded=FALSE); the as-coded variant (AsCoded=TRUE) is model-checked too and its counterexamples are the findings C49-F1/F2 (spec/net/NOTES.md). Websocket transport and client-side request matching are not covered.",
    "design_ref": "3.7 C49",
}

# TODO-KNOWN-FINDING C49-F1: handleNonBatchCall's timeout timer writes an error response for a single
# NOTIFICATION ("none for notifications" violated).  Exactly this fingerprint is treated as pending
# until the coordinator decides between a fix: commit and known_findings.json (see spec/net/NOTES.md).
def is_f1(v):
    rep = v.get("replay") or {}
    path = rep.get("path") or []
    if len(path) != 2 or path[0]["act"]["op"] != "Recv" or path[1]["act"]["op"] != "Timer":
        return False
    m = path[0]["act"]["m"]
    if m["batch"] or len(m["items"]) != 1 or m["items"][0]["k"] != "notif" or m["items"][0]["m"] != "blk":
        return False
    out = path[1]["real"]["out"]
    return len(out) == 1 and out[0]["t"] == "single" and out[0]["rs"] == [{"id": 0, "kind": "timeout", "sub": 0}]


# C49_FIXED=1: the tree under test carries the repairs of C49-F1/F2 (spec/net/mutations/C49-F*-candidate-fix.diff):
# no pending handling, the gated schedule graph and the V oracle are the repaired variant of RPC.tla
# (AsCoded /\ Fixed, model-checked against all invariants), any divergence is a violation.
STRICT = os.environ.get("C49_FIXED") == "1"


def rpc_graph(res, meta):
    ids, states, acts, actix, edges = {}, [], [], {}, []
    for st in res.lines.get("STATE", []):
        k = json.dumps(st["key"], sort_keys=True)
        if k not in ids:
            ids[k] = len(states)
            states.append({"obs": json.dumps(st["obs"], sort_keys=True, separators=(",", ":")), "quiet": st["quiet"], "ok": st.get("ok", True)})
    for e in res.lines.get("EDGE", []):
        f, t = ids.get(json.dumps(e["from"], sort_keys=True)), ids.get(json.dumps(e["to"], sort_keys=True))
        if f is None or t is None:
            raise InfraError("edge refers to a state that was not printed")
        a = e["act"]
        if a["op"] == "tau":
            edges.append([f, t, -1])
            continue
        ak = json.dumps(a, sort_keys=True)
        if ak not in actix:
            actix[ak] = len(acts)
            acts.append(a)
        edges.append([f, t, actix[ak]])
    targets = set(e[1] for e in edges)
    roots = [i for i in range(len(states)) if i not in targets]
    if len(roots) != 1:
        raise InfraError("schedule graph has %d roots" % len(roots))
    return {"meta": meta, "init": roots[0], "states": states, "acts": acts, "edges": edges}


def cfg_meta(cfg_path):
    txt = open(cfg_path).read()
    def g(name, conv=int):
        m = re.search(r"\b%s\s*=\s*(\S+)" % name, txt)
        return conv(m.group(1))
    return {"gated": g("Gated", lambda s: s == "TRUE"), "mode": g("Mode", lambda s: s.strip('"')), "hasTimeout": g("HasTimeout", lambda s: s == "TRUE"),
            "batchLimit": g("BatchLimit"), "sizeLimit": g("SizeLimit"), "maxMsgs": g("MaxMsgs"),
            "szRet": g("SzRet"), "szBig": g("SzBig"), "szErr": g("SzErr"), "szInv": g("SzInv")}


def run(ctx):
    from vcheck import SPEC
    os.environ["GOEXPERIMENT"] = "synctest"
    try:
        drv = ctx.build("c49")
    finally:
        os.environ.pop("GOEXPERIMENT", None)
    # MC: all messages of the grammar x all interleavings, on the behaviour the property demands
    for cfg in ctx.pick(["MCRPCHttpQuick", "MCRPCConnQuick", "MCRPCFixed"], ["MCRPCHttp", "MCRPCHttpLimit", "MCRPCConn", "MCRPCFixed", "MCRPCFixedThorough"]):
        ctx.model_check("net/MCRPC", "net/" + cfg, timeout=7200, workers=4, name=cfg, deadlock=False)
    # the as-coded variant must show the two known counterexamples (documentation of the findings, not a verdict)
    r = ctx.tlc("net/MCRPC", "net/MCRPCAsCoded", timeout=3600, workers=4, deadlock=False, name="MCRPCAsCoded")
    ctx.notes.append("as-coded model (AsCoded=TRUE): TLC %s" % ("finds a counterexample to %s (findings C49-F1/F2)" % r.violated if r.violated else "found no counterexample"))
    # R: schedules forced on the real server
    pending = []
    gated = "MCRPCSchedGatedFixed" if STRICT else "MCRPCSchedGated"
    for cfg in ctx.pick(["MCRPCSchedHttp", "MCRPCSchedConn", gated],
                        ["MCRPCSchedHttp", "MCRPCSchedHttpLimit", "MCRPCSchedConn", "MCRPCSchedConnThorough", gated]):
        res = ctx.model_check("net/MCRPCSched", "net/" + cfg, tags=("EDGE", "STATE"), timeout=7200, workers=4, name=cfg, deadlock=False)
        gp = os.path.join(ctx.scratch, cfg + ".json")
        write_json(gp, rpc_graph(res, cfg_meta(os.path.join(SPEC, "net", cfg + ".cfg"))))
        drive_filtered(ctx, drv, gp, cfg, pending)
    # V: concurrent HTTP requests with real timeouts; any interleaving the specification allows is accepted.
    # The as-coded variant of the specification is the oracle (it differs from the demanded behaviour only
    # by findings F1/F2); a trace that the demanded behaviour cannot explain but the as-coded variant can is
    # reported as the pending finding.   TODO-KNOWN-FINDING C49-F2 (pending coordinator decision)
    for aware in (False, True):
        tp = os.path.join(ctx.scratch, "stress-%s.ndjson" % aware)
        args = ["-mode", "stress", "-trace", tp, "-n", ctx.pick(600, 6000), "-workers", ctx.pick(6, 12)] + (["-ctxaware"] if aware else [])
        s, _ = ctx.drive(drv, args, name="c49-stress-ctxaware" if aware else "c49-stress", timeout=7200)
        if not os.path.exists(tp) or os.path.getsize(tp) == 0:      # the driver died (reported as a violation by ctx.drive)
            continue
        oracle = "net/RPCTraceFixed" if STRICT else "net/RPCTraceAsCoded"
        ok, consumed, total, r = ctx.validate("net/RPCTrace", tp, cfg=oracle, ntraces=s["traces"], timeout=7200,
                                              silent_steps=True, dfs=True, name=os.path.basename(oracle))
        if not ok:
            ctx.reject_trace("net/RPCTrace", tp, consumed, r, cfg=oracle,
                             desc="HTTP request %d: response of the real rpc.Server has no explanation by RPC.tla (%s)" % (consumed // 3 + 1, os.path.basename(oracle)))
            continue
        if STRICT:
            continue
        ok2, consumed2, total2, r2 = ctx.validate("net/RPCTrace", tp, cfg="net/RPCTrace", ntraces=0, timeout=7200,
                                                  silent_steps=True, dfs=True, name="RPCTrace(demanded)")
        if not ok2:
            lines = [l for l in open(tp).read().splitlines() if l.strip()]
            req = json.loads(lines[consumed2 - 1]) if 0 < consumed2 <= len(lines) else None
            out = json.loads(lines[consumed2]) if consumed2 < len(lines) else None
            line = "PENDING-FINDING property=C49 C49-F2 timeout race: calls of a batch left unanswered / notification answered (request %d of the %s stress run)" % (consumed2 // 3 + 1, "ctx-aware" if aware else "sleeping")
            pending.append(line)
            import vcheck
            json.dump({"property": "C49", "finding": "C49-F2", "request": req, "response": out, "seed": ctx.seed},
                      open(os.path.join(vcheck.OUTDIR, "replays", "C49-F2-pending.json"), "w"), indent=1)
    for line in pending:
        ctx.notes.append(line)
        print(line)
    return ctx.finish(rule="MC: every message of the grammar (single or batch <= 3 entries over calls ret/err/big/blk/sub, notifications, invalid entries, unsolicited responses, ids 1..2) x all interleavings of loop, timer, late returns; R: every (quiescent state, environment step) of the schedule graphs on the real server",
                      assumptions=["methods of the test service ignore context cancellation in R (the cancellation-aware race is finding C49-F2)",
                                   "error classes compared by JSON-RPC error code", "pipe and HTTP transports only"])


def drive_filtered(ctx, drv, gp, cfg, pending):
    """Run the replay driver; violations matching the pending finding F1 are reported as notes."""
    import subprocess, vcheck
    out = os.path.join(ctx.scratch, "summary-%s.json" % cfg)
    e = dict(os.environ, VERIF_SEED=str(ctx.seed), VERIF_TIER=ctx.tier)
    try:
        p = subprocess.run([drv, "-mode", "replay", "-in", gp, "-out", out], stdout=subprocess.PIPE, stderr=subprocess.STDOUT,
                           text=True, timeout=7200, env=e, cwd=ctx.scratch)
    except subprocess.TimeoutExpired:
        raise InfraError("driver c49 timed out")
    if not os.path.exists(out):
        if re.search(r"^(panic:|fatal error:)", p.stdout, re.M):
            ctx.violation("implementation panicked under driver c49 (%s)" % cfg, {"kind": "panic", "cfg": cfg, "seed": ctx.seed, "output_tail": p.stdout[-3000:]})
            return None, p
        raise InfraError("driver c49 produced no summary (rc=%d):\n%s" % (p.returncode, p.stdout[-4000:]))
    s = json.load(open(out))
    keep = []
    for v in s.get("violations", []):
        if not STRICT and is_f1(v):      # TODO-KNOWN-FINDING C49-F1 (pending coordinator decision)
            line = "PENDING-FINDING property=C49 C49-F1 single notification answered with a timeout error (%s)" % cfg
            if line not in pending:
                pending.append(line)
                rp = os.path.join(vcheck.OUTDIR, "replays", "C49-F1-pending.json")
                json.dump(dict(v, property="C49", finding="C49-F1"), open(rp, "w"), indent=1)
        else:
            keep.append(v)
    s["violations"] = keep
    nbad = int((s.get("extra") or {}).get("property_violating_states_reached_on_real_code", 0))
    if nbad and STRICT:
        ctx.violation("the real rpc.Server reached %d states of the schedule graph %s that violate ExactlyOnce/AtMostOnce" % (nbad, cfg),
                      {"kind": "behaviour", "cfg": cfg, "schedules": s["extra"].get("property_violating_paths")})
    elif nbad:
        # TODO-KNOWN-FINDING C49-F1/F2: the as-coded schedule graph (timer function held at the verif hook between
        # cancel() and the error response) contains states that violate AtMostOnce/ExactlyOnce; the real server
        # follows the graph into them.  Reported as pending, with the schedules, not as a verdict of this check.
        line = "PENDING-FINDING property=C49 C49-F2 reproduced deterministically: the real rpc.Server reached %d states of the as-coded schedule graph that violate ExactlyOnce/AtMostOnce (%s)" % (nbad, cfg)
        pending.append(line)
        rp = os.path.join(vcheck.OUTDIR, "replays", "C49-F2-gated-pending.json")
        json.dump({"property": "C49", "finding": "C49-F1/F2", "cfg": cfg, "schedules": s["extra"].get("property_violating_paths")}, open(rp, "w"), indent=1)
        s["extra"]["property_violating_paths"] = "see " + rp
    ctx.absorb(s, "c49-replay-" + cfg)
    # every executed schedule is a behaviour of the specification compared step by step with the real server
    ctx.cov["traces_validated_against_impl"] += int(s.get("evaluations", 0))
    return s, p
