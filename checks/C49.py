"""C49 - JSON-RPC answers every call exactly once (batches, notifications, timeouts, size limits, subscriptions)."""
import os, json, re
from vcheck import write_json, InfraError

META = {
    "property_id": "C49",
    "level": "model_checking",
    "technique": "TLA+ spec of rpc/handler.go message handling (RPC.tla) model-checked with TLC over all messages of a bounded grammar and all timer/return interleavings; TLC-enumerated schedules forced on a real rpc.Server (pipe and HTTP) under testing/synctest with harness methods as gates and a fake clock for the timeout; raw output bytes parsed and compared",
    "text": "RPC.tla models handleBatch/handleNonBatchCall step by step (batchCallBuffer calls/resp/wrote, pushResponse, size limit, timeout timer, timer.Stop, single write, Notifier buffer/activate). TLC checks exactly one response per call id, none for notifications, one batch reply per batch, error fill-in on timeout/size overflow and notifications only after the subscription response for every message of the grammar (single/batch up to 3 entries mixing calls, notifications, invalid entries, unsolicited responses, duplicate ids) and every interleaving. Binding: every (quiescent state, environment step) of the schedule graph is executed on the real server: the service's methods are harness code blocking on gates, the timeout fires by advancing synctest's fake clock at the TLC-chosen moment, the bytes written to net.Pipe / the HTTP response are parsed and compared with the model output.",
    "note": "Trusts TLC, testing/synctest (go1.24 GOEXPERIMENT=synctest), the output parser of harness/cmd/c49 (coarse error class by code). RPC.tla has three variants: the idealised behaviour (atomic timeout, AsCoded=FALSE), handler.go before the fixes of findings C49-F1/F2 (AsCoded=TRUE; TLC still exhibits their counterexamples, documented in spec/net/NOTES.md) and handler.go as repaired (AsCoded and Fixed; model-checked against all invariants and used as oracle for the gated schedule replay and for V). Websocket transport and client-side request matching are not covered.",
    "design_ref": "3.7 C49",
}

def rpc_graph(res, meta):
    ids, states, acts, actix, edges = {}, [], [], {}, []
    for st in res.lines.get("STATE", []):
        k = json.dumps(st["key"], sort_keys=True)
        if k not in ids:
            ids[k] = len(states)
            states.append({"obs": json.dumps(st["obs"], sort_keys=True, separators=(",", ":")), "quiet": st["quiet"], "ok": st.get("ok", True)})
    for e in res.lines.get("EDGE", []):
        f, t = ids.get(json.dumps(e["from"], sort_keys=True)), ids.get(json.dumps(e["to"], sort_keys=True))
        if f is None or t is None:
            raise InfraError("edge refers to a state that was not printed")
        a = e["act"]
        if a["op"] == "tau":
            edges.append([f, t, -1])
            continue
        ak = json.dumps(a, sort_keys=True)
        if ak not in actix:
            actix[ak] = len(acts)
            acts.append(a)
        edges.append([f, t, actix[ak]])
    targets = set(e[1] for e in edges)
    roots = [i for i in range(len(states)) if i not in targets]
    if len(roots) != 1:
        raise InfraError("schedule graph has %d roots" % len(roots))
    return {"meta": meta, "init": roots[0], "states": states, "acts": acts, "edges": edges}


def cfg_meta(cfg_path):
    txt = open(cfg_path).read()
    def g(name, conv=int):
        m = re.search(r"\b%s\s*=\s*(\S+)" % name, txt)
        return conv(m.group(1))
    return {"gated": g("Gated", lambda s: s == "TRUE"), "mode": g("Mode", lambda s: s.strip('"')), "hasTimeout": g("HasTimeout", lambda s: s == "TRUE"),
            "batchLimit": g("BatchLimit"), "sizeLimit": g("SizeLimit"), "maxMsgs": g("MaxMsgs"),
            "szRet": g("SzRet"), "szBig": g("SzBig"), "szErr": g("SzErr"), "szInv": g("SzInv")}


def run(ctx):
    from vcheck import SPEC
    os.environ["GOEXPERIMENT"] = "synctest"
    try:
        drv = ctx.build("c49")
    finally:
        os.environ.pop("GOEXPERIMENT", None)
    # MC: all messages of the grammar x all interleavings; idealised behaviour and handler.go as repaired
    for cfg in ctx.pick(["MCRPCHttpQuick", "MCRPCConnQuick", "MCRPCFixed"], ["MCRPCHttp", "MCRPCHttpLimit", "MCRPCConn", "MCRPCFixed", "MCRPCFixedThorough"]):
        ctx.model_check("net/MCRPC", "net/" + cfg, timeout=7200, workers=4, name=cfg, deadlock=False)
    # documentation only: the variant before the fixes of C49-F1/F2 still has its counterexample
    r = ctx.tlc("net/MCRPC", "net/MCRPCAsCoded", timeout=3600, workers=4, deadlock=False, name="MCRPCAsCoded(pre-fix)")
    ctx.notes.append("pre-fix variant of handler.go (AsCoded, not Fixed): TLC %s" % ("finds the counterexample to %s (fixed findings C49-F1/F2)" % r.violated if r.violated else "found no counterexample"))
    # R: schedules forced on the real server.  MCRPCSchedGatedFixed: the timer function is held at the verif hook
    # between cancel() and the error response, so the loop/timer race is scheduled by TLC.
    for cfg in ctx.pick(["MCRPCSchedHttp", "MCRPCSchedConn", "MCRPCSchedGatedFixed"],
                        ["MCRPCSchedHttp", "MCRPCSchedHttpLimit", "MCRPCSchedConn", "MCRPCSchedConnThorough", "MCRPCSchedGatedFixed"]):
        res = ctx.model_check("net/MCRPCSched", "net/" + cfg, tags=("EDGE", "STATE"), timeout=7200, workers=4, name=cfg, deadlock=False)
        gp = os.path.join(ctx.scratch, cfg + ".json")
        write_json(gp, rpc_graph(res, cfg_meta(os.path.join(SPEC, "net", cfg + ".cfg"))))
        s, _ = ctx.drive(drv, ["-mode", "replay", "-in", gp], name="c49-replay-" + cfg, timeout=7200)
        # every executed schedule is a behaviour of the specification compared step by step with the real server
        ctx.cov["traces_validated_against_impl"] += int(s.get("evaluations", 0))
        nbad = int((s.get("extra") or {}).get("property_violating_states_reached_on_real_code", 0))
        if nbad:
            ctx.violation("the real rpc.Server reached %d states of the schedule graph %s that violate ExactlyOnce/AtMostOnce" % (nbad, cfg),
                          {"kind": "behaviour", "cfg": cfg, "schedules": s["extra"].get("property_violating_paths")})
    # V: concurrent HTTP requests with real timeouts (sleeping and cancellation-aware methods, deadline and
    # WriteTimeout routes); any interleaving the repaired variant of RPC.tla allows is accepted.
    for aware in (False, True):
        tp = os.path.join(ctx.scratch, "stress-%s.ndjson" % aware)
        args = ["-mode", "stress", "-trace", tp, "-n", ctx.pick(600, 6000), "-workers", ctx.pick(6, 12)] + (["-ctxaware"] if aware else [])
        s, _ = ctx.drive(drv, args, name="c49-stress-ctxaware" if aware else "c49-stress", timeout=7200)
        if not os.path.exists(tp) or os.path.getsize(tp) == 0:      # the driver died (reported as a violation by ctx.drive)
            continue
        ok, consumed, total, r = ctx.validate("net/RPCTrace", tp, cfg="net/RPCTraceFixed", ntraces=s["traces"], timeout=7200,
                                              silent_steps=True, dfs=True, name="RPCTraceFixed")
        if not ok:
            ctx.reject_trace("net/RPCTrace", tp, consumed, r, cfg="net/RPCTraceFixed",
                             desc="HTTP request %d: response of the real rpc.Server has no explanation by RPC.tla (repaired variant)" % (consumed // 3 + 1))
    return ctx.finish(rule="MC: every message of the grammar (single or batch <= 3 entries over calls ret/err/big/blk/cblk/sub, notifications, invalid entries, unsolicited responses, ids 1..2) x all interleavings of loop, timer, late returns; R: every (quiescent state, environment step) of the schedule graphs on the real server, including the loop/timer race scheduled through the verif hook; V: concurrent HTTP requests with real timeouts",
                      assumptions=["error classes compared by JSON-RPC error code", "pipe and HTTP transports only",
                                   "V oracle is the repaired variant of RPC.tla (two-step timer), which TLC checks against all invariants"])
