"""C30 - Jump destination analysis matches the bytecode definition."""
import os
from vcheck import write_json, parse_edges, InfraError

META = {
    "property_id": "C30",
    "level": "model_checking",
    "technique": "TLA+ spec (codec/JumpDest.tla: defining scan, bit-vector fast paths set16/set8/setN as byte or/assign steps, contract-frame + code-hash cache machine) model-checked with TLC; every code of the TLC domain replayed white-box (codeBitmap, validJumpdest) and black-box (EVM JUMP via Call/Create, JumpDestCache cold/warm/fresh); every edge of the cache machine replayed as a path on vm.Contract; recorded random codes validated by JumpDestTrace.tla",
    "text": "TLC enumerates every bytecode of the bounded domain (all codes up to AlphaLen over STOP/JUMPDEST/PUSH1,2,16,17,24,25,31,32 and schematic codes 5b^a PUSHn 5b^k for all alignments a, push sizes n and tails k<=34 including truncated pushes) and checks on each that the modelled bit-vector algorithm (fast paths with byte assignment) equals the defining left-to-right scan at every position and stays inside its allocation, and that in every reachable state of the frame/cache machine (NewFrame with/without code hash, Jump, Evict) the answer for every position equals the definition and the cached answer equals a fresh analysis. The expected valid/data positions of every code are executed on the real codeBitmap, on Contract.validJumpdest (no hash, hashed cold, hashed warm; LRU and map caches) and by running PUSH1 0 CALLDATALOAD JUMP ++ code in the EVM (shared cache cold/warm, fresh cache; also through a taken JUMPI) and PUSH2 pos JUMP ++ code as initcode. All edges of a three-code shared-cache machine are replayed as paths on real frames. Random codes up to 300 bytes and push-dense codes of contract/initcode size (8192, 24576, 49152, 65536 bytes) are recorded and validated by TLC (for the large ones the accepted targets through frames and the EVM, by the one-pass form of the definition, ValidSet, which TLC proves equal to the scan on the bounded domain).",
    "note": "Bounded code length/alphabet for the exhaustive part; hash collisions excluded (hash modelled injective); EOF containers not modelled; the black-box oracle (no error = jump taken) is used only on codes whose instruction stream is STOP/JUMPDEST/PUSHn. Unexported functions reached through core/vm/verif_export_codec.go (tag verif, thin wrappers).",
    "design_ref": "3.1 C30",
}


def run(ctx):
    drv = ctx.build("c30")
    T = ctx.pick(1800, 7200)
    # MC (function layer + frame/cache machine per code) and case enumeration
    cfg = "codec/MCJumpDest" if not ctx.thorough else "codec/MCJumpDestThorough"
    res = ctx.model_check("codec/MCJumpDest", cfg, tags=("CASE",), timeout=T, workers=4, coverage=ctx.thorough, name="MCJumpDest")
    cases = res.lines.get("CASE", [])
    if len(cases) < 100:
        raise InfraError("TLC printed only %d cases" % len(cases))
    cp = os.path.join(ctx.scratch, "cases.json")
    write_json(cp, cases)
    ctx.drive(drv, ["-mode", "cases", "-in", cp, "-black", ctx.pick(1, 1)], name="c30-cases", timeout=T)
    # cache machine: three codes share one cache; all edges replayed as paths
    res = ctx.model_check("codec/MCJumpDest", "codec/MCJumpDestCache", tags=("EDGE",), timeout=T, workers=4, name="MCJumpDestCache")
    edges = parse_edges(res)
    if not edges:
        raise InfraError("no edges emitted")
    ep = os.path.join(ctx.scratch, "edges.json")
    write_json(ep, edges)
    ctx.drive(drv, ["-mode", "paths", "-in", ep], name="c30-paths", timeout=T)
    # V: random codes
    tp = os.path.join(ctx.scratch, "trace.ndjson")
    s, _ = ctx.drive(drv, ["-mode", "record", "-trace", tp, "-n", ctx.pick(150, 2500), "-maxlen", 300, "-big", ctx.pick(3, 8)], name="c30-record", timeout=T)
    ok, consumed, total, r = ctx.validate("codec/JumpDestTrace", tp, ntraces=s["evaluations"], timeout=T)
    if not ok:
        ctx.reject_trace("codec/JumpDestTrace", tp, consumed, r)
    return ctx.finish(rule="MC/R: all codes of the bounded domain at every position; all edges of the 3-code cache machine; V: random codes <= 300 bytes and large push-dense codes up to 65536 bytes",
                      assumptions=["code hash injective", "bounded code length and alphabet in the exhaustive part", "legacy (non-EOF) code only"])
