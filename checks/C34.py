"""C34 - Stateless re-execution with the collected witness reproduces the block."""
import os

META = {
    "property_id": "C34",
    "level": "model_checking",
    "technique": "TLA+ specs Stateless.tla (trie-level witness sufficiency under arbitrary commit orders) and StatelessRun.tla model-checked with TLC; random blocks on Cancun..Amsterdam imported with witness collection, core.ExecuteStateless re-run on the complete witness and on the witness minus EVERY single item, the witness-database reads observed by a hook and validated by TLC against StatelessTrace.tla",
    "text": "TLC explores every pre-state trie, every read/write/delete assignment and every pair of IntermediateRoot application orders (full run vs stateless run) of a path-compressed binary trie model and checks that the collected witness always serves the stateless run and that removing one item makes the run fail exactly when it reads the item. The real code is bound by recorded executions: each stateless run of core.ExecuteStateless is logged (begin, every database Get with served/not served, returned error and root equality) and TLC checks the log is a behaviour of StatelessRun.tla: the database serves exactly the witness, the complete witness reproduces state root and receipt root, and a run with a removed item either fails or returns the identical result.",
    "note": "Trusts TLC, the harness's mapping of database keys to witness items (cross-checked against Witness.MakeHashDB on every block), and the binary-trie abstraction of the hexary MPT. Headers[0] (the parent header) is structural and never removed. Removal of ancestor headers (BLOCKHASH inputs, not trie nodes or code) is exercised and recorded but a silently different result there is only reported as an observation.",
    "design_ref": "3.5 C34",
}


def run(ctx):
    drv = ctx.build("c34")
    # MC: witness sufficiency and removal exactness on the trie-level design
    ctx.model_check("evm/Stateless", ctx.pick("evm/MCStateless", "evm/MCStatelessThorough"), timeout=ctx.pick(400, 3000),
                    name="MCStateless", coverage=ctx.thorough)
    if ctx.thorough:
        ctx.model_check("evm/Stateless", "evm/MCStatelessDeep", timeout=3000, name="MCStatelessDeep")
    # V: recorded stateless runs of the real code
    tp = os.path.join(ctx.scratch, "trace.ndjson")
    args = ["-mode", "record", "-trace", tp, "-blocks", ctx.pick(3, 10), "-txs", ctx.pick(8, 14),
            "-detail", ctx.pick(2, 6), "-schemes", ctx.pick("hash", "hash,path")]
    s, _ = ctx.drive(drv, args, name="c34-record", timeout=ctx.pick(300, 2400))
    ok, consumed, total, r = ctx.validate("evm/StatelessTrace", tp, ntraces=s["traces"], timeout=ctx.pick(400, 2400))
    if not ok:
        ctx.reject_trace("evm/StatelessTrace", tp, consumed, r)
    obs = s.get("counts", {}).get("observation/header-removed-different-root", 0)
    if obs:
        ctx.notes.append({"observation": "ancestor header removed => BLOCKHASH yields zero silently (outside the property text: nodes and code)",
                          "count": obs, "example": (s.get("extra") or {}).get("header_gap_example")})
    return ctx.finish(rule="MC: all tries over D-bit keys, <= MaxTouch touched keys with effects read/write/delete, all commit orders of the full and the stateless run, every single witness item removed; V: random blocks per fork, every single witness item removed",
                      assumptions=["binary path-compressed trie stands for the hexary MPT", "parent header (Headers[0]) never removed",
                                   "ancestor-header removals are observed, not judged (property text: nodes and code)"])
