"""C34 - Stateless re-execution with the collected witness reproduces the block."""
import os, json

META = {
    "property_id": "C34",
    "level": "model_checking",
    "technique": "TLA+ specs Stateless.tla (trie-level witness sufficiency under arbitrary commit orders) and StatelessRun.tla model-checked with TLC; random blocks on Cancun..Amsterdam imported with witness collection, core.ExecuteStateless re-run on the complete witness and on the witness minus EVERY single item, the witness-database reads observed by a hook and validated by TLC against StatelessTrace.tla",
    "text": "TLC explores every pre-state trie, every read/write/delete assignment and every pair of IntermediateRoot application orders (full run vs stateless run) of a path-compressed binary trie model and checks that the collected witness always serves the stateless run and that removing one item makes the run fail exactly when it reads the item. The real code is bound by recorded executions: each stateless run of core.ExecuteStateless is logged (begin, every database Get with served/not served, returned error and root equality) and TLC checks the log is a behaviour of StatelessRun.tla: the database serves exactly the witness, the complete witness reproduces state root and receipt root, and a run with a removed item either fails or returns the identical result.",
    "note": "Trusts TLC, the harness's mapping of database keys to witness items (cross-checked against Witness.MakeHashDB on every block), and the binary-trie abstraction of the hexary MPT. Headers[0] (the parent header) is structural and never removed. One deviation of the real code is currently pending as a candidate defect (ExecuteStateless ignores StateDB.Error(): err=nil with a different root after a failed database read); exactly that fingerprint is skipped, see TODO-KNOWN-FINDING in StatelessTrace.tla / harness/cmd/c34.",
    "design_ref": "3.5 C34",
}


def run(ctx):
    drv = ctx.build("c34")
    # MC: witness sufficiency and removal exactness on the trie-level design
    ctx.model_check("evm/Stateless", ctx.pick("evm/MCStateless", "evm/MCStatelessThorough"), timeout=ctx.pick(400, 3000),
                    name="MCStateless", coverage=ctx.thorough)
    if ctx.thorough:
        ctx.model_check("evm/Stateless", "evm/MCStatelessDeep", timeout=3000, name="MCStatelessDeep")
    # V: recorded stateless runs of the real code
    tp = os.path.join(ctx.scratch, "trace.ndjson")
    args = ["-mode", "record", "-trace", tp, "-blocks", ctx.pick(3, 10), "-txs", ctx.pick(8, 14),
            "-detail", ctx.pick(2, 6), "-schemes", ctx.pick("hash", "hash,path")]
    s, _ = ctx.drive(drv, args, name="c34-record", timeout=ctx.pick(300, 2400))
    ok, consumed, total, r = ctx.validate("evm/StatelessTrace", tp, ntraces=s["traces"], timeout=ctx.pick(400, 2400))
    if not ok:
        ctx.reject_trace("evm/StatelessTrace", tp, consumed, r)
    # TODO-KNOWN-FINDING (C34): pending candidate defect, reported to the coordinator. The driver classifies
    # exactly the fingerprint {a read of the removed item was not served, err == nil, different root} as
    # pending instead of VIOLATION and StatelessTrace.cfg sets AllowIgnoredDbError = TRUE. Remove both (use
    # StatelessTraceStrict.cfg and -strict) once the defect is fixed or listed in known_findings.json.
    pend = {k: v for k, v in s.get("counts", {}).items() if k.startswith("pending-ignored-db-error/")}
    if pend:
        line = ("KNOWN-FINDING: property=C34 (pending, candidate defect) core.ExecuteStateless ignores StateDB.Error(): "
                "%d single-item removals returned err=nil with a different state root %s" % (sum(pend.values()), json.dumps(pend, sort_keys=True)))
        ctx.known.append(line)
        ctx.notes.append({"pending_finding": "ignored-db-error", "examples": (s.get("extra") or {}).get("pending", [])[:2]})
    return ctx.finish(rule="MC: all tries over D-bit keys, <= MaxTouch touched keys with effects read/write/delete, all commit orders of the full and the stateless run, every single witness item removed; V: random blocks per fork, every single witness item removed",
                      assumptions=["binary path-compressed trie stands for the hexary MPT", "parent header (Headers[0]) never removed",
                                   "pending candidate defect: ignored StateDB.Error() in ExecuteStateless (fingerprint skipped)"])
