"""C07 - Committed trie changes reproduce the new trie exactly."""
import os
from vcheck import parse_edges, write_json, InfraError

META = {
    "property_id": "C07",
    "level": "model_checking",
    "technique": "TLA+ spec of trie commit over path- and hash-scheme node stores (TrieCommit.tla over MPT.tla) and of the mechanism producing the node set (TrieCommitMech.tla: dirty flags, opTracer, PrevalueTracer, committer walk; refinement checked) model-checked with TLC; every Commit transition and TLC-simulated multi-generation behaviours replayed on trie.Commit / trienode.NodeSet / rawdb key space / StackTrie; recorded 32-byte-key histories validated against TrieCommitTrace.tla",
    "text": "TLC explores all (base set, modified set) pairs and commit generations over small key universes: after every commit the path store equals StoredPaths of the canonical new trie (no stale, no missing node), the new root reads back exactly the new contents, every node-set entry is allowed and carries the stored previous blob, and under the hash scheme all committed roots stay readable. Each Commit transition is executed on the real code (base committed from empty into rawdb memory stores, reopened under path or hash scheme, modified along a seeded route with cancelling detours, committed): node-set entries, previous values, minimal set inclusion, the rawdb trie-node key space listing (paths and reference-encoded blobs), read-back of new and earlier roots and the StackTrie OnTrieNode emission are compared with the model.",
    "note": "Trusts TLC, triekit's reference encoder and RawStore (applies node sets with rawdb.WriteTrieNode/DeleteTrieNode). TrieCommit's node set is the minimal one (the implementation may additionally rewrite unchanged nodes with identical content: Allowed); TrieCommitMech predicts the node set exactly, and the simulated behaviours are compared entry by entry. In the simulated behaviours the same node sets are also fed to real triedb path- and hash-scheme databases (Update + Commit) and every stored node / the complete contents are read back through them; pathdb's internal layering and disk key space are the subject of C16-C20, not of this check.",
    "design_ref": "3.2 C07",
}

T = 3600


def run(ctx):
    drv = ctx.build("c07")
    if ctx.thorough:   # (the quick universe is explored, with the same invariants, by the edges run below)
        ctx.model_check("trie/MCTrieCommit", "trie/MCTrieCommitThorough", timeout=T * 2, workers=8, name="MCTrieCommit", coverage=True)
    ctx.model_check("trie/MCTrieCommit", ctx.pick("trie/MCTrieCommitHash", "trie/MCTrieCommitHashThorough"), timeout=T, workers=4, name="MCTrieCommitHash")
    # R: every Commit edge
    res = ctx.model_check("trie/MCTrieCommit", "trie/MCTrieCommitEdges", tags=("EDGE",), timeout=T, workers=4, name="MCTrieCommitEdges")
    edges = parse_edges(res)
    if not edges:
        raise InfraError("no edges emitted")
    ep = os.path.join(ctx.scratch, "edges.json")
    write_json(ep, edges)
    ctx.drive(drv, ["-mode", "edges", "-in", ep, "-pad", 0, "-nib", "0,1", "-keylen", 2], name="c07-edges", timeout=T)
    # MC: the mechanism (dirty flags, opTracer, PrevalueTracer, committer walk) refines the abstract commit
    ctx.model_check("trie/MCTrieCommitMech", ctx.pick("trie/MCTrieCommitMech", "trie/MCTrieCommitMechThorough"), timeout=T * 2, workers=4, name="MCTrieCommitMech", coverage=ctx.thorough)
    # R: simulated multi-generation behaviours with the exact node set predicted by the mechanism
    # model, 2-byte and 32-byte keys; plus behaviours of the abstract model
    for mod, cfg, pad, nib, num, depth in ctx.pick(
            [("trie/MCTrieCommitMech", "trie/MCTrieCommitMechSim", 1, "0,1,15", 25, 50), ("trie/MCTrieCommitMech", "trie/MCTrieCommitMechSim32", 61, "0,1,2,15", 10, 65),
             ("trie/MCTrieCommit", "trie/MCTrieCommitSim", 1, "0,1,15", 10, 45)],
            [("trie/MCTrieCommitMech", "trie/MCTrieCommitMechSim", 1, "0,1,15", 400, 50), ("trie/MCTrieCommitMech", "trie/MCTrieCommitMechSim32", 61, "0,1,2,15", 250, 65),
             ("trie/MCTrieCommit", "trie/MCTrieCommitSim", 1, "0,1,15", 100, 45), ("trie/MCTrieCommit", "trie/MCTrieCommitSim32", 61, "0,1,2,15", 60, 65)]):
        sim = ctx.tlc(mod, cfg, simulate="num=%d" % num, depth=depth, tags=("MBT",), timeout=T, workers=4, name=os.path.basename(cfg))
        if sim.timeout or sim.error:
            raise InfraError("TLC simulation failed: %s\n%s" % (sim.error, sim.stdout[-2000:]))
        beh = sim.lines.get("MBT", [])
        if not beh:
            raise InfraError("no behaviours emitted")
        bp = os.path.join(ctx.scratch, os.path.basename(cfg) + ".json")
        write_json(bp, beh)
        ctx.drive(drv, ["-mode", "sim", "-in", bp, "-pad", pad, "-nib", nib, "-keylen", 3, "-triedb"], name="c07-sim-" + os.path.basename(cfg), timeout=T)
    # V: recorded multi-generation histories over 32-byte keys validated by TrieCommitTrace.tla
    tp = os.path.join(ctx.scratch, "trace.ndjson")
    s, _ = ctx.drive(drv, ["-mode", "record", "-trace", tp, "-n", ctx.pick(10, 80), "-steps", ctx.pick(60, 100)], name="c07-record", timeout=T)
    ok, consumed, total, r = ctx.validate("trie/TrieCommitTrace", tp, ntraces=s["traces"], timeout=T * 2)
    if not ok:
        ctx.reject_trace("trie/TrieCommitTrace", tp, consumed, r)
    return ctx.finish(rule="MC: all (base, modified) key-value set pairs over 4 two-nibble keys with two value sizes, 3 hash-scheme generations; R: all Commit edges + simulated multi-generation behaviours (exact node sets); V: random 32-byte-key histories",
                      assumptions=["hashes opaque and injective in the model", "path store = raw rawdb key space; triedb backends only read back"])
