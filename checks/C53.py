"""C53 - The beacon light client follows only properly signed committees."""
import os
from vcheck import parse_edges, write_json

META = {
    "property_id": "C53",
    "level": "model_checking",
    "technique": "TLA+ spec of the committee chain (CommitteeChain.tla) model-checked with TLC under an explicit adversary; every transition of the TLC graph executed on the real light.CommitteeChain/HeadTracker; recorded receive sequences validated by CommitteeChainTrace.tla",
    "text": "CommitteeChain.tla transcribes CheckpointInit, addFixedCommitteeRoot, deleteFixedCommitteeRootsFrom, addCommittee, InsertUpdate (preceded by LightClientUpdate.Validate), rollback, reopen and the HeadTracker header check over opaque committee ids. TLC explores all delivery orders of genuine and forged updates/checkpoints: under the adversary assumption (>= threshold signatures of a genuine committee exist only for genuine content, checkpoints trusted) the chain contains only genuine committees and only headers signed by >= threshold of the genuine committee are accepted; without the assumption the documented consistency constraints still hold. Every edge of a complete TLC graph is executed on a real chain (real Merkle branches, in-tree dummy signatures) comparing result class, database listing, NextSyncPeriod and header probes after each step; seeded long random sequences on the real chain are validated by the trace spec with the invariants evaluated at every real step.",
    "note": "BLS replaced by the in-tree dummy scheme (dummyVerifier); signer threshold <= 2/3 supermajority assumed (ASSUME in the spec); enforceTime off (header age not modelled); a forgery is any input outside Unforgeable/Trusted of the spec; projection trusts harness/cmd/c53 (database listing by rawdb prefixes + public getters).",
    "design_ref": "3.7 C53",
}

T = 1800

def edges(ctx, drv, cfg, maxp, name):
    res = ctx.model_check("beacon/MCCommitteeChain", "beacon/" + cfg, tags=("EDGE",), timeout=3 * T, name=name, workers=4)
    es = parse_edges(res)
    if not es:
        raise Exception("no edges emitted")
    ep = os.path.join(ctx.scratch, name + ".json")
    write_json(ep, es)
    del es
    res.lines.clear()
    ctx.drive(drv, ["-mode", "edges", "-in", ep, "-maxp", maxp], name="c53-" + name, timeout=3 * T)
    os.remove(ep)

def run(ctx):
    drv = ctx.build("c53")
    # MC: the property on the design, adversarial environment; data-structure invariants in the free one
    ctx.model_check("beacon/MCCommitteeChain", "beacon/MCCommitteeChain" if not ctx.thorough else "beacon/MCCommitteeChainThorough",
                    timeout=3 * T, name="MCCommitteeChain-adversarial", workers=4, coverage=ctx.thorough)
    ctx.model_check("beacon/MCCommitteeChain", "beacon/MCCommitteeChainGeneral", timeout=3 * T, name="MCCommitteeChain-general", workers=4)
    # R: every transition of complete graphs executed on the real chain
    edges(ctx, drv, "MCCommitteeChainEdges", 1, "edges")
    if ctx.thorough:
        edges(ctx, drv, "MCCommitteeChainEdgesFull", 1, "edges-full")
        edges(ctx, drv, "MCCommitteeChainEdges2", 2, "edges-3periods")
    # V: recorded random sequences; adversarial ones are checked against the C53 invariants
    for adv, cfg in ((True, "beacon/CommitteeChainTrace"), (False, "beacon/CommitteeChainTraceGeneral")):
        tp = os.path.join(ctx.scratch, "trace-%s.ndjson" % adv)
        s, _ = ctx.drive(drv, ["-mode", "record", "-trace", tp, "-n", ctx.pick(40, 400), "-steps", ctx.pick(100, 150),
                               "-adversarial=%s" % str(adv).lower()], name="c53-record-%s" % ("adversarial" if adv else "general"), timeout=T)
        ok, consumed, total, r = ctx.validate("beacon/CommitteeChainTrace", tp, cfg=cfg, ntraces=s["traces"], timeout=3 * T)
        if not ok:
            ctx.reject_trace("beacon/CommitteeChainTrace", tp, consumed, r, cfg=cfg)
    return ctx.finish(rule="MC: all delivery orders of checkpoints/updates over periods 0..MaxP, two committees per period, counts around threshold and supermajority; R: all graph edges; V: random sequences over 7 periods, 3 committees per period",
                      assumptions=["dummy signature scheme instead of BLS", "Threshold <= 342 (supermajority)", "enforceTime=false",
                                   "adversary: Unforgeable(u) and Trusted(b) of CommitteeChain.tla"])
