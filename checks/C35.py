"""C35 - Header fee and gas arithmetic matches the specification."""
import os
from vcheck import write_json, InfraError

META = {
    "property_id": "C35",
    "level": "model_checking",
    "technique": "TLA+ transcription of the EIP formulas (FeeMath.tla); TLC checks the bound lemmas on input grids, enumerates cases replayed on the Go functions, and validates recorded calls of the real functions (FeeMathTrace.tla)",
    "text": "FeeMath.tla transcribes EIP-1559 (base fee, gas-limit bound), EIP-4844/7691/7892/7918 (excess blob gas, fake_exponential, blob fee, schedule selection) and the intrinsic-gas / calldata-floor terms (EIP-2, 2028, 2930, 3860, 7702, 7623; Amsterdam drafts 2780/7976/7981/8037) from the EIP texts. TLC (1) checks the bounds the property names (base fee moves by at most 1/8 and at least 1 upwards, never negative, monotone; admissible gas limits form the open interval p +- p/1024 above 5000; fake_exponential monotone and >= 1; EIP-7918 never lowers the excess; floor/intrinsic monotonicity) on dense small and sparse realistic grids, (2) enumerates a grid of cases with the demanded value, each executed on eip1559.CalcBaseFee/VerifyEIP1559Header, misc.VerifyGaslimit, eip4844.CalcBlobFee/CalcExcessBlobGas, core.IntrinsicGas/FloorDataGas, (3) is the oracle for seeded random and boundary calls of those functions (plus VerifyEIP4844Header) recorded as a trace. A panic of a Go function aborts the driver and is reported as a violation.",
    "note": "Exact value comparison only inside the domain where every intermediate product is < 2^31 (TLC integers): e.g. gas limits up to 2*10^8 with base fees up to 2^31/|gasUsed-target|, blob update fractions up to ~3000 with exponents up to ~8, and the mainnet update fractions only with excess < 643 (fee 1). Amsterdam intrinsic terms are transcribed from draft EIPs as published in the tree's params comments. Trusts TLC and the argument construction in harness/cmd/c35.",
    "design_ref": "3.1 C35",
}

LEMMAS = "BaseFeeMaxChange BaseFeeDirection BaseFeeNonNegative BaseFeeMonotone ForkBlockBaseFee GasLimitInterval FakeExpLaws ExcessLaws IntrinsicLaws"


def run(ctx):
    drv = ctx.build("c35")
    # MC + R: lemmas on the grid; the same run prints every case with the demanded value
    if ctx.thorough:
        ctx.model_check("codec/MCFeeMath", "codec/MCFeeMath", timeout=1500, name="MCFeeMath(realistic grid)")
        ctx.model_check("codec/MCFeeMath", "codec/MCFeeMathSmall", timeout=1800, name="MCFeeMath(dense small grid)")
        res = ctx.model_check("codec/MCFeeMath", "codec/MCFeeMathCases", tags=("CASE",), timeout=900, name="MCFeeMath(cases)")
    else:
        res = ctx.model_check("codec/MCFeeMath", "codec/MCFeeMathQuick", tags=("CASE",), timeout=400, name="MCFeeMath(quick grid + cases)")
    cases = res.lines.get("CASE", [])
    if len(cases) < 1000:
        raise InfraError("TLC emitted only %d cases" % len(cases))
    cp = os.path.join(ctx.scratch, "cases.json")
    write_json(cp, cases)
    ctx.drive(drv, ["-mode", "cases", "-in", cp], name="c35-cases")
    # V: recorded calls of the real functions validated by the trace specification
    tp = os.path.join(ctx.scratch, "trace.ndjson")
    s, _ = ctx.drive(drv, ["-mode", "record", "-trace", tp, "-n", ctx.pick(250, 6000)], name="c35-record")
    ok, consumed, total, r = ctx.validate("codec/FeeMathTrace", tp, ntraces=1, timeout=ctx.pick(400, 1800))
    if not ok:
        ctx.reject_trace("codec/FeeMathTrace", tp, consumed, r)
    return ctx.finish(
        rule="MC: lemmas on every grid case; R: every grid case executed on the Go functions; V: one event per real call, result must equal the TLA+ operator",
        assumptions=["exact comparison restricted to inputs whose intermediate products are < 2^31 (TLC integers)",
                     "parent headers are valid (gas limit >= 5000, blob schedule with max >= 1 and target <= max)",
                     "Amsterdam (EIP-2780/7976/7981/8037) terms are drafts"])
