"""C35 - Header fee and gas arithmetic matches the specification."""
import os
from vcheck import write_json, InfraError, SPEC

META = {
    "property_id": "C35",
    "level": "model_checking",
    "technique": "TLA+ transcription of the EIP formulas (FeeMath.tla, and over arbitrary-size naturals FeeMathBig.tla/BigNat.tla); TLC checks the bound lemmas on input grids, enumerates cases replayed on the Go functions, and validates recorded calls of the real functions (FeeMathTrace.tla, FeeMathBigTrace.tla)",
    "text": "FeeMath.tla transcribes EIP-1559 (base fee, gas-limit bound), EIP-4844/7691/7892/7918 (excess blob gas, fake_exponential, blob fee, schedule selection) and the intrinsic-gas / calldata-floor terms (EIP-2, 2028, 2930, 3860, 7702, 7623; Amsterdam drafts 2780/7976/7981/8037) from the EIP texts. TLC (1) checks the bounds the property names (base fee moves by at most 1/8 and at least 1 upwards, never negative, monotone; admissible gas limits form the open interval p +- p/1024 above 5000; fake_exponential monotone and >= 1; EIP-7918 never lowers the excess; floor/intrinsic monotonicity) on dense small and sparse realistic grids, (2) enumerates a grid of cases with the demanded value, each executed on eip1559.CalcBaseFee/VerifyEIP1559Header, misc.VerifyGaslimit, eip4844.CalcBlobFee/CalcExcessBlobGas, core.IntrinsicGas/FloorDataGas, (3) is the oracle for seeded random and boundary calls of those functions (plus VerifyEIP4844Header) recorded as a trace. A panic of a Go function aborts the driver and is reported as a violation.",
    "note": "The bound lemmas and the enumerated grid live in the domain where every intermediate product is < 2^31 (TLC integers). Mainnet magnitudes (gas limits to 2^63-1, base fees to 2^256, blob-fee exponents to 60 on params.MainnetChainConfig) are validated exactly through a second transcription over base-10^4 digit sequences (BigNat.tla) which TLC proves equal to the native one on the grid; intrinsic gas is only exercised with calldata up to 200 kB. Amsterdam intrinsic terms are transcribed from draft EIPs as published in the tree's params comments. Trusts TLC and the argument construction in harness/cmd/c35.",
    "design_ref": "3.1 C35",
}

LEMMAS = "BaseFeeMaxChange BaseFeeDirection BaseFeeNonNegative BaseFeeMonotone ForkBlockBaseFee GasLimitInterval FakeExpLaws ExcessLaws IntrinsicLaws"


def apalache_lemmas(ctx):
    """Optional unbounded obligation: the EIP-1559 bound lemmas over SMT integers.  A failure to
    run is a note, never a verdict; a counterexample concerns the model alone (exit 2)."""
    import subprocess, time
    out = os.path.join(ctx.scratch, "apalache")
    cmd = ["apalache-mc", "check", "--init=IndInit", "--inv=Lemmas", "--length=0", "--out-dir=" + out,
           os.path.join(SPEC, "codec", "FeeMathLemma.tla")]
    t = time.time()
    try:
        p = subprocess.run(cmd, stdout=subprocess.PIPE, stderr=subprocess.STDOUT, text=True, timeout=ctx.pick(900, 3600), cwd=ctx.scratch)
    except Exception as e:   # not installed / timeout
        ctx.notes.append("Apalache lemma run did not complete (%s): no unbounded obligation in this run" % type(e).__name__)
        return
    if "EXITCODE: OK" in p.stdout:
        ctx.notes.append("Apalache: FeeMathLemma.Lemmas (non-negative, direction, max change 1/8, gas-limit interval) hold for all integers (%.0fs)" % (time.time() - t))
        ctx.cov["apalache"] = {"module": "codec/FeeMathLemma", "inv": "Lemmas", "outcome": "no error", "wall_s": round(time.time() - t, 1)}
        ctx.log("Apalache: Lemmas hold over unbounded integers, %.1fs" % (time.time() - t))
    elif "EXITCODE: ERROR (12)" in p.stdout:
        raise InfraError("Apalache found a counterexample to FeeMathLemma.Lemmas on the model:\n" + p.stdout[-2000:])
    else:
        ctx.notes.append("Apalache lemma run failed to run: " + p.stdout[-300:].replace("\n", " "))


def run(ctx):
    drv = ctx.build("c35")
    # MC + R: lemmas on the grid; the same run prints every case with the demanded value
    if ctx.thorough:
        ctx.model_check("codec/MCFeeMath", "codec/MCFeeMath", timeout=7200, workers=4, name="MCFeeMath(realistic grid)")
        ctx.model_check("codec/MCFeeMath", "codec/MCFeeMathSmall", timeout=7200, workers=4, name="MCFeeMath(dense small grid)")
        res = ctx.model_check("codec/MCFeeMath", "codec/MCFeeMathCases", tags=("CASE",), timeout=7200, workers=4, name="MCFeeMath(cases)")
    else:
        res = ctx.model_check("codec/MCFeeMath", "codec/MCFeeMathQuick", tags=("CASE",), timeout=3600, workers=4, name="MCFeeMath(quick grid + cases)")
    # MC: the BigNat transcription (used for mainnet magnitudes) agrees with the native one; BigNat laws
    ctx.model_check("codec/MCFeeMathBig", "codec/MCFeeMathBig", timeout=7200, workers=4, name="MCFeeMathBig(agreement + arithmetic laws)")
    apalache_lemmas(ctx)
    cases = res.lines.get("CASE", [])
    if len(cases) < 1000:
        raise InfraError("TLC emitted only %d cases" % len(cases))
    cp = os.path.join(ctx.scratch, "cases.json")
    write_json(cp, cases)
    ctx.drive(drv, ["-mode", "cases", "-in", cp], timeout=3600, name="c35-cases")
    # V: recorded calls of the real functions validated by the trace specification
    tp = os.path.join(ctx.scratch, "trace.ndjson")
    s, _ = ctx.drive(drv, ["-mode", "record", "-trace", tp, "-n", ctx.pick(250, 6000)], timeout=3600, name="c35-record")
    ok, consumed, total, r = ctx.validate("codec/FeeMathTrace", tp, ntraces=1, timeout=7200)
    if not ok:
        ctx.reject_trace("codec/FeeMathTrace", tp, consumed, r)
    # V at mainnet magnitudes: numbers as base-10^4 digit strings, formulas over BigNat
    bp = os.path.join(ctx.scratch, "trace-big.ndjson")
    ctx.drive(drv, ["-mode", "recordbig", "-trace", bp, "-n", ctx.pick(80, 2500), "-nblob", ctx.pick(12, 250)], timeout=3600, name="c35-recordbig")
    ok, consumed, total, r = ctx.validate("codec/FeeMathBigTrace", bp, ntraces=1, timeout=7200)
    if not ok:
        ctx.reject_trace("codec/FeeMathBigTrace", bp, consumed, r)
    return ctx.finish(
        rule="MC: lemmas on every grid case; R: every grid case executed on the Go functions; V: one event per real call, result must equal the TLA+ operator",
        assumptions=["lemmas/grid restricted to inputs whose intermediate products are < 2^31; larger inputs validated through BigNat arithmetic (checked against native arithmetic on the grid)",
                     "parent headers are valid (gas limit >= 5000, blob schedule with max >= 1 and target <= max)",
                     "Amsterdam (EIP-2780/7976/7981/8037) terms are drafts"])
