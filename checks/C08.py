"""C08 - Merkle proofs are sound and complete."""
import os
from vcheck import write_json, InfraError

META = {
    "property_id": "C08",
    "level": "model_checking",
    "technique": "TLA+ spec of Trie.Prove / VerifyProof over the structural trie model (Proof.tla over MPT.tla) checked by TLC for every trie, key and proof-node subset; the TLC verdict table replayed on trie.Prove / trie.VerifyProof with genuine node blobs; recorded 32-byte-key runs validated against ProofTrace.tla; recorded variable-length-key runs (prefix keys, empty key) validated against ProofKVTrace.tla",
    "text": "TLC enumerates every key-value set over small key universes (embedded and hashed nodes, extension nodes), every key (present or absent) and every proof set made of the trie's stored nodes plus at most one genuine node of a neighbouring trie, and checks soundness (value or error), completeness and the exact verdict (success iff the set contains the nodes Prove emits). Each row is executed on the real code: Prove's node set, VerifyProof for every node subset, every substitution of a node by the neighbouring trie's node at the same path, and mismatched roots; panics are violations. Random tries over 32-byte keys with random omissions / foreign nodes are recorded and every Prove / VerifyProof result is validated by TLC against the same operators.",
    "note": "Trusts TLC, triekit (key/value embedding, reference encoder used only for the root sanity check) and opaque injective hashes in the model (forged blobs that are not genuine nodes are outside the statement). The empty trie has no root node: Prove emits nothing and VerifyProof reports an error for it (modelled as such: EmptyInv); completeness is stated for non-empty tries.",
    "design_ref": "3.2 C08",
}

T = 3600


def run(ctx):
    drv = ctx.build("c08")
    for cfg, pad in ctx.pick([("trie/MCProof", 0), ("trie/MCProof3Quick", 1)], [("trie/MCProof", 0), ("trie/MCProof3", 1), ("trie/MCProofThorough", 0)]):
        res = ctx.model_check("trie/MCProof", cfg, tags=("CASE",), timeout=T, workers=4, name=os.path.basename(cfg))
        rows = res.lines.get("CASE", [])
        if not rows:
            raise InfraError("no rows emitted")
        rp = os.path.join(ctx.scratch, os.path.basename(cfg) + ".json")
        write_json(rp, rows)
        ctx.drive(drv, ["-mode", "rows", "-in", rp, "-pad", pad], name="c08-rows-" + os.path.basename(cfg), timeout=T)
    tp = os.path.join(ctx.scratch, "trace.ndjson")
    s, _ = ctx.drive(drv, ["-mode", "record", "-trace", tp, "-n", ctx.pick(25, 250)], name="c08-record", timeout=T)
    ok, consumed, total, r = ctx.validate("trie/ProofTrace", tp, ntraces=s["traces"], timeout=T * 2)
    if not ok:
        ctx.reject_trace("trie/ProofTrace", tp, consumed, r)
    # variable-length keys (strict prefixes, the empty key: values in branch value slots), key-value level spec
    vp = os.path.join(ctx.scratch, "varlen.ndjson")
    s, _ = ctx.drive(drv, ["-mode", "varlen", "-trace", vp, "-n", ctx.pick(60, 600)], name="c08-varlen", timeout=T)
    ok, consumed, total, r = ctx.validate("trie/ProofKVTrace", vp, ntraces=s["traces"], timeout=T * 2)
    if not ok:
        ctx.reject_trace("trie/ProofKVTrace", vp, consumed, r)
    return ctx.finish(rule="MC: all tries over 4 (8) keys of 2 (3) nibbles with two value sizes x all keys x all proof subsets (+ one neighbour node); R: the whole verdict table; V: random 32-byte-key tries; V2: random tries over variable-length keys (prefix keys, empty key) against ProofKV.tla",
                      assumptions=["hashes opaque and injective in the model", "proof sets consist of genuine trie nodes", "structural model (MC, R, V) over fixed-length keys; variable-length keys are covered at the key-value level (ProofKV.tla) by trace validation only"])
