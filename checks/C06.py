"""C06 - Trie root and contents depend only on the key-value set."""
import os
from vcheck import parse_edges, write_json, InfraError

META = {
    "property_id": "C06",
    "level": "model_checking",
    "technique": "TLA+ spec of trie.Trie (Trie.tla over MPT.tla: Yellow-Paper insert/delete with collapse, UpdateBatch with per-nibble workers) model-checked with TLC; every TLC transition and TLC-simulated behaviours replayed on trie.Trie/StackTrie against the model tree (reference Yellow-Paper encoder); recorded 32-byte-key histories validated against TrieTrace.tla",
    "text": "TLC explores all histories of Update/Delete/UpdateBatch over small key universes and proves tree = Canon(kv) (hence root, lookups, ordered iteration depend only on the key-value set), including every interleaving of the concurrent per-nibble batch workers and the sequential-fallback conditions. Every transition of the state graph and sampled longer behaviours are executed on the real trie from several internal conditions (dirty, hashed, committed and reopened, detours); after each step Get over the universe, Hash (vs reference root of the model tree, vs fresh trie, vs StackTrie), NodeIterator paths / embedded-vs-hashed decision and leaf order are compared with the model.",
    "note": "Trusts TLC, triekit's reference encoder (RLP + hex-prefix + Keccak from go-ethereum/crypto) and the key embedding (model nibbles + zero padding). Goroutine schedules inside UpdateBatch are explored exhaustively in the model only; on the real code they are whatever the Go scheduler produces.",
    "design_ref": "3.2 C06",
}

T = 3600


def run(ctx):
    drv = ctx.build("c06")
    # MC: exhaustive histories, sequential operations
    ctx.model_check("trie/MCTrie", ctx.pick("trie/MCTrieQuick", "trie/MCTrieThorough"), timeout=T, workers=4, name="MCTrie")
    # MC: concurrent batches, all interleavings of the per-nibble workers
    ctx.model_check("trie/MCTrie", ctx.pick("trie/MCTrieBatchQuick", "trie/MCTrieBatchThorough"), timeout=T * 2, workers=ctx.pick(4, 8),
                    name="MCTrieBatch", coverage=ctx.thorough)
    # MC: the streaming builder (StackTrie.tla) yields the canonical tree and emits exactly its stored nodes
    ctx.model_check("trie/MCStackTrie", ctx.pick("trie/MCStackTrieQuick", "trie/MCStackTrie"), timeout=T, workers=4, name="MCStackTrie")
    # R: every edge of a complete graph
    res = ctx.model_check("trie/MCTrie", ctx.pick("trie/MCTrieEdges", "trie/MCTrieEdgesThorough"), tags=("EDGE",), timeout=T, workers=4, name="MCTrieEdges")
    edges = parse_edges(res)
    if not edges:
        raise InfraError("no edges emitted")
    ep = os.path.join(ctx.scratch, "edges.json")
    write_json(ep, edges)
    ctx.drive(drv, ["-mode", "edges", "-in", ep, "-pad", 0, "-nib", "0,1,15", "-keylen", 2], name="c06-edges", timeout=T)
    # R: every 4-entry batch over a pool of 6 (thorough: 8) operations from every state over the pool keys
    # (concurrent mode and every fallback condition)
    res = ctx.model_check("trie/MCTrie", ctx.pick("trie/MCTrieEdgesBatch", "trie/MCTrieEdgesBatchThorough"), tags=("EDGE",), timeout=T, workers=4, name="MCTrieEdgesBatch")
    bedges = parse_edges(res)
    if not bedges:
        raise InfraError("no batch edges emitted")
    bp = os.path.join(ctx.scratch, "bedges.json")
    write_json(bp, bedges)
    del res, edges
    ctx.drive(drv, ["-mode", "edges", "-in", bp, "-pad", 0, "-nib", "0,1,15", "-keylen", 2], name="c06-batch-edges", timeout=T)
    del bedges
    if ctx.thorough:
        # the same batch edges under the race detector (workers of UpdateBatch share the tracers and the root)
        import glob
        rdrv = ctx.build("c06", race=True)
        rlog = os.path.join(ctx.scratch, "race")
        ctx.drive(rdrv, ["-mode", "edges", "-in", bp, "-pad", 0, "-nib", "0,1,15", "-keylen", 2], name="c06-batch-edges-race", timeout=T * 2,
                  env={"GORACE": "halt_on_error=0 exitcode=0 log_path=" + rlog})
        reports = glob.glob(rlog + ".*")
        if reports:
            ctx.violation("data race reported by the Go race detector while replaying UpdateBatch edges",
                          {"kind": "race", "driver": "c06-batch-edges-race", "seed": ctx.seed, "tier": ctx.tier,
                           "report_head": open(reports[0]).read()[:3000]})
    # R: simulated behaviours with batches above/below the threshold, 2-byte and 32-byte keys
    for cfg, pad, nib, num, depth in ctx.pick([("trie/MCTrieSim", 1, "0,1,15", 15, 160)],
                                              [("trie/MCTrieSim", 1, "0,1,15", 300, 160), ("trie/MCTrieSimThorough", 61, "0,1,2,15", 200, 260)]):
        sim = ctx.tlc("trie/MCTrie", cfg, simulate="num=%d" % num, depth=depth, tags=("MBT",), timeout=T, workers=4, name=os.path.basename(cfg))
        if sim.timeout or sim.error:
            raise InfraError("TLC simulation failed: %s\n%s" % (sim.error, sim.stdout[-2000:]))
        beh = sim.lines.get("MBT", [])
        if not beh:
            raise InfraError("no behaviours emitted")
        bp = os.path.join(ctx.scratch, "mbt-%d.json" % pad)
        write_json(bp, beh)
        ctx.drive(drv, ["-mode", "sim", "-in", bp, "-pad", pad, "-nib", nib, "-keylen", 3], name="c06-sim-pad%d" % pad, timeout=T)
    # V: long seeded histories over 32-byte keys validated by TrieTrace.tla
    tp = os.path.join(ctx.scratch, "trace.ndjson")
    s, _ = ctx.drive(drv, ["-mode", "record", "-trace", tp, "-n", ctx.pick(10, 60), "-steps", ctx.pick(60, 150)], name="c06-record", timeout=T)
    ok, consumed, total, r = ctx.validate("trie/TrieTrace", tp, ntraces=s["traces"], timeout=T * 2)
    if not ok:
        ctx.reject_trace("trie/TrieTrace", tp, consumed, r)
    return ctx.finish(rule="MC: all histories over 2-3 nibble keys with two value sizes, all worker interleavings of 4-entry batches; R: all graph edges, all 4-entry batches over an 8-operation pool, simulated behaviours; V: random 32-byte-key histories",
                      assumptions=["hashes opaque and injective in the model", "real goroutine schedules of UpdateBatch not controlled"])
