"""C10 - Hex-prefix path encoding is a bijection."""
import os
from vcheck import write_json, InfraError

META = {
    "property_id": "C10",
    "level": "model_checking",
    "technique": "TLA+ spec (codec/HexPrefix.tla: Yellow-Paper HP as operators + hexToCompactInPlace as a buffer-overwriting loop) model-checked exhaustively with TLC; every key of the TLC domain replayed on trie/encoding.go; recorded calls on random long keys validated by HexPrefixTrace.tla",
    "text": "TLC enumerates every HEX key of the bounded domain (all nibble strings up to FullLen over 0..15 and up to SparseLen over {0,1,15}, with and without terminator), plus long schematic keys around 2^8 and 2^9 nibbles; checks on each that HP has a left inverse, yields canonical compact keys, has a right inverse on canonical compact keys, sets the leaf/odd flag bits, never maps a leaf key and an extension key (or any two different keys) to the same bytes, that byte keys round-trip, and that the in-place loop (read index ni, write index bi over one buffer) never overwrites an unread nibble and ends with the bytes of HP. The same enumeration is printed as expected results and every key is executed on the real hexToCompact, hexToCompactInPlace, compactToHex, hexToKeybytes, keybytesToHex, writeHexKey. A second TLA+ layer (HexPrefixMem) models buffer ownership: conversions return fresh buffers, the in-place variant writes to its argument only, and a caller overwriting or appending to a returned buffer changes no other buffer and no later result; every behaviour of bounded depth is executed on real slices without copying results, comparing all buffers after every step. Calls of the real functions on seeded random keys up to 1030 nibbles (dense around 254/510/1024 nibbles), including call chains on returned buffers (decode, re-encode the result in place, decode again; encode, overwrite, encode again) are recorded; a panic of a conversion is a violation; and TLC checks every <<fn,in,out>> against the specification operators (the in-place call against the loop model run to completion).",
    "note": "Exhaustive up to the length bound only (no unbounded proof). hexToCompactInPlace is specified for non-empty buffers (an empty buffer has no room for the flag byte; the stack trie never passes one). compactToHex is specified on canonical compact keys only (flag nibble 0..3, zero padding nibble). Unexported functions reached through trie/verif_export_codec.go (tag verif, thin wrappers).",
    "design_ref": "3.1 C10",
}


def run(ctx):
    drv = ctx.build("c10")
    # MC + case enumeration in one exhaustive run
    cfg = "codec/MCHexPrefix" if not ctx.thorough else "codec/MCHexPrefixThorough"
    res = ctx.model_check("codec/MCHexPrefix", cfg, tags=("CASE",), timeout=ctx.pick(1800, 7200), workers=4,
                          coverage=ctx.thorough, name="MCHexPrefix")
    if ctx.thorough and res.zero_cov:
        ctx.notes.append("zero-coverage actions: %s" % res.zero_cov)
    cases = res.lines.get("CASE", [])
    if len(cases) < 100:
        raise InfraError("TLC printed only %d cases" % len(cases))
    cp = os.path.join(ctx.scratch, "cases.json")
    write_json(cp, cases)
    ctx.drive(drv, ["-mode", "cases", "-in", cp], name="c10-cases", timeout=1800)
    # ownership layer: the buffer machine (fresh results, in-place encoding, caller overwrites/appends);
    # every behaviour of bounded depth replayed on real slices without copying results
    res = ctx.model_check("codec/HexPrefixMem", "codec/MCHexPrefixMem" if not ctx.thorough else "codec/MCHexPrefixMemThorough",
                          tags=("MBT",), timeout=ctx.pick(1800, 7200), workers=4, name="MCHexPrefixMem")
    mbt = res.lines.get("MBT", [])
    if len(mbt) < 100:
        raise InfraError("TLC printed only %d buffer-machine behaviours" % len(mbt))
    mp = os.path.join(ctx.scratch, "mem.json")
    write_json(mp, mbt)
    ctx.drive(drv, ["-mode", "mem", "-in", mp], name="c10-mem", timeout=1800)
    # V: recorded calls on random long keys
    tp = os.path.join(ctx.scratch, "trace.ndjson")
    s, _ = ctx.drive(drv, ["-mode", "record", "-trace", tp, "-n", ctx.pick(500, 6000)], name="c10-record", timeout=1800)
    ok, consumed, total, r = ctx.validate("codec/HexPrefixTrace", tp, ntraces=s["evaluations"], timeout=ctx.pick(1800, 7200))
    if not ok:
        ctx.reject_trace("codec/HexPrefixTrace", tp, consumed, r)
    return ctx.finish(rule="MC/R: all HEX keys of the bounded domain + long schematic keys; all bounded behaviours of the buffer machine; V: seeded random keys up to 1030 nibbles with call chains on returned buffers",
                      assumptions=["length bound of the exhaustive domain", "in-place variant defined for non-empty buffers only",
                                   "compactToHex defined on canonical compact keys only"])
