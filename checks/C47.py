"""C47 - Snap sync reconstructs exactly the target state."""
import os

META = {
    "property_id": "C47",
    "level": "model_checking",
    "technique": "TLA+ spec of range-based state reconstruction from untrusted peers (SnapSync.tla) model-checked with TLC; real snap/1 and snap/2 syncers run against harness peers (honest answers from the real Service*Query, seeded misbehaviour per request) with every database write observed; recorded runs validated by SnapSyncTrace.tla",
    "text": "SnapSync.tla models range tasks, requests, peer answers of any kind (genuine full/truncated range, corrupted proof or data, refusal, no or late answer), acceptance only of verifying ranges, flushes, restarts from persisted progress and completion; TLC checks for all interleavings that nothing unverified is stored, progress never passes unverified keys, and completion implies the stored state equals the target. The real syncers (NewV1Syncer, NewV2Syncer; hash and path scheme) sync random targets from 2-5 harness peers whose honest answers are produced by the real serving functions over a source chain and whose misbehaviour per request follows a seeded policy (capped, late, dropped, corrupted proof, corrupted data, refusal); syncs are cancelled at random points and resumed by a fresh syncer on the same database; additional snap/1 and snap/2 runs move the pivot to a later block of a source chain whose blocks change the state (snap/2: Amsterdam blocks with access lists, catch-up by applying the verified lists). A wrapping ethdb checks every flat account, slot and code write against the target at write time; each request, response (with the oracle's genuineness verdict), write, restart and completion is recorded and TLC checks that every write is covered by an earlier genuine response and that on completion the stored items are exactly the target; finally flat state, codes and the fully iterated trie are compared with the target.",
    "note": "Pivot moves are exercised on the real code but not in the TLA+ model: snap/1 (sync against an early header, cancel, resume against a later header of a source chain with state-changing blocks; write values and the final full trie checked - snap/1 does not promise a consistent flat state after a pivot move) and snap/2 (Amsterdam source chain with block access lists built by harness/blockkit; BAL catch-up served by the real ServiceGetAccessListsQuery with misbehaviour; final flat state, codes and full trie must equal the final pivot; values written on the way must belong to a block state between the pivots, storage roots of flat accounts may be stale until trie generation); no per-item events of pivot runs go to TLC; late genuine responses count as verified in the trace spec (the syncer ignores them); trie nodes written during range reconstruction are only checked for hash/key consistency (boundary nodes are healed later) and by the final full-trie comparison; request timeout ceiling lowered through an export hook.",
    "design_ref": "3.7 C47",
}

T = 3600

def run(ctx):
    drv = ctx.build("c47")
    ctx.model_check("net/MCSnapSync", "net/MCSnapSync", timeout=T, name="MCSnapSync", workers=4, coverage=ctx.thorough)
    tp = os.path.join(ctx.scratch, "trace.ndjson")
    s, _ = ctx.drive(drv, ["-mode", "record", "-trace", tp, "-n", ctx.pick(8, 60), "-accounts", ctx.pick(60, 150), "-versions", "12", "-pivot", ctx.pick(3, 20), "-pivot2", ctx.pick(4, 30)],
                     name="c47-record", timeout=2 * T)
    ok, consumed, total, r = ctx.validate("net/SnapSyncTrace", tp, ntraces=s["traces"], timeout=2 * T)
    if not ok:
        ctx.reject_trace("net/SnapSyncTrace", tp, consumed, r)
    return ctx.finish(rule="MC: 2 spaces (4 accounts in 2 tasks, 3 slots), 2 hash items, 2 peers with any behaviour, restarts; V: seeded sync runs of snap/1 and snap/2 on both state schemes against misbehaving peers with cancel/resume",
                      assumptions=["pivot moves (snap/1 heal, snap/2 BAL catch-up) checked on the real code only (final state equality, admissible write values), not modelled in SnapSync.tla", "at least one peer able to make progress in every run",
                                   "request timeout ceiling lowered to 3 s via export hook"])
