"""C22 - Flat-state iterators enumerate exactly the live entries."""
import os, json
from vcheck import write_json, InfraError

META = {
    "property_id": "C22",
    "level": "model_checking",
    "technique": "TLA+ spec of the layered flat-state iterators (FlatIter.tla: set-level definition, priority merge with per-layer cursors = fast iterator, pairwise merge = binary iterator) checked by TLC on every layer stack within bounds; every emitted (stack, seek, expected output) case executed on the real pathdb and legacy-snapshot fast and binary iterators at account and storage level; iterators, state-trie walk and the model world compared at every available root of TLC-generated pathdb behaviours driven by StateDB commits",
    "text": "TLC enumerates all stacks of a persistent layer, a write-buffer layer and up to MaxDiffs diff layers over 3 keys with every pattern of live entries, tombstones and overlaps, and all seek positions on and between keys, and checks that the fast iterator (init with clash resolution, next with cascading re-sort, value taken from the winning layer, deleted entries skipped) and the binary iterator both produce exactly the existing entries of the state in ascending order from the seek position, each from the topmost layer that mentions it. The cases with their expected outputs are then built on real databases (pathdb: Update/Commit/cap so that the three kinds of layers really are store, buffer and diff layers; legacy snapshot.Tree: Update/Cap) and iterated with Database.AccountIterator/StorageIterator, the binary iterators (export), snapshot.Tree.AccountIterator/StorageIterator and the legacy binary iterators. In addition, on TLC-generated histories of a real pathdb database (forks, caps, flushes, contract destruct/recreate through StateDB) the iterators of every available root are compared for every seek with the model world and with a leaf walk of the state trie and the storage trie.",
    "note": "Trusts TLC and the projections in harness/cmd/c22 and harness/cmd/c16 (-iter). Values are tagged with the layer they were written in, which checks that the merged iterator takes an entry from the right layer. 3 keys and <= 2 diff layers above buffer and store in the enumerated stacks; iterator staleness while layers are flattened underneath is not part of this check.",
    "design_ref": "3.3 C22",
}


def run(ctx):
    drv = ctx.build("c22")
    drv16 = ctx.build("c16")
    T = 3600
    # MC: both algorithms against the set-level definition on every stack within the bounds
    if not ctx.thorough:     # (the thorough emit run below checks the same invariants on the larger bounds)
        ctx.model_check("state/MCFlatIter", "state/MCFlatIter", timeout=3 * T, workers=4, name="MCFlatIter")
    # R: emitted cases on the real iterators
    res = ctx.model_check("state/MCFlatIter", "state/MCFlatIterEmitThorough" if ctx.thorough else "state/MCFlatIterEmit",
                          timeout=4 * T, workers=6 if ctx.thorough else 4, tags=("CASE",), name="MCFlatIter-emit")
    cases = res.lines.get("CASE", [])
    if not cases:
        raise InfraError("no cases emitted")
    cp = os.path.join(ctx.scratch, "cases.json")
    write_json(cp, cases)
    ctx.drive(drv, ["-mode", "cases", "-in", cp], name="c22-cases", timeout=T)
    # R: iterators vs model world vs trie walk on TLC-generated pathdb histories
    import importlib.util
    spec = importlib.util.spec_from_file_location("check_C16", os.path.join(os.path.dirname(__file__), "C16.py"))
    c16 = importlib.util.module_from_spec(spec); spec.loader.exec_module(c16)
    bs = c16.behaviours(ctx, "state/MCPathDBSim", ctx.pick(15, 300), 16, "MBT-PathDB-for-iterators")
    bp = os.path.join(ctx.scratch, "behaviours.json")
    write_json(bp, bs)
    ctx.drive(drv16, ["-mode", "replay", "-iter", "-in", bp], name="c16-replay-iter", timeout=T)
    return ctx.finish(rule="MC/R: all stacks store+buffer+<=MaxDiffs diffs over 3 keys x all seeks (quick: MaxDiffs=1, every 5th case executed; thorough: MaxDiffs=1 with every 2nd case executed (MaxDiffs=2 exceeds TLC's 10^6-element set limit at Init)); histories: sampled PathDB behaviours",
                      assumptions=["3 keys per level; values tagged by layer", "legacy snapshot: buffer layer = lowest diff layer / accumulator"])
