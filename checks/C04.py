"""C04 - Keccak-256 matches the reference for all inputs and chunkings."""
import os
from vcheck import write_json, InfraError

META = {
    "property_id": "C04",
    "level": "model_checking",
    "technique": "TLA+ spec (net/Sponge.tla: symbolic sponge with the buffer arithmetic of Write/padAndPermute/Read/Sum/Reset as coded) model-checked with TLC over all chunkings at Rate=4; TLC-generated call sequences at Rate=136 replayed on crypto.NewKeccakState with n/direction compared after every call and every output compared with golang.org/x/crypto/sha3 legacy Keccak-256 one-shot; recorded random call sequences validated by SpongeTrace.tla",
    "text": "At Rate=4 TLC explores every interleaving of Write(0..9)/Sum/Read/Reset over all message lengths 0..3*Rate+1, i.e. every splitting of every message length, and checks that exactly Partition(M||pad10*1) is handed to the permutation whatever the write history (fill offset, full blocks, partial block, padding position incl. the one-free-byte case), that Sum is non-destructive and returns Digest(M), and that Read continues the output stream across block boundaries. At Rate=136 TLC enumerates all call sequences of bounded length over write/read sizes around the block boundaries (0,1,31,32,135,136,137,271..273,408,687) with the same invariants and prints them; each is executed on a fresh and on a reused real sponge (crypto.NewKeccakState), comparing fill offset and direction (MarshalBinary) with the specification after every call and every Sum/Read output, plus crypto.Keccak256/Keccak256Hash/HashData/keccak.NewLegacyKeccak256 on the same chunks, with the reference digest of the concatenated message computed one-shot (independent of chunking). Longer TLC -simulate sequences and recorded random sequences (validated by TLC) extend the sizes.",
    "note": "The Keccak-f[1600] permutation (keccakf_amd64.s) is covered only through digest equality with the reference on the explored inputs; TLA+ says nothing about Keccak-f itself. The reference is golang.org/x/crypto v0.48.0 sha3 (module cache). Messages up to ~1.5 kB.",
    "design_ref": "3.1 C04",
}


def run(ctx):
    drv = ctx.build("c04")
    T = ctx.pick(1800, 7200)
    # MC: all chunkings at Rate=4
    ctx.model_check("net/MCSponge", "net/MCSponge", timeout=T, workers=4, coverage=ctx.thorough, name="MCSponge")
    # R: all call sequences of bounded length at Rate=136 (invariants checked on the way)
    res = ctx.model_check("net/MCSponge", "net/MCSpongeHist" if not ctx.thorough else "net/MCSpongeHist4",
                          tags=("MBT",), timeout=T, workers=4, name="MCSpongeHist")
    mbt = res.lines.get("MBT", [])
    # longer sampled sequences
    res = ctx.tlc("net/MCSponge", "net/MCSpongeSim", simulate="num=%d" % ctx.pick(40, 1500), depth=12, workers=2,
                  tags=("MBT",), timeout=T, deadlock=False, name="MCSpongeSim")
    if res.timeout or res.error:
        raise InfraError("TLC simulate: %s\n%s" % (res.error or "timeout", res.stdout[-2000:]))
    mbt += res.lines.get("MBT", [])
    if len(mbt) < 100:
        raise InfraError("TLC printed only %d behaviours" % len(mbt))
    mp = os.path.join(ctx.scratch, "mbt.json")
    write_json(mp, mbt)
    ctx.drive(drv, ["-mode", "mbt", "-in", mp], name="c04-mbt", timeout=T)
    # V: random call sequences on the real sponge
    tp = os.path.join(ctx.scratch, "trace.ndjson")
    s, _ = ctx.drive(drv, ["-mode", "record", "-trace", tp, "-n", ctx.pick(30, 400), "-steps", 40], name="c04-record", timeout=T)
    ok, consumed, total, r = ctx.validate("net/SpongeTrace", tp, ntraces=s["traces"], timeout=T)
    if not ok:
        ctx.reject_trace("net/SpongeTrace", tp, consumed, r)
    return ctx.finish(rule="MC: all interleavings at Rate=4; R: all call sequences of length 3 (thorough 4) over boundary sizes at Rate=136 + sampled longer ones; V: random call sequences",
                      assumptions=["Keccak-f covered only by digest equality with golang.org/x/crypto/sha3 on explored inputs"])
