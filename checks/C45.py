"""C45 - Discovery v5 packets and node records are authenticated and canonical."""
import os, json
from vcheck import write_json, InfraError

META = {
    "property_id": "C45",
    "level": "model_checking",
    "technique": "TLA+ specs ENR.tla (EIP-778 record grammar on RLP.tla, uninterpreted signatures) and Discv5.tla (symbolic-crypto state machine of the v5 wire codec) model-checked with TLC; TLC-enumerated record mutations and TLC-sampled attack schedules replayed on p2p/enr, p2p/enode and real v5wire.Codec instances; recorded random records/schedules validated against ENRTrace.tla / Discv5Trace.tla",
    "text": "Records: ENR.tla defines decoding (size limit, sorted unique keys, canonical seq, values carried as raw RLP), the signed content and the v4 identity rule with signatures as an uninterpreted set of genuinely produced triples. The harness really signs base records (API-built and hand-crafted ones, incl. exactly 300/301 bytes); TLC enumerates every single-byte edit and structural mutation (swap, duplicate, drop, pad, non-canonical seq, raw values), checks accepted => re-encodes identically, sorted, within limit, and the driver executes each on rlp.DecodeBytes(&enr.Record) + enode.New. Sessions: Discv5.tla models Encode (message / WHOAREYOU / handshake) and Decode of any number of nodes with sessions, pending challenges, restarts, handshake timeout and a network that replays, redirects, spoofs source addresses, tampers in flight (IV, version, nonce, source id, id-nonce, id-signature, ciphertext) and forges handshake packets in a node's name with its own keys; TLC checks exhaustively (4 packets, 2 nodes) that every accepted message is unmodified, from the claimed peer, for this node, under the receiver's current session negotiated over its own genuine challenge. Guided TLC simulation produces attack schedules that are executed step by step on real codecs (3 nodes, all six message kinds), comparing every Decode outcome and the identity of every delivered message; random schedules recorded from the real codecs are validated with all invariants evaluated after each step.",
    "note": "Trusts TLC, secp256k1/keccak/AES-GCM as primitives (signature validity is 'was really signed' in the model), the byte offsets used by the harness to tamper with packet regions, and that a packet unmasked with the wrong node id is rejected with overwhelming probability. Tampering classes are region-level (one random bit per region); WHOAREYOU packets are unauthenticated by design and accepted by Decode (their tampering is caught at the handshake).",
    "design_ref": "3.1 C45 (record part), 3.7 C45 (session part)",
}


def run(ctx):
    drv = ctx.build("c45")
    T = ctx.pick(1800, 7200)
    # ---- records: really signed bases -> TLC mutations (MC + R)
    bp = os.path.join(ctx.scratch, "bases.json")
    ctx.drive(drv, ["-mode", "enrbase", "-o", bp], name="c45-enrbase", timeout=T)
    res = ctx.model_check("codec/MCENR", ctx.pick("codec/MCENR", "codec/MCENRThorough"), tags=("CASE",), env={"BASES": bp},
                          timeout=T, name="MCENR", workers=ctx.pick(4, 8))
    cases = res.lines.get("CASE", [])
    if not cases:
        raise InfraError("MCENR printed no CASE lines")
    cp = os.path.join(ctx.scratch, "enrcases.json")
    write_json(cp, cases)
    ctx.drive(drv, ["-mode", "enrcases", "-in", cp], name="c45-enrcases", timeout=T)
    # ---- records: random records and mutations (V)
    tp = os.path.join(ctx.scratch, "enr.ndjson")
    s, _ = ctx.drive(drv, ["-mode", "enrrecord", "-trace", tp, "-n", ctx.pick(150, 3000)], name="c45-enrrecord", timeout=T)
    ok, consumed, total, r = ctx.validate("codec/ENRTrace", tp, ntraces=s["evaluations"], timeout=T)
    if not ok:
        ctx.reject_trace("codec/ENRTrace", tp, consumed, r)
    # ---- sessions: exhaustive MC of the protocol model
    ctx.model_check("net/MCDiscv5", ctx.pick("net/MCDiscv5", "net/MCDiscv5Thorough"), timeout=T, name="MCDiscv5",
                    workers=ctx.pick(4, 8))
    # ---- sessions: sampled attack schedules replayed on real codecs (R)
    sim = ctx.tlc("net/MCDiscv5", "net/MCDiscv5Sim", simulate="num=%d" % ctx.pick(40, 600), depth=35, tags=("MBT",), timeout=T,
                  workers=4, name="MCDiscv5Sim", deadlock=False)
    if sim.timeout or sim.error:
        raise InfraError("MCDiscv5 simulation failed: %s\n%s" % (sim.error, sim.stdout[-2000:]))
    behs = sim.lines.get("MBT", [])
    if len(behs) < 20:
        raise InfraError("only %d behaviours sampled" % len(behs))
    hp = os.path.join(ctx.scratch, "behs.json")
    write_json(hp, behs)
    ctx.drive(drv, ["-mode", "sessions", "-in", hp], name="c45-sessions", timeout=T)
    # ---- sessions: random schedules recorded from real codecs (V)
    tp2 = os.path.join(ctx.scratch, "sess.ndjson")
    s, _ = ctx.drive(drv, ["-mode", "sessrecord", "-trace", tp2, "-n", ctx.pick(40, 1200), "-steps", ctx.pick(60, 80)],
                     name="c45-sessrecord", timeout=T)
    ok, consumed, total, r = ctx.validate("net/Discv5Trace", tp2, ntraces=s["traces"], timeout=T)
    if not ok:
        ctx.reject_trace("net/Discv5Trace", tp2, consumed, r)
    return ctx.finish(rule="records: all single-byte edits + structural mutations of 5 genuinely signed records, random records; sessions: exhaustive model (4 packets, 2 nodes), sampled schedules of 30 steps on 3 real codecs, random recorded schedules",
                      assumptions=["signature validity = membership in the set of triples really signed by the harness (unforgeability of secp256k1 ECDSA)",
                                   "AES-GCM/masking treated symbolically: a modified or foreign packet never authenticates",
                                   "codec-level property: matching WHOAREYOU to an outstanding request is the caller's duty (not modelled)"])
