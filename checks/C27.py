"""C27 - EVM execution is total and within resource bounds."""
import os, re
from vcheck import write_json

META = {
    "property_id": "C27",
    "level": "model_checking",
    "technique": "TLA+ meta-machine of the interpreter (EVMMeta.tla: per-rule-set opcode arity table, stack/depth limits, gas and memory-payment rules, frame stack) model-checked with TLC; TLC-enumerated arity boundary cases executed on the interpreter; tracer events of seeded random/structured bytecode under every rule set validated step by step against EVMMetaTrace.tla",
    "text": "EVMMeta.tla states, for all opcodes and the rule sets Frontier..Bogota, what every interpreter step and call frame must respect whatever the bytecode: operand-stack arity and the 1024 limit, cost covered before execution, gas of a frame only changing by the charged cost and by what children hand back, children never receiving more than was paid, exact hand-back of unused gas, all gas consumed on exceptional halt, word-aligned non-shrinking memory whose growth is paid by at least the quadratic cost difference, depth limit 1024, static-flag inheritance, no panic. TLC checks the machine's global invariants on all interleavings of small abstract programs, enumerates the (rule set, opcode, stack height) boundary cases of the table, which are all executed on the real interpreter, and validates every OnEnter/OnOpcode/OnFault/OnExit callback recorded from runtime.Execute/Call/Create and evm.Call/Create runs of random and structured programs (all opcode bytes, stack floods, huge memory offsets, growth loops, recursion to the depth limit, creations, near-exhaustion gas limits) as a behaviour of the specification.",
    "note": "Trusts TLC, the tracer callbacks of core/tracing (observation point of OnOpcode: after charging, before execution) and the event projection in harness/evmkit/rec.go. From Amsterdam on (two-dimensional gas, EIP-8037) only the per-frame bounds of the execution-gas dimension are checked here (exact 2-D identities: C31). Memory growth of a frame's last instruction is not observable through the tracer. Gas limits are kept below 2^30 (TLC integers); values beyond are clipped and only compared.",
    "design_ref": "3.5 C27",
}

def why(res):
    names = re.findall(r'<<"WHY", "([A-Za-z0-9_]+)", (\d+)>>', res.stdout or "")
    return sorted(set(n for n, _ in names))

def run(ctx):
    drv = ctx.build("c27")
    # MC: all interleavings of the meta machine on small abstract programs
    if ctx.thorough:
        ctx.model_check("evm/MCEVMMeta", "evm/MCEVMMetaThorough", timeout=7200, name="MCEVMMeta", coverage=True, workers=4)
    else:
        ctx.model_check("evm/MCEVMMeta", "evm/MCEVMMeta", timeout=3600, name="MCEVMMeta", workers=4)
        ctx.model_check("evm/MCEVMMeta", "evm/MCEVMMetaStatic", timeout=3600, name="MCEVMMetaStatic", workers=4)
    # R: arity boundary cases of the opcode table, enumerated by TLC, executed on the interpreter
    res = ctx.model_check("evm/MCEVMMetaCases", "evm/MCEVMMetaCasesQuick" if not ctx.thorough else "evm/MCEVMMetaCases",
                          tags=("CASE",), timeout=3600, name="MCEVMMetaCases", workers=4)
    cases = res.lines.get("CASE", [])
    if len(cases) < 1000:
        raise Exception("no cases emitted")
    cp = os.path.join(ctx.scratch, "cases.json")
    write_json(cp, cases)
    ctx.drive(drv, ["-mode", "cases", "-in", cp], name="c27-cases", timeout=3600)
    # V: recorded executions validated by the trace specification
    tp = os.path.join(ctx.scratch, "trace.ndjson")
    s, _ = ctx.drive(drv, ["-mode", "record", "-trace", tp, "-n", ctx.pick(22, 500), "-maxevents", ctx.pick(220, 1200),
                           "-deep", ctx.pick(1, 3)], name="c27-record", timeout=3600)
    ok, consumed, total, r = ctx.validate("evm/EVMMetaTrace", tp, ntraces=s["traces"], timeout=ctx.pick(3600, 10000))
    if not ok:
        rules = why(r)
        ctx.reject_trace("evm/EVMMetaTrace", tp, consumed, r,
                         desc="interpreter step rejected by EVMMetaTrace at event %d%s%s" % (
                             consumed + 1, (" (invariant %s)" % r.violated) if r.violated else "",
                             (": broken rule " + ",".join(rules)) if rules else ""))
    return ctx.finish(rule="MC: all interleavings of Issue/Complete/Fault/Adjust/Enter/Exit over small abstract programs; R: all (rule set, opcode, boundary stack height) cases of the table; V: seeded random/structured programs x rule sets x gas limits, every tracer callback",
                      assumptions=["gas limits < 2^30 (TLC integer range)", "two-dimensional gas (Amsterdam+): per-frame bounds only, exact identities in C31",
                                   "memory growth of the last instruction of a frame is not observable"])
