"""C25 - Chain data is unchanged by migration into the freezer."""
import json, os
from vcheck import InfraError, write_json

META = {
    "property_id": "C25",
    "level": "model_checking",
    "technique": "TLA+ spec of the chain freezer's freeze cycle and accessor fall-back (ChainFreezer.tla) model-checked with TLC over block trees, finality schedules and crashes between the cycle's steps; real rawdb.Open databases driven through freeze cycles parked at gate hooks, with crash images reopened in child processes, validated against ChainFreezerTrace.tla",
    "text": "ChainFreezer.tla models the key-value chain data (headers, number index, bodies, receipts, canonical mapping, tx lookups), the freezer head (synced/current) and the freeze cycle split at its durable effects (copy, SyncAncient, canonical deletion batch, side-block batch, dangling-descendant batch); accessors read the freezer first as accessors_chain.go does. TLC checks for several block trees with side branches, every finality schedule and up to two crashes anywhere (freezer head anywhere between synced and current) that every accessor finds every canonical block at every step and after reopening, that rawdb.Open accepts the combination, that genesis stays, and that completed cycles remove frozen canonical data and side blocks at frozen heights with their stored descendants. Binding: the same trees plus seeded random ones are written through rawdb.Write*, finality is advanced stepwise, the freeze goroutine is parked at gate hooks after each step; at every gate all accessors are projected for all blocks and crash images (key-value snapshot + freezer directory, unsynced files lost/kept/cut) are reopened with rawdb.Open in a child process, projected, driven through one further complete cycle and projected again; ChainFreezerTrace.tla demands each projection be the specification's and every canonical block readable.",
    "note": "Chains are shorter than the 90000-block immutability window, so the threshold is the finalized block; freezerBatchLimit (30000) is a constant and one batch per cycle is exercised. The key-value store is memorydb and keeps every write made before the crash (power-loss behaviour of pebble's WAL is not exercised); freezer crash images follow the C24 file model. An interrupted cycle leaves frozen heights uncleaned for good (canonical duplicates and side blocks stay in the key-value store): modelled as what the code does and reported through known_findings C25-F1 (spec/store/NOTES.md). Trusts TLC, the gate positions and the projection in harness/cmd/c25.",
    "design_ref": "3.4 C25",
}

T = 7200


def printed(res, tag):
    out = []
    pre = '<<"%s", ' % tag
    for line in res.stdout.splitlines():
        line = line.strip()
        if line.startswith(pre) and line.endswith('>>'):
            try:
                out.append(json.loads(json.loads(line[len(pre):-2])))
            except Exception:
                pass
    return out


def run(ctx):
    drv = ctx.build("c25")
    res = ctx.model_check("store/MCChainFreezer", "store/MCChainFreezer" if not ctx.thorough else "store/MCChainFreezerT",
                          timeout=T, name="MCChainFreezer", workers=4, tags=("TREES",), coverage=ctx.thorough)
    trees = res.lines.get("TREES", [])
    if not trees:
        raise InfraError("the model did not print its trees")
    # C25-F1: the cleanup clause does not survive an interrupted cycle; shown on the model (expected to fail)
    leak = ctx.tlc("store/MCChainFreezer", "store/MCChainFreezerLeak", timeout=T, workers=2, name="MCChainFreezer-leak", record=False)
    model_leak = leak.violated == "SideGoneAlways"
    tf = os.path.join(ctx.scratch, "trees.json")
    write_json(tf, trees[0])
    tp = os.path.join(ctx.scratch, "trace.ndjson")
    s, _ = ctx.drive(drv, ["-mode", "run", "-trees", tf, "-n", ctx.pick(3, 25), "-images", ctx.pick(1, 4), "-trace", tp,
                           "-dir", os.path.join(ctx.scratch, "c25")], name="c25-run", timeout=T)
    ok, consumed, total, r = ctx.validate("store/ChainFreezerTrace", tp, ntraces=s["traces"], timeout=T, name="ChainFreezerTrace")
    if not ok:
        why = printed(r, "REJECT")
        ctx.reject_trace("store/ChainFreezerTrace", tp, consumed, r,
                         desc="chain freezer trace rejected at event %d%s" % (consumed + 1, (": " + json.dumps(why[0])[:700]) if why else ""))
    pend = printed(r, "PENDING")
    if pend:
        detail = "%d crash images keep blocks at frozen heights in the key-value store after a further complete cycle (model counter-example: %s)" % (len(pend), "yes" if model_leak else "no")
        ctx.notes.append("C25-F1 " + detail)
        # tolerated only while known_findings.json lists the finding as open
        if not ctx.known_finding("C25-F1", detail):
            ctx.violation("C25-F1 an interrupted freeze cycle leaves frozen heights uncleaned for good (%s) - not listed as an open known finding" % detail,
                          {"kind": "finding", "finding": "C25-F1", "images": len(pend), "first": pend[0], "seed": ctx.seed, "tier": ctx.tier})
    return ctx.finish(rule="MC: the cfg's block trees x all finality schedules x crashes between any two steps; XF: the same trees and seeded random trees on rawdb.Open, every gate, crash images reopened",
                      assumptions=["threshold = finalized block (short chains); one batch per cycle",
                                   "key-value store keeps all writes made before the crash",
                                   "freezer crash images per the C24 file model",
                                   "C25-F1 (no cleanup after an interrupted cycle) modelled as the code behaves, reported as pending"])
