"""C33 - Parallel block execution agrees with sequential execution."""
import os
from vcheck import write_json, InfraError

META = {
    "property_id": "C33",
    "level": "model_checking",
    "technique": "TLA+ spec ParallelExec.tla (access-list views, worker pool with shared base cache, rebuilt-list validation) model-checked with TLC incl. every single access-list mutation and every worker schedule; TLC scenarios and schedules replayed on real Amsterdam blocks (gate hook in executeTransactionsParallel); every single mutation of real access lists imported; recorded runs validated against ParallelExecTrace.tla",
    "text": "ParallelExec.tla models transactions as value-dependent read/write programs, the block access list (writes per key and index, demotion of no-op stores to reads, read set), the per-transaction view base (+) BAL[<i], the rebuilt list, ApplyBAL and the validation rule. TLC checks over all bounded scenarios that on the true list parallel results equal sequential results and the block is accepted, and that EVERY single mutation of the list (missing/extra/wrong value/wrong index entry, read<->write, extra/missing read) is rejected whether the header keeps the honest claims or the claims consistent with the forgery; a second configuration runs the worker pool (atomic cursor, W workers, shared base cache) through every interleaving of starts and completions. Binding: each TLC scenario is realised as an Amsterdam block over a key-value contract (real access list section and post state must equal the model's), processed sequentially and in parallel - free running and under each TLC-generated schedule forced through a blocking hook in the worker loop - with receipts, logs, gas, requests, rebuilt list and root compared; the honest block must import and each model mutation must be rejected by BlockChain import. Random interacting Amsterdam blocks (shared senders, creates, self-destructs, set-code, system contracts, withdrawals) are processed under GOMAXPROCS 1/2/4/16 and seeded schedules, and EVERY single mutation of their real access lists (storage/balance/nonce/code value, index, missing, extra; account missing/extra), with the original and with the forged state root, must be rejected. All runs and verdicts are validated by TLC against ParallelExecTrace.tla.",
    "note": "Trusts TLC, the RLP mirror of the access-list encoding (identity checked on every list), and that forced schedules cover what the Go scheduler can produce at the two hook points (start of a transaction, publication of its result). Mutations are single mutations; header fields other than access-list hash and state root are not forged.",
    "design_ref": "3.5 C33",
}


def run(ctx):
    drv = ctx.build("c33")
    # MC + case generation: every scenario with every single mutation of its access list
    res = ctx.model_check("evm/MCParallelExec", "evm/MCParallelExecEmit", tags=("CASE",), timeout=ctx.pick(1500, 3600),
                          name="MCParallelExec(N=2, all mutations)", workers=4)
    cases = res.lines.get("CASE", [])
    if ctx.thorough:
        ctx.model_check("evm/MCParallelExec", "evm/MCParallelExecThorough", timeout=7200, name="MCParallelExec(N=3)", workers=6)
        sim = ctx.tlc("evm/MCParallelExec", "evm/MCParallelExecSim", simulate="num=120", depth=12, tags=("CASE",), timeout=3600,
                      workers=2, name="MCParallelExecSim(N=3, 3 keys)")
        if sim.timeout or sim.error or sim.violated:
            raise InfraError("TLC simulation failed: %s" % (sim.error or sim.violated or "timeout"))
        extra = sim.lines.get("CASE", [])
    else:
        extra = []
    # MC + schedule generation: worker pool interleavings
    ctx.model_check("evm/MCParallelExec", ctx.pick("evm/MCParallelSched", "evm/MCParallelSchedThorough"), timeout=ctx.pick(1500, 3600),
                    name="MCParallelSched", workers=4, coverage=ctx.thorough)
    if ctx.thorough:
        ctx.model_check("evm/MCParallelExec", "evm/MCParallelSchedWide", timeout=3600, name="MCParallelSchedWide", workers=6)
    scheds = []
    for n in ctx.pick((2, 3), (2, 3, 4)):
        r = ctx.model_check("evm/MCParallelExec", "evm/MCParallelSchedEmit%d" % n, tags=("SCHED",), timeout=ctx.pick(1500, 3600),
                            name="MCParallelSchedEmit%d" % n, workers=4)
        scheds += r.lines.get("SCHED", [])
    if not cases or not scheds:
        raise InfraError("no cases / schedules emitted")
    cp, sp = os.path.join(ctx.scratch, "cases.json"), os.path.join(ctx.scratch, "sched.json")
    write_json(cp, cases); write_json(sp, scheds)
    t1 = os.path.join(ctx.scratch, "cases.ndjson")
    s1, _ = ctx.drive(drv, ["-mode", "cases", "-in", cp, "-sched", sp, "-maxcases", ctx.pick(40, 500), "-trace", t1],
                      name="c33-cases", timeout=ctx.pick(900, 5400))
    traces = [(t1, s1)]
    if extra:
        xp = os.path.join(ctx.scratch, "cases3.json")
        write_json(xp, extra)
        t3 = os.path.join(ctx.scratch, "cases3.ndjson")
        s3, _ = ctx.drive(drv, ["-mode", "cases", "-in", xp, "-sched", sp, "-trace", t3], name="c33-cases-n3", timeout=5400)
        traces.append((t3, s3))
    t2 = os.path.join(ctx.scratch, "random.ndjson")
    s2, _ = ctx.drive(drv, ["-mode", "random", "-sched", sp, "-trace", t2, "-blocks", ctx.pick(3, 12), "-txs", ctx.pick(8, 14)],
                      name="c33-random", timeout=ctx.pick(900, 5400))
    traces.append((t2, s2))
    for tp, s in traces:
        ok, consumed, total, r = ctx.validate("evm/ParallelExecTrace", tp, ntraces=s["traces"], timeout=ctx.pick(900, 3600))
        if not ok:
            ctx.reject_trace("evm/ParallelExecTrace", tp, consumed, r)
    return ctx.finish(rule="MC: all scenarios (2 keys, values 0..2, N=2; thorough N=3) x all single mutations x honest/forged claims; all worker interleavings for N<=3 (4), W<=4; R: sampled scenarios and all TLC schedules on real blocks; V: random blocks, every single mutation of the real list",
                      assumptions=["one key space stands for storage, balance, nonce and code sections", "schedules are controlled at transaction start and result publication",
                                   "single mutations; only access-list hash and state root forged in the header"])
