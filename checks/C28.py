"""C28 - EVM results are independent of pooling, caching and concurrency."""
import os
from vcheck import write_json

META = {
    "property_id": "C28",
    "level": "model_checking",
    "technique": "TLA+ spec of the EVM's reused resources (EVMPool.tla: stack arenas, pooled memory, jumpdest and precompile caches, several EVM instances) model-checked with TLC; TLC schedules compiled to bytecode and replayed on real EVM instances gated at every model action; generated programs compared fresh vs. dirty/warm/reused/concurrent contexts; traces recorded under pool pressure validated against MiniEVMTrace.tla",
    "text": "EVMPool.tla models arena windows (stack()/release()), pooled memory buffers (Resize within capacity, clear-on-Free, size limit), the code-hash keyed analysis cache (init code never cached) and the normalised-input precompile cache, with several EVM instances interleaving at the granularity of these operations; TLC checks that everything a frame can observe is its own data, zero, or the ideal function value (history independence) together with the disciplines that imply it. TLC behaviours of the model are compiled into contracts (push/pop, memory growth and writes across the 16 KiB pooling limit, jumps through valid and invalid destinations in deployed and init code, cacheable precompile calls with equal/different normalised inputs and failing inputs, nested frames, faulting exits) and executed on real EVM instances, one goroutine per session, blocked at every model action and released in the TLC-chosen order, sharing process pools and caches: each session's return data, gas, post-state, logs and opcode-trace digest must equal its run on pristine resources. Generated transactions (C26 generator, unwritten-memory probes) are compared between pristine and after-dirtying / warm-cache / reused-EVM / concurrent contexts, and transactions traced while other goroutines dirty the pools are validated instruction by instruction against MiniEVM.tla, which has no pools.",
    "note": "Pristine = sync.Pools emptied by two GC cycles, private caches, new EVM. Interleavings are forced at model-action granularity (opcode tracer gate); finer interleavings inside an opcode rely on the race detector build (thorough tier) and repetition. Nesting depth is part of the compared message (wrapper chains), depth independence of the semantics itself comes from the MiniEVM trace validation.",
    "design_ref": "3.5 C28",
}


def run(ctx):
    drv = ctx.build("c28")
    th = ctx.thorough
    # MC: the pool/cache disciplines imply history independence
    ctx.model_check("evm/MCEVMPool", "evm/MCEVMPool" + ("Thorough" if th else ""), workers=4, timeout=7200, name="MCEVMPool-pools")
    ctx.model_check("evm/MCEVMPool", "evm/MCEVMPoolCaches" + ("Thorough" if th else ""), workers=4, timeout=7200, name="MCEVMPool-caches")
    # R: TLC schedules replayed on real EVM instances
    res = ctx.tlc("evm/MCEVMPool", "evm/MCEVMPoolSim", simulate="num=%d" % ctx.pick(30, 400), depth=41, workers=2, deadlock=False,
                  tags=("MBT",), timeout=3600, name="MCEVMPool-sim")
    if res.timeout or res.error:
        from vcheck import InfraError
        raise InfraError("TLC simulation failed: %s" % (res.error or "timeout"))
    behs = res.lines.get("MBT", [])
    if not behs:
        from vcheck import InfraError
        raise InfraError("no behaviours emitted")
    bp = os.path.join(ctx.scratch, "behs.json")
    write_json(bp, behs)
    ctx.log("R: %d TLC behaviours" % len(behs))
    s, _ = ctx.drive(drv, ["-mode", "plan", "-in", bp], name="c28-plan", timeout=7200)
    ctx.cov["behaviours_replayed"] += s.get("traces", 0)
    # R: generated programs, fresh vs. history contexts
    ctx.drive(drv, ["-mode", "history", "-n", ctx.pick(150, 2000), "-par", 4], name="c28-history", timeout=7200)
    # R: generated transactions gated before every opcode, released in a seeded order
    ctx.drive(drv, ["-mode", "interleave", "-n", ctx.pick(25, 400), "-par", 3], name="c28-interleave", timeout=7200)
    if th:
        rdrv = ctx.build("c28", race=True)
        ctx.drive(rdrv, ["-mode", "history", "-n", 300, "-par", 6], name="c28-history-race", timeout=10800,
                  env={"GORACE": "halt_on_error=1 exitcode=66"})
    # V: traces recorded under pool pressure against the pool-free semantics
    tp = os.path.join(ctx.scratch, "trace.ndjson")
    s, _ = ctx.drive(drv, ["-mode", "record", "-trace", tp, "-n", ctx.pick(250, 1500), "-par", 3], name="c28-record", timeout=7200)
    ok, consumed, total, r = ctx.validate("evm/MiniEVMTrace", tp, ntraces=s["traces"], timeout=10800)
    if not ok:
        ctx.reject_trace("evm/MiniEVMTrace", tp, consumed, r)
    return ctx.finish(rule="MC: all interleavings of two EVM instances over bounded arenas/buffers/caches; R: simulated TLC schedules gated on real EVMs + generated programs in history contexts; V: traced transactions under pool pressure",
                      assumptions=["pristine resources = emptied sync.Pools + private caches", "schedule control at model-action (opcode) granularity"])
