"""C23 - Key-value backends are observationally equivalent."""
import os
from vcheck import parse_edges, write_ndjson, InfraError

META = {
    "property_id": "C23",
    "level": "model_checking",
    "technique": "TLA+ contract of ethdb.KeyValueStore (KV.tla) model-checked with TLC; every TLC transition replayed on memorydb, pebble, leveldb and rawdb.NewTable views; recorded random call sequences on all six validated against KVTrace.tla",
    "text": "KV.tla is the interface contract (ordered map, half-open DeleteRange with nil/empty bounds, batch buffering with atomic in-order Write, Reset, Replay, ValueSize, snapshot iterators with prefix/start, reopen). TLC checks the contract's own properties (range semantics, buffering invisible, iterator snapshot stability, exact ValueSize) exhaustively on small key universes, then prints every transition of the reachable graph; the driver establishes each from-state on the real store through its public API, executes the action and compares the result and the complete observable post-state (full iteration, batch content via Replay into a recorder, ValueSize, remaining iterator items, untouched foreign keys below a table view). Equality of the backends follows because each equals the same specification. Long seeded random call sequences (keys over {00,61,62,ff}^<=3, nil/empty bounds, iterators held across writes, close/reopen) are recorded per target and TLC checks each trace is a behaviour of the specification.",
    "note": "Three deviations of the pinned tree from the contract are modelled as what the code does by the constants QEmptyDel (memorydb), QEager (leveldb), QReplayRange (rawdb table) of KV.tla, so those targets stay bound to an exact specification; replaying the pure contract on them reproduces the deviations, which are reported as PENDING-FINDING C23-F1..F3 (spec/store/NOTES.md) and not as violations. A fourth one cannot be modelled as a transition: leveldb's batch.DeleteRange with start > end panics inside goleveldb once tables exist below level 0 (C23-F4); the drivers do not issue that call on leveldb targets (the contract's outcome, nothing buffered, is still checked) and a directed step reproduces the panic in a child process. Batch atomicity is decided for the sequential interface (nothing visible before Write, everything after); power-failure atomicity of the disk backends' WAL is not exercised. Trusts TLC and the projection in harness/cmd/c23.",
    "design_ref": "3.4 C23",
}

# which targets are described by which constant assignment of KV.tla
VARIANTS = [("", ["pebble"]), ("EmptyDel", ["mem"]), ("Eager", ["leveldb", "tleveldb"]), ("ReplayRange", ["tmem", "tpebble"])]
T = 3600


def run(ctx):
    drv = ctx.build("c23")
    # MC: the contract's own properties on the larger universes
    ctx.model_check("store/MCKV", "store/MCKV" if not ctx.thorough else "store/MCKVThorough", timeout=T, name="MCKV",
                    coverage=ctx.thorough, workers=4)
    if ctx.thorough:
        ctx.model_check("store/MCKV", "store/MCKVB", timeout=T, name="MCKV-ffkeys", workers=4)
    # R: every transition of the graph of each variant on the targets it describes
    suffix = "T" if ctx.thorough else ""
    contract_edges = None
    for var, targets in VARIANTS:
        res = ctx.model_check("store/MCKV", "store/MCKVEdges%s%s" % (var, suffix), tags=("EDGE",), timeout=T,
                              name="MCKVEdges" + var, workers=4)
        edges = parse_edges(res)
        if not edges:
            raise InfraError("no edges emitted for variant %r" % var)
        ep = os.path.join(ctx.scratch, "edges%s.ndjson" % var)
        write_ndjson(ep, edges)
        if var == "":
            contract_edges = ep
        ctx.drive(drv, ["-mode", "edges", "-in", ep, "-targets", ",".join(targets), "-dir", os.path.join(ctx.scratch, "db-" + (var or "ideal"))],
                  name="c23-edges-" + (var or "contract"), timeout=T)
    # the pure contract replayed on the deviating targets: only the known deviations may show up
    pend_targets = "mem,tmem" + (",tpebble,leveldb,tleveldb" if ctx.thorough else "")
    s, _ = ctx.drive(drv, ["-mode", "edges", "-pending", "-in", contract_edges, "-targets", pend_targets,
                           "-dir", os.path.join(ctx.scratch, "db-pending")], name="c23-contract-on-deviating", timeout=T)
    for f, n in sorted((s.get("extra", {}).get("pending_findings") or {}).items()):
        line = "PENDING-FINDING: property=C23 %s (%d contract transitions diverge)" % (f, n)
        print(line)
        ctx.notes.append(line)
    # TODO-KNOWN-FINDING (C23-F4): leveldb batch.DeleteRange(start > end) panics inside goleveldb once tables exist
    # below level 0; the drivers do not issue that one call on leveldb targets (counted below) and this step
    # reproduces the panic in a child process
    s4, _ = ctx.drive(drv, ["-mode", "f4", "-dir", os.path.join(ctx.scratch, "db-f4")], name="c23-finding-F4", timeout=T)
    if str(s4.get("extra", {}).get("f4", "")).startswith("panic"):
        line = "PENDING-FINDING: property=C23 C23-F4 leveldb batch.DeleteRange with start > end panics in goleveldb (%s); other backends and the contract: empty range" % s4["extra"]["f4"]
        print(line)
        ctx.notes.append(line)
    else:
        ctx.notes.append("C23-F4 not reproduced")
    # V: recorded random call sequences per target, validated with the constants of that target
    prefix = os.path.join(ctx.scratch, "tr")
    alltargets = [t for _, ts in VARIANTS for t in ts]
    s, _ = ctx.drive(drv, ["-mode", "record", "-trace-prefix", prefix, "-targets", ",".join(alltargets),
                           "-n", ctx.pick(4, 30), "-steps", ctx.pick(400, 1000), "-dir", os.path.join(ctx.scratch, "db-rec")],
                     name="c23-record", timeout=T)
    ntr = ctx.pick(4, 30)
    for var, targets in VARIANTS:
        # traces of the targets sharing one constant assignment are concatenated (each starts with a reset event)
        tp = "%s-var-%s.ndjson" % (prefix, var or "contract")
        if not all(os.path.exists("%s-%s.ndjson" % (prefix, t)) for t in targets):
            continue      # the recording driver died (already reported as a violation by ctx.drive)
        with open(tp, "w") as out:
            for t in targets:
                out.write(open("%s-%s.ndjson" % (prefix, t)).read())
        ok, consumed, total, r = ctx.validate("store/KVTrace", tp, cfg="store/KVTrace" + var, ntraces=ntr * len(targets), timeout=T,
                                              name="KVTrace-" + "+".join(targets))
        if not ok:
            ctx.reject_trace("store/KVTrace", tp, consumed, r, cfg="store/KVTrace" + var,
                             desc="[%s] recorded trace rejected by KVTrace (%s) at event %d" % ("+".join(targets), var or "contract", consumed + 1))
    return ctx.finish(rule="MC: all call sequences over the cfg universes; R: all graph edges on all six targets; V: random sequences per target",
                      assumptions=["single batch and single iterator at a time (sequential interface use)",
                                   "a written batch is only Reset or Replayed (pebble forbids re-committing)",
                                   "Key()/Value() observed only after Next() returned true",
                                   "keys shorter than the 32-byte 0xff marker ethdb.MaximumKey",
                                   "deviations C23-F1..F3 modelled by Q* constants and reported as pending findings; C23-F4 (panic) call not issued on leveldb targets"])
