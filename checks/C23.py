"""C23 - Key-value backends are observationally equivalent."""
import os
from vcheck import parse_edges, write_ndjson, InfraError

META = {
    "property_id": "C23",
    "level": "model_checking",
    "technique": "TLA+ contract of ethdb.KeyValueStore (KV.tla) model-checked with TLC; every TLC transition replayed on memorydb, pebble, leveldb and rawdb.NewTable views; recorded random call sequences on all six validated against KVTrace.tla",
    "text": "KV.tla is the interface contract (ordered map, half-open DeleteRange with nil/empty bounds, batch buffering with atomic in-order Write, Reset, Replay, ValueSize, snapshot iterators with prefix/start, reopen). TLC checks the contract's own properties (range semantics, buffering invisible, iterator snapshot stability, exact ValueSize) exhaustively on small key universes, then prints every transition of the reachable graph; the driver establishes each from-state on the real store through its public API, executes the action and compares the result and the complete observable post-state (full iteration, batch content via Replay into a recorder, ValueSize, remaining iterator items, untouched foreign keys below a table view). Equality of the backends follows because each equals the same specification. Long seeded random call sequences (keys over {00,61,62,ff}^<=3, nil/empty bounds, iterators held across writes, close/reopen) are recorded per target and TLC checks each trace is a behaviour of the specification.",
    "note": "Three deviations of the pinned tree from the contract are modelled as what the code does by the constants QEmptyDel (memorydb), QEager (leveldb), QReplayRange (rawdb table) of KV.tla, so those targets stay bound to an exact specification; replaying the pure contract on them reproduces the deviations, which are reported through known_findings (C23-F1..F3, spec/store/NOTES.md); a start-up probe decides per run which constants apply, so a fixed tree is bound to the pure contract. A fourth one cannot be modelled as a transition: leveldb's batch.DeleteRange with start > end panics inside goleveldb once tables exist below level 0 (C23-F4); the drivers do not issue that call on leveldb targets (the contract's outcome, nothing buffered, is still checked) and a directed step reproduces the panic in a child process. Batch atomicity is decided for the sequential interface (nothing visible before Write, everything after); power-failure atomicity of the disk backends' WAL is not exercised. Trusts TLC and the projection in harness/cmd/c23.",
    "design_ref": "3.4 C23",
}

# deviation constants of KV.tla -> cfg suffix / driver name
SUFFIX = {"ideal": "", "emptydel": "EmptyDel", "eager": "Eager", "replayrange": "ReplayRange"}
FINDINGS = {
    "C23-F1": "memorydb batch.Delete(empty key) is buffered as DeleteRange(nil,nil): Write/Replay wipe the database",
    "C23-F2": "leveldb batch.DeleteRange is expanded when it is issued, not when the batch is written",
    "C23-F3": "rawdb table batch cannot Replay a range deletion (tableReplayer has no DeleteRange)",
    "C23-F4": "leveldb batch.DeleteRange(start > end) panics inside goleveldb once tables exist below level 0",
}
T = 3600


def known(ctx, fid, detail, replay):
    """A recognised deviation is tolerated only while known_findings.json lists it as open."""
    if not ctx.known_finding(fid, detail):
        ctx.violation("%s %s (%s) - not listed as an open known finding" % (fid, FINDINGS[fid], detail),
                      dict(replay, kind="finding", finding=fid, seed=ctx.seed, tier=ctx.tier))


def run(ctx):
    drv = ctx.build("c23")
    # which of the known deviations does this tree have?  (a fixed tree has none and every target is bound to the contract)
    pr, _ = ctx.drive(drv, ["-mode", "probe", "-dir", os.path.join(ctx.scratch, "db-probe")], name="c23-probe", timeout=T)
    dev = {k: bool(pr.get("extra", {}).get(k)) for k in ("f1", "f2", "f3")}
    s4, _ = ctx.drive(drv, ["-mode", "f4", "-dir", os.path.join(ctx.scratch, "db-f4")], name="c23-finding-F4", timeout=T)
    dev["f4"] = str(s4.get("extra", {}).get("f4", "")).startswith("panic")
    if dev["f1"]:
        known(ctx, "C23-F1", "probe: Put a; batch.Delete(empty); Write -> a is gone", {"probe": pr.get("extra")})
    if dev["f2"]:
        known(ctx, "C23-F2", "probe: batch Put k; DeleteRange[k,nil); Write -> k is still there", {"probe": pr.get("extra")})
    if dev["f3"]:
        known(ctx, "C23-F3", "probe: table batch DeleteRange(a,b); Replay -> error", {"probe": pr.get("extra")})
    if dev["f4"]:
        known(ctx, "C23-F4", "3 puts, Compact, NewBatch().DeleteRange(d,a): %s" % s4["extra"]["f4"], {"f4": s4.get("extra")})
    view = "replayrange" if dev["f3"] else "ideal"
    assign = {"pebble": "ideal", "mem": "emptydel" if dev["f1"] else "ideal",
              "leveldb": "eager" if dev["f2"] else "ideal", "tleveldb": "eager" if dev["f2"] else view,
              "tmem": view, "tpebble": view}
    variants = []
    for v in ("ideal", "emptydel", "eager", "replayrange"):
        ts = [t for t in ("pebble", "mem", "leveldb", "tleveldb", "tmem", "tpebble") if assign[t] == v]
        if ts:
            variants.append((v, ts))
    skip = ["-skip-f4"] if dev["f4"] else []
    # MC: the contract's own properties on the larger universes
    ctx.model_check("store/MCKV", "store/MCKV" if not ctx.thorough else "store/MCKVThorough", timeout=T, name="MCKV",
                    coverage=ctx.thorough, workers=4)
    if ctx.thorough:
        ctx.model_check("store/MCKV", "store/MCKVB", timeout=T, name="MCKV-ffkeys", workers=4)
    # R: every transition of the graph of each variant on the targets it describes
    suffix = "T" if ctx.thorough else ""
    contract_edges = None
    for v, targets in variants:
        res = ctx.model_check("store/MCKV", "store/MCKVEdges%s%s" % (SUFFIX[v], suffix), tags=("EDGE",), timeout=T,
                              name="MCKVEdges" + SUFFIX[v], workers=4)
        edges = parse_edges(res)
        if not edges:
            raise InfraError("no edges emitted for variant %r" % v)
        ep = os.path.join(ctx.scratch, "edges-%s.ndjson" % v)
        write_ndjson(ep, edges)
        if v == "ideal":
            contract_edges = ep
        ctx.drive(drv, ["-mode", "edges", "-in", ep, "-variant", v, "-targets", ",".join(targets),
                        "-dir", os.path.join(ctx.scratch, "db-" + v)] + skip, name="c23-edges-" + v, timeout=T)
    if ctx.thorough:
        # the 0xff universe (prefix upper bounds) on the contract targets
        res = ctx.model_check("store/MCKV", "store/MCKVEdgesFF", tags=("EDGE",), timeout=T, name="MCKVEdgesFF", workers=4)
        ep = os.path.join(ctx.scratch, "edges-ff.ndjson")
        write_ndjson(ep, parse_edges(res))
        ctx.drive(drv, ["-mode", "edges", "-in", ep, "-variant", "ideal", "-targets", ",".join(variants[0][1]),
                        "-dir", os.path.join(ctx.scratch, "db-ff")] + skip, name="c23-edges-ff", timeout=T)
    # the pure contract replayed on the deviating targets: nothing but the known deviations may show up
    deviating = [t for t in ("mem", "tmem") + (("tpebble", "leveldb", "tleveldb") if ctx.thorough else ()) if assign[t] != "ideal"]
    if deviating and contract_edges:
        s, _ = ctx.drive(drv, ["-mode", "edges", "-pending", "-variant", "ideal", "-in", contract_edges, "-targets", ",".join(deviating),
                               "-dir", os.path.join(ctx.scratch, "db-pending")] + skip, name="c23-contract-on-deviating", timeout=T)
        for f, n in sorted((s.get("extra", {}).get("pending_findings") or {}).items()):
            ctx.notes.append("contract transitions diverging on deviating targets: %s: %d" % (f, n))
    # V: recorded random call sequences per target, validated with the constants of that target
    prefix = os.path.join(ctx.scratch, "tr")
    alltargets = [t for _, ts in variants for t in ts]
    ntr = ctx.pick(4, 30)
    s, _ = ctx.drive(drv, ["-mode", "record", "-trace-prefix", prefix, "-targets", ",".join(alltargets),
                           "-n", ntr, "-steps", ctx.pick(400, 1000), "-dir", os.path.join(ctx.scratch, "db-rec")] + skip,
                     name="c23-record", timeout=T)
    for v, targets in variants:
        # traces of the targets sharing one constant assignment are concatenated (each starts with a reset event)
        tp = "%s-var-%s.ndjson" % (prefix, v)
        if not all(os.path.exists("%s-%s.ndjson" % (prefix, t)) for t in targets):
            continue      # the recording driver died (already reported as a violation by ctx.drive)
        with open(tp, "w") as out:
            for t in targets:
                out.write(open("%s-%s.ndjson" % (prefix, t)).read())
        ok, consumed, total, r = ctx.validate("store/KVTrace", tp, cfg="store/KVTrace" + SUFFIX[v], ntraces=ntr * len(targets), timeout=T,
                                              name="KVTrace-" + "+".join(targets))
        if not ok:
            ctx.reject_trace("store/KVTrace", tp, consumed, r, cfg="store/KVTrace" + SUFFIX[v],
                             desc="[%s] recorded trace rejected by KVTrace (%s) at event %d" % ("+".join(targets), v, consumed + 1))
    return ctx.finish(rule="MC: all call sequences over the cfg universes; R: all graph edges on all six targets; V: random sequences per target",
                      assumptions=["single batch and single iterator at a time (sequential interface use)",
                                   "a written batch is only Reset or Replayed (pebble forbids re-committing)",
                                   "Key()/Value() observed only after Next() returned true",
                                   "keys shorter than the 32-byte 0xff marker ethdb.MaximumKey",
                                   "deviations found by the start-up probe (C23-F1..F3) bind the target to KV.tla with the matching Q* constant and are tolerated only as open known findings; C23-F4 (panic): the call is not issued on leveldb targets"])
