"""C09 - Range proofs accept exactly the true ranges."""
import os
from vcheck import write_json, InfraError

META = {
    "property_id": "C09",
    "level": "model_checking",
    "technique": "TLA+ ground-truth spec of range proofs (RangeProof.tla over Proof.tla / MPT.tla: RangeOK, More, needed edge-proof nodes) and a step-by-step TLA+ model of the verification algorithm of trie/proof.go (RangeProofAlg.tla: proofToPath, unsetInternal/unset, re-insertion, cached hashes, hasRightElement) proved equivalent by TLC; the TLC verdict table (all contiguous runs, all single tamperings, proof-node subsets) replayed on trie.VerifyRangeProof with genuine nodes; recorded 32-byte-key calls validated against RangeProofTrace.tla",
    "text": "TLC enumerates every key-value set over small key universes, every start key, every contiguous run and every single tampering of one (drop, alter, empty value, inject, swap) and establishes the characterisation RangeOK <=> honest run, the more-flag, that honest edge proofs suffice while withholding any needed node does not, and (AlgInv) that the modelled algorithm accepts exactly the true ranges with the right more-flag and reaches no panic for the complete proof database, exactly the needed nodes and every database with one node withheld. Every row is executed on the real verifier: complete proof database, no proof, exactly the needed nodes, the real Prove output and each node withheld; expected (accepted, more) from the table, panics are violations. Random dense/sparse tries over 32-byte keys with random runs, start keys and tamperings are recorded with rank-compressed keys and every call is validated by TLC against RangeOK / More.",
    "note": "Trusts TLC, triekit's key/value embedding, and opaque injective hashes in the model (forged nodes that are not genuine trie nodes are outside the statement). Fixed-length keys. For the empty trie there is no root node: a call with a non-nil proof is rejected by the implementation and the model alike; completeness is stated for non-empty tries (the empty trie verifies with proof = nil). The algorithm model is bound to the code through its verdicts (same table), not by stepping the Go code.",
    "design_ref": "3.2 C09",
}

T = 3600


def run(ctx):
    drv = ctx.build("c09")
    for cfg, pad in ctx.pick([("trie/MCRangeProofQuick", 1), ("trie/MCRangeProof2Quick", 0)],
                             [("trie/MCRangeProofThorough", 1), ("trie/MCRangeProof2Thorough", 0)]):
        res = ctx.model_check("trie/MCRangeProof", cfg, tags=("CASE",), timeout=T * 2, workers=4, name=os.path.basename(cfg))
        rows = res.lines.get("CASE", [])
        if not rows:
            raise InfraError("no rows emitted")
        rp = os.path.join(ctx.scratch, os.path.basename(cfg) + ".json")
        write_json(rp, rows)
        ctx.drive(drv, ["-mode", "rows", "-in", rp, "-pad", pad], name="c09-rows-" + os.path.basename(cfg), timeout=T)
    tp = os.path.join(ctx.scratch, "trace.ndjson")
    s, _ = ctx.drive(drv, ["-mode", "record", "-trace", tp, "-n", ctx.pick(60, 800)], name="c09-record", timeout=T)
    ok, consumed, total, r = ctx.validate("trie/RangeProofTrace", tp, ntraces=s["traces"], timeout=T * 2)
    if not ok:
        ctx.reject_trace("trie/RangeProofTrace", tp, consumed, r)
    return ctx.finish(rule="MC: all tries with <=2-3 entries over 8 three-nibble / 4-9 two-nibble keys x all start keys x all runs and single tamperings; R: the whole verdict table; V: random 32-byte-key tries",
                      assumptions=["hashes opaque and injective in the model", "proof databases consist of genuine trie nodes", "fixed-length keys"])
