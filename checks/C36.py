"""C36 - Blocks built locally are valid blocks."""
import os
from vcheck import write_json, InfraError

META = {
    "property_id": "C36",
    "level": "model_checking",
    "technique": "TLA+ spec Builder.tla (miner commitTransactions loop + importer gas-pool rule) model-checked with TLC; TLC-sampled pool scenarios realised on a real BlockChain + miner through a harness SubPool and compared with the model; every built block imported on a second chain and through catalyst NewPayload; recorded builds (also from the real legacypool) validated by TLC against BuilderTrace.tla",
    "text": "Builder.tla transcribes the for-loop of miner.commitTransactions (gas floor, blob-space clearing, plain/blob heap choice, Pop vs Shift per error class, 1D and EIP-8037 2D gas pool) and the importer's gas-pool checks. TLC explores every bounded pool snapshot (accounts x nonce-ordered transactions x gas shapes x tips x error classes x blob counts x limits) and checks that the built list respects nonce order and limits and that the importer accepts it. TLC then samples larger scenarios; each is realised with signed transactions (valid, nonce-too-low, nonce-too-high, underfunded, evicted, blob-carrying) served by a harness-owned txpool.SubPool to the real miner on Cancun/Prague/Osaka/Amsterdam chains; included and tried-and-reverted transactions and gas used must equal the model's. Every built block is imported by BlockChain.InsertBlockWithoutSetHead/InsertChain on a second chain instance (parallel and sequential processor on Amsterdam) and submitted to catalyst NewPayloadV3/V4/V5, which must answer VALID with equal roots. A second driver runs random interacting transactions through the real legacypool of an eth service over consecutive blocks with random payload attributes; each build is logged with per-transaction outcomes measured by re-execution and TLC recomputes the loop (BuilderTrace.tla).",
    "note": "Trusts TLC and the harness re-execution that measures per-transaction gas (core.ApplyTransaction on the parent state). Block size limit and the interrupt/timeout path of commitTransactions are not modelled (Recommit is set to 30 s; pools are far below the size limit). Blob transactions in the random-pool driver are not generated (valid KZG proofs are too slow for the quick tier); blob limits are covered by the scenario driver with placeholder sidecars. Set-code transactions are not fed to the pools.",
    "design_ref": "3.5 C36",
}


def run(ctx):
    drv = ctx.build("c36")
    # MC: the loop and the importer on every bounded pool snapshot
    ctx.model_check("chain/MCBuilder", ctx.pick("chain/MCBuilder", "chain/MCBuilderThorough"), timeout=ctx.pick(900, 3600),
                    name="MCBuilder", workers=4, coverage=ctx.thorough)
    ctx.model_check("chain/MCBuilder", "chain/MCBuilderAms", timeout=ctx.pick(900, 3600), name="MCBuilderAms", workers=4)
    # R: TLC-sampled scenarios realised on the real miner
    res = ctx.tlc("chain/MCBuilder", "chain/MCBuilderSim", simulate="num=%d" % ctx.pick(40, 500), depth=40, tags=("CASE",),
                  timeout=ctx.pick(900, 3600), workers=2, name="MCBuilderSim")
    if res.timeout or res.error or res.violated:
        raise InfraError("TLC simulation of MCBuilder failed: %s\n%s" % (res.error or res.violated or "timeout", res.stdout[-2000:]))
    cases = res.lines.get("CASE", [])
    if not cases:
        raise InfraError("no scenarios emitted")
    cp = os.path.join(ctx.scratch, "cases.json")
    write_json(cp, cases)
    t1 = os.path.join(ctx.scratch, "cases.ndjson")
    s1, _ = ctx.drive(drv, ["-mode", "cases", "-in", cp, "-trace", t1], name="c36-cases", timeout=ctx.pick(900, 5400))
    ok, consumed, total, r = ctx.validate("chain/BuilderTrace", t1, ntraces=s1["traces"], timeout=ctx.pick(600, 3600))
    if not ok:
        ctx.reject_trace("chain/BuilderTrace", t1, consumed, r)
    # V: real pools, random transactions, consecutive blocks
    t2 = os.path.join(ctx.scratch, "random.ndjson")
    s2, _ = ctx.drive(drv, ["-mode", "random", "-trace", t2, "-rounds", ctx.pick(4, 12), "-txs", ctx.pick(30, 60)],
                      name="c36-random", timeout=ctx.pick(600, 3600))
    ok, consumed, total, r = ctx.validate("chain/BuilderTrace", t2, ntraces=s2["traces"], timeout=ctx.pick(600, 3600))
    if not ok:
        ctx.reject_trace("chain/BuilderTrace", t2, consumed, r)
    return ctx.finish(rule="MC: all pool snapshots within the cfg bounds; R: TLC-sampled scenarios x {one legacy-gas fork, amsterdam}; V: random pools on the real legacypool, consecutive blocks per fork",
                      assumptions=["per-transaction outcome classes are inputs of the loop model (measured by re-execution)",
                                   "block size limit and interrupts not modelled", "time ties between equal tips avoided by construction"])
