"""C21 - Hash-scheme garbage collection never drops live nodes."""
import os, json
from vcheck import parse_edges, write_json, InfraError

META = {
    "property_id": "C21",
    "level": "model_checking",
    "technique": "TLA+ spec of the hashdb reference-counting cache (HashDB.tla) model-checked with TLC over node DAGs with sharing; every transition of the state graphs of DAGs derived from real tries replayed on triedb/hashdb.Database (white-box projection + black-box reads); recorded random histories validated against HashDBTrace.tla",
    "text": "HashDB.tla models insert/reference/dereference/Cap/Commit as the code does them (including skipped re-inserts, uncounted children, the clamp at zero and counters left behind by flushes). TLC explores all client histories over a built-in DAG and over DAGs built from real account/storage tries (shared storage tries, shared subtrees, A->B->A re-delivery, dirty-but-equal nodes) and checks: every node below a referenced root is cached or persisted, the flush-list is exactly the cache, the size counters equal the cached contents, persisted/cached nodes have available descendants, and unpersisted garbage never stays cached. Each transition of those graphs is executed on a real hashdb.Database and the complete white-box state (counters, external children, flush order, disk, sizes) plus black-box reads of every node must match; random long histories on larger tries are validated step by step by TLC.",
    "note": "Trusts TLC, the export accessor triedb/hashdb/verif_export_gc.go and the id mapping of harness/cmd/c21. Commit is modelled as atomic (batches below IdealBatchSize). Strict reading of the second clause (no node reachable only from released roots stays cached) is probed separately: the model shows, and the replay on hashdb confirms, that a node re-delivered after a partial flush can stay cached until the next Cap; see spec/state/NOTES.md and known_findings.json C21-F1.",
    "design_ref": "3.3 C21",
}


def tla(x):
    if isinstance(x, list):
        return "<<" + ", ".join(tla(y) for y in x) + ">>"
    if isinstance(x, dict):
        return "[" + ", ".join("%s |-> %s" % (k, tla(v)) for k, v in x.items()) + "]"
    return str(x)


def world_module(ctx, name, base, world_path, edge_depth=None):
    """Write a module <name> in the scratch dir that EXTENDS <base> and binds the world constants."""
    w = json.load(open(world_path))
    ext = "<<" + ", ".join("{" + ", ".join(str(e) for e in es) + "}" for es in w["ext"]) + ">>"
    body = ["---- MODULE %s ----" % name, "EXTENDS " + base,
            "WNumNodes == %d" % w["n"],
            "WKids == " + tla(w["kids"]),
            "WExtOf == " + ext,
            "WSize == " + tla(w["size"]),
            "WMeta == %d" % w["meta"],
            "WVersions == " + tla(w["versions"])]
    if edge_depth is not None:
        body.append("WEdgeDepth == %d" % edge_depth)
    body.append("====")
    path = os.path.join(ctx.scratch, name + ".tla")
    open(path, "w").write("\n".join(body) + "\n")
    return path[:-4], w


def replay_world(ctx, drv, scen, idx, limit_edges):
    wp = os.path.join(ctx.scratch, "world%d.json" % idx)
    ctx.drive(drv, ["-mode", "world", "-scenario", scen, "-world", wp], name="c21-world%d" % idx)
    w0 = json.load(open(wp))
    # small graphs are replayed completely, larger ones up to a fixed distance from the initial state
    depth = 999 if (w0["n"] <= 7 or (w0["n"] <= 8 and len({v["root"] for v in w0["versions"]}) <= 2)) else ctx.pick(9, 11)
    mod, w = world_module(ctx, "MCHashDBW%d" % idx, "MCHashDBBase", wp, edge_depth=depth)
    res = ctx.model_check(mod, "state/MCHashDBEdges", tags=("EDGE",), timeout=3600,
                          name="MCHashDBEdges[scenario %s, %d nodes, edges to depth %d]" % (scen, w["n"], depth), workers=ctx.pick(4, 8))
    edges = parse_edges(res)
    if not edges:
        raise InfraError("no edges emitted for scenario %s" % scen)
    ep = os.path.join(ctx.scratch, "edges%d.json" % idx)
    write_json(ep, edges)
    ctx.drive(drv, ["-mode", "edges", "-scenario", scen, "-in", ep], name="c21-edges[scenario %s]" % scen, timeout=3600)
    return mod


def probe_garbage(ctx, drv, scen, idx):
    """Strict second clause on one world: TLC looks for a state with cached garbage; a model
    counter-example is replayed on hashdb and only counts if the real database reproduces it."""
    wp = os.path.join(ctx.scratch, "gworld%d.json" % idx)
    ctx.drive(drv, ["-mode", "world", "-scenario", scen, "-world", wp], name="c21-gworld%d" % idx)
    mod, w = world_module(ctx, "MCHashDBG%d" % idx, "MCHashDBBase", wp, edge_depth=0)
    res = ctx.tlc(mod, "state/MCHashDBGarbage", tags=("CEX",), timeout=3600, workers=ctx.pick(4, 8),
                  name="MCHashDBGarbage[scenario %s]" % scen)
    if res.timeout:
        raise InfraError("TLC timeout (garbage probe)")
    cex = res.lines.get("CEX", [])
    if res.ok and not cex:
        ctx.log("garbage probe scenario %s: strict clause holds on this world (%d states)" % (scen, res.distinct))
        ctx.cov["states"] += res.distinct; ctx.cov["transitions"] += res.generated
        return
    if not cex:
        raise InfraError("garbage probe failed: %s\n%s" % (res.error, res.stdout[-2000:]))
    c = cex[0]
    # only the final state is known from the model: the driver compares there
    pp = os.path.join(ctx.scratch, "cex%d.json" % idx)
    write_json(pp, {"acts": c["acts"], "final": c["final"]})
    s, _ = ctx.drive(drv, ["-mode", "path", "-scenario", scen, "-in", pp], name="c21-garbage-replay[scenario %s]" % scen)
    ex = s.get("extra", {})
    if not ex.get("reproduced"):
        # the behaviour is one of HashDB.tla, so a conforming implementation ends in the same state
        ctx.violation("hashdb does not follow HashDB.tla on the behaviour %s: %s" % (
            " ".join(a["op"] + str(a.get("v", a.get("r", a.get("limit", "")))) for a in c["acts"]), s.get("notes")),
            {"kind": "behaviour", "driver": "c21-path", "scenario": scen, "acts": c["acts"], "final_model_state": c["final"],
             "notes": s.get("notes"), "seed": ctx.seed, "tier": ctx.tier})
        return
    garbage, persisted = ex.get("garbage", []), ex.get("garbage_all_persisted")
    desc = ("hashdb keeps node(s) %s cached although they are reachable only from released roots (after: %s)"
            % (garbage, " ".join(a["op"] + str(a.get("v", a.get("r", a.get("limit", "")))) for a in c["acts"])))
    replay = {"kind": "behaviour", "driver": "c21-path", "scenario": scen, "acts": c["acts"], "final_model_state": c["final"],
              "cached_garbage": garbage, "garbage_all_persisted": persisted, "seed": ctx.seed, "tier": ctx.tier}
    if garbage and persisted and ctx.known_finding("C21-F1"):
        # known_findings.json C21-F1: a node that was flushed by Cap and is re-delivered by a later Update
        # while its parent is still cached is never counted by that parent; once the parent is flushed too,
        # releasing every root leaves the node cached until the next Cap/Commit.  Only this fingerprint
        # (every garbage node already persisted) is covered; unpersisted garbage is always a violation.
        ctx.cov.setdefault("known_finding_replays", []).append(replay)
        ctx.log("C21-F1 reproduced: nodes %s stay cached after all roots are released" % garbage)
        return
    if garbage:
        ctx.violation(desc, replay)


def run(ctx):
    drv = ctx.build("c21")
    # MC: the built-in DAG, independent of the Go side
    def static_mc():
        ctx.model_check("state/MCHashDB", "state/MCHashDB" if not ctx.thorough else "state/MCHashDBThorough",
                        timeout=3600, name="MCHashDB", workers=ctx.pick(4, 8), coverage=ctx.thorough)

    # R: DAGs from real tries: exhaustive MC, every edge replayed on hashdb.Database
    scen_fixed = [0, 1, 2, 3, 4]
    if ctx.thorough:
        scens = scen_fixed + [-1, -2, -3]
    else:
        # scenario 2 (storage toggled S -> S' -> S: re-delivered storage root and leaf) always, one more
        # fixed pattern and one random history per seed
        scens = [2, [0, 4, 1, 3][ctx.seed % 4], -1]

    def worlds():
        for i, sc in enumerate(scens):
            replay_world(ctx, drv, sc, i, None)

    # V: random long histories on larger tries validated by the trace specification
    def traces():
        # "fat": 60 KB storage values; every history commits the first state (three such leaves) while it is
        # fully cached, so Commit writes and uncaches in more than one batch (ethdb.IdealBatchSize)
        runs = [("", ["-n", ctx.pick(40, 300), "-steps", ctx.pick(80, 120), "-cleans", ctx.pick(0, 1 << 20)]),
                ("fat", ["-n", ctx.pick(8, 60), "-steps", ctx.pick(40, 100), "-cleans", 1 << 20, "-fat", 60000])]
        for tag, args in runs:
            tp = os.path.join(ctx.scratch, "trace%s.ndjson" % tag)
            wp = os.path.join(ctx.scratch, "tworld%s.json" % tag)
            s, _ = ctx.drive(drv, ["-mode", "record", "-trace", tp, "-world", wp] + args, name="c21-record" + tag)
            if tag == "fat" and not s.get("violations") and not s.get("extra", {}).get("commits_spanning_batches"):
                raise InfraError("no commit of the large-value histories spans two write batches")
            if s.get("violations"):
                continue
            mod, w = world_module(ctx, "HashDBTraceW" + tag, "HashDBTrace", wp)
            ok, consumed, total, r = ctx.validate(mod, tp, cfg="state/HashDBTrace", ntraces=s["traces"], timeout=3600)
            if not ok:
                ctx.reject_trace("state/HashDBTrace", tp, consumed, r)

    def garbage():
        probe_garbage(ctx, drv, 2, 0)

    static_mc()
    worlds()
    traces()
    garbage()
    return ctx.finish(rule="MC: all client histories (build/reference/release/cap at every flush boundary/commit, MaxRef=1) over the built-in DAG and over DAGs of real trie histories; R: every edge of those graphs on hashdb.Database; V: random histories on larger tries",
                      assumptions=["Commit modelled as atomic (its intermediate batch writes are not observed; histories with 60 KB storage values make commits span several batches)",
                                   "client builds states only on readable parents and references only readable roots",
                                   "node hashes are collision free (ids by hash)"])
