"""C20 - Path database recovers consistently from crashes at every crash point."""
import os

META = {
    "property_id": "C20",
    "level": "model_checking",
    "technique": "TLA+ spec of the durable-write sequences of pathdb operations and of reopen (PathDBCrash.tla on PathDBHist.tla) model-checked with TLC over every crash point and freezer loss; crash images (key-value content + all freezer files, unsynced content kept or lost) materialised from a real pathdb.Database at every key-value write and freezer fsync, each reopened in a child process and judged by TLC against PathDBCrashTrace.tla",
    "text": "TLC explores every operation (flatten, commit, rollback, journal) as its sequence of durable writes in the code's order, a crash after every prefix with every surviving freezer prefix above the sync point, and reopen as written in loadJournal/loadLayers/repairHistory, and checks that the database reopens, that the disk layer reads as the state it is labelled with, that the freezer ends at and links up with the disk layer, that the persistent id never runs ahead of synced histories and that rollback from the recovered state works. On the real code the harness records random histories while observing every key-value write and every freezer fsync; each distinct on-disk image is reopened by a child process which projects the freezer before the database touches it, the recovered database, and a rollback to a recoverable root. TLC accepts a probe only if the image's durable state is one the specification allows during that operation (write order and sync points of the real code) and the recovered state and the rollback result are exactly what the specification computes.",
    "note": "Key-value writes are taken as durable once written (memorydb under a recording wrapper); freezer loss = every fsynced file reverts to its content at its last fsync (plus the no-loss variant); tearing inside freezer files is C24's subject. Unique state roots (counter account). One situation is recorded as finding C20-F1 (spec/state/NOTES-pathdb-hist.md; tolerated only via known_findings.json): a journal left from an earlier clean shutdown is restored after a crash although a rollback has since abandoned its branch (database refuses to open or history/state misaligned); probes in that situation are tagged by harness and spec alike and their outcome is not judged.",
    "design_ref": "3.3 C20",
}


def run(ctx):
    drv = ctx.build("c20")
    for cfg in (("state/MCPathDBCrash",) if not ctx.thorough else ("state/MCPathDBCrash", "state/MCPathDBCrashB")):
        ctx.model_check("state/PathDBCrash", cfg, timeout=ctx.pick(3600, 14400), name=os.path.basename(cfg),
                        workers=ctx.pick(4, 8), coverage=ctx.thorough)
    tp = os.path.join(ctx.scratch, "trace.ndjson")
    s, _ = ctx.drive(drv, ["-mode", "record", "-trace", tp, "-n", ctx.pick(4, 60), "-steps", ctx.pick(14, 18),
                           "-images", ctx.pick(200, 10000)], name="c20-record", timeout=ctx.pick(5400, 21600))
    # Pending genuine defect C20-F1: harness and specification flag the situation independently and must
    # agree; the outcome of those probes is not judged while known_findings.json lists it as open.
    kf = s.get("counts", {}).get("KF1:stale-journal", 0)
    if kf and not ctx.known_finding("C20-F1", "%d crash image(s)" % kf):
        ctx.violation("C20-F1: a journal of an abandoned branch is restored after a crash (%d crash image(s))" % kf,
                      {"kind": "finding", "id": "C20-F1", "count": kf, "seed": ctx.seed, "tier": ctx.tier,
                       "replay": "spec/state/replays/C20-KF1-stale-journal-refused.ndjson"})
    ok, consumed, total, r = ctx.validate("state/PathDBCrashTrace", tp, ntraces=s.get("counts", {}).get("Crash", 0),
                                          timeout=ctx.pick(3600, 14400))
    if not ok:
        ctx.reject_trace("state/PathDBCrashTrace", tp, consumed, r)
    return ctx.finish(rule="MC: every crash point and freezer loss along all behaviours of the small model; XF: every distinct crash image along random histories reopened in a child process",
                      assumptions=["key-value writes durable once written", "freezer loss at file granularity (last fsynced content)",
                                   "unique state roots", "freezer repair itself correct (C24)"])
