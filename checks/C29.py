"""C29 - Static and reverted frames have no lasting effects."""
import os, re
from vcheck import write_json

META = {
    "property_id": "C29",
    "level": "model_checking",
    "technique": "TLA+ frame-isolation spec (Frames.tla: per-frame entry snapshot, exact restore on revert/halt, no change but warmth under STATICCALL) model-checked with TLC over all nesting shapes; projections of the real StateDB recorded by a tracer at every frame entry/exit (and every instruction inside static contexts) validated against FramesTrace.tla",
    "text": "Frames.tla keeps a stack of frames, each with the observable state (balances, nonces, code, self-destruct flags, storage, transient storage, log count, refund counter, warm accounts and slots over a small universe) it was entered with; a frame that reverts or halts must leave exactly that state (a started creation keeps the creator's nonce increment and the new address warm), and while a static frame is on the stack only warmth may change. TLC shows on every nesting shape that marks of failed frames, of frames below them and of static frames never survive. The driver runs random wrapper contracts (CALL/STATICCALL/DELEGATECALL/CALLCODE/CREATE/CREATE2 around random callees that write, revert, fail, run out of gas) and a directed matrix frame kind x inner effect (storage set/clear/re-create, transient storage, log, value transfer, cold accesses, creation, self-destruct, nested successful write) x inner ending (stop, revert, invalid, out of gas) x outer frame stops/reverts, under every rule set with a tracer that projects the real StateDB; TLC validates every event as a step of the specification.",
    "note": "Trusts TLC, the OnEnter/OnExit/OnOpcode callbacks and the projection in harness/cmd/c29 (universe: the fixed accounts plus every account that appears as caller/callee/created contract, at most 14; slots 0..3). Account existence (empty vs absent) is not part of the projection. The replay leg planned in DESIGN (TLC-enumerated nesting shapes compiled to contracts) is not implemented: the binding is trace validation only.",
    "design_ref": "3.5 C29",
}

def why(res):
    return sorted(set(re.findall(r'<<"WHY", "([A-Za-z0-9_]+)", \d+>>', res.stdout or "")))

def run(ctx):
    drv = ctx.build("c29")
    ctx.model_check("evm/MCFrames", "evm/MCFrames" if not ctx.thorough else "evm/MCFramesThorough",
                    timeout=ctx.pick(1800, 3600), name="MCFrames", workers=4, coverage=ctx.thorough)
    tp = os.path.join(ctx.scratch, "trace.ndjson")
    s, _ = ctx.drive(drv, ["-mode", "record", "-trace", tp, "-n", ctx.pick(60, 1000), "-maxevents", ctx.pick(250, 600)],
                     name="c29-record", timeout=1800)
    ok, consumed, total, r = ctx.validate("evm/FramesTrace", tp, ntraces=s["traces"], timeout=ctx.pick(1800, 7200))
    if not ok:
        rules = why(r)
        ctx.reject_trace("evm/FramesTrace", tp, consumed, r,
                         desc="frame event rejected by FramesTrace at event %d%s%s" % (
                             consumed + 1, (" (invariant %s)" % r.violated) if r.violated else "",
                             (": broken rule " + ",".join(rules)) if rules else ""))
    return ctx.finish(rule="MC: all nesting shapes up to MaxDepth/MaxFrames with marks, warm-ups, failures; V: seeded wrapper programs and the directed kind x effect x ending x outer matrix, x rule sets; every frame entry/exit and every instruction in static contexts",
                      assumptions=["projection over at most 14 accounts and slots 0..3", "existence of empty accounts not observed"])
