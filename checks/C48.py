"""C48 - Snap protocol responses are valid for any request."""
import os
from vcheck import write_json

META = {
    "property_id": "C48",
    "level": "model_checking",
    "technique": "TLA+ spec of the snap serving functions (SnapServe.tla) checked by TLC over every request of a bounded universe; every enumerated request executed on the real ServiceGet*Query (hash and path scheme) and verified with the real client-side trie.VerifyRangeProof; recorded random requests validated by SnapServeTrace.tla",
    "text": "SnapServe.tla transcribes the account-range, storage-range and bytecode serving loops over a rank-compressed world and states C48 declaratively (contiguous run from the first key at or after the origin, only the last item may reach the limit or exceed the byte budget, storage lists without proof are complete tries, bytecodes answer a prefix of the request). TLC checks the statement for every request over a small world (all origin/limit positions including inverted ranges, budgets around every cumulative size, unknown roots/accounts/codes) and prints each request with the expected response; the driver builds that world as a real chain (both state schemes), executes every request on the real Service functions, requires the identical response, the state's bodies, and acceptance by the real client-side trie.VerifyRangeProof with the right continuation flag; panics are caught and reported. Random requests on larger random worlds (odd-length origins, >2MB budgets, trie-node path sets incl. malformed ones checked positionally against a node-iterator oracle) are recorded and validated by the trace specification.",
    "note": "Finding C48-F1 (GetStorageRanges with zero/absent origin and a limit below the last slot returned a truncated list without proof) was found by this check and is fixed in /repo (622c6db25f); the spec describes the fixed behaviour and the reverse patch is mutation C48-7. GetTrieNodes is checked by a Go-side oracle (not modelled in TLA+); its lookup-count and 5 s wall-clock cut-offs are not exercised. Worlds are genesis states.",
    "design_ref": "3.7 C48",
}

T = 3600

def run(ctx):
    drv = ctx.build("c48")
    spec = os.path.join(os.path.dirname(os.path.dirname(os.path.abspath(__file__))), "spec", "net")
    # MC: the statement on a fixed small world (model only)
    ctx.model_check("net/MCSnapServe", "net/MCSnapServe", env={"WORLD": os.path.join(spec, "SnapWorldSmall.json")},
                    timeout=T, name="MCSnapServe-fixed-world", workers=4)
    # R: the seeded world of the driver, all requests enumerated by TLC, executed on the real handlers
    for k in range(ctx.pick(1, 4)):
        wp = os.path.join(ctx.scratch, "world-%d.json" % k)
        env = {"VERIF_SEED": str(ctx.seed * 10 + k)}
        ctx.drive(drv, ["-mode", "world", "-world", wp], name="c48-world", timeout=T, env=env)
        res = ctx.model_check("net/MCSnapServe", "net/MCSnapServeCases", env={"WORLD": wp}, tags=("CASE",), timeout=2 * T,
                              name="MCSnapServe-cases-%d" % k, workers=4)
        cases = res.lines.get("CASE", [])
        if not cases:
            raise Exception("no cases emitted")
        cp = os.path.join(ctx.scratch, "cases-%d.json" % k)
        write_json(cp, cases)
        res.lines.clear()
        ctx.drive(drv, ["-mode", "cases", "-in", cp], name="c48-cases-%d" % k, timeout=T, env=env)
        os.remove(cp)
    # V: random requests on larger worlds
    tp = os.path.join(ctx.scratch, "trace.ndjson")
    s, _ = ctx.drive(drv, ["-mode", "record", "-trace", tp, "-n", ctx.pick(4, 30), "-req", ctx.pick(500, 1000)], name="c48-record", timeout=T)
    ok, consumed, total, r = ctx.validate("net/SnapServeTrace", tp, ntraces=s["traces"], timeout=2 * T)
    if not ok:
        ctx.reject_trace("net/SnapServeTrace", tp, consumed, r)
    return ctx.finish(rule="MC/R: every request over a 5-account world (storage tries up to 6 slots, 2 codes): all origin/limit positions, budgets around each cumulative size; V: random requests on 20-80 account worlds",
                      assumptions=["genesis states", "rank compression: a hash between two keys is represented by key+1, key-1 or the midpoint",
                                   "trie-node serving checked against a Go node-iterator oracle only"])
