"""C03 - Signing and sender recovery are inverse and strict; cgo and pure-Go secp256k1 agree."""
import json, os
from vcheck import write_json, InfraError

META = {
    "property_id": "C03",
    "level": "model_checking",
    "technique": "TLA+ decision table (Signer.tla) enumerated by TLC and realised row by row with real keys on core/types; sender-cache behaviours replayed; driver built with cgo and without, logs zipped into one trace validated by SignerTrace.tla",
    "text": "Signer.tla states, from the Yellow Paper, EIP-2, EIP-155, EIP-2718 and the typed-transaction EIPs, which outcome (recovers the signer / recovers another address / unsupported type / wrong chain id / invalid signature) sender recovery must have for every signer kind (Frontier..Prague, constructors and MakeSigner at every fork), chain id (0, 1, 1337, > 64 bit), transaction type and signature class (v encoding, parity, r and s range classes incl. the n/2 boundary, honest/malleated/foreign preimage). TLC checks the table laws (sign-then-recover, cross-signer attribution, high-s only pre-Homestead, range strictness, forward compatibility) and prints every row; the driver produces a real signature for each row, edits it into the class and compares types.Sender/Signer.Sender; signing hashes are recomputed from the EIP field lists; repeated Sender calls on one object must follow the cache machine. The same driver is built with CGO_ENABLED=1 and 0; both logs (table rows, digests over all rows, and a seeded secp256k1 corpus of valid, edited and random inputs) must be identical and conform.",
    "note": "The curve arithmetic is covered only differentially (two backends, sign/recover inverse). Recognised deviations of the code from the property (exact fingerprints, spec/codec/NOTES.md): C03-F1 EIP155Signer with chain id 0 and C03-F2 signatures over digests >= n differ between backends are reported as KNOWN-FINDING while open in known_findings.json and as violations otherwise (C03-F3, pure-Go Ecrecover accepting recovery ids 4..7, was found by this check and is fixed in /repo). JSON-level signature sanity checks (sanityCheckSignature) are not covered.",
    "design_ref": "3.1 C03",
}

TAGS = ("CASE", "SIGN", "FORK", "HASHFIELDS")


def zip_logs(ctx, a_path, b_path, out_path, found):
    """event i = [op, a = cgo build, b = pure-Go build].  Matches of the recognised finding fingerprints are
    counted in `found` (id -> [count, sample]); whether they are admitted is decided in run()."""
    a = [json.loads(l) for l in open(a_path) if l.strip()]
    b = [json.loads(l) for l in open(b_path) if l.strip()]

    def hit(fid, ev):
        e = found.setdefault(fid, [0, ev])
        e[0] += 1
    with open(out_path, "a") as f:
        for i in range(max(len(a), len(b))):
            x = a[i] if i < len(a) else {"op": "missing"}
            y = b[i] if i < len(b) else {"op": "missing"}
            ev = {"op": x.get("op"), "a": x, "b": y}
            f.write(json.dumps(ev) + "\n")
            if x.get("op") == "csign" and x.get("class") == "digestGeN" and x.get("sig") != y.get("sig"):
                hit("C03-F2", ev)
            if x.get("op") == "sign" and x.get("recovered") == "Other" and x.get("sg") == {"kind": 3, "chain": 0}:
                hit("C03-F1", ev)


def run(ctx):
    d1 = ctx.build("c03", cgo=1)
    d0 = ctx.build("c03", cgo=0)
    # MC: table laws over every row; the same run prints the rows (R plan)
    res = ctx.model_check("codec/MCSigner", "codec/MCSignerFull" if ctx.thorough else "codec/MCSigner",
                          tags=TAGS, timeout=3600, workers=4, name="MCSigner(table)")
    # MC: sender-cache machine, exhaustive to depth 3, then sampled behaviours for replay
    ctx.model_check("codec/MCSigner", "codec/MCSignerCache", timeout=3600, workers=4, name="MCSigner(cache)")
    sim = ctx.tlc("codec/MCSigner", "codec/MCSignerCacheSim", simulate="num=%d" % ctx.pick(30, 400), depth=5,
                  tags=("MBT",), timeout=3600, workers=4, name="MCSigner(cache behaviours)")
    if not sim.ok:
        raise InfraError("TLC simulation failed: %s" % (sim.error,))
    mbt, seen = [], set()
    for b in sim.lines.get("MBT", []):
        k = json.dumps(b, sort_keys=True)
        if k not in seen:
            seen.add(k); mbt.append(b)
    mbt = mbt[:ctx.pick(400, 4000)]
    table = {"cases": res.lines.get("CASE", []), "signs": res.lines.get("SIGN", []), "forks": res.lines.get("FORK", []),
             "hashes": res.lines.get("HASHFIELDS", []), "mbt": mbt}
    if len(table["cases"]) < 10000 or not table["signs"] or len(table["forks"]) != 18 or len(table["hashes"]) != 6 or not mbt:
        raise InfraError("incomplete table from TLC: %s" % {k: len(v) for k, v in table.items()})
    tpath = os.path.join(ctx.scratch, "table.json")
    write_json(tpath, table)
    logs = {}
    for tag, drv in (("cgo", d1), ("nocgo", d0)):
        lt = os.path.join(ctx.scratch, "rows-%s.ndjson" % tag)
        ctx.drive(drv, ["-mode", "table", "-in", tpath, "-log", lt, "-rowlog", ctx.pick(97, 23)], timeout=3600, name="c03-table-" + tag)
        lc = os.path.join(ctx.scratch, "corpus-%s.ndjson" % tag)
        ctx.drive(drv, ["-mode", "corpus", "-log", lc, "-n", ctx.pick(120, 2500)], timeout=3600, name="c03-corpus-" + tag)
        logs[tag] = (lt, lc)
    # V: zip the logs of the two builds and validate
    tp = os.path.join(ctx.scratch, "trace.ndjson")
    open(tp, "w").close()
    found = {}
    for i in (0, 1):
        zip_logs(ctx, logs["cgo"][i], logs["nocgo"][i], tp, found)
    # Recognised deviations C03-F1/F2 are admitted only while known_findings.json lists them as open
    # (KNOWN-FINDING line); otherwise - and for anything else - the run reports a violation.
    admit = {}
    for fid in ("C03-F1", "C03-F2"):
        n = found.get(fid, [0])[0]
        admit[fid] = n > 0 and ctx.known_finding(fid)
        if n > 0 and not admit[fid]:
            ctx.violation("%s: %d event(s) show the deviation and it is not an open known finding" % (fid, n),
                          {"kind": "finding", "id": fid, "count": n, "sample": found[fid][1], "seed": ctx.seed, "tier": ctx.tier})
    env = {"ADMIT_F1": "1" if admit["C03-F1"] else "0", "ADMIT_F2": "1" if admit["C03-F2"] else "0"}
    ok, consumed, total, r = ctx.validate("codec/SignerTrace", tp, ntraces=2, timeout=3600, env=env)
    if not ok:
        ctx.reject_trace("codec/SignerTrace", tp, consumed, r)
    ctx.cov["recognised_deviations"] = {k: v[0] for k, v in found.items()}
    return ctx.finish(
        rule="MC: table laws on every (signer, tx class) row, cache machine to depth 3; R: every row realised with a real signature on both builds; V: zipped cgo/nocgo logs, every event equal and admitted by the specification",
        assumptions=["curve arithmetic itself only covered differentially (cgo vs pure Go) and by sign/recover inverse",
                     "probability-2^-128 events (recovery failure for an honest r with edited s) are ignored",
                     "recognised deviations C03-F1/F2 (open known findings) are admitted only by their exact fingerprint"])
