\* simulation mode: random behaviours of the model are printed (tag MBT) and replayed on the real pool
SPECIFICATION MCSpec
CONSTANTS Accts = {"a1", "a2"}
          MaxN = 3
          NFees = 4
          MaxBlocks = 4
          MaxInc = 2
          NBal = 3
          Deleg = TRUE
          NTips = 3
          HistLen = 14
INVARIANTS PendingGapless Affordable Disjoint AllIsUnion HeapAccounting PendingNonces BeatsDomain
CONSTRAINT Emit
CHECK_DEADLOCK FALSE
