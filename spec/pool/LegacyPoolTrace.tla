-------------------------- MODULE LegacyPoolTrace --------------------------
(* Trace validation for LegacyPool (C41): every event recorded from the real               *)
(* legacypool.LegacyPool (operation, coarse result class, full projection of the pool)      *)
(* must be a step of LegacyPool.tla whose successor state equals the projection; all C41    *)
(* invariants and action properties are evaluated on the real pool's states.                *)
EXTENDS LegacyPool, Json, IOUtils

Trace == ndJsonDeserialize(IOEnv.TRACE)

VARIABLE l
Ev == Trace[l]

ToSet(s)  == {s[i] : i \in DOMAIN s}
RECURSIVE SeqBag(_)
SeqBag(s) == IF s = <<>> THEN EmptyBag ELSE BAdd(SeqBag(Tail(s)), Head(s))
Fn(r)     == [a \in Accts |-> r[a]]
BlockOf(b) == [parent |-> b.parent, num |-> b.num, txs |-> b.txs, nonce |-> Fn(b.nonce), bal |-> Fn(b.bal),
               deleg |-> Fn(b.deleg), bf |-> b.bf]

(* the logged projection determines the whole abstract pool ... *)
PoolOf(s, P) ==
  [pend |-> [a \in Accts |-> ToSet(s.pend[a])], queue |-> [a \in Accts |-> ToSet(s.queue[a])],
   all |-> ToSet(s.all), urg |-> SeqBag(s.urg), flo |-> SeqBag(s.flo), stales |-> s.stales,
   pn |-> Fn(s.pn), beats |-> s.beats, tip |-> P.tip, bf |-> s.bf, changes |-> s.changes, st |-> P.st]
(* ... and carries redundant bookkeeping of the implementation that must agree with it:     *)
(* list cost totals, nonce-index sizes, slot counter, stats, the reservation set, the       *)
(* public pending view                                                                       *)
Bookkeeping(s, P) ==
  /\ \A a \in Accts : /\ Len(s.pend[a]) = Cardinality(P.pend[a]) /\ Len(s.queue[a]) = Cardinality(P.queue[a])
                      /\ s.ptotal[a] = SumCost(P.pend[a]) /\ s.qtotal[a] = SumCost(P.queue[a])
                      /\ s.pidx[a] = Cardinality(P.pend[a]) /\ s.qidx[a] = Cardinality(P.queue[a])
                      /\ s.pend[a] = SortByNonce(P.pend[a]) /\ s.queue[a] = SortByNonce(P.queue[a])
                      /\ s.pview[a] = s.pend[a]
  /\ Len(s.all) = Cardinality(P.all)
  /\ s.slots = SumSlots(P.all)
  /\ s.npend = SumLen(P.pend, Accts) /\ s.nqueue = SumLen(P.queue, Accts) /\ s.pcount = s.npend
  /\ ToSet(s.reserved) = {a \in Accts : P.pend[a] # {} \/ P.queue[a] # {}}
  /\ s.rerr = 0

Logged == pool' = PoolOf(Ev.state, pool') /\ Bookkeeping(Ev.state, pool')

Step(A) == l <= Len(Trace) /\ A /\ l' = l + 1

TInit == Step(/\ Ev.op = "init"
              /\ cfg' = Ev.cfg
              /\ blocks' = (0 :> BlockOf(Ev.genesis))
              /\ head' = 0
              /\ pool' = [InitPool(StateOf(BlockOf(Ev.genesis))) EXCEPT !.tip = Ev.tip]
              /\ cycled' = TRUE
              /\ gapped' = {}
              /\ last' = [op |-> "init", tx |-> 0, err |-> "ok"]
              /\ Logged)
TAdd   == Step(Ev.op = "add" /\ Add(Ev.tx) /\ last'.err = Ev.err /\ Logged)
TReset == Step(/\ Ev.op = "reset"
               /\ Reset(Ev.id, IF Ev.id \in DOMAIN blocks THEN blocks ELSE blocks @@ (Ev.id :> BlockOf(Ev.block)))
               /\ Logged)
TTip   == Step(Ev.op = "settip" /\ SetGasTip(Ev.tip) /\ Logged)

TraceInit == /\ l = 1
             /\ cfg = [bump |-> 10, aslots |-> 1, gslots |-> 1, aqueue |-> 1, gqueue |-> 1]
             /\ blocks = (0 :> [parent |-> 0, num |-> 0, txs |-> <<>>, nonce |-> [a \in Accts |-> 0],
                                bal |-> [a \in Accts |-> 0], deleg |-> [a \in Accts |-> FALSE], bf |-> 0])
             /\ head = 0
             /\ pool = InitPool(StateOf(blocks[0]))
             /\ cycled = TRUE
             /\ gapped = {}
             /\ last = [op |-> "init", tx |-> 0, err |-> "ok"]
TraceNext == TInit \/ TAdd \/ TReset \/ TTip
TraceSpec == TraceInit /\ [][TraceNext]_<<vars, l>>

TraceAccepted == TLCGet("stats").diameter - 1 = Len(Trace)
=============================================================================
