SPECIFICATION TraceSpec
CONSTANTS Accts = {"a1", "a2", "a3"}
          MaxPerAcct = 16
INVARIANTS NonceContiguous AffordableTotal IndexMatchesStore LimboRetains LimboSound PerAccountLimit
PROPERTIES TipRespected ReopenReproduces WithinCapacity
POSTCONDITION TraceAccepted
CHECK_DEADLOCK FALSE
