----------------------------- MODULE TxOrderTrace -----------------------------
(* Trace validation for C43.  Events recorded from a real                                   *)
(* txorder.TransactionsByPriceAndNonce:                                                    *)
(*   [op |-> "Snap", base, pending (per account: list of <<cap, tip, time>>)]              *)
(*   [op |-> "New", peek]                 construction; peek = Peek() right after it       *)
(*   [op |-> "Shift" | "Pop", peek]       peek = what Peek() returns after the operation   *)
(* Every event must be the corresponding action of TxOrder and the logged Peek must be the *)
(* head the specification yields; all invariants of TxOrder are evaluated after each step. *)
EXTENDS TxOrder, Json, IOUtils

Trace == ndJsonDeserialize(IOEnv.TRACE)

VARIABLE l
TraceNoBase == -1
Ev == Trace[l]

PeekRec(h, nx) == IF Len(h) = 0 THEN [acct |-> 0, idx |-> 0, fee |-> 0]
                  ELSE [acct |-> h[1], idx |-> nx[h[1]], fee |-> Eff(h[1], nx[h[1]])]
LiveSeq == SelectSeq([i \in 1..NA |-> i], LAMBDA a : FirstHeads[a] # 0)

Step(A) == l <= Len(Trace) /\ A /\ l' = l + 1

(* the snapshot is installed first (iterator not built: everything counts as discarded), so that *)
(* the construction below is evaluated on unprimed variables                                     *)
TSnap ==
  Step(/\ Ev.op = "Snap"
       /\ Len(Ev.pending) = NA
       /\ base' = Ev.base
       /\ pending' = [a \in Accts |-> [i \in 1..Len(Ev.pending[a]) |->
                         [cap |-> Ev.pending[a][i][1], tip |-> Ev.pending[a][i][2], time |-> Ev.pending[a][i][3]]]]
       /\ next' = [a \in Accts |-> 0] /\ heap' = << >> /\ done' = [a \in Accts |-> 0] /\ popped' = Accts)
TNew ==
  Step(/\ Ev.op = "New"
       /\ Built(next', heap', done', popped', LiveSeq)
       /\ UNCHANGED << pending, base >>
       /\ PeekRec(heap, next)' = Ev.peek)
TShift == Step(Ev.op = "Shift" /\ Shift /\ PeekRec(heap, next)' = Ev.peek)
TPop   == Step(Ev.op = "Pop" /\ Pop /\ PeekRec(heap, next)' = Ev.peek)

TraceInit ==
  /\ pending = [a \in Accts |-> << >>] /\ base = NoBase
  /\ next = [a \in Accts |-> 0] /\ heap = << >> /\ done = [a \in Accts |-> 0] /\ popped = {}
  /\ l = 1
TraceNext == TSnap \/ TNew \/ TShift \/ TPop
TraceSpec == TraceInit /\ [][TraceNext]_<< vars, l >>

TraceAccepted == TLCGet("stats").diameter - 1 = Len(Trace)
=============================================================================
