SPECIFICATION MCSpec
CONSTANTS NA = 5
          NoBase <- MinusOne
          Lens <- Lens21111
          KindIds = {3, 6, 7}
          Bases <- Bases2
          Tables = {3}
          SimTable = 1
          SimMinTx = 1
INVARIANTS HeadIsAvail NoYieldAfterPop HeapHoldsHeads HeapOrdered RootIsBest Complete
PROPERTIES StepYieldsBest
VIEW View
CHECK_DEADLOCK FALSE
