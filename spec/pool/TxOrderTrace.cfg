SPECIFICATION TraceSpec
CONSTANTS NA = 50
          NoBase <- TraceNoBase
INVARIANTS HeadIsAvail NoYieldAfterPop HeapHoldsHeads HeapOrdered RootIsBest Complete
POSTCONDITION TraceAccepted
CHECK_DEADLOCK FALSE
