SPECIFICATION TraceSpec
CONSTANTS Accts = {"a1", "a2", "a3"}
INVARIANTS PendingGapless Affordable Disjoint AllIsUnion HeapAccounting PendingNonces BeatsDomain
PROPERTIES ReplacementBumped LimitsAfterCycle TipRespected
POSTCONDITION TraceAccepted
CHECK_DEADLOCK FALSE
