---------------------------- MODULE BlobPool ----------------------------
(* The blob transaction pool of go-ethereum (core/txpool/blobpool), property C42.          *)
(*                                                                                         *)
(* One action per public call, observed at quiescence: Add (validateTx, store.Put, index   *)
(* update, eviction thresholds, drop while over capacity), Reset(old, new) (reorg walk,    *)
(* reinject from limbo, recheck per transactor with offload of included transactions into  *)
(* the limbo, limbo finalisation, fee update), SetGasTip, Reopen (Close + New + Init on    *)
(* the same directory) and CrashReopen (Init on a copy of the directory taken while the    *)
(* pool was running: billy does not journal deletes, so deleted entries may reappear).     *)
(*                                                                                         *)
(* Abstractions.  A transaction is [from, nonce, tip, cap, bcap, cost, bfj, blj, sz]:      *)
(* tip / fee cap / blob fee cap, total cost, the two fee-jump values the implementation    *)
(* assigns to cap and bcap (x 10^6, produced by the implementation's own functions and     *)
(* treated as opaque attributes: only their USE - running minima along the nonce chain,    *)
(* priorities, eviction order - is specified), and its stored size in capacity units.      *)
(* Store ids are opaque: allocation is a parameter (`hint` = [q, l]: the ids observed for  *)
(* the queue store and for the limbo store), see Alloc.  The eviction heap                 *)
(* is a priority queue: drop() removes the last transaction of an account with the         *)
(* smallest priority, ties are nondeterministic.  Operators that may branch                *)
(* return sets.                                                                            *)
EXTENDS Integers, Sequences, FiniteSets, TLC

CONSTANTS Accts,          \* account names
          MaxPerAcct      \* maxTxsPerAccount (16)

VARIABLES pool,           \* [idx, store, limbo, tip, hbf, hbl, st, bad]  (see InitPool)
          cfg,            \* [cap, bump]: Datacap in size units, PriceBump
          blocks,         \* block tree: id -> [parent, num, txs, nonce, bal, bfj, blj]
          head,           \* block the pool was last reset to
          final,          \* number of the finalized block at the last reset
          owed,           \* ghost: pooled transactions that were included in the canonical chain above
                          \* finality and therefore must be retained in the limbo
          stale,          \* ghost: owed transactions whose limbo entry carries another block number than
                          \* their canonical inclusion (KNOWN-FINDING (open, known_findings.json) C42-limbo-stale-block, see LimboRetains)
          misaligned,     \* ghost: accounts whose list a recheck left starting above the state nonce
                          \* (KNOWN-FINDING (open, known_findings.json) C42-recheck-gap-after-overlap, see NonceContiguous)
          last            \* ghost: [op, err] of the last operation

vars == <<pool, cfg, blocks, head, final, owed, stale, misaligned, last>>

(* ------------------------------ helpers ------------------------------ *)
Min(a, b) == IF a < b THEN a ELSE b
Range(s)  == {s[i] : i \in DOMAIN s}
Last(s)   == s[Len(s)]
Front(s)  == SubSeq(s, 1, Len(s) - 1)
RECURSIVE SumCost(_)
SumCost(s) == IF s = <<>> THEN 0 ELSE Head(s).tx.cost + SumCost(Tail(s))
RECURSIVE SumSize(_)
SumSize(s) == IF s = <<>> THEN 0 ELSE Head(s).tx.sz + SumSize(Tail(s))
RECURSIVE SumOver(_, _, _)
SumOver(Op(_), f, S) == IF S = {} THEN 0 ELSE LET a == CHOOSE a \in S : TRUE IN Op(f[a]) + SumOver(Op, f, S \ {a})
Stored(idx) == SumOver(SumSize, idx, Accts)
Txs(s)    == {s[i].tx : i \in DOMAIN s}
AllEntries(idx) == UNION {Range(idx[a]) : a \in Accts}
Perms(S) == {s \in [1..Cardinality(S) -> S] : \A i, j \in 1..Cardinality(S) : i # j => s[i] # s[j]}
FloorDiv(a, b) == a \div b                  \* TLA+ \div rounds towards minus infinity (b > 0)
CeilDiv(a, b)  == -((-a) \div b)
Unit == 1000000

(* store ids: the id given to tx is the one the caller observed (hint), else the smallest unused *)
Alloc(used, tx, hint) ==
  IF tx \in DOMAIN hint THEN hint[tx]
  ELSE CHOOSE i \in 0..(Cardinality(used) + Cardinality(DOMAIN hint)) :
         /\ i \notin used /\ i \notin Range(hint)
         /\ \A j \in 0..(i - 1) : j \in used \/ j \in Range(hint)
(* (TLCEval: functions stored in state variables are evaluated eagerly; TLC cannot spill lazy ones to disk) *)
StorePut(store, id, v) == TLCEval([i \in DOMAIN store \cup {id} |-> IF i = id THEN v ELSE store[i]])
(* store.Put never returns the id of a live entry: a branch that would need that (wrong guess of a   *)
(* Go map iteration order against the observed ids) is marked bad and discarded by the actions        *)
PutNew(p, id, v) == IF id \in DOMAIN p.store THEN [p EXCEPT !.bad = TRUE] ELSE [p EXCEPT !.store = StorePut(@, id, v)]
StoreDel(store, ids)   == TLCEval([i \in DOMAIN store \ ids |-> store[i]])

(* ------------------------------ eviction thresholds and priorities ------------------------------ *)
(* running minima along the nonce chain (the eviction fields of blobTxMeta) *)
RECURSIVE EvTip(_, _), EvBf(_, _), EvBl(_, _)
EvTip(s, i) == IF i = 1 THEN s[1].tx.tip ELSE Min(EvTip(s, i - 1), s[i].tx.tip)
EvBf(s, i)  == IF i = 1 THEN s[1].tx.bfj ELSE Min(EvBf(s, i - 1), s[i].tx.bfj)
EvBl(s, i)  == IF i = 1 THEN s[1].tx.blj ELSE Min(EvBl(s, i - 1), s[i].tx.blj)

(* evictionPriority1D / evictionPriority (priority.go), on jumps scaled by 10^6 *)
Prio1D(base, txj) == LET j == txj - base IN IF j <= 0 THEN FloorDiv(j, Unit) ELSE CeilDiv(j, Unit)
Prio(hbf, bfj, hbl, blj) == Min(0, Min(Prio1D(hbf, bfj), Prio1D(hbl, blj)))

(* the account's heap key: the priority of its last transaction's thresholds.  (The implementation *)
(* breaks ties between equal priorities by the tip threshold, but re-sorts an account only when its  *)
(* fee-jump thresholds change, so the tie-break can be stale; the property speaks of priorities, and *)
(* among equal priorities any account may be the victim.)                                            *)
KeyPrio(p, a) == Prio(p.hbf, EvBf(p.idx[a], Len(p.idx[a])), p.hbl, EvBl(p.idx[a], Len(p.idx[a])))
LessAcct(p, a, b) == KeyPrio(p, a) < KeyPrio(p, b)
Active(p) == {a \in Accts : p.idx[a] # <<>>}

(* drop(): evict the last transaction of a worst account *)
DropS(p) ==
  {LET e == Last(p.idx[a]) IN
   [p EXCEPT !.idx[a] = Front(@), !.store = StoreDel(@, {e.id})]
   : a \in {a \in Active(p) : \A b \in Active(p) : ~LessAcct(p, b, a)}}

RECURSIVE DropWhileS(_)
DropWhileS(p) == IF Stored(p.idx) > cfg.cap /\ Active(p) # {} THEN UNION {DropWhileS(q) : q \in DropS(p)} ELSE {p}

(* ------------------------------ Add ------------------------------ *)
Bumped(old, new, bump) ==
  /\ new.cap > old.cap /\ new.tip > old.tip /\ new.bcap > old.bcap
  /\ new.cap  >= (old.cap  * (100 + bump)) \div 100
  /\ new.tip  >= (old.tip  * (100 + bump)) \div 100
  /\ new.bcap >= (old.bcap * (100 + bump)) \div 100

(* validateTx: ValidateTransactionWithState (nonce order, gaps, balance, overdraft, per-account cap) *)
(* and the replacement rules                                                                         *)
Validate(p, tx) ==
  LET a    == tx.from
      s    == p.idx[a]
      next == p.st.nonce[a]
      off  == tx.nonce - next + 1            \* 1-based position in the account's list
      repl == off >= 1 /\ off <= Len(s)
      spent == SumCost(s)
      need == IF repl THEN spent + tx.cost - s[off].tx.cost ELSE spent + tx.cost IN
  IF tx.nonce < next THEN "nonce_low"
  ELSE IF tx.nonce > next + Len(s) THEN "nonce_high"
  ELSE IF p.st.bal[a] < tx.cost THEN "funds"
  ELSE IF p.st.bal[a] < need THEN "funds"
  ELSE IF ~repl /\ Len(s) >= MaxPerAcct THEN "account_limit"
  ELSE IF repl /\ s[off].tx = tx THEN "known"
  ELSE IF repl /\ ~Bumped(s[off].tx, tx, cfg.bump) THEN "replace_underpriced"
  ELSE "ok"

(* addLocked after successful validation: store.Put, replace or append, evict while over capacity *)
AddOkS(p, tx, hint) ==
  LET a   == tx.from
      s   == p.idx[a]
      off == tx.nonce - p.st.nonce[a] + 1
      id  == Alloc(DOMAIN p.store, tx, hint.q)
      e   == [tx |-> tx, id |-> id]
      p0  == PutNew(p, id, tx)                 \* the new entry is written before the old one is deleted
      p1  == IF off <= Len(s)
             THEN [p0 EXCEPT !.idx[a] = [s EXCEPT ![off] = e], !.store = StoreDel(@, {s[off].id})]
             ELSE [p0 EXCEPT !.idx[a] = Append(s, e)]
  IN DropWhileS(p1)

(* ------------------------------ recheck ------------------------------ *)
RECURSIVE SortSeqS(_)
(* sort.Slice by nonce is not stable: equal nonces (possible only after a crash) in any order *)
SortSeqS(S) == IF S = {} THEN {<<>>}
               ELSE LET m == CHOOSE n \in {e.tx.nonce : e \in S} : \A e \in S : n <= e.tx.nonce IN
                    UNION {{<<e>> \o r : r \in SortSeqS(S \ {e})} : e \in {e \in S : e.tx.nonce = m}}

(* offload: an included transaction goes to the limbo if the chain included exactly it *)
Offload(p, e, incl, hint) ==
  IF e.tx \in DOMAIN incl /\ \A x \in p.limbo : x.tx # e.tx
  THEN LET id == Alloc({x.id : x \in p.limbo}, e.tx, hint.l) IN
       [p EXCEPT !.limbo = @ \cup {[tx |-> e.tx, block |-> incl[e.tx], id |-> id]},
                 !.bad = @ \/ id \in {x.id : x \in p.limbo}]
  ELSE p
RECURSIVE OffloadSeq(_, _, _, _)
OffloadSeq(p, s, incl, hint) == IF s = <<>> THEN p ELSE OffloadSeq(Offload(p, Head(s), incl, hint), Tail(s), incl, hint)

RECURSIVE DedupGap(_, _)
(* walk the sorted list: a repeated nonce drops the later entry, a gap drops everything after it *)
DedupGap(s, i) ==
  IF i > Len(s) THEN s
  ELSE IF s[i].tx.nonce = s[i - 1].tx.nonce + 1 THEN DedupGap(s, i + 1)
  ELSE IF s[i].tx.nonce = s[i - 1].tx.nonce THEN DedupGap(SubSeq(s, 1, i - 1) \o SubSeq(s, i + 1, Len(s)), i)
  ELSE SubSeq(s, 1, i - 1)

RECURSIVE TrimOverdraft(_, _)
TrimOverdraft(s, bal) == IF s # <<>> /\ SumCost(s) > bal THEN TrimOverdraft(Front(s), bal) ELSE s

(* recheck(addr, inclusions); offl = TRUE iff inclusions # nil (reset, not init) *)
RecheckS(p, a, offl, incl, hint) ==
  IF p.idx[a] = <<>> THEN {p}
  ELSE UNION {
    LET next   == p.st.nonce[a]
        gapped == s[1].tx.nonce > next
        filled == Last(s).tx.nonce < next
        ids(t) == {t[i].id : i \in DOMAIN t}
    IN IF gapped \/ filled
       THEN LET p1 == [p EXCEPT !.idx[a] = <<>>, !.store = StoreDel(@, ids(s))]
            IN {IF filled /\ offl THEN OffloadSeq(p1, s, incl, hint) ELSE p1}
       ELSE LET low  == SelectSeq(s, LAMBDA e : e.tx.nonce < next)
                s1   == SelectSeq(s, LAMBDA e : e.tx.nonce >= next)
                p1   == IF offl THEN OffloadSeq(p, low, incl, hint) ELSE p
                s2   == DedupGap(s1, 2)
                s3   == TrimOverdraft(s2, p.st.bal[a])
                s4   == IF Len(s3) > MaxPerAcct THEN SubSeq(s3, 1, MaxPerAcct) ELSE s3
            IN {[p1 EXCEPT !.idx[a] = s4, !.store = StoreDel(@, ids(s) \ ids(s4))]}
    : s \in SortSeqS(Range(p.idx[a]))}

(* ------------------------------ Reset ------------------------------ *)
(* the reorg walk of BlobPool.reorg: transactions of the abandoned and of the adopted branch *)
RECURSIVE Walk(_, _, _, _, _)
Walk(B, rem, add, disc, incl) ==
  IF B[rem].num > B[add].num THEN Walk(B, B[rem].parent, add, disc \o B[rem].txs, incl)
  ELSE IF B[add].num > B[rem].num
       THEN Walk(B, rem, B[add].parent, disc, incl \o [i \in DOMAIN B[add].txs |-> [tx |-> B[add].txs[i], block |-> B[add].num]])
  ELSE IF rem # add
       THEN Walk(B, B[rem].parent, B[add].parent, disc \o B[rem].txs,
                 incl \o [i \in DOMAIN B[add].txs |-> [tx |-> B[add].txs[i], block |-> B[add].num]])
  ELSE [disc |-> disc, incl |-> incl]

(* limbo.pull + store.Put + index append of one reorged-out transaction *)
Reinject(p, tx, hint) ==
  IF \E x \in p.limbo : x.tx = tx
  THEN LET x  == CHOOSE x \in p.limbo : x.tx = tx
           id == Alloc(DOMAIN p.store, tx, hint.q)
       IN [PutNew(p, id, tx) EXCEPT !.limbo = @ \ {x}, !.idx[tx.from] = Append(@, [tx |-> tx, id |-> id])]
  ELSE p
RECURSIVE ReinjectSeq(_, _, _)
ReinjectSeq(p, s, hint) == IF s = <<>> THEN p ELSE ReinjectSeq(Reinject(p, Head(s), hint), Tail(s), hint)

(* limbo.update: an already tracked transaction that the new branch includes again moves to that block *)
LimboUpdate(p, tx, block, hint) ==
  IF \E x \in p.limbo : x.tx = tx /\ x.block # block
  THEN LET x == CHOOSE x \in p.limbo : x.tx = tx IN
       LET id == Alloc({y.id : y \in p.limbo} \ {x.id}, tx, hint.l) IN
       [p EXCEPT !.limbo = (@ \ {x}) \cup {[tx |-> tx, block |-> block, id |-> id]},
                 !.bad = @ \/ id \in ({y.id : y \in p.limbo} \ {x.id})]
  ELSE p

RECURSIVE PerAcctS(_, _, _, _, _, _)
PerAcctS(p, as, disc, incl, inclmap, hint) ==
  IF as = <<>> THEN {p}
  ELSE LET a     == Head(as)
           inA   == SelectSeq(incl, LAMBDA x : x.tx.from = a)
           dA    == SelectSeq(disc, LAMBDA t : t.from = a)
           lost  == SelectSeq(dA, LAMBDA t : \A i \in DOMAIN inA : inA[i].tx # t)
           again == SelectSeq(inA, LAMBDA x : \A i \in DOMAIN dA : dA[i] # x.tx)
           RECURSIVE Upd(_, _)
           Upd(q, s) == IF s = <<>> THEN q ELSE Upd(LimboUpdate(q, Head(s).tx, Head(s).block, hint), Tail(s))
       IN UNION {PerAcctS(q, Tail(as), disc, incl, inclmap, hint)
                 : q \in RecheckS(ReinjectSeq(Upd(p, again), lost, hint), a, TRUE, inclmap, hint)}

(* NOTE on evaluation order: reorg() first updates the limbo for every transactor, Reset then *)
(* reinjects and rechecks account by account in Go map order; the per-account effects commute *)
(* except for the reuse of freed store ids, so every order is a possible behaviour.            *)
ResetS(p, B, old, new, fin, hint) ==
  LET b  == B[new]
      p0 == [p EXCEPT !.st = [nonce |-> b.nonce, bal |-> b.bal]]
      w  == Walk(B, old, new, <<>>, <<>>)
      inclmap == [t \in {w.incl[i].tx : i \in DOMAIN w.incl} |->
                     LET i == CHOOSE i \in DOMAIN w.incl : w.incl[i].tx = t /\ \A j \in DOMAIN w.incl : w.incl[j].tx = t => j <= i
                     IN w.incl[i].block]
      trans == {t.from : t \in Range(w.disc)} \cup {w.incl[i].tx.from : i \in DOMAIN w.incl}
  IN {[q EXCEPT !.limbo = {x \in @ : x.block > fin}, !.hbf = b.bfj, !.hbl = b.blj]
      : q \in {q \in UNION {PerAcctS(p0, as, w.disc, w.incl, inclmap, hint) : as \in Perms(trans)} : ~q.bad}}

(* ------------------------------ SetGasTip ------------------------------ *)
(* the first transaction below the tip and everything after it leaves the pool *)
TipFilter(p, t) ==
  LET Keep(s) == LET bad == {i \in DOMAIN s : s[i].tx.tip < t} IN
                 IF bad = {} THEN s ELSE SubSeq(s, 1, (CHOOSE i \in bad : \A j \in bad : i <= j) - 1)
      idx2 == TLCEval([a \in Accts |-> Keep(p.idx[a])])
  IN [p EXCEPT !.idx = idx2, !.tip = t,
               !.store = StoreDel(@, {e.id : e \in AllEntries(p.idx)} \ {e.id : e \in AllEntries(idx2)})]

(* ------------------------------ Init on a directory ------------------------------ *)
(* dtxs: the transactions found in the queue store, ldisk: the [tx, block] pairs found in the limbo *)
(* store.  billy compacts its files when they are opened, so store ids are assigned afresh (hint).  *)
(* A transaction found twice is tracked once, every account is rechecked, the tip filter and the    *)
(* capacity limit are applied; the limbo keeps one entry per transaction.                           *)
RECURSIVE TrackAll(_, _, _)
TrackAll(p, S, hint) ==
  IF S = {} THEN p
  ELSE LET t  == CHOOSE t \in S : TRUE
           id == Alloc(DOMAIN p.store, t, hint.q)
       IN TrackAll([PutNew(p, id, t) EXCEPT !.idx[t.from] = Append(@, [tx |-> t, id |-> id])], S \ {t}, hint)

RECURSIVE RecheckAllS(_, _)
NoHint == [q |-> <<>>, l |-> <<>>]
RecheckAllS(p, as) == IF as = <<>> THEN {p} ELSE UNION {RecheckAllS(q, Tail(as)) : q \in RecheckS(p, Head(as), FALSE, <<>>, NoHint)}

RECURSIVE LimboPickS(_, _, _)
LimboPickS(L, S, hint) ==
  IF S = {} THEN {L}
  ELSE LET t == (CHOOSE x \in S : TRUE).tx IN
       UNION {LimboPickS(L \cup {[tx |-> t, block |-> x.block, id |-> Alloc({y.id : y \in L}, t, hint.l)]},
                         {y \in S : y.tx # t}, hint) : x \in {x \in S : x.tx = t}}

OpenS(p, dtxs, ldisk, hint) ==
  LET e0 == [p EXCEPT !.idx = TLCEval([a \in Accts |-> <<>>]), !.store = <<>>, !.limbo = {}]
      p1 == TrackAll(e0, dtxs, hint)
  IN UNION {UNION {DropWhileS([TipFilter(q, p.tip) EXCEPT !.limbo = L]) : L \in LimboPickS({}, ldisk, hint)}
            : q \in RecheckAllS(p1, CHOOSE s \in Perms(Accts) : TRUE)}

(* ------------------------------ the actions ------------------------------ *)
InitPool(st, bfj, blj) ==
  [idx |-> TLCEval([a \in Accts |-> <<>>]), store |-> <<>>, limbo |-> {}, tip |-> 1, hbf |-> bfj, hbl |-> blj, st |-> st, bad |-> FALSE]

(* the retention obligation: pooled transactions the new canonical branch includes above finality;   *)
(* obligations end with finality or when the transaction is reorged out again                         *)
Canon(B, h) == LET RECURSIVE Up(_)
                   Up(b) == IF B[b].parent = b THEN {b} ELSE {b} \cup Up(B[b].parent)
               IN Up(h)
CanonTxAt(B, h) == UNION {{[tx |-> B[b].txs[i], block |-> B[b].num] : i \in DOMAIN B[b].txs} : b \in Canon(B, h)}

Misaligned(P) == {a \in Accts : P.idx[a] # <<>> /\ P.idx[a][1].tx.nonce # P.st.nonce[a]}
Mismatched(O, P) == {x.tx : x \in {x \in O : \E y \in P.limbo : y.tx = x.tx /\ y.block # x.block}}

Add(tx, hint) ==
  /\ UNCHANGED <<cfg, blocks, head, final, owed, stale, misaligned>>
  /\ IF tx.tip < pool.tip
     THEN UNCHANGED pool /\ last' = [op |-> "add", err |-> "tip_low"]
     ELSE LET v == Validate(pool, tx) IN
          IF v # "ok" THEN UNCHANGED pool /\ last' = [op |-> "add", err |-> v]
          ELSE pool' \in {q \in AddOkS(pool, tx, hint) : ~q.bad} /\ last' = [op |-> "add", err |-> "ok"]

Reset(new, B, fin, hint) ==
  /\ blocks' = B /\ head' = new /\ final' = fin
  /\ UNCHANGED cfg
  /\ pool' \in ResetS(pool, B, head, new, fin, hint)
  /\ owed' = {x \in CanonTxAt(B, new) : /\ x.block > fin
                                        /\ \/ x \in owed
                                           \/ x.tx \in {e.tx : e \in AllEntries(pool.idx)}
                                           \/ \E y \in pool.limbo : y.tx = x.tx}
  /\ stale' = {t \in {x.tx : x \in owed'} : t \in stale} \cup Mismatched(owed', pool') \cup Mismatched(owed', pool)
  /\ misaligned' = Misaligned(pool')
  /\ last' = [op |-> "reset", err |-> "ok"]

SetGasTip(t) ==
  /\ UNCHANGED <<cfg, blocks, head, final, owed, stale, misaligned>>
  /\ pool' = IF t > pool.tip THEN TipFilter(pool, t) ELSE [pool EXCEPT !.tip = t]
  /\ last' = [op |-> "settip", err |-> "ok"]

(* Close + New + Init on the same directory: what is on disk is exactly the live entries *)
PoolTxs(P)   == {e.tx : e \in AllEntries(P.idx)}
LimboTxs(P)  == {[tx |-> x.tx, block |-> x.block] : x \in P.limbo}
Reopen(hint) ==
  /\ UNCHANGED <<cfg, blocks, head, final, owed, stale>>
  /\ pool' \in {q \in OpenS(pool, PoolTxs(pool), LimboTxs(pool), hint) : ~q.bad}
  /\ misaligned' = Misaligned(pool')
  /\ last' = [op |-> "reopen", err |-> "ok"]

(* Init on a copy of the directory of the running pool.  Everything acknowledged is on disk (Put is  *)
(* written through); entries deleted earlier may still be there (ghosts).                            *)
CrashReopen(dtxs, ldisk, hint) ==
  /\ PoolTxs(pool) \subseteq dtxs
  /\ LimboTxs(pool) \subseteq ldisk
  /\ UNCHANGED <<cfg, blocks, head, final, owed>>
  /\ pool' \in {q \in OpenS(pool, dtxs, ldisk, hint) : ~q.bad}
  /\ stale' = stale \cup Mismatched(owed, pool')
  /\ misaligned' = Misaligned(pool')
  /\ last' = [op |-> "crash", err |-> "ok"]

(* ------------------------------ the property (C42) ------------------------------ *)
(* pooled transactions of an account are nonce-contiguous from the state nonce.                     *)
(* NonceContiguousStrict is the property as stated.  KNOWN-FINDING (open, known_findings.json)                              *)
(* C42-recheck-gap-after-overlap: recheck() decides "gapped" on the lowest pooled nonce BEFORE it     *)
(* drops the transactions below the state nonce; when such a stale low transaction is present (a      *)
(* blob reinjected from the limbo by a reorg, or a deleted entry resurrected by a crash) the rest of  *)
(* the list survives although it starts above the state nonce.  Later Adds then index the list with   *)
(* nonce - stateNonce and replace the wrong entry.  Until that is decided the checked invariant        *)
(* excuses exactly the accounts a Reset / Init left in that state (ghost `misaligned`, recomputed by  *)
(* every Reset / Init); for every other account the strict property is required.                       *)
NonceContiguousStrict == \A a \in Accts : \A i \in DOMAIN pool.idx[a] :
   pool.idx[a][i].tx.nonce = pool.st.nonce[a] + i - 1 /\ pool.idx[a][i].tx.from = a
NonceContiguous == \A a \in Accts \ misaligned : \A i \in DOMAIN pool.idx[a] :
   pool.idx[a][i].tx.nonce = pool.st.nonce[a] + i - 1 /\ pool.idx[a][i].tx.from = a
(* ... and affordable in total *)
AffordableTotal == \A a \in Accts : SumCost(pool.idx[a]) <= pool.st.bal[a]
(* the on-disk store and the in-memory index describe the same transactions *)
IndexMatchesStore ==
   /\ DOMAIN pool.store = {e.id : e \in AllEntries(pool.idx)}
   /\ \A e \in AllEntries(pool.idx) : pool.store[e.id] = e.tx
   /\ \A e, f \in AllEntries(pool.idx) : (e.id = f.id \/ e.tx = f.tx) => e = f
(* included-but-unfinalized blobs are retained until finality.  LimboRetainsStrict is the property  *)
(* as stated.  KNOWN-FINDING (open, known_findings.json) C42-limbo-stale-block: when a reorg replaces the block that       *)
(* included a pooled transaction by a branch that includes the same transaction at another height,  *)
(* BlobPool.reorg neither reinjects it nor calls limbo.update (the transaction is in both the        *)
(* discarded and the included set), so the limbo keeps the old block number; if that number is       *)
(* lower, limbo.finalize drops the blobs before the block that really includes them is final.        *)
(* Until that is decided the checked invariant excuses exactly those transactions (ghost `stale`).   *)
LimboRetainsStrict == \A x \in owed : \E y \in pool.limbo : y.tx = x.tx /\ y.block = x.block
LimboRetains == \A x \in owed : x.tx \in stale \/ \E y \in pool.limbo : y.tx = x.tx /\ y.block = x.block
(* (finalised entries may reappear after a crash and stay until the next Reset; harmless)  *)
LimboSound   == \A x, y \in pool.limbo : (x.tx = y.tx \/ x.id = y.id) => x = y
(* capacity (enforced by Add and by Init; a Reset may reinject beyond it) and per-account limit *)
PerAccountLimit == \A a \in Accts : Len(pool.idx[a]) <= MaxPerAcct
WithinCapacity == [][((last'.op = "add" /\ last'.err = "ok") \/ last'.op \in {"reopen", "crash"}) => Stored(pool'.idx) <= cfg.cap]_vars
(* nothing below the tip after it was raised *)
TipRespected == [][(last'.op = "settip" /\ pool'.tip > pool.tip) => \A e \in AllEntries(pool'.idx) : e.tx.tip >= pool'.tip]_vars
(* reopening the pool reproduces the same contents *)
(* (Init filters by the configured tip and evicts down to the capacity, which matters only after a *)
(* Reset reinjected transactions below the tip or beyond the capacity; nothing else may change)   *)
(* store ids are not part of the contents: billy compacts its files on opening                     *)
Contents(P) == [idx |-> [a \in Accts |-> [i \in DOMAIN P.idx[a] |-> P.idx[a][i].tx]], limbo |-> LimboTxs(P)]
(* (lists that the known finding C42-recheck-gap-after-overlap left misaligned are dropped by Init)  *)
ReopenReproduces == [][(last'.op = "reopen" /\ misaligned = {}) => \E q \in DropWhileS(TipFilter(pool, pool.tip)) : Contents(pool') = Contents(q)]_vars
(* After an abrupt stop the directory may also hold entries that had been deleted (billy does not    *)
(* journal deletes), so the contents need not be reproduced; what is required is stated in            *)
(* CrashReopen: every acknowledged entry is on disk, Init recovers exactly Open(disk), and all         *)
(* invariants hold again.                                                                              *)
(* The eviction order matches transaction priorities: stated operationally in DropS (the victim is    *)
(* the last transaction of an account with the smallest key); HeapOrdered in the trace specification  *)
(* evaluates the heap property on the implementation's heap array with these keys.                    *)
=============================================================================
