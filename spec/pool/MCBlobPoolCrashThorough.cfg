\* restarts after abrupt stops: deleted entries (ghosts) may reappear on disk
SPECIFICATION MCSpec
CONSTANTS Accts = {"a1"}
          MaxPerAcct = 16
          MaxN = 2
          NFees = 2
          MaxBlocks = 2
          MaxInc = 2
          NBal = 1
          NTips = 1
          Cap = 2
          HistLen = 0
          Foreign = FALSE
          Crash = TRUE
INVARIANTS NonceContiguous AffordableTotal IndexMatchesStore LimboRetains LimboSound PerAccountLimit
PROPERTIES TipRespected ReopenReproduces WithinCapacity
VIEW View
CHECK_DEADLOCK FALSE
