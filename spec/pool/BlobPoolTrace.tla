-------------------------- MODULE BlobPoolTrace --------------------------
(* Trace validation for BlobPool (C42): every event recorded from the real blobpool.BlobPool *)
(* (operation, coarse result class, full projection of the pool and of both billy stores)     *)
(* must be a step of BlobPool.tla whose successor state equals the projection; all C42        *)
(* invariants and action properties are evaluated on the real pool's states.                  *)
EXTENDS BlobPool, Json, IOUtils

Trace == ndJsonDeserialize(IOEnv.TRACE)

VARIABLE l
Ev == Trace[l]

ToSet(s) == {s[i] : i \in DOMAIN s}
Fn(r)    == [a \in Accts |-> r[a]]
BlockOf(b) == [parent |-> b.parent, num |-> b.num, txs |-> b.txs, nonce |-> Fn(b.nonce), bal |-> Fn(b.bal),
               bfj |-> b.bfj, blj |-> b.blj]
Entry(m)  == [tx |-> m.tx, id |-> m.id]
EntrySeq(s) == [i \in DOMAIN s |-> Entry(s[i])]

(* store ids the implementation chose in this step, by transaction, per store *)
Hint(s) ==
  LET inIdx == UNION {{Entry(s.idx[a][i]) : i \in DOMAIN s.idx[a]} : a \in Accts}
      inLim == ToSet(s.limbo)
  IN [q |-> [t \in {e.tx : e \in inIdx} |-> (CHOOSE e \in inIdx : e.tx = t).id],
      l |-> [t \in {e.tx : e \in inLim} |-> (CHOOSE e \in inLim : e.tx = t).id]]

(* the logged projection determines the abstract pool ... *)
PoolOf(s, P) ==
  [idx |-> [a \in Accts |-> EntrySeq(s.idx[a])],
   store |-> [i \in {e.id : e \in ToSet(s.store)} |-> (CHOOSE e \in ToSet(s.store) : e.id = i).tx],
   limbo |-> ToSet(s.limbo), tip |-> s.tip, hbf |-> s.hbf, hbl |-> s.hbl, st |-> P.st, bad |-> FALSE]

(* ... and carries the implementation's redundant bookkeeping, which must agree with it *)
Parent(i) == (i - 2) \div 2 + 1          \* 1-based heap array
HeapOrdered(s, P) ==                    \* the eviction heap is a heap for the specification's keys
  \A i \in 2..Len(s.heap) : ~LessAcct(P, s.heap[i], s.heap[Parent(i)])
Bookkeeping(s, P) ==
  /\ \A a \in Accts : \A i \in DOMAIN s.idx[a] :
        LET m == s.idx[a][i] IN
        /\ m.bfj = m.tx.bfj /\ m.blj = m.tx.blj /\ m.cost = m.tx.cost /\ m.size = m.tx.sz /\ m.has
        /\ m.evtip = EvTip(P.idx[a], i) /\ m.evbf = EvBf(P.idx[a], i) /\ m.evbl = EvBl(P.idx[a], i)
  /\ \A a \in Accts : /\ s.spent[a] = SumCost(P.idx[a])
                      /\ s.nonce[a] = IF P.idx[a] = <<>> THEN P.st.nonce[a] ELSE Last(P.idx[a]).tx.nonce + 1
                      /\ s.pview[a] = [i \in DOMAIN s.idx[a] |-> s.idx[a][i].tx]
  /\ s.stored = Stored(P.idx)
  /\ Len(s.store) = Cardinality(DOMAIN P.store)
  /\ ToSet(s.lookup) = AllEntries(P.idx) /\ Len(s.lookup) = Cardinality(AllEntries(P.idx))
  /\ s.lblobs = Cardinality(AllEntries(P.idx))
  /\ ToSet(s.heap) = Active(P) /\ Len(s.heap) = Cardinality(Active(P)) /\ s.hidx
  /\ HeapOrdered(s, P)
  /\ ToSet(s.lgroups) = P.limbo /\ Len(s.lgroups) = Cardinality(P.limbo) /\ Len(s.limbo) = Cardinality(P.limbo)
  /\ ToSet(s.lstore) = P.limbo /\ Len(s.lstore) = Cardinality(P.limbo)
  /\ s.npend = Cardinality(AllEntries(P.idx)) /\ s.nqueue = 0 /\ s.pcount = s.npend /\ s.gapped = 0
  /\ ToSet(s.reserved) = Active(P) /\ s.rerr = 0

Logged == pool' = PoolOf(Ev.state, pool') /\ Bookkeeping(Ev.state, pool')

Step(A) == l <= Len(Trace) /\ A /\ l' = l + 1

TInit == Step(/\ Ev.op = "init"
              /\ cfg' = Ev.cfg
              /\ blocks' = (0 :> BlockOf(Ev.genesis))
              /\ head' = 0 /\ final' = 0 /\ owed' = {} /\ stale' = {} /\ misaligned' = {}
              /\ pool' = [InitPool([nonce |-> Fn(Ev.genesis.nonce), bal |-> Fn(Ev.genesis.bal)], Ev.genesis.bfj, Ev.genesis.blj)
                             EXCEPT !.tip = Ev.tip]
              /\ last' = [op |-> "init", err |-> "ok"]
              /\ Logged)
TAdd   == Step(Ev.op = "add" /\ Add(Ev.tx, Hint(Ev.state)) /\ last'.err = Ev.err /\ Logged)
TReset == Step(/\ Ev.op = "reset"
               /\ Reset(Ev.id, IF Ev.id \in DOMAIN blocks THEN blocks ELSE blocks @@ (Ev.id :> BlockOf(Ev.block)),
                        Ev.final, Hint(Ev.state))
               /\ Logged)
TTip    == Step(Ev.op = "settip" /\ SetGasTip(Ev.tip) /\ Logged)
TReopen == Step(Ev.op = "reopen" /\ Reopen(Hint(Ev.state)) /\ Logged)
TCrash  == Step(/\ Ev.op = "crash"
                /\ CrashReopen({e.tx : e \in ToSet(Ev.disk)}, {[tx |-> e.tx, block |-> e.block] : e \in ToSet(Ev.ldisk)}, Hint(Ev.state))
                /\ Logged)

TraceInit == /\ l = 1
             /\ cfg = [cap |-> 1, bump |-> 100]
             /\ blocks = (0 :> [parent |-> 0, num |-> 0, txs |-> <<>>, nonce |-> [a \in Accts |-> 0],
                                bal |-> [a \in Accts |-> 0], bfj |-> 0, blj |-> 0])
             /\ head = 0 /\ final = 0 /\ owed = {} /\ stale = {} /\ misaligned = {}
             /\ pool = InitPool([nonce |-> [a \in Accts |-> 0], bal |-> [a \in Accts |-> 0]], 0, 0)
             /\ last = [op |-> "init", err |-> "ok"]
TraceNext == TInit \/ TAdd \/ TReset \/ TTip \/ TReopen \/ TCrash
TraceSpec == TraceInit /\ [][TraceNext]_<<vars, l>>

TraceAccepted == TLCGet("stats").diameter - 1 = Len(Trace)
=============================================================================
