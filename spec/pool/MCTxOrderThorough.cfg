SPECIFICATION MCSpec
CONSTANTS NA = 3
          NoBase <- MinusOne
          Lens <- Lens222
          KindIds = {1, 2, 3, 4, 6, 7}
          Bases <- Bases3
          Tables = {2, 3}
          SimTable = 1
          SimMinTx = 1
INVARIANTS HeadIsAvail NoYieldAfterPop HeapHoldsHeads HeapOrdered RootIsBest Complete
PROPERTIES StepYieldsBest
VIEW View
CHECK_DEADLOCK FALSE
