\* KNOWN-FINDING (open, known_findings.json) C42-recheck-gap-after-overlap: searches the model for states violating the
\* strict contiguity property and prints the behaviours leading there (tag NGAP).
SPECIFICATION MCSpec
CONSTANTS Accts = {"a1"}
          MaxPerAcct = 16
          MaxN = 2
          NFees = 2
          MaxBlocks = 3
          MaxInc = 1
          NBal = 0
          NTips = 0
          Cap = 3
          HistLen = 0
          Foreign = TRUE
          Crash = FALSE
INVARIANTS WitnessGap
CONSTRAINTS NoGapWitnessYet Short
VIEW View
CHECK_DEADLOCK FALSE
