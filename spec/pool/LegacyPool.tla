---------------------------- MODULE LegacyPool ----------------------------
(* The legacy (execution-layer) transaction pool of go-ethereum, property C41.            *)
(*                                                                                         *)
(* One action per public call of core/txpool/legacypool.LegacyPool, observed at           *)
(* quiescence: Add(tx, sync) (admission + one maintenance cycle runReorg), Reset(old,new)  *)
(* (reinjection of reorged-out transactions + maintenance cycle) and SetGasTip.  The       *)
(* operators below follow the code paths: add / validateTx / enqueueTx / promoteTx /       *)
(* removeTx, queue.promoteExecutables, demoteUnexecutables, truncatePending, truncateQueue *)
(* and the two-heap pricedList (Put / Removed / Underpriced / Discard / Reheap).           *)
(*                                                                                         *)
(* Abstractions.  A transaction is the record of the fields the pool looks at:             *)
(* [from, nonce, cap, tip, val, gas, sl] (fee cap, tip cap, value, gas limit, 32 kB slots); *)
(* equal records are the same transaction (same hash).  Heaps are bags whose pop order is  *)
(* the comparator order with ties resolved nondeterministically (container/heap gives no   *)
(* promise about ties); where the code iterates over Go maps the order is a                *)
(* nondeterministic choice as well.  Heartbeat times are not predicted: `beats` is the     *)
(* order (oldest first) of the accounts that have queued transactions, constrained only    *)
(* to that domain; truncateQueue uses it.  All operators that may branch return SETS of    *)
(* results.                                                                                *)
EXTENDS Integers, Sequences, FiniteSets, TLC

CONSTANTS Accts         \* account names (strings)

VARIABLES pool,         \* the pool's internal structures (record, see InitPool)
          cfg,          \* [bump, aslots, gslots, aqueue, gqueue]   legacypool.Config
          blocks,       \* block tree: id -> [parent, num, txs, nonce, bal, deleg, bf]
          head,         \* block the pool was last reset to
          cycled,       \* TRUE iff the last operation ended with a maintenance cycle (runReorg)
          last,         \* ghost: [op, tx, err] of the last operation (for action properties)
          gapped        \* ghost: accounts whose pending list was left with a nonce gap by a Reset
                        \* (KNOWN-FINDING (open, known_findings.json) C41-gap-after-reorg, see PendingGapless)

vars == <<pool, cfg, blocks, head, cycled, last, gapped>>

(* ------------------------------ small helpers ------------------------------ *)
Min(a, b) == IF a < b THEN a ELSE b
Cost(t)   == t.gas * t.cap + t.val

RECURSIVE SumCost(_)
SumCost(S) == IF S = {} THEN 0 ELSE LET t == CHOOSE t \in S : TRUE IN Cost(t) + SumCost(S \ {t})
RECURSIVE SumSlots(_)
SumSlots(S) == IF S = {} THEN 0 ELSE LET t == CHOOSE t \in S : TRUE IN t.sl + SumSlots(S \ {t})

Nonces(L)   == {t.nonce : t \in L}
AtNonce(L, n) == {t \in L : t.nonce = n}
MinNonce(L) == CHOOSE n \in Nonces(L) : \A m \in Nonces(L) : n <= m
MaxNonce(L) == CHOOSE n \in Nonces(L) : \A m \in Nonces(L) : n >= m

RECURSIVE SortByNonce(_)
SortByNonce(L) == IF L = {} THEN <<>>
                  ELSE LET t == CHOOSE t \in L : t.nonce = MinNonce(L) IN <<t>> \o SortByNonce(L \ {t})
Range(s) == {s[i] : i \in DOMAIN s}

RECURSIVE SumLen(_, _)
SumLen(f, S) == IF S = {} THEN 0 ELSE LET a == CHOOSE a \in S : TRUE IN Cardinality(f[a]) + SumLen(f, S \ {a})

Perms(S) == {s \in [1..Cardinality(S) -> S] : \A i, j \in 1..Cardinality(S) : i # j => s[i] # s[j]}

(* bags (multisets) as functions element -> positive count (TLCEval: functions kept in state variables *)
(* are evaluated eagerly; TLC cannot spill lazy function values to disk)                              *)
EmptyBag   == <<>>
BSize(b)   == LET RECURSIVE Sz(_)
                  Sz(S) == IF S = {} THEN 0 ELSE LET x == CHOOSE x \in S : TRUE IN b[x] + Sz(S \ {x})
              IN Sz(DOMAIN b)
BAdd(b, x) == IF x \in DOMAIN b THEN [b EXCEPT ![x] = @ + 1]
              ELSE TLCEval([y \in DOMAIN b \cup {x} |-> IF y = x THEN 1 ELSE b[y]])
BDel(b, x) == IF b[x] = 1 THEN TLCEval([y \in DOMAIN b \ {x} |-> b[y]]) ELSE [b EXCEPT ![x] = @ - 1]
SetBag(S)  == TLCEval([x \in S |-> 1])
RECURSIVE BAddSeq(_, _)
BAddSeq(b, s) == IF s = <<>> THEN b ELSE BAddSeq(BAdd(b, Head(s)), Tail(s))

(* ------------------------------ lists (list.go) ------------------------------ *)
(* list.Add: a transaction with a new nonce is always accepted; one with an occupied nonce *)
(* replaces the old one only if both fee cap and tip are strictly higher and at least the   *)
(* configured percentage above the old values.                                              *)
Bumped(old, new, bump) ==
  /\ new.cap > old.cap /\ new.tip > old.tip
  /\ new.cap >= (old.cap * (100 + bump)) \div 100
  /\ new.tip >= (old.tip * (100 + bump)) \div 100

ListAdd(L, tx, bump) ==
  LET olds == AtNonce(L, tx.nonce) IN
  IF olds = {} THEN [ok |-> TRUE, old |-> {}, l |-> L \cup {tx}]
  ELSE LET o == CHOOSE o \in olds : TRUE IN
       IF Bumped(o, tx, bump) THEN [ok |-> TRUE, old |-> {o}, l |-> (L \ {o}) \cup {tx}]
       ELSE [ok |-> FALSE, old |-> {}, l |-> L]

(* SortedMap.Ready(start): nothing if the lowest nonce is above start, else the run of     *)
(* consecutive nonces beginning at the lowest one                                           *)
ReadySet(L, start) ==
  IF L = {} \/ MinNonce(L) > start THEN {}
  ELSE {t \in L : \A n \in MinNonce(L)..t.nonce : AtNonce(L, n) # {}}

(* the k transactions with the highest nonces *)
RECURSIVE TopK(_, _)
TopK(L, k) == IF k <= 0 \/ L = {} THEN {}
              ELSE LET t == CHOOSE t \in L : t.nonce = MaxNonce(L) IN {t} \cup TopK(L \ {t}, k - 1)

(* ------------------------------ price heaps (pricedList) ------------------------------ *)
EffTip(t, bf) == Min(t.tip, t.cap - bf)
Sgn(x) == IF x < 0 THEN -1 ELSE IF x > 0 THEN 1 ELSE 0
(* priceHeap.cmp; bf = -1 stands for "no base fee" (the floating heap, and the urgent heap  *)
(* before the first reset)                                                                   *)
Cmp(a, b, bf) ==
  IF bf >= 0 /\ EffTip(a, bf) # EffTip(b, bf) THEN Sgn(EffTip(a, bf) - EffTip(b, bf))
  ELSE IF a.cap # b.cap THEN Sgn(a.cap - b.cap)
  ELSE Sgn(a.tip - b.tip)
LessH(a, b, bf) == LET c == Cmp(a, b, bf) IN c < 0 \/ (c = 0 /\ a.nonce > b.nonce)
Mins(b, bf) == {t \in DOMAIN b : \A u \in DOMAIN b : ~LessH(u, t, bf)}

RECURSIVE PopK(_, _, _, _)
PopK(u, f, k, bf) == IF k = 0 THEN {[u |-> u, f |-> f]}
                     ELSE UNION {PopK(BDel(u, t), BAdd(f, t), k - 1, bf) : t \in Mins(u, bf)}

(* Reheap: rebuild from the lookup; the worst fifth moves to the floating heap *)
ReheapS(p) == {[p EXCEPT !.stales = 0, !.urg = r.u, !.flo = r.f] :
                 r \in PopK(SetBag(p.all), EmptyBag, Cardinality(p.all) \div 5, p.bf)}

(* Removed(n): count stale entries, reheap when they exceed a quarter of the heap size *)
Removed(p, n) ==
  LET s == p.stales + n IN
  IF s <= (BSize(p.urg) + BSize(p.flo)) \div 4 THEN {[p EXCEPT !.stales = s]}
  ELSE ReheapS(p)

(* underpricedFor: pop stale heads, then compare with the cheapest live entry *)
RECURSIVE UFS(_, _, _, _, _)
UFS(h, st, all, bf, tx) ==
  IF DOMAIN h = {} THEN {[h |-> h, st |-> st, res |-> FALSE]}
  ELSE UNION {IF m \notin all THEN UFS(BDel(h, m), st - 1, all, bf, tx)
              ELSE {[h |-> h, st |-> st, res |-> Cmp(m, tx, bf) >= 0]} : m \in Mins(h, bf)}

(* Underpriced (Go short-circuit evaluation order preserved: the floating heap is only      *)
(* cleaned when the urgent test did not already decide)                                      *)
UnderpricedS(p, tx) ==
  UNION {IF ~(r1.res \/ DOMAIN r1.h = {})
         THEN {[p |-> [p EXCEPT !.urg = r1.h, !.stales = r1.st], res |-> FALSE]}
         ELSE {[p |-> [p EXCEPT !.urg = r1.h, !.flo = r2.h, !.stales = r2.st],
                res |-> (r2.res \/ DOMAIN r2.h = {}) /\ ~(DOMAIN r1.h = {} /\ DOMAIN r2.h = {})] :
                  r2 \in UFS(p.flo, r1.st, p.all, -1, tx)}
         : r1 \in UFS(p.urg, p.stales, p.all, p.bf, tx)}

(* Discard(slots): balance the heaps 4:1 and drop the cheapest floating entries *)
RECURSIVE DiscLoop(_, _, _, _, _, _, _)
DiscLoop(u, f, st, all, bf, slots, drop) ==
  IF slots <= 0 THEN {[u |-> u, f |-> f, st |-> st, slots |-> slots, drop |-> drop]}
  ELSE IF BSize(u) > BSize(f) * 4
  THEN UNION {IF t \notin all THEN DiscLoop(BDel(u, t), f, st - 1, all, bf, slots, drop)
              ELSE DiscLoop(BDel(u, t), BAdd(f, t), st, all, bf, slots, drop) : t \in Mins(u, bf)}
  ELSE IF DOMAIN f = {} THEN {[u |-> u, f |-> f, st |-> st, slots |-> slots, drop |-> drop]}
  ELSE UNION {IF t \notin all THEN DiscLoop(u, BDel(f, t), st - 1, all, bf, slots, drop)
              ELSE DiscLoop(u, BDel(f, t), st, all, bf, slots - t.sl, Append(drop, t)) : t \in Mins(f, -1)}

DiscardS(p, slots) ==
  {IF r.slots > 0
   THEN [p |-> [p EXCEPT !.urg = BAddSeq(r.u, r.drop), !.flo = r.f, !.stales = r.st], ok |-> FALSE, drop |-> <<>>]
   ELSE [p |-> [p EXCEPT !.urg = r.u, !.flo = r.f, !.stales = r.st], ok |-> TRUE, drop |-> r.drop]
   : r \in DiscLoop(p.urg, p.flo, p.stales, p.all, p.bf, slots, <<>>)}

(* ------------------------------ removeTx / enqueueTx / promoteTx ------------------------------ *)
RECURSIVE RemoveTxS(_, _, _), EnqueueS(_, _, _), EnqueueSeqS(_, _)

(* enqueueTx(tx, addAll): insert into the future queue (with replacement rule); a replaced  *)
(* transaction leaves the lookup; result: set of [p, err, rep]                              *)
EnqueueS(p, tx, addAll) ==
  LET a == tx.from
      r == ListAdd(p.queue[a], tx, cfg.bump) IN
  IF ~r.ok THEN {[p |-> p, err |-> "replace_underpriced", rep |-> FALSE]}
  ELSE LET p1 == [p EXCEPT !.queue[a] = r.l]
           P2 == IF r.old # {} THEN {x.p : x \in RemoveTxS(p1, CHOOSE o \in r.old : TRUE, TRUE)} ELSE {p1}
       IN {[p |-> IF addAll THEN [p2 EXCEPT !.all = @ \cup {tx}, !.urg = BAdd(@, tx)] ELSE p2,
            err |-> "ok", rep |-> r.old # {}] : p2 \in P2}

(* internal shuffles (demotions) never touch the lookup; their errors are ignored by the code *)
EnqueueSeqS(p, s) == IF s = <<>> THEN {p}
                     ELSE UNION {EnqueueSeqS(e.p, Tail(s)) : e \in EnqueueS(p, Head(s), FALSE)}

(* removeTx(hash, outofbound): result set of [p, n] (n = transactions that left pending)    *)
RemoveTxS(p, tx, oob) ==
  IF tx \notin p.all THEN {[p |-> p, n |-> 0]}
  ELSE LET a  == tx.from
           p1 == [p EXCEPT !.all = @ \ {tx}]
           P2 == IF oob THEN Removed(p1, 1) ELSE {p1}
       IN UNION {
            IF AtNonce(q.pend[a], tx.nonce) # {}
            THEN LET inv == {t \in q.pend[a] : t.nonce > tx.nonce}
                     q1  == [q EXCEPT !.pend[a] = {t \in @ : t.nonce < tx.nonce}]
                 IN {[p |-> [q2 EXCEPT !.pn[a] = Min(@, tx.nonce)], n |-> 1 + Cardinality(inv)] :
                        q2 \in EnqueueSeqS(q1, SortByNonce(inv))}
            ELSE LET same == AtNonce(q.queue[a], tx.nonce) IN
                 IF same # {} /\ same # {tx} THEN {[p |-> q, n |-> 0]}     \* a different tx sits at that nonce
                 ELSE {[p |-> [q EXCEPT !.queue[a] = @ \ {tx}], n |-> 0]}
            : q \in P2}

RECURSIVE DropSeqS(_, _)
(* underpriced evictions in add(): removeTx(outofbound = false), counting pending drops *)
DropSeqS(p, s) == IF s = <<>> THEN {p}
                  ELSE UNION {DropSeqS([r.p EXCEPT !.changes = @ + r.n], Tail(s)) : r \in RemoveTxS(p, Head(s), FALSE)}

(* promoteTx: move into pending (replacement rule applies); result set of [p, ok] *)
PromoteTxS(p, tx) ==
  LET a == tx.from
      r == ListAdd(p.pend[a], tx, cfg.bump) IN
  IF ~r.ok THEN {[p |-> q, ok |-> FALSE] : q \in Removed([p EXCEPT !.all = @ \ {tx}], 1)}
  ELSE LET P1 == IF r.old # {} THEN Removed([p EXCEPT !.pend[a] = r.l, !.all = @ \ r.old], 1)
                 ELSE {[p EXCEPT !.pend[a] = r.l]}
       IN {[p |-> [q EXCEPT !.pn[a] = tx.nonce + 1], ok |-> TRUE] : q \in P1}

RECURSIVE PromoteSeqS(_, _)
PromoteSeqS(p, s) == IF s = <<>> THEN {p} ELSE UNION {PromoteSeqS(r.p, Tail(s)) : r \in PromoteTxS(p, Head(s))}

(* ------------------------------ admission: add() ------------------------------ *)
(* validateTx + validateAuth against the state the pool was last reset to *)
Validate(p, tx) ==
  LET a     == tx.from
      spent == SumCost(p.pend[a])
      prev  == AtNonce(p.pend[a], tx.nonce)
      need  == IF prev # {} THEN spent + Cost(tx) - SumCost(prev) ELSE spent + Cost(tx) IN
  IF tx.nonce < p.st.nonce[a] THEN "nonce_low"
  ELSE IF p.st.bal[a] < Cost(tx) THEN "funds"
  ELSE IF p.st.bal[a] < need THEN "funds"
  ELSE IF p.st.deleg[a] /\ p.pend[a] = {} /\ p.pn[a] # tx.nonce THEN "delegated_gap"
  ELSE IF p.st.deleg[a] /\ p.pend[a] # {} /\ prev = {} THEN "inflight_limit"
  ELSE "ok"

IsGapped(p, tx) ==
  LET a == tx.from IN
  /\ tx.nonce > p.pn[a]
  /\ \E n \in p.pn[a]..(tx.nonce - 1) : AtNonce(p.queue[a], n) = {}

AddTailS(p, tx) ==
  LET a == tx.from IN
  IF AtNonce(p.pend[a], tx.nonce) # {}
  THEN LET r == ListAdd(p.pend[a], tx, cfg.bump) IN
       IF ~r.ok THEN {[p |-> p, err |-> "replace_underpriced", rep |-> FALSE]}
       ELSE {[p |-> [q EXCEPT !.all = @ \cup {tx}, !.urg = BAdd(@, tx)], err |-> "ok", rep |-> TRUE] :
               q \in Removed([p EXCEPT !.pend[a] = r.l, !.all = @ \ r.old], 1)}
  ELSE EnqueueS(p, tx, TRUE)

(* add(tx): set of [p, err, rep]; side effects of failed attempts are kept as in the code *)
AddS(p, tx) ==
  IF tx \in p.all THEN {[p |-> p, err |-> "known", rep |-> FALSE]}
  ELSE LET verr == Validate(p, tx) IN
  IF verr # "ok" THEN {[p |-> p, err |-> verr, rep |-> FALSE]}
  ELSE IF SumSlots(p.all) + tx.sl > cfg.gslots + cfg.gqueue
  THEN UNION {
         IF u.res THEN {[p |-> u.p, err |-> "underpriced", rep |-> FALSE]}
         ELSE IF u.p.changes > cfg.gslots \div 4 THEN {[p |-> u.p, err |-> "overflow", rep |-> FALSE]}
         ELSE UNION {
                IF ~d.ok THEN {[p |-> d.p, err |-> "overflow", rep |-> FALSE]}
                ELSE IF IsGapped(d.p, tx) /\ \E i \in DOMAIN d.drop : AtNonce(d.p.pend[d.drop[i].from], d.drop[i].nonce) # {}
                THEN {[p |-> [d.p EXCEPT !.urg = BAddSeq(@, d.drop)], err |-> "future_replace_pending", rep |-> FALSE]}
                ELSE UNION {AddTailS(q, tx) : q \in DropSeqS(d.p, d.drop)}
                : d \in DiscardS(u.p, SumSlots(u.p.all) - (cfg.gslots + cfg.gqueue) + tx.sl)}
         : u \in UnderpricedS(p, tx)}
  ELSE AddTailS(p, tx)

(* ------------------------------ maintenance cycle: runReorg ------------------------------ *)
(* queue.promoteExecutables for one account: drop stale (low nonce) and unpayable ones,     *)
(* collect the executable run, cap the rest                                                  *)
QPromote(p, a) ==
  LET L0 == p.queue[a]
      L1 == {t \in L0 : t.nonce >= p.st.nonce[a]}
      L2 == {t \in L1 : Cost(t) <= p.st.bal[a]}
      rd == ReadySet(L2, p.pn[a])
      L3 == L2 \ rd
      cp == TopK(L3, Cardinality(L3) - cfg.aqueue)
  IN [p |-> [p EXCEPT !.queue[a] = L3 \ cp], ready |-> SortByNonce(rd), dropped |-> (L0 \ L2) \cup cp]

RECURSIVE QPromoteSeq(_, _, _, _)
QPromoteSeq(p, as, ready, dropped) ==
  IF as = <<>> THEN [p |-> p, ready |-> ready, dropped |-> dropped]
  ELSE LET r == QPromote(p, Head(as)) IN QPromoteSeq(r.p, Tail(as), ready \o r.ready, dropped \cup r.dropped)

PromoteExecutablesS(p, as) ==
  LET r == QPromoteSeq(p, as, <<>>, {}) IN
  UNION {Removed([q EXCEPT !.all = @ \ r.dropped], Cardinality(r.dropped)) : q \in PromoteSeqS(r.p, r.ready)}

(* demoteUnexecutables for one account *)
Demote1S(p, a) ==
  LET L0    == p.pend[a]
      n0    == p.st.nonce[a]
      olds  == {t \in L0 : t.nonce < n0}
      L1    == L0 \ olds
      drops == {t \in L1 : Cost(t) > p.st.bal[a]}
      inv   == IF drops = {} THEN {} ELSE {t \in L1 \ drops : t.nonce > MinNonce(drops)}
      L2    == (L1 \ drops) \ inv
      p1    == [p EXCEPT !.pend[a] = L2, !.all = (@ \ olds) \ drops]
  IN UNION {
       UNION {IF L2 # {} /\ AtNonce(L2, n0) = {}
              THEN EnqueueSeqS([q2 EXCEPT !.pend[a] = {}], SortByNonce(L2))     \* gap in front: postpone all
              ELSE {q2}
              : q2 \in Removed(q, Cardinality(olds) + Cardinality(drops))}
       : q \in EnqueueSeqS(p1, SortByNonce(inv))}

RECURSIVE DemoteSeqS(_, _)
DemoteSeqS(p, as) == IF as = <<>> THEN {p} ELSE UNION {DemoteSeqS(q, Tail(as)) : q \in Demote1S(p, Head(as))}

(* one list.Cap(len-1) of truncatePending: the highest nonce leaves the pool *)
CapOneS(p, a) ==
  LET t == CHOOSE t \in p.pend[a] : t.nonce = MaxNonce(p.pend[a]) IN
  Removed([p EXCEPT !.pend[a] = @ \ {t}, !.all = @ \ {t}, !.pn[a] = Min(@, t.nonce)], 1)

RECURSIVE CapRoundS(_, _, _)          \* for i in offenders-prefix: cap one; pending--
CapRoundS(p, as, pending) ==
  IF as = <<>> THEN {[p |-> p, pending |-> pending]}
  ELSE UNION {CapRoundS(q, Tail(as), pending - 1) : q \in CapOneS(p, Head(as))}

RECURSIVE TPEqualS(_, _, _, _)        \* equalise all but the newest offender down to its size
TPEqualS(p, pending, offs, threshold) ==
  IF pending > cfg.gslots /\ Cardinality(p.pend[offs[Len(offs) - 1]]) > threshold
  THEN UNION {TPEqualS(r.p, r.pending, offs, threshold) : r \in CapRoundS(p, SubSeq(offs, 1, Len(offs) - 1), pending)}
  ELSE {[p |-> p, pending |-> pending]}

RECURSIVE TPFinalS(_, _, _)
TPFinalS(p, pending, offs) ==
  IF pending > cfg.gslots /\ Len(offs) > 0 /\ Cardinality(p.pend[offs[Len(offs)]]) > cfg.aslots
  THEN UNION {TPFinalS(r.p, r.pending, offs) : r \in CapRoundS(p, offs, pending)}
  ELSE {p}

RECURSIVE TPOuterS(_, _, _, _, _)
TPOuterS(p, pending, spam, offs, prio) ==
  IF pending > cfg.gslots /\ spam # {}
  THEN UNION {
         LET offs2 == Append(offs, o)
             R == IF Len(offs2) > 1 THEN TPEqualS(p, pending, offs2, Cardinality(p.pend[o]))
                  ELSE {[p |-> p, pending |-> pending]}
         IN UNION {TPOuterS(x.p, x.pending, spam \ {o}, offs2, prio) : x \in R}
         : o \in {a \in spam : \A b \in spam : prio[b] <= prio[a]}}
  ELSE TPFinalS(p, pending, offs)

TruncatePendingS(p) ==
  LET total == SumLen(p.pend, Accts)
      spam  == {a \in Accts : Cardinality(p.pend[a]) > cfg.aslots} IN
  IF total <= cfg.gslots THEN {p}
  ELSE TPOuterS(p, total, spam, <<>>, [a \in spam |-> Cardinality(p.pend[a])])

(* truncateQueue: drop whole accounts, stalest heartbeat first, the last one partially;     *)
(* ord = all accounts with queued transactions, oldest heartbeat first                      *)
RECURSIVE TQLoop(_, _, _, _)
TQLoop(q, ord, drop, removed) ==
  IF drop <= 0 \/ ord = <<>> THEN [q |-> q, removed |-> removed]
  ELSE LET a == Head(ord)
           size == Cardinality(q[a]) IN
       IF size <= drop THEN TQLoop([q EXCEPT ![a] = {}], Tail(ord), drop - size, removed \cup q[a])
       ELSE LET vict == TopK(q[a], drop) IN TQLoop([q EXCEPT ![a] = @ \ vict], Tail(ord), 0, removed \cup vict)

TruncateQueueS(p, ord) ==
  LET queued == SumLen(p.queue, Accts) IN
  IF queued <= cfg.gqueue THEN {p}
  ELSE LET r == TQLoop(p.queue, ord, queued - cfg.gqueue, {}) IN
       Removed([p EXCEPT !.queue = r.q, !.all = @ \ r.removed], Cardinality(r.removed))

QueueAccts(p) == {a \in Accts : p.queue[a] # {}}
PendAccts(p)  == {a \in Accts : p.pend[a] # {}}
SetToSeq(S)   == CHOOSE s \in Perms(S) : TRUE

(* the tail common to every cycle; the surviving heartbeat order is a restriction of the    *)
(* order truncateQueue used                                                                  *)
FinishCycleS(p) ==
  UNION {UNION {{[q2 EXCEPT !.changes = 0, !.beats = SelectSeq(ord, LAMBDA a : q2.queue[a] # {})] :
                   q2 \in TruncateQueueS(q, ord)}
                : ord \in Perms(QueueAccts(q))}
         : q \in TruncatePendingS(p)}

(* runReorg without reset: promote the dirty accounts, truncate *)
CycleS(p, dirty) == UNION {FinishCycleS(q) : q \in PromoteExecutablesS(p, SetToSeq(dirty))}

(* ------------------------------ reset ------------------------------ *)
Contiguous(P, a) == Nonces(P.pend[a]) = P.st.nonce[a]..(P.st.nonce[a] + Cardinality(P.pend[a]) - 1)

(* the transactions of the abandoned branch, newest block first, that the new branch lacks *)
RECURSIVE Walk(_, _, _, _, _)
Walk(B, rem, add, disc, incl) ==
  IF B[rem].num > B[add].num THEN Walk(B, B[rem].parent, add, disc \o B[rem].txs, incl)
  ELSE IF B[add].num > B[rem].num THEN Walk(B, rem, B[add].parent, disc, incl \o B[add].txs)
  ELSE IF rem # add THEN Walk(B, B[rem].parent, B[add].parent, disc \o B[rem].txs, incl \o B[add].txs)
  ELSE SelectSeq(disc, LAMBDA t : t \notin Range(incl))

Reinject(B, old, new) == IF B[new].parent = old THEN <<>> ELSE Walk(B, old, new, <<>>, <<>>)

StateOf(b) == [nonce |-> b.nonce, bal |-> b.bal, deleg |-> b.deleg]

RECURSIVE AddSeqS(_, _)            \* addTxsLocked for reinjection: errors are dropped
AddSeqS(p, s) == IF s = <<>> THEN {p} ELSE UNION {AddSeqS(r.p, Tail(s)) : r \in AddS(p, Head(s))}

(* result: set of [p, g] - the pool after the cycle and the accounts whose pending list had *)
(* a nonce gap after demoteUnexecutables (see PendingGapless)                               *)
ResetS(p, lost, b) ==
  LET p0 == [p EXCEPT !.st = StateOf(b), !.pn = b.nonce] IN
  UNION {
    UNION {
      UNION {
        UNION {{[p |-> f, g |-> {a \in Accts : ~Contiguous(q3, a)}] :
                  f \in FinishCycleS([q4 EXCEPT !.pn = TLCEval([a \in Accts |-> IF q4.pend[a] = {} THEN q4.st.nonce[a]
                                                                          ELSE MaxNonce(q4.pend[a]) + 1])])}
               : q4 \in ReheapS([q3 EXCEPT !.bf = b.bf])}
        : q3 \in DemoteSeqS(q2, SetToSeq(PendAccts(q2)))}
      : q2 \in PromoteExecutablesS(q1, SetToSeq(QueueAccts(q1)))}
    : q1 \in AddSeqS(p0, lost)}

(* ------------------------------ the actions ------------------------------ *)

InitPool(st) ==
  [pend |-> TLCEval([a \in Accts |-> {}]), queue |-> TLCEval([a \in Accts |-> {}]), all |-> {},
   urg |-> EmptyBag, flo |-> EmptyBag, stales |-> 0, pn |-> st.nonce, beats |-> <<>>,
   tip |-> 1, bf |-> -1, changes |-> 0, st |-> st]

(* Add([tx], sync = true) *)
Add(tx) ==
  /\ UNCHANGED <<cfg, blocks, head>>
  /\ IF tx \in pool.all
     THEN /\ UNCHANGED pool /\ cycled' = cycled /\ last' = [op |-> "add", tx |-> tx, err |-> "known"]
     ELSE IF tx.tip < pool.tip
     THEN /\ UNCHANGED pool /\ cycled' = cycled /\ last' = [op |-> "add", tx |-> tx, err |-> "tip_low"]
     ELSE \E r \in AddS(pool, tx) :
            /\ pool' \in CycleS(r.p, IF r.err = "ok" /\ ~r.rep THEN {tx.from} ELSE {})
            /\ cycled' = TRUE
            /\ last' = [op |-> "add", tx |-> tx, err |-> r.err]
  /\ UNCHANGED gapped

(* Reset(head, new): new is an existing block or one that is being appended to the tree *)
Reset(new, B) ==
  /\ blocks' = B
  /\ head' = new
  /\ UNCHANGED cfg
  /\ \E r \in ResetS(pool, Reinject(B, head, new), B[new]) :
        /\ pool' = r.p
        /\ gapped' = r.g \cup {a \in Accts : ~Contiguous(r.p, a)}
  /\ cycled' = TRUE
  /\ last' = [op |-> "reset", tx |-> new, err |-> "ok"]

(* SetGasTip(t): dropping is a sequence of removeTx in map order; contents do not depend on *)
(* the order, the heartbeat order of the accounts whose queue (re)appears does              *)
RECURSIVE DropAnyOrder(_, _)
DropAnyOrder(p, S) == IF S = {} THEN {p}
                      ELSE LET t == CHOOSE t \in S : \A u \in S : (u.from = t.from) => t.nonce <= u.nonce
                           IN UNION {DropAnyOrder(r.p, S \ {t}) : r \in RemoveTxS(p, t, FALSE)}

SetGasTip(t) ==
  /\ UNCHANGED <<cfg, blocks, head>>
  /\ cycled' = FALSE
  /\ last' = [op |-> "settip", tx |-> t, err |-> "ok"]
  /\ IF t > pool.tip
     THEN LET drop == {x \in pool.all : x.tip < t} IN
          \E q \in DropAnyOrder([pool EXCEPT !.tip = t], drop) :
            \E q2 \in Removed(q, Cardinality(drop)) :
              \E ord \in Perms(QueueAccts(q2)) : pool' = [q2 EXCEPT !.beats = ord]
     ELSE pool' = [pool EXCEPT !.tip = t]
  /\ UNCHANGED gapped

(* ------------------------------ the property (C41) ------------------------------ *)
PendTxs  == UNION {pool.pend[a] : a \in Accts}
QueueTxs == UNION {pool.queue[a] : a \in Accts}

(* each account's pending transactions: gapless nonce sequence starting at the state nonce. *)
(* PendingGaplessStrict is the property as stated.  KNOWN-FINDING (open, known_findings.json) C41-gap-after-reorg: *)
(* the real pool (and therefore this model of it) violates the strict form after a Reset    *)
(* whose reinjection of reorged-out transactions fails for a middle nonce: promoteTx puts    *)
(* the executable prefix in front of the still-pending higher nonces and                     *)
(* demoteUnexecutables only looks for a gap in FRONT of the list.  Until that is decided,   *)
(* the checked invariant excuses exactly the accounts whose list a Reset step left gapped   *)
(* (ghost variable `gapped`, recomputed by every Reset); a gap appearing in any other step, *)
(* a list not starting at the state nonce, or duplicate nonces still violate it.  The same  *)
(* accounts are excused in PendingNonces (truncatePending in the same Reset, or a later      *)
(* promotion into the gap, leaves the virtual nonce off the last pending transaction).      *)
PendingGaplessStrict == \A a \in Accts :
   /\ \A t, u \in pool.pend[a] : t.nonce = u.nonce => t = u
   /\ Contiguous(pool, a)
PendingGapless == \A a \in Accts :
   /\ \A t, u \in pool.pend[a] : t.nonce = u.nonce => t = u
   /\ pool.pend[a] # {} => MinNonce(pool.pend[a]) = pool.st.nonce[a]
   /\ a \notin gapped => Contiguous(pool, a)
(* ... and affordable (what list.Filter enforces: every pooled transaction is payable from  *)
(* the account's balance; queued ones as well)                                               *)
Affordable == \A a \in Accts : \A t \in pool.pend[a] \cup pool.queue[a] : Cost(t) <= pool.st.bal[a]
(* no transaction (nor nonce) is both pending and queued *)
Disjoint == /\ PendTxs \cap QueueTxs = {}
            /\ \A a \in Accts : Nonces(pool.pend[a]) \cap Nonces(pool.queue[a]) = {}
            /\ \A a \in Accts : \A t, u \in pool.queue[a] : t.nonce = u.nonce => t = u
            /\ \A a \in Accts : \A t \in pool.pend[a] \cup pool.queue[a] : t.from = a
(* the index equals the union of both sets *)
AllIsUnion == pool.all = PendTxs \cup QueueTxs
(* price-heap accounting matches the contents *)
HeapAccounting ==
   /\ BSize(pool.urg) + BSize(pool.flo) - pool.stales = Cardinality(pool.all)
   /\ \A t \in pool.all : t \in DOMAIN pool.urg \/ t \in DOMAIN pool.flo
(* the virtual nonce of an account is the one after its last pending transaction *)
PendingNonces == \A a \in Accts \ gapped :
   pool.pn[a] = IF pool.pend[a] = {} THEN pool.st.nonce[a] ELSE MaxNonce(pool.pend[a]) + 1
(* the heartbeat order covers exactly the accounts with queued transactions *)
BeatsDomain == Range(pool.beats) = QueueAccts(pool) /\ Len(pool.beats) = Cardinality(QueueAccts(pool))
(* replacements require the configured price bump: whenever an Add puts its transaction     *)
(* into an (account, nonce) position that was occupied, the newcomer was bumped.  (When the *)
(* pool is full the occupant may instead have been evicted as the cheapest transaction      *)
(* before the newcomer is admitted as a fresh one - add() does that deliberately - so the   *)
(* rule is stated for admissions that do not go through price eviction.)                    *)
Occupant(P, a, n) == AtNonce(P.pend[a] \cup P.queue[a], n)
PoolFull(P, t) == SumSlots(P.all) + t.sl > cfg.gslots + cfg.gqueue
ReplacementBumped ==
  [][\A a \in Accts : \A o \in pool.pend[a] \cup pool.queue[a] : \A t \in Occupant(pool', a, o.nonce) :
        (t # o /\ last'.op = "add" /\ last'.tx = t /\ ~PoolFull(pool, t)) => Bumped(o, t, cfg.bump)]_vars

(* sizes respect the limits after each maintenance cycle *)
LimitsOf(P) ==
   /\ SumLen(P.queue, Accts) <= cfg.gqueue
   /\ (SumLen(P.pend, Accts) <= cfg.gslots \/ \A a \in Accts : Cardinality(P.pend[a]) <= cfg.aslots)
   /\ P.changes = 0
LimitsAfterCycle == [][cycled' => LimitsOf(pool')]_vars
(* raising the tip with SetGasTip leaves nothing below it pooled (transactions reinjected by *)
(* a reorg are not subject to the tip, so lowering it promises nothing)                      *)
TipRespected == [][(last'.op = "settip" /\ pool'.tip > pool.tip) => \A t \in pool'.all : t.tip >= pool'.tip]_vars
=============================================================================
