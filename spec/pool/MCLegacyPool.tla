---------------------------- MODULE MCLegacyPool ----------------------------
(* Model-checking wrapper of LegacyPool: a finite transaction universe, block production   *)
(* (mining pool transactions, forks, balance changes, delegation), and the action label /   *)
(* history used to emit behaviours that are replayed on the real pool.                       *)
EXTENDS LegacyPool, Json

CONSTANTS MaxN,        \* nonces 0..MaxN
          NFees,       \* fee levels 1..NFees of FeeTable
          MaxBlocks,   \* blocks besides genesis
          MaxInc,      \* transactions per account a block may include
          NBal,        \* balance choices 1..NBal of BalTable a block may set (0 = none)
          Deleg,       \* TRUE: blocks may toggle the delegation flag of an account
          NTips,       \* gas tip choices 1..NTips of TipTable
          HistLen      \* behaviours of this length are printed (simulation mode)

VARIABLES act, hist

FeeTable == << [cap |-> 20, tip |-> 20], [cap |-> 22, tip |-> 22], [cap |-> 22, tip |-> 2], [cap |-> 21, tip |-> 21] >>
BalTable == << 850000, 450000, 0 >>
TipTable == << 3, 21, 1 >>
InitBal  == 1000000
BaseFee  == 7
Cfg      == [bump |-> 10, aslots |-> 2, gslots |-> 3, aqueue |-> 2, gqueue |-> 2]

TxU == {[from |-> a, nonce |-> n, cap |-> FeeTable[f].cap, tip |-> FeeTable[f].tip, val |-> 0, gas |-> 21000, sl |-> 1] :
           a \in Accts, n \in 0..MaxN, f \in 1..NFees}

Genesis == [parent |-> 0, num |-> 0, txs |-> <<>>, nonce |-> [a \in Accts |-> 0],
            bal |-> [a \in Accts |-> InitBal], deleg |-> [a \in Accts |-> FALSE], bf |-> BaseFee]

MCInit == /\ cfg = Cfg
          /\ blocks = (0 :> Genesis)
          /\ head = 0
          /\ pool = InitPool(StateOf(Genesis))
          /\ cycled = TRUE
          /\ gapped = {}
          /\ last = [op |-> "init", tx |-> 0, err |-> "ok"]
          /\ act = [op |-> "init"]
          /\ hist = << [act |-> [op |-> "init", cfg |-> Cfg, genesis |-> Genesis, tip |-> 1], err |-> "ok"] >>

BlockTxs == UNION {Range(blocks[b].txs) : b \in DOMAIN blocks}
KnownAt(a, n) == {t \in pool.all \cup BlockTxs : t.from = a /\ t.nonce = n}
RECURSIVE Runs(_, _, _)
Runs(a, n, k) == IF k = 0 THEN {<<>>} ELSE {<<t>> \o r : t \in KnownAt(a, n), r \in Runs(a, n + 1, k - 1)}
IncSeqs(p, a) == UNION {Runs(a, blocks[p].nonce[a], k) : k \in 0..MaxInc}

RECURSIVE Concat(_, _)
Concat(f, as) == IF as = <<>> THEN <<>> ELSE f[Head(as)] \o Concat(f, Tail(as))
AcctSeq == SetToSeq(Accts)
Max0(x) == IF x < 0 THEN 0 ELSE x

(* every block that may be appended to the tree *)
IncFns(p) == {f \in [Accts -> UNION {IncSeqs(p, a) : a \in Accts}] : \A a \in Accts : f[a] \in IncSeqs(p, a)}
Natural(p, inc) == [a \in Accts |-> Max0(blocks[p].bal[a] - SumCost(Range(inc[a])))]
BalFns(p, inc) == {Natural(p, inc)} \cup
                  {[Natural(p, inc) EXCEPT ![a] = BalTable[i]] : a \in Accts, i \in 1..NBal}
DelegFns(p) == {blocks[p].deleg} \cup
               (IF Deleg THEN {[blocks[p].deleg EXCEPT ![a] = ~@] : a \in Accts} ELSE {})
BlocksOn(p) ==
  UNION {{[parent |-> p, num |-> blocks[p].num + 1, txs |-> Concat(inc, AcctSeq),
           nonce |-> [a \in Accts |-> blocks[p].nonce[a] + Len(inc[a])],
           bal |-> bal, deleg |-> dl, bf |-> BaseFee] : bal \in BalFns(p, inc), dl \in DelegFns(p)}
         : inc \in IncFns(p)}
NewBlocks == UNION {BlocksOn(p) : p \in DOMAIN blocks}

MCNext ==
  \/ \E tx \in TxU : Add(tx) /\ act' = [op |-> "add", tx |-> tx]
  \/ /\ Cardinality(DOMAIN blocks) <= MaxBlocks
     /\ \E b \in NewBlocks :
          LET id == Cardinality(DOMAIN blocks) IN
          Reset(id, blocks @@ (id :> b)) /\ act' = [op |-> "reset", id |-> id, block |-> b]
  \/ \E id \in DOMAIN blocks \ {head} :
          Reset(id, blocks) /\ act' = [op |-> "reset", id |-> id, block |-> blocks[id]]
  \/ \E i \in 1..NTips : SetGasTip(TipTable[i]) /\ act' = [op |-> "settip", tip |-> TipTable[i]]

MCStep == MCNext /\ hist' = Append(hist, [act |-> act', err |-> last'.err])
MCSpec == MCInit /\ [][MCStep]_<<vars, act, hist>>

View == <<pool, blocks, head, gapped>>

(* simulation mode: print every behaviour of HistLen operations *)
Emit == IF Len(hist) = HistLen + 1 THEN PrintT(<<"MBT", ToJson(hist)>>) ELSE TRUE
(* KNOWN-FINDING (open, known_findings.json) C41-gap-after-reorg: witnesses of the strict property failing on the   *)
(* model (BFS, so the first printed ones are the shortest); replayed on the real pool         *)
WitnessGap == PendingGaplessStrict \/ PrintT(<<"GAP", ToJson(hist)>>)
NoWitnessYet == PendingGaplessStrict
=============================================================================
