---------------------------- MODULE MCBlobPool ----------------------------
(* Model-checking wrapper of BlobPool: finite transaction universe, block production (inclusion of  *)
(* pooled or foreign transactions, forks, balance changes, finality), restarts and crashes with     *)
(* resurrected deletions, and the history used to emit behaviours for replay on the real pool.      *)
EXTENDS BlobPool, Json

CONSTANTS MaxN,        \* nonces 0..MaxN
          NFees,       \* fee levels 1..NFees of FeeTable
          MaxBlocks,   \* blocks besides genesis
          MaxInc,      \* transactions per account a block may include
          NBal,        \* balance choices a block may set for a transactor
          NTips, Cap, HistLen, Crash,
          Foreign      \* TRUE: blocks may include transactions the pool never saw

VARIABLES act, hist, ghosts, lghosts     \* ghosts: deleted store / limbo entries that may still be on disk

(* fee levels: [tip, cap, bcap] and the jumps the implementation assigns (x 10^6, see harness/cmd/c42:  *)
(* jumps(x) = ln(x)/ln(1.125) resp. ln(x)/ln(1.17); the values below are rounded samples)              *)
FeeTable == << [tip |-> 2, cap |-> 1100, bcap |-> 30, bfj |-> 59457000, blj |-> 21663000],
               [tip |-> 5, cap |-> 2400, bcap |-> 60, bfj |-> 66081000, blj |-> 26078000],
               [tip |-> 1, cap |-> 900,  bcap |-> 5,  bfj |-> 57753000, blj |-> 10251000],
               [tip |-> 10, cap |-> 5000, bcap |-> 130, bfj |-> 72313000, blj |-> 31003000] >>
BalTable == << 8000000, 0 >>
TipTable == << 3, 1 >>
InitBal  == 100000000
HeadBfj  == 58647000      \* base fee 1000
HeadBlj  == 0             \* blob fee 1
CostOf(f) == 21000 * f.cap + 131072 * f.bcap

TxU == {[from |-> a, nonce |-> n, tip |-> FeeTable[f].tip, cap |-> FeeTable[f].cap, bcap |-> FeeTable[f].bcap,
         cost |-> CostOf(FeeTable[f]), bfj |-> FeeTable[f].bfj, blj |-> FeeTable[f].blj, sz |-> 1] :
           a \in Accts, n \in 0..MaxN, f \in 1..NFees}

Genesis == [parent |-> 0, num |-> 0, txs |-> <<>>, nonce |-> [a \in Accts |-> 0],
            bal |-> [a \in Accts |-> InitBal], bfj |-> HeadBfj, blj |-> HeadBlj]
Cfg == [cap |-> Cap, bump |-> 100]

MCInit == /\ cfg = Cfg
          /\ blocks = (0 :> Genesis)
          /\ head = 0 /\ final = 0 /\ owed = {} /\ stale = {} /\ misaligned = {}
          /\ pool = InitPool([nonce |-> Genesis.nonce, bal |-> Genesis.bal], HeadBfj, HeadBlj)
          /\ last = [op |-> "init", err |-> "ok"]
          /\ act = [op |-> "init"]
          /\ ghosts = {} /\ lghosts = {}
          /\ hist = << [act |-> [op |-> "init", cfg |-> Cfg, genesis |-> Genesis, tip |-> 1], err |-> "ok"] >>

BlockTxs == UNION {Range(blocks[b].txs) : b \in DOMAIN blocks}
KnownAt(a, n) == {t \in (IF Foreign THEN TxU ELSE {e.tx : e \in AllEntries(pool.idx)} \cup BlockTxs) : t.from = a /\ t.nonce = n}
RECURSIVE Runs(_, _, _)
Runs(a, n, k) == IF k = 0 THEN {<<>>} ELSE {<<t>> \o r : t \in KnownAt(a, n), r \in Runs(a, n + 1, k - 1)}
IncSeqs(p, a) == UNION {Runs(a, blocks[p].nonce[a], k) : k \in 0..MaxInc}
RECURSIVE Concat(_, _)
Concat(f, as) == IF as = <<>> THEN <<>> ELSE f[Head(as)] \o Concat(f, Tail(as))
AcctSeq == CHOOSE s \in Perms(Accts) : TRUE
Max0(x) == IF x < 0 THEN 0 ELSE x
SeqCost(s) == LET RECURSIVE C(_)
                  C(t) == IF t = <<>> THEN 0 ELSE Head(t).cost + C(Tail(t))
              IN C(s)

(* blocks that may be appended: a run of known transactions per account; the balance of a transactor *)
(* decreases by what it spent or is set to a table value; other accounts keep theirs                 *)
IncFns(p) == {f \in [Accts -> UNION {IncSeqs(p, a) : a \in Accts}] : \A a \in Accts : f[a] \in IncSeqs(p, a)}
Natural(p, inc) == [a \in Accts |-> Max0(blocks[p].bal[a] - SeqCost(inc[a]))]
BalFns(p, inc) == {Natural(p, inc)} \cup
                  {[Natural(p, inc) EXCEPT ![a] = BalTable[i]] : a \in {a \in Accts : inc[a] # <<>>}, i \in 1..NBal}
BlocksOn(p) ==
  UNION {{[parent |-> p, num |-> blocks[p].num + 1, txs |-> Concat(inc, AcctSeq),
           nonce |-> [a \in Accts |-> blocks[p].nonce[a] + Len(inc[a])],
           bal |-> bal, bfj |-> HeadBfj, blj |-> HeadBlj] : bal \in BalFns(p, inc)}
         : inc \in IncFns(p)}
NewBlocks == UNION {BlocksOn(p) : p \in DOMAIN blocks}

(* finality never decreases and is at most the new head's height *)
Finals(B, new) == {n \in final..B[new].num : TRUE}

Deleted(P, Q)  == AllEntries(P.idx) \ AllEntries(Q.idx)

MCNext ==
  \* (no further submissions for an account the known finding C42-recheck-gap-after-overlap left misaligned:
  \*  addLocked indexes its list by nonce - stateNonce and corrupts it further; nothing is specified there)
  \/ \E tx \in TxU : tx.from \notin misaligned /\ Add(tx, NoHint) /\ act' = [op |-> "add", tx |-> tx]
  \/ /\ Cardinality(DOMAIN blocks) <= MaxBlocks
     /\ \E b \in NewBlocks : \E fin \in Finals(blocks @@ (Cardinality(DOMAIN blocks) :> b), Cardinality(DOMAIN blocks)) :
          LET id == Cardinality(DOMAIN blocks) IN
          Reset(id, blocks @@ (id :> b), fin, NoHint) /\ act' = [op |-> "reset", id |-> id, block |-> b, final |-> fin]
  \/ \E id \in DOMAIN blocks \ {head} : \E fin \in Finals(blocks, id) :
          Reset(id, blocks, fin, NoHint) /\ act' = [op |-> "reset", id |-> id, block |-> blocks[id], final |-> fin]
  \/ \E i \in 1..NTips : SetGasTip(TipTable[i]) /\ act' = [op |-> "settip", tip |-> TipTable[i]]
  \/ Reopen(NoHint) /\ act' = [op |-> "reopen"]
  \/ /\ Crash
     /\ \E g \in SUBSET ghosts : \E lg \in SUBSET lghosts :
          /\ CrashReopen(PoolTxs(pool) \cup {e.tx : e \in g}, LimboTxs(pool) \cup {[tx |-> x.tx, block |-> x.block] : x \in lg}, NoHint)
          /\ act' = [op |-> "crash"]

(* deleted entries stay on disk until their slot is reused or the pool is closed cleanly *)
MCStep == /\ MCNext
          /\ hist' = Append(hist, [act |-> act', err |-> last'.err])
          /\ ghosts' = IF act'.op \in {"reopen", "crash"} THEN {}
                       ELSE {e \in ghosts \cup Deleted(pool, pool') : e.id \notin DOMAIN pool'.store}
          /\ lghosts' = IF act'.op \in {"reopen", "crash"} THEN {}
                        ELSE {e \in lghosts \cup (pool.limbo \ pool'.limbo) : e.id \notin {x.id : x \in pool'.limbo}}
MCSpec == MCInit /\ [][MCStep]_<<vars, act, hist, ghosts, lghosts>>

(* store ids are interchangeable names: states that differ only in them are identified *)
View == <<Contents(pool), {pool.store[i] : i \in DOMAIN pool.store}, pool.tip, pool.hbf, pool.hbl, pool.st,
          blocks, head, final, owed, stale, misaligned, {e.tx : e \in ghosts}, {[tx |-> x.tx, block |-> x.block] : x \in lghosts}>>
Emit == IF Len(hist) = HistLen + 1 THEN PrintT(<<"MBT", ToJson(hist)>>) ELSE TRUE
(* KNOWN-FINDING (open, known_findings.json) C42-limbo-stale-block: witnesses of the strict retention property failing on *)
(* the model; replayed on the real pool                                                             *)
WitnessLimbo == LimboRetainsStrict \/ PrintT(<<"LIMBO", ToJson(hist)>>)
NoLimboWitnessYet == LimboRetainsStrict
(* KNOWN-FINDING (open, known_findings.json) C42-recheck-gap-after-overlap: witnesses of the strict contiguity property failing *)
WitnessGap == NonceContiguousStrict \/ PrintT(<<"NGAP", ToJson(hist)>>)
NoGapWitnessYet == NonceContiguousStrict
(* witnesses are searched among short behaviours only *)
Short == Len(hist) <= 6
=============================================================================
