SPECIFICATION MCSpec
CONSTANTS Accts = {"a1", "a2"}
          MaxPerAcct = 16
          MaxN = 1
          NFees = 2
          MaxBlocks = 1
          MaxInc = 2
          NBal = 1
          NTips = 1
          Cap = 2
          HistLen = 0
          Foreign = FALSE
          Crash = FALSE
INVARIANTS NonceContiguous AffordableTotal IndexMatchesStore LimboRetains LimboSound PerAccountLimit
PROPERTIES TipRespected ReopenReproduces WithinCapacity
VIEW View
CHECK_DEADLOCK FALSE
