\* KNOWN-FINDING (open, known_findings.json) C42-limbo-stale-block: searches the model for states violating the strict
\* retention property and prints the behaviours leading there (tag LIMBO).
SPECIFICATION MCSpec
CONSTANTS Accts = {"a1"}
          MaxPerAcct = 16
          MaxN = 1
          NFees = 1
          MaxBlocks = 3
          MaxInc = 1
          NBal = 0
          NTips = 0
          Cap = 3
          HistLen = 0
          Foreign = FALSE
          Crash = FALSE
INVARIANTS WitnessLimbo
CONSTRAINTS NoLimboWitnessYet Short
VIEW View
CHECK_DEADLOCK FALSE
