\* simulation mode: random behaviours of the model are printed (tag MBT) and replayed on the real pool
SPECIFICATION MCSpec
CONSTANTS Accts = {"a1", "a2"}
          MaxPerAcct = 16
          MaxN = 3
          NFees = 4
          MaxBlocks = 4
          MaxInc = 2
          NBal = 2
          NTips = 2
          Cap = 3
          HistLen = 12
          Foreign = FALSE
          Crash = TRUE
INVARIANTS NonceContiguous AffordableTotal IndexMatchesStore LimboRetains LimboSound PerAccountLimit
CONSTRAINT Emit
CHECK_DEADLOCK FALSE
